"""Shared machinery of the go-youchain TLA+ verification framework.

Every per-property check (checks/<ID>.py) exposes ``run(ctx)`` and uses a ``Ctx`` to

* run TLC on a module of /verif/spec in a scratch directory (modes: exhaustive design check,
  behaviour generation, trace monitoring / conformance),
* build and run the Go harness against /repo's *current working tree* with ``-tags verif``,
* judge failures against /verif/known_findings.json, and
* write /verif/evidence/<ID>.json.

Exit codes of bin/check: 0 held (KNOWN-FINDING lines possible), 1 VIOLATION, 2 undecided
(build failure, TLC/driver crash, timeout) -- never reported as a violation.
"""
import fcntl
import json
import os
import re
import shutil
import subprocess
import sys
import time

VERIF = os.path.dirname(os.path.dirname(os.path.abspath(__file__)))
REPO = os.environ.get("VERIF_REPO", "/repo")
SPEC = os.path.join(VERIF, "spec")
HARNESS = os.path.join(VERIF, "harness")
WORK = os.environ.get("VERIF_WORK") or os.path.join(VERIF, ".work")   # seed runs use their own (bin/seedtest.py)
EVID = os.environ.get("VERIF_EVIDENCE") or os.path.join(VERIF, "evidence")
TLA_JAR = "/opt/veriftools/tla/tla2tools.jar"
TLA_CP = TLA_JAR + ":/opt/veriftools/tla/CommunityModules-deps.jar"
NCPU = os.cpu_count() or 4


class Undecided(Exception):
    """The machinery could not decide (exit 2)."""


def goenv():
    env = dict(os.environ)
    env.update(GOFLAGS="-mod=mod", GOPROXY="off", GOSUMDB="off", GOTOOLCHAIN="local")
    return env


def log(*a):
    print("[check]", *a, file=sys.stderr, flush=True)


class TlcResult:
    def __init__(self):
        self.rc = None
        self.generated = 0
        self.distinct = 0
        self.depth = 0
        self.printed = []       # JSON values printed as "@@J <json>"
        self.violated = None    # name of violated invariant / property
        self.error = None       # TLC error text (evaluation error, parse error, ...)
        self.timeout = False
        self.out = ""
        self.wall = 0.0
        self.coverage = {}      # action name -> (count distinct, count total) with -coverage
        self.cmd = ""
        self.errtrace = []      # raw counterexample text lines

    @property
    def ok(self):
        return self.rc == 0 and not self.violated and not self.error and not self.timeout


_J = '"@@J '


def parse_tlc_output(res, text):
    res.out = text
    cov_re = re.compile(r"^<(\w+) line \d+, col \d+ to line \d+, col \d+ of module (\w+)>: (\d+):(\d+)")
    in_trace = False
    for line in text.splitlines():
        if line.startswith(_J):
            try:
                s = json.loads(line)
                res.printed.append(json.loads(s[4:]))
            except Exception as e:  # malformed print: keep going, but remember
                res.error = res.error or ("cannot parse printed JSON: %r (%s)" % (line[:200], e))
            continue
        m = re.search(r"(\d+) states generated, (\d+) distinct states found", line)
        if m:
            res.generated = int(m.group(1))
            res.distinct = int(m.group(2))
        m = re.search(r"The depth of the complete state graph search is (\d+)", line)
        if m:
            res.depth = int(m.group(1))
        m = re.search(r"Progress\(\d+\).*?: ([\d,]+) states generated.*?([\d,]+) distinct states", line)
        if m and not res.generated:
            pass
        m = re.search(r"Error: Invariant (\S+) is violated", line)
        if m:
            res.violated = m.group(1)
            in_trace = True
        m = re.search(r"Error: Action property (\S+) is violated", line)
        if m:
            res.violated = m.group(1)
            in_trace = True
        if "Error: Temporal properties were violated" in line:
            res.violated = res.violated or "TemporalProperty"
            in_trace = True
        m = re.search(r"Error: (The postcondition|Postcondition).*", line)
        if m or "Error: Evaluating postcondition" in line or "The postcondition" in line and "false" in line.lower():
            res.violated = res.violated or "Postcondition"
        if line.startswith("Error:") and not res.violated:
            if "Deadlock reached" in line:
                res.violated = "Deadlock"
            elif res.error is None:
                res.error = line
        if in_trace:
            res.errtrace.append(line)
        m = cov_re.match(line)
        if m:
            res.coverage[m.group(1)] = (int(m.group(3)), int(m.group(4)))
    if "java.lang.StackOverflowError" in text and not res.error:
        res.error = "StackOverflowError"
    if "java.lang.OutOfMemoryError" in text and not res.error:
        res.error = "OutOfMemoryError"


class Ctx:
    def __init__(self, pid, tier="quick", seed=1, replay=None):
        self.pid = pid
        self.tier = tier
        self.seed = int(seed)
        self.replay = replay
        self.t0 = time.time()
        self.work = os.path.join(WORK, pid)
        # two runs of the same check in the same work directory would wipe each other's files: the second one waits
        os.makedirs(WORK, exist_ok=True)
        import fcntl
        self._lock = open(os.path.join(WORK, "%s.lock" % pid), "w")
        self.t0 = time.time()
        try:
            fcntl.flock(self._lock, fcntl.LOCK_EX | fcntl.LOCK_NB)
        except OSError:
            print("[check] another run of %s is using %s: waiting for it to finish" % (pid, self.work), flush=True)
            fcntl.flock(self._lock, fcntl.LOCK_EX)
            self.t0 = time.time()
        shutil.rmtree(self.work, ignore_errors=True)
        os.makedirs(self.work, exist_ok=True)
        self._n = 0
        self.level = "model_checking"
        self.cov = {
            "states": 0, "transitions": 0, "traces_validated_against_impl": 0,
            "evaluations": 0, "distinct_nontrivial": 0, "rule": "", "samples": [],
            "exhaustive": False, "checker_cmd": "", "tlc_runs": [], "drift_events": 0,
            "coverage_zero_actions": [], "known_findings_hit": [], "aborted_behaviours": 0,
        }
        self.assumptions = []
        self.violations = []     # list of dict(signature, replay, detail)
        self.known_hits = {}     # signature -> title
        self.notes = []
        self.known = load_known(pid)
        self.vdrives = {}

    # ------------------------------------------------------------------ utilities
    @property
    def quick(self):
        return self.tier == "quick"

    def path(self, *p):
        return os.path.join(self.work, *p)

    def scratch(self, name=None):
        self._n += 1
        d = self.path("%02d_%s" % (self._n, name or "run"))
        os.makedirs(d, exist_ok=True)
        return d

    def note(self, s):
        self.notes.append(s)
        log(s)

    def sample(self, v, limit=6):
        if len(self.cov["samples"]) < limit:
            self.cov["samples"].append(v)

    # ------------------------------------------------------------------ TLC
    def tlc(self, module, cfg, *, name=None, files=None, constants=None, workers=None, timeout=600,
            simulate=None, depth=None, coverage=False, deque=False, xss=None, heap=None,
            count=True, dfid=None, extra=None, check_deadlock=None):
        """Run TLC on spec/<module>.tla with config text or config file name `cfg`.

        files: {filename: text-or-abspath-to-copy} placed next to the spec (trace.ndjson, known.json ...).
        constants: {NAME: tla-text} appended to the cfg as CONSTANTS.
        simulate: None or dict(num=N) -> `-simulate num=N`; depth for simulation.
        count: add the state/transition counts of this run to the evidence.
        """
        d = self.scratch(name or module)
        for f in os.listdir(SPEC):
            if f.endswith((".tla", ".class", ".cfg", ".json")):
                shutil.copy(os.path.join(SPEC, f), d)
        for fn, src in (files or {}).items():
            dst = os.path.join(d, fn)
            if isinstance(src, str) and os.path.isabs(src) and os.path.exists(src):
                if os.path.abspath(src) != os.path.abspath(dst):
                    try:
                        os.link(src, dst)
                    except OSError:
                        shutil.copy(src, dst)
            else:
                with open(dst, "w") as fh:
                    fh.write(src)
        if cfg.endswith(".cfg") and "\n" not in cfg:
            cfgtext = open(os.path.join(SPEC, cfg)).read()
        else:
            cfgtext = cfg
        if constants:
            cfgtext += "\nCONSTANTS\n" + "\n".join("  %s = %s" % kv for kv in constants.items()) + "\n"
        if check_deadlock is False and "CHECK_DEADLOCK" not in cfgtext:
            cfgtext += "\nCHECK_DEADLOCK FALSE\n"
        with open(os.path.join(d, "_run.cfg"), "w") as fh:
            fh.write(cfgtext)
        w = workers or (1 if simulate else min(NCPU, 8))
        jopts = ["-XX:+UseParallelGC", "-Xss%s" % (xss or "64m")]
        jopts.append("-Xmx%s" % (heap or "8g"))
        if deque:
            jopts.append("-Dtlc2.tool.queue.IStateQueue=StateDeque")
        cmd = ["java"] + jopts + ["-cp", TLA_CP + ":" + d, "tlc2.TLC", "-config", "_run.cfg",
                                  "-workers", str(w), "-metadir", os.path.join(d, "md"),
                                  "-noGenerateSpecTE", "-nowarning"]
        if simulate:
            sim = ",".join("%s=%s" % kv for kv in simulate.items())
            cmd += ["-simulate", sim, "-seed", str(self.seed)]
            if depth:
                cmd += ["-depth", str(depth)]
        if dfid:
            cmd += ["-dfid", str(dfid)]
        if coverage:
            cmd += ["-coverage", "1"]
        cmd += list(extra or [])
        cmd += [module + ".tla"]
        res = TlcResult()
        res.cmd = " ".join(cmd[cmd.index("tlc2.TLC"):])
        t = time.time()
        env = dict(os.environ)
        env.pop("JAVA_TOOL_OPTIONS", None)
        try:
            p = subprocess.run(cmd, cwd=d, stdout=subprocess.PIPE, stderr=subprocess.STDOUT,
                               timeout=timeout, env=env, text=True, errors="replace")
            res.rc = p.returncode
            text = p.stdout
        except subprocess.TimeoutExpired as e:
            res.timeout = True
            res.rc = -1
            text = (e.stdout or b"")
            if isinstance(text, bytes):
                text = text.decode("utf-8", "replace")
            subprocess.run(["pkill", "-f", os.path.join(d, "md")], check=False)
        res.wall = time.time() - t
        parse_tlc_output(res, text)
        with open(os.path.join(d, "tlc.out"), "w") as fh:
            fh.write(text)
        shutil.rmtree(os.path.join(d, "md"), ignore_errors=True)
        res.dir = d
        if res.rc not in (0, -1) and not res.violated and not res.error:
            res.error = "TLC exit code %s: %s" % (res.rc, text[-600:])
        if count:
            self.cov["states"] += res.distinct
            self.cov["transitions"] += res.generated
            self.cov["tlc_runs"].append({"module": module, "name": name or module, "distinct": res.distinct,
                                         "generated": res.generated, "depth": res.depth,
                                         "wall_s": round(res.wall, 1), "mode": "simulate" if simulate else "bfs"})
            if not self.cov["checker_cmd"]:
                self.cov["checker_cmd"] = res.cmd
        if coverage:
            zero = sorted(a for a, (dc, tc) in res.coverage.items() if tc == 0)
            res.zero_actions = zero
        log("TLC %-28s rc=%s distinct=%d generated=%d depth=%d printed=%d %.1fs%s%s" % (
            name or module, res.rc, res.distinct, res.generated, res.depth, len(res.printed), res.wall,
            " VIOLATED=" + res.violated if res.violated else "", " ERROR=" + str(res.error)[:300] if res.error else ""))
        return res

    def tlc_must(self, *a, **kw):
        """Run TLC; anything but a clean finish is 'undecided'."""
        res = self.tlc(*a, **kw)
        if res.timeout:
            raise Undecided("TLC timeout in %s" % res.dir)
        if res.error:
            raise Undecided("TLC error in %s: %s" % (res.dir, res.error))
        return res

    # ------------------------------------------------------------------ harness
    def build_harness(self, module):
        """Build harness/cmd/<module> with -tags verif from /repo's current working tree (incremental)."""
        os.makedirs(os.path.join(WORK, "bin"), exist_ok=True)
        tag = "" if REPO == "/repo" else "_" + re.sub(r"\W+", "_", REPO)
        binp = os.path.join(WORK, "bin", "vdrive_" + module + tag)
        lock = open(os.path.join(WORK, "build%s.lock" % tag), "w")
        fcntl.flock(lock, fcntl.LOCK_EX)
        try:
            t = time.time()
            gosum = os.path.join(HARNESS, "go.sum")
            if not os.path.exists(gosum):
                shutil.copy(os.path.join(REPO, "go.sum"), gosum)
            cmd = ["go", "build", "-tags", "verif", "-o", binp]
            if tag:
                # VERIF_REPO=<scratch worktree>: same harness sources, module replaced by that tree (used for mutation experiments)
                mf = os.path.join(WORK, "bin", "go%s.mod" % tag)
                with open(mf, "w") as fh:
                    fh.write(open(os.path.join(HARNESS, "go.mod")).read().replace("=> /repo", "=> " + REPO))
                shutil.copy(gosum, mf[:-4] + ".sum")
                cmd += ["-modfile=" + mf]
            p = subprocess.run(cmd + ["./cmd/" + module], cwd=HARNESS,
                               env=goenv(), stdout=subprocess.PIPE, stderr=subprocess.STDOUT, text=True)
            if p.returncode != 0:
                raise Undecided("harness build failed:\n" + p.stdout[-4000:])
            log("harness built in %.1fs (repo %s)" % (time.time() - t, REPO))
        finally:
            fcntl.flock(lock, fcntl.LOCK_UN)
            lock.close()
        # private copy so that a concurrent rebuild does not disturb this run
        mine = self.path("vdrive_" + module)
        shutil.copy(binp, mine)
        self.vdrives[module] = mine
        return mine

    def drive(self, module, out, behaviours=None, opts=None, timeout=900, max_restarts=200):
        """Run a driver over a behaviours file; handle process aborts.  Returns dict(aborts=[...])."""
        if module not in self.vdrives:
            self.build_harness(module)
        vdrive = self.vdrives[module]
        if os.path.exists(out):
            os.remove(out)
        frm = 0
        aborts = []
        t_end = time.time() + timeout
        while True:
            cmd = [vdrive, module, "-out", out, "-seed", str(self.seed), "-tier", self.tier, "-from", str(frm)]
            if behaviours:
                cmd += ["-in", behaviours]
            cmd += ["%s=%s" % kv for kv in (opts or {}).items()]
            left = t_end - time.time()
            if left <= 0:
                raise Undecided("driver %s timed out" % module)
            try:
                p = subprocess.run(cmd, stdout=subprocess.PIPE, stderr=subprocess.PIPE, timeout=left, env=goenv())
            except subprocess.TimeoutExpired:
                raise Undecided("driver %s timed out" % module)
            err = p.stderr.decode("utf-8", "replace")
            if p.returncode == 0 and "VDRIVE-DONE" in err:
                break
            if p.returncode in (3, 4):
                raise Undecided("driver %s failed: %s" % (module, err[-2000:]))
            # died inside the code under test: find the behaviour it was in
            last = last_reset(out)
            if last is None or len(aborts) >= max_restarts or not behaviours:
                raise Undecided("driver %s died (rc=%s) and cannot be resumed: %s" % (module, p.returncode, err[-2000:]))
            msg = abort_message(err)
            with open(out, "a") as fh:
                fh.write(json.dumps({"ev": "abort", "t": last, "n": 1 << 20, "msg": msg, "rc": p.returncode}) + "\n")
            aborts.append({"b": last, "msg": msg})
            frm = last + 1
        self.cov["aborted_behaviours"] += len(aborts)
        return {"aborts": aborts}

    # ------------------------------------------------------------------ verdicts
    def report(self, signature, replay=None, detail=None):
        """A property-layer clause failed on behaviour observed from the real code."""
        if signature in self.known:
            if signature not in self.known_hits:
                self.known_hits[signature] = self.known[signature].get("title", "")
            return False
        if len(self.violations) < 50:
            self.violations.append({"signature": signature, "replay": replay, "detail": detail})
        return True

    def finish(self):
        wall = time.time() - self.t0
        self.cov["known_findings_hit"] = sorted(self.known_hits)
        ev = {
            "property_id": self.pid, "tier": self.tier, "seed": self.seed, "level": self.level,
            "coverage": self.cov, "assumptions": self.assumptions, "wall_s": round(wall, 2),
            "violations": len(self.violations), "notes": self.notes,
        }
        if self.violations:
            ev["violation_details"] = self.violations[:10]
        if not self.replay:
            os.makedirs(EVID, exist_ok=True)
            tmp = os.path.join(EVID, ".%s.json.tmp" % self.pid)
            with open(tmp, "w") as fh:
                json.dump(ev, fh, indent=1, sort_keys=True, default=str)
                fh.write("\n")
            os.replace(tmp, os.path.join(EVID, "%s.json" % self.pid))
        for sig in sorted(self.known_hits):
            print("KNOWN-FINDING: property=%s %s %s" % (self.pid, sig, self.known_hits[sig]), flush=True)
        if self.violations:
            seen = set()
            for v in self.violations:
                key = (v["signature"])
                if key in seen:
                    continue
                seen.add(key)
                rp = v["replay"] or self.save_replay(v)
                print("VIOLATION property=%s replay=%s" % (self.pid, rp), flush=True)
                print("  clause=%s detail=%s" % (v["signature"], json.dumps(v["detail"], default=str)[:1500]), flush=True)
            return 1
        print("OK property=%s tier=%s seed=%d wall=%.1fs states=%d traces=%d evals=%d known_hits=%d" % (
            self.pid, self.tier, self.seed, wall, self.cov["states"], self.cov["traces_validated_against_impl"],
            self.cov["evaluations"], len(self.known_hits)), flush=True)
        return 0

    def save_replay(self, v):
        d = os.path.join(WORK, "replays")
        os.makedirs(d, exist_ok=True)
        p = os.path.join(d, "%s_%s_%d.json" % (self.pid, re.sub(r"\W+", "_", v["signature"])[:60], int(time.time())))
        with open(p, "w") as fh:
            json.dump({"property": self.pid, "signature": v["signature"], "detail": v["detail"], "seed": self.seed,
                       "tier": self.tier}, fh, default=str)
        return p


# ---------------------------------------------------------------------- helpers
def last_reset(out):
    last = None
    try:
        with open(out) as fh:
            for line in fh:
                if '"ev":"reset"' in line:
                    try:
                        last = json.loads(line)["b"]
                    except Exception:
                        pass
    except FileNotFoundError:
        return None
    return last


def abort_message(err):
    lines = [l for l in err.splitlines() if l.strip()]
    for l in lines:
        if l.startswith("panic:") or "CRIT" in l or "fatal error" in l:
            return l[:300]
    return (lines[-1] if lines else "process died")[:300]


def load_known(pid):
    p = os.path.join(VERIF, "known_findings.json")
    known = {}
    if os.path.exists(p):
        data = json.load(open(p))
        for k in data.get("known", []):
            if k.get("property") == pid:
                known[k["signature"]] = k
    # per-property fragments (same record format, a plain list)
    import glob as _glob
    for f in sorted(_glob.glob(os.path.join(VERIF, "findings", "known_*.json"))):
        for k in json.load(open(f)):
            if k.get("property") == pid:
                known[k["signature"]] = k
    return known


def read_ndjson(path):
    out = []
    with open(path) as fh:
        for line in fh:
            line = line.strip()
            if line:
                out.append(json.loads(line))
    return out


def write_ndjson(path, rows):
    with open(path, "w") as fh:
        for r in rows:
            fh.write(json.dumps(r, separators=(",", ":")) + "\n")


def split_traces(events):
    """Group a flat event list by trace id (the 'reset' markers)."""
    traces = []
    cur = None
    for e in events:
        if e.get("ev") == "reset":
            cur = []
            traces.append(cur)
            continue
        if cur is None:
            cur = []
            traces.append(cur)
        cur.append(e)
    return traces


def known_json_for(ctx):
    """Text of the known.json file handed to monitor specs: list of signatures for this property."""
    return json.dumps([{"signature": s, "title": k.get("title", "")} for s, k in sorted(ctx.known.items())] or
                      [{"signature": "-none-", "title": ""}])


# ---------------------------------------------------------------------- G -> code -> T flow
def collect_behaviours(res, path, key=None, limit=None, dedup=True):
    """Write the behaviours TLC printed (objects with kind == 'B' or plain lists) to an ndjson file."""
    seen = set()
    rows = []
    for v in res.printed:
        if isinstance(v, dict) and v.get("kind") not in (None, "B"):
            continue
        b = v.get("h") if isinstance(v, dict) and "h" in v else v
        s = json.dumps(b, sort_keys=True, separators=(",", ":"))
        if dedup:
            if s in seen:
                continue
            seen.add(s)
        rows.append(s)
        if limit and len(rows) >= limit:
            break
    with open(path, "w") as fh:
        for s in rows:
            fh.write(s + "\n")
    return len(rows)


def monitor(ctx, module, cfg, trace, *, name=None, files=None, constants=None, timeout=900, xss="256m",
            behaviours=None, replay_meta=None, heap=None):
    """Run a monitor-only trace spec over `trace` and turn its result into verdicts.

    The monitor module reads trace.ndjson and known.json, never rejects, and prints exactly one
    @@J {"kind":"RESULT","events":N,"viol":[[sig,line],...],"fired":{clause:count}} when the log is consumed.
    Known signatures are filtered here (ctx.report), so the TLA+ side reports every failing clause.
    """
    fs = {"trace.ndjson": trace, "known.json": known_json_for(ctx)}
    fs.update(files or {})
    res = ctx.tlc(module, cfg, name=name or (module + "_mon"), files=fs, constants=constants, workers=1,
                  timeout=timeout, xss=xss, count=False, check_deadlock=False, heap=heap)
    if res.timeout:
        raise Undecided("monitor %s timed out (%s)" % (module, res.dir))
    result = None
    for v in res.printed:
        if isinstance(v, dict) and v.get("kind") == "RESULT":
            result = v
    if result is None:
        raise Undecided("monitor %s did not consume the trace (%s): %s" % (module, res.dir, res.error or res.violated))
    events = None
    nviol = 0
    for item in result.get("viol", []):
        sig, line = make_signature(ctx.pid, item)
        if events is None:
            events = read_ndjson(trace)
        ev = events[line - 1] if 0 < line <= len(events) else {}
        tid = ev.get("t")
        k = known_match(ctx, sig)
        if k:
            ctx.report(k)
            continue
        rp = None
        if behaviours is not None and tid is not None:
            rp = save_behaviour_replay(ctx, sig, behaviours, tid, replay_meta)
        # the whole trace of that behaviour is the detail
        tr = [{kk: vv for kk, vv in e.items() if kk not in ("obs", "m")} for e in events if e.get("t") == tid][:40]
        evs = {kk: vv for kk, vv in ev.items() if kk not in ("obs", "m")}
        if ctx.report(sig, rp, {"line": line, "event": evs, "trace": tr if len(json.dumps(tr)) < 6000 else "..."}):
            nviol += 1
    fired = result.get("fired") or {}
    f = ctx.cov.setdefault("clauses_fired", {})
    for k, n in fired.items():
        f[k] = f.get(k, 0) + n
    ctx.cov["trace_events_checked"] = ctx.cov.get("trace_events_checked", 0) + result.get("events", 0)
    return result, nviol


def make_signature(pid, item):
    """viol entries are [clause, discriminator, line]; a discriminator is a string or a set of strings.
    Signature = <pid>/<clause>/<sorted discriminators joined by '+'>."""
    if len(item) == 2:
        return item[0], item[1]
    clause, disc, line = item
    if isinstance(disc, (list, tuple)):
        disc = "+".join(sorted(str(x) for x in disc)) or "any"
    return "%s/%s/%s" % (pid, clause, disc), line


def known_match(ctx, sig):
    """A signature is known when a listed finding has the same property/clause and its discriminator set is
    contained in the observed one (the observed window may contain further, unrelated operation kinds)."""
    if sig in ctx.known:
        return sig
    try:
        pid, clause, disc = sig.split("/", 2)
    except ValueError:
        return None
    have = set(disc.split("+"))
    for ks in ctx.known:
        try:
            kp, kc, kd = ks.split("/", 2)
        except ValueError:
            continue
        if kp == pid and kc == clause and set(kd.split("+")) <= have:
            return ks
    return None


def save_behaviour_replay(ctx, sig, behaviours, tid, meta):
    d = os.path.join(WORK, "replays")
    os.makedirs(d, exist_ok=True)
    p = os.path.join(d, "%s_%s_t%s_s%d.json" % (ctx.pid, re.sub(r"\W+", "_", sig)[:60], tid, ctx.seed))
    beh = None
    if isinstance(behaviours, str):
        with open(behaviours) as fh:
            for i, line in enumerate(fh):
                if i == tid:
                    beh = json.loads(line)
                    break
    else:
        beh = behaviours[tid] if tid < len(behaviours) else None
    with open(p, "w") as fh:
        json.dump({"property": ctx.pid, "signature": sig, "seed": ctx.seed, "tier": ctx.tier,
                   "meta": meta or {}, "behaviours": [beh]}, fh)
    return p


def count_traces(trace):
    n = 0
    with open(trace) as fh:
        for line in fh:
            if '"ev":"reset"' in line:
                n += 1
    return n
