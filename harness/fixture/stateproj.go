package fixture

import (
	"fmt"
	"math/big"
	"sort"

	"github.com/youchainhq/go-youchain/common"
	"github.com/youchainhq/go-youchain/core/state"
	"github.com/youchainhq/go-youchain/params"
	"github.com/youchainhq/go-youchain/youdb"
)

// NewMemState opens an empty StateDB over a fresh in-memory database.
func NewMemState() (*state.StateDB, state.Database) {
	db := state.NewDatabase(youdb.NewMemDatabase())
	st, err := state.New(common.Hash{}, common.Hash{}, common.Hash{}, db)
	if err != nil {
		panic(err)
	}
	return st, db
}

// I converts a small big.Int to int (values that reach a trace fit in 31 bits by construction).
func I(b *big.Int) int64 {
	if b == nil {
		return 0
	}
	if !b.IsInt64() {
		panic(fmt.Sprintf("value %s does not fit the trace encoding", b))
	}
	return b.Int64()
}

// StateProj is the projection of a live StateDB onto the abstract observables, read through
// getters only (reads are not journalled).
type StateProj struct {
	Accts   map[string]AcctProj `json:"accts"`
	Vals    map[string]ValProj  `json:"vals"`
	Stat    map[string]StatProj `json:"stat"`
	Index   []string            `json:"index"`
	Wq      []WqProj            `json:"wq"`
	Refund  uint64              `json:"refund"`
	Logs    int                 `json:"logs"`
	Pre     []int               `json:"pre"`
	Records map[string]int64    `json:"records,omitempty"`
}

type AcctProj struct {
	Exists bool     `json:"exists"`
	Sui    bool     `json:"sui"`
	Bal    int64    `json:"bal"`
	Nonce  uint64   `json:"nonce"`
	S1     int64    `json:"s1"`
	S2     int64    `json:"s2"`
	Code   string   `json:"code"`
	Dbal   int64    `json:"dbal"`
	Dlgs   []string `json:"dlgs"`
}

type DlgProj struct {
	D     string `json:"d"`
	Token int64  `json:"token"`
	Stake int64  `json:"stake"`
}

type ValProj struct {
	Exists    bool      `json:"exists"`
	Token     int64     `json:"token"`
	Stake     int64     `json:"stake"`
	SelfToken int64     `json:"selfToken"`
	SelfStake int64     `json:"selfStake"`
	Status    int       `json:"status"`
	Role      int       `json:"role"`
	RewDist   int64     `json:"rewDist"`
	RewTotal  int64     `json:"rewTotal"`
	Expelled  bool      `json:"expelled"`
	Dlgs      []DlgProj `json:"dlgs"`
}

type StatProj struct {
	OnStake  int64  `json:"onStake"`
	OnToken  int64  `json:"onToken"`
	OnCount  uint64 `json:"onCount"`
	OffStake int64  `json:"offStake"`
	OffToken int64  `json:"offToken"`
	OffCount uint64 `json:"offCount"`
	RewDist  int64  `json:"rewDist"`
	Residue  int64  `json:"residue"`
}

type WqProj struct {
	Op       string `json:"op"`
	Nonce    uint64 `json:"nonce"`
	Val      string `json:"val"`
	Init     int64  `json:"init"`
	Final    int64  `json:"final"`
	Finished int    `json:"finished"`
	Done     uint64 `json:"done"`
}

// Names maps addresses to the abstract names used in traces ("a1", "v2", ...).
type Names map[common.Address]string

func (n Names) Of(a common.Address) string {
	if s, ok := n[a]; ok {
		return s
	}
	return a.Hex()[:10]
}

var (
	Slot1 = common.BigToHash(big.NewInt(1))
	Slot2 = common.BigToHash(big.NewInt(2))
)

// ProjectState reads the observables of st for the given accounts and validators.
// balBase is subtracted from balances (fixtures pre-fund accounts so that they are never "empty").
func ProjectState(st *state.StateDB, names Names, accts, vals []common.Address, balBase int64) *StateProj {
	p := &StateProj{Accts: map[string]AcctProj{}, Vals: map[string]ValProj{}, Stat: map[string]StatProj{}}
	for _, a := range accts {
		ap := AcctProj{Exists: st.VerifAccountExists(a)}
		if ap.Exists {
			ap.Sui = st.HasSuicided(a)
			ap.Bal = I(st.GetBalance(a)) - balBase
			ap.Nonce = st.GetNonce(a)
			ap.S1 = I(st.GetState(a, Slot1).Big())
			ap.S2 = I(st.GetState(a, Slot2).Big())
			ap.Code = common.Bytes2Hex(st.GetCode(a))
			ap.Dbal = I(st.VerifDelegationBalance(a))
			for _, v := range st.VerifDelegations(a) {
				ap.Dlgs = append(ap.Dlgs, names.Of(v))
			}
		}
		if ap.Dlgs == nil {
			ap.Dlgs = []string{}
		}
		p.Accts[names.Of(a)] = ap
	}
	for _, v := range vals {
		p.Vals[names.Of(v)] = ProjectVal(st.GetValidatorByMainAddr(v), names)
	}
	if stat, err := st.GetValidatorsStat(); err == nil && stat != nil {
		put := func(name string, k *state.ValKindStat) {
			p.Stat[name] = StatProj{I(k.GetOnlineStake()), I(k.GetOnlineToken()), k.GetCount(), I(k.GetOfflineStake()),
				I(k.GetOfflineToken()), k.GetOfflineCount(), I(k.GetRewardsDistributable()), I(k.GetRewardsResidue())}
		}
		put("all", stat.GetByKind(params.KindValidator))
		put("chamber", stat.GetByKind(params.KindChamber))
		put("house", stat.GetByKind(params.KindHouse))
		put("chancellor", stat.GetByRole(params.RoleChancellor))
		put("senator", stat.GetByRole(params.RoleSenator))
		put("rhouse", stat.GetByRole(params.RoleHouse))
	}
	for _, a := range st.VerifValidatorIndex() {
		p.Index = append(p.Index, names.Of(a))
	}
	sort.Strings(p.Index)
	if p.Index == nil {
		p.Index = []string{}
	}
	p.Wq = []WqProj{}
	if q := st.GetWithdrawQueue(); q != nil {
		for _, r := range q.Records {
			p.Wq = append(p.Wq, WqProj{names.Of(r.Operator), r.Nonce, names.Of(r.Validator), I(r.InitialBalance), I(r.FinalBalance),
				int(r.Finished), r.CompletionHeight})
		}
	}
	p.Refund = st.GetRefund()
	p.Logs = st.VerifLogCount()
	// preimages recorded by the fixture are single bytes: project them as small ints, sorted
	p.Pre = []int{}
	for _, pi := range st.Preimages() {
		if len(pi) == 1 {
			p.Pre = append(p.Pre, int(pi[0]))
		}
	}
	sort.Ints(p.Pre)
	return p
}

// ProjectVal projects one validator record (nil = absent).
func ProjectVal(v *state.Validator, names Names) ValProj {
	if v == nil {
		return ValProj{Dlgs: []DlgProj{}}
	}
	vp := ValProj{Exists: true, Token: I(v.Token), Stake: I(v.Stake), SelfToken: I(v.SelfToken), SelfStake: I(v.SelfStake),
		Status: int(v.Status), Role: int(v.Role), RewDist: I(v.RewardsDistributable), RewTotal: I(v.RewardsTotal),
		Expelled: v.Expelled, Dlgs: []DlgProj{}}
	for _, d := range v.Delegations {
		vp.Dlgs = append(vp.Dlgs, DlgProj{names.Of(d.Delegator), I(d.Token), I(d.Stake)})
	}
	return vp
}

// Roots formats a root triple.
func Roots(a, b, c common.Hash) []string {
	return []string{a.Hex()[2:10], b.Hex()[2:10], c.Hex()[2:10]}
}
