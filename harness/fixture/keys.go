// Package fixture holds what the drivers share: deterministic keys and addresses, the scaled
// parameter table, state projections.
package fixture

import (
	"crypto/ecdsa"
	"fmt"
	"math/big"

	"github.com/youchainhq/go-youchain/bls"
	"github.com/youchainhq/go-youchain/common"
	"github.com/youchainhq/go-youchain/crypto"
	"github.com/youchainhq/go-youchain/params"
)

// Key is one deterministic identity.
type Key struct {
	Priv    *ecdsa.PrivateKey
	Addr    common.Address
	PubComp []byte // compressed secp256k1 public key (33 bytes), the form validators register
	BlsSk   bls.SecretKey
	BlsPk   bls.PublicKey
	BlsPkB  []byte
}

var blsMgr = bls.NewBlsManager()

// BlsMgr returns the shared BLS manager.
func BlsMgr() bls.BlsManager { return blsMgr }

// NewKey derives identity number i of a family (family keeps account keys and validator keys apart).
func NewKey(family string, i int) *Key {
	seed := crypto.Keccak256([]byte("verif-key"), []byte(family), big.NewInt(int64(i)).Bytes())
	priv, err := crypto.ToECDSA(seed)
	if err != nil {
		panic(err)
	}
	k := &Key{Priv: priv, Addr: crypto.PubkeyToAddress(priv.PublicKey), PubComp: crypto.CompressPubkey(&priv.PublicKey)}
	// BLS secret keys must be below the group order: reduce a hash until the manager accepts it
	for n := 0; ; n++ {
		b := crypto.Keccak256([]byte("verif-bls"), seed, []byte{byte(n)})
		b[0] &= 0x0f
		sk, err := blsMgr.DecSecretKey(b)
		if err != nil {
			continue
		}
		pk, err := sk.PubKey()
		if err != nil {
			continue
		}
		k.BlsSk, k.BlsPk, k.BlsPkB = sk, pk, pk.Compress().Bytes()
		break
	}
	return k
}

var keyCache = map[string]*Key{}

// Keys returns identities 1..n of a family, indexed from 1 (index 0 unused) so that model ids map directly.
// Identities are cached: drivers are single-threaded at fixture construction time.
func Keys(family string, n int) []*Key {
	ks := make([]*Key, n+1)
	for i := 1; i <= n; i++ {
		id := fmt.Sprintf("%s/%d", family, i)
		k, ok := keyCache[id]
		if !ok {
			k = NewKey(family, i)
			keyCache[id] = k
		}
		ks[i] = k
	}
	return ks
}

// ScaleStakeUnit installs the fixture's stake unit (10 LU) so that integer division actually bites.
func ScaleStakeUnit() *big.Int {
	params.StakeUint = big.NewInt(10)
	return params.StakeUint
}
