module verif/harness

go 1.18

require github.com/youchainhq/go-youchain v0.0.0

require (
	github.com/go-stack/stack v1.8.0 // indirect
	github.com/golang/snappy v0.0.1 // indirect
	github.com/hashicorp/golang-lru v0.5.0 // indirect
	github.com/mattn/go-colorable v0.0.9 // indirect
	github.com/mattn/go-isatty v0.0.9 // indirect
	github.com/nanyan/golz4 v1.0.0 // indirect
	github.com/syndtr/goleveldb v1.0.0 // indirect
	github.com/youchainhq/bls v0.9.0 // indirect
	golang.org/x/sys v0.0.0-20190904154756-749cb33beabd // indirect
	gopkg.in/karalabe/cookiejar.v2 v2.0.0-20150724131613-8dcd6a7f4951 // indirect
	gopkg.in/natefinch/lumberjack.v2 v2.0.0-20170531160350-a96e63847dc3 // indirect
)

replace github.com/youchainhq/go-youchain => /repo

replace github.com/lucas-clemente/quic-go v0.14.5 => github.com/youchainhq/quic-go v0.14.5
