module verif/harness

go 1.18

require github.com/youchainhq/go-youchain v0.0.0

require (
	github.com/ALTree/bigfloat v0.0.0-20180506151649-b176f1e721fc // indirect
	github.com/aristanetworks/goarista v0.0.0-20180907105523-ff33da284e76 // indirect
	github.com/ccding/go-stun v0.1.2 // indirect
	github.com/cheekybits/genny v1.0.0 // indirect
	github.com/deckarep/golang-set v1.7.1 // indirect
	github.com/go-stack/stack v1.8.0 // indirect
	github.com/golang/protobuf v1.3.0 // indirect
	github.com/golang/snappy v0.0.1 // indirect
	github.com/hashicorp/golang-lru v0.5.0 // indirect
	github.com/huin/goupnp v0.0.0-20180415215157-1395d1447324 // indirect
	github.com/influxdata/influxdb1-client v0.0.0-20190402204710-8ff2fc3824fc // indirect
	github.com/jackpal/go-nat-pmp v0.0.0-20170405195558-28a68d0c24ad // indirect
	github.com/lucas-clemente/quic-go v0.14.5 // indirect
	github.com/marten-seemann/qtls v0.4.1 // indirect
	github.com/mattn/go-colorable v0.0.9 // indirect
	github.com/mattn/go-isatty v0.0.9 // indirect
	github.com/minio/blake2b-simd v0.0.0-20160723061019-3f5f724cb5b1 // indirect
	github.com/minio/sha256-simd v0.1.1-0.20190913151208-6de447530771 // indirect
	github.com/mr-tron/base58 v1.1.3 // indirect
	github.com/multiformats/go-multiaddr v0.0.0-20180721003118-d6ad8896def6 // indirect
	github.com/multiformats/go-multihash v0.0.13 // indirect
	github.com/multiformats/go-varint v0.0.5 // indirect
	github.com/nanyan/golz4 v1.0.0 // indirect
	github.com/pborman/uuid v0.0.0-20180827223501-4c1ecd6722e8 // indirect
	github.com/rcrowley/go-metrics v0.0.0-20190826022208-cac0b30c2563 // indirect
	github.com/rs/cors v0.0.0-20180826180256-dc7332ab32be // indirect
	github.com/spaolacci/murmur3 v1.1.0 // indirect
	github.com/syndtr/goleveldb v1.0.0 // indirect
	github.com/youchainhq/bls v0.9.0 // indirect
	golang.org/x/crypto v0.0.0-20200423211502-4bdfaf469ed5 // indirect
	golang.org/x/exp v0.0.0-20190125153040-c74c464bbbf2 // indirect
	golang.org/x/net v0.0.0-20200226121028-0de0cce0169b // indirect
	golang.org/x/sys v0.0.0-20190904154756-749cb33beabd // indirect
	golang.org/x/text v0.3.0 // indirect
	gonum.org/v1/gonum v0.0.0-20190628223043-536a303fd62f // indirect
	gopkg.in/karalabe/cookiejar.v2 v2.0.0-20150724131613-8dcd6a7f4951 // indirect
	gopkg.in/natefinch/lumberjack.v2 v2.0.0-20170531160350-a96e63847dc3 // indirect
)

replace github.com/youchainhq/go-youchain => /repo

replace github.com/lucas-clemente/quic-go v0.14.5 => github.com/youchainhq/quic-go v0.14.5
