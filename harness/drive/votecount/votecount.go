// Package votecount drives behaviours of spec/VoteCount.tla through the real ucon engine (C03).
//
// Fixture: a real core.BlockChain on a genesis with five chamber validators (the node under test, stake 2, and
// four peers with stakes 3, 4, 5, 6; ValidatorThreshold = CertValThreshold = total stake 20, so sortition selects
// everybody with weight = stake: quorum floor(0.685*20) = 13, certificate quorum floor(0.585*20) = 11), two real
// proposals A and B for round 1, and a real ucon.Server assembled by consensus/ucon/verif_voter.go without timers
// and event loops.  Vote messages are real: BLS vote signature, VRF sortition proof, outer ECDSA signature, fed
// through Server.HandleMsg (message judger, sortition verifier, processVoteMsg are the real ones).  Step changes
// are injected.  Every CommitEvent goes through the real Server.commit (PackVotes) into a capturing inserter that
// hands the sealed header to the real verifier (VerifySeal of an independent engine instance).
package votecount

import (
	"fmt"
	"math/big"
	"runtime"
	"sort"
	"time"

	"github.com/youchainhq/go-youchain/common"
	"github.com/youchainhq/go-youchain/consensus/ucon"
	"github.com/youchainhq/go-youchain/core"
	"github.com/youchainhq/go-youchain/core/types"
	"github.com/youchainhq/go-youchain/crypto"
	"github.com/youchainhq/go-youchain/crypto/vrf"
	secp256k1VRF "github.com/youchainhq/go-youchain/crypto/vrf/secp256k1"
	"github.com/youchainhq/go-youchain/event"
	"github.com/youchainhq/go-youchain/local"
	"github.com/youchainhq/go-youchain/logging"
	"github.com/youchainhq/go-youchain/params"
	"github.com/youchainhq/go-youchain/rlp"
	"github.com/youchainhq/go-youchain/youdb"
	"verif/harness/drive"
	"verif/harness/fixture"
)

func init() { drive.Register("votecount", run) }

// Op is one abstract action of a behaviour of VoteCount.tla.
type Op struct {
	Op   string `json:"op"`
	Cert bool   `json:"cert"`
	St   uint32 `json:"st"`
	Best string `json:"best"`
	S    int    `json:"s"`
	K    string `json:"k"`
	B    string `json:"b"`
	I    uint32 `json:"i"`
	Cred string `json:"cred"`
}

var stakes = []int64{2, 3, 4, 5, 6} // index 0: the node under test

var kinds = map[string]ucon.VoteType{"Prevote": ucon.Prevote, "Precommit": ucon.Precommit, "Next": ucon.NextIndex, "Cert": ucon.Certificate}
var kindOrder = []string{"Prevote", "Precommit", "Cert"}

type member struct {
	key   *fixture.Key
	vrf   vrf.PrivateKey
	stake int64
}

// chainFx is built once per certificate mode and only read afterwards.
type chainFx struct {
	cert    bool
	db      youdb.Database
	bc      *core.BlockChain
	eng     *ucon.Server // the chain's engine: used as the independent verifier
	ms      []*member
	idx     map[common.Address]int // address -> member number
	vidx    []uint32               // member number -> index in the sorted validator set
	seed    common.Hash
	total   *big.Int
	blocks  map[string]*types.Block
	names   map[common.Hash]string
	msgs    map[string][]byte
	stamp   uint64
	v5      params.YouParams
	oldFreq uint64
}

func newChain(cert bool) (*chainFx, error) {
	f := &chainFx{cert: cert, idx: map[common.Address]int{}, blocks: map[string]*types.Block{}, names: map[common.Hash]string{{}: "E"},
		msgs: map[string][]byte{}, stamp: uint64(time.Now().Unix())}
	if cert {
		// params.ACoCHTFrequency is a constant (32768): a certificate round cannot be reached by a fixture chain
		return nil, fmt.Errorf("certificate rounds are not available on the engine fixture")
	}
	total := int64(0)
	for n, k := range fixture.Keys("c03", len(stakes))[1:] {
		vsk, err := secp256k1VRF.NewVRFSigner(k.Priv)
		if err != nil {
			return nil, err
		}
		f.ms = append(f.ms, &member{key: k, vrf: vsk, stake: stakes[n]})
		f.idx[k.Addr] = n
		total += stakes[n]
	}
	v5 := params.Versions[params.YouV5]
	v5.ProposerThreshold, v5.ValidatorThreshold, v5.CertValThreshold = uint64(total), uint64(total), uint64(total)
	v5.ConsensusTimeout, v5.ConsensusStepInterval = time.Hour, time.Hour
	params.Versions[params.YouV5] = v5
	f.v5 = v5
	gvals := core.GenesisValidators{}
	alloc := core.GenesisAlloc{v5.RewardsPoolAddress: {Balance: big.NewInt(1000000)}}
	for n, m := range f.ms {
		gvals[m.key.Addr] = core.GenesisValidator{Name: fmt.Sprint("v", n), OperatorAddress: m.key.Addr, Coinbase: m.key.Addr,
			MainPubKey: crypto.CompressPubkey(&m.key.Priv.PublicKey), BlsPubKey: m.key.BlsPkB,
			Token: new(big.Int).Mul(big.NewInt(m.stake), params.StakeUint), Role: params.RoleSenator, Status: params.ValidatorOnline}
	}
	gcons := &ucon.BlockConsensusData{Round: big.NewInt(0), RoundIndex: 1, Seed: common.Hash{0x5d}, SortitionProof: []byte{1}, Priority: common.Hash{1},
		SubUsers: 1, Signature: []byte{}, ProposerThreshold: v5.ProposerThreshold, ValidatorThreshold: v5.ValidatorThreshold, CertValThreshold: v5.CertValThreshold}
	gcb, _ := rlp.EncodeToBytes(gcons)
	g := &core.Genesis{NetworkId: params.NetworkIdForTestCase, GasLimit: 8000000, Alloc: alloc, Validators: gvals, CurrVersion: params.YouV5, Consensus: gcb, Mixhash: types.UConMixHash}
	f.db = youdb.NewMemDatabase()
	g.MustCommit(f.db)
	eng, _ := ucon.NewVRFServer(f.db)
	bc, err := core.NewBlockChain(f.db, eng, new(event.TypeMux), params.ArchiveNode, local.FakeDetailDB())
	if err != nil {
		return nil, err
	}
	f.bc, f.eng = bc, eng
	settle()
	gh := bc.GetHeaderByNumber(0)
	sc, _ := ucon.GetConsensusDataFromHeader(gh)
	f.seed = sc.Seed
	vld, err := bc.GetVldReader(gh.ValRoot)
	if err != nil {
		return nil, err
	}
	stat, _ := vld.GetValidatorsStat()
	f.total = stat.GetStakeByKind(params.KindChamber)
	if f.total.Int64() != total {
		return nil, fmt.Errorf("total chamber stake %v, expected %d", f.total, total)
	}
	for _, m := range f.ms {
		i, ok := vld.GetValidators().GetIndex(m.key.Addr)
		if !ok {
			return nil, fmt.Errorf("validator not in the set")
		}
		f.vidx = append(f.vidx, uint32(i))
	}
	// two real proposals for round 1, index 1, by peers 1 and 2
	for n, name := range []string{"A", "B"} {
		blk, err := f.propose(f.ms[n+1], byte(n+1))
		if err != nil {
			return nil, err
		}
		f.blocks[name] = blk
		f.names[blk.Hash()] = name
	}
	return f, nil
}

func (f *chainFx) propose(p *member, extra byte) (*types.Block, error) {
	bc := f.bc
	parent := bc.CurrentBlock()
	round := new(big.Int).Add(parent.Number(), big.NewInt(1))
	stake := big.NewInt(p.stake)
	val, proof, j := ucon.VrfSortition(p.vrf, f.seed, 1, ucon.UConStepProposal, f.v5.ProposerThreshold, stake, f.total)
	nseed, _ := ucon.ComputeSeed(p.vrf, round, 1, f.seed)
	hdr := &types.Header{ParentHash: parent.Hash(), Number: round, Time: parent.Time() + 10, Coinbase: p.key.Addr, GasLimit: core.CalcGasLimit(parent),
		GasRewards: big.NewInt(0), Subsidy: big.NewInt(0), Extra: []byte{extra}, MixDigest: types.UConMixHash}
	if err := core.ProcessYouVersionState(parent.Header(), hdr); err != nil {
		return nil, err
	}
	cd := &ucon.BlockConsensusData{Round: round, RoundIndex: 1, Seed: nseed, SortitionProof: proof, Priority: ucon.VrfComputePriority(val, j), SubUsers: j,
		ProposerThreshold: f.v5.ProposerThreshold, ValidatorThreshold: f.v5.ValidatorThreshold, CertValThreshold: f.v5.CertValThreshold}
	if err := cd.SetSignature(p.key.Priv); err != nil {
		return nil, err
	}
	hdr.Consensus, _ = rlp.EncodeToBytes(cd)
	yp, err := bc.VersionForRound(round.Uint64())
	if err != nil {
		return nil, err
	}
	sdb, err := bc.StateAt(parent.Root(), parent.ValRoot(), core.StakingRootForNewBlock(yp.StakingTrieFrequency, parent.Header()))
	if err != nil {
		return nil, err
	}
	bc.Processor().EndBlock(bc, hdr, nil, sdb, true, local.FakeRecorder())
	blk, err := f.eng.FinalizeAndAssemble(bc, hdr, sdb, nil, nil)
	if err != nil {
		return nil, err
	}
	h := blk.Header()
	sig, err := crypto.Sign(h.Hash().Bytes(), p.key.Priv)
	if err != nil {
		return nil, err
	}
	h.Signature = sig
	return blk.WithSeal(h), nil
}

// voteMsg builds (and caches) the wire message of a vote by peer s.
func (f *chainFx) voteMsg(s int, k, b string, idx uint32, cred string) []byte {
	key := fmt.Sprint(s, k, b, idx, cred)
	if m, ok := f.msgs[key]; ok {
		return m
	}
	m := f.ms[s]
	vt := kinds[k]
	thr := f.v5.ValidatorThreshold
	if vt == ucon.Certificate {
		thr = f.v5.CertValThreshold
	}
	step := uint32(vt)
	if cred == "bad" {
		// a real proof of the same sender for ANOTHER step: it does not verify for this one
		step = uint32(ucon.NextIndex)
	}
	_, proof, j := ucon.VrfSortition(m.vrf, f.seed, idx, step, thr, big.NewInt(m.stake), f.total)
	h := f.blocks[b].Hash()
	round := big.NewInt(1)
	payload := append(h.Bytes(), append(round.Bytes(), u32(idx)...)...)
	sig := m.key.BlsSk.Sign(payload)
	v := &ucon.BlockHashWithVotes{Priority: common.Hash{}, BlockHash: h, Round: round, RoundIndex: idx,
		Vote:      &ucon.SingleVote{VoterIdx: f.vidx[s], Votes: j, Signature: sig.Compress().Bytes(), Proof: proof},
		Timestamp: f.stamp}
	pl, err := ucon.Encode(v)
	if err != nil {
		panic(err)
	}
	code := ucon.VoteTypeToMsgCode(vt)
	osig, err := ucon.Sign(m.key.Priv, append(append([]byte{}, pl...), byte(code)))
	if err != nil {
		panic(err)
	}
	msg := ucon.Message{Code: code, Payload: pl, Signature: osig}
	data, err := msg.Encode()
	if err != nil {
		panic(err)
	}
	f.msgs[key] = data
	return data
}

func blsBytes(k *fixture.Key) []byte { c := k.BlsSk.Compress(); return c[:] }

// settle waits until the goroutines started by the chain constructor have reached their steady state.
func settle() {
	for same := 0; same < 3; {
		n := runtime.NumGoroutine()
		for i := 0; i < 5000; i++ {
			runtime.Gosched()
		}
		if runtime.NumGoroutine() == n {
			same++
		} else {
			same = 0
		}
	}
}

func u32(i uint32) []byte { return []byte{byte(i >> 24), byte(i >> 16), byte(i >> 8), byte(i)} }

// ---------------------------------------------------------------- one behaviour

type inserter struct{ w *world }

func (in *inserter) Insert(block *types.Block) error {
	// the sealed block the engine would hand to the chain: ask the independent verifier
	err := in.w.f.eng.VerifySeal(in.w.f.bc, block.Header())
	in.w.sealed = append(in.w.sealed, sealed{block, err})
	return nil
}

type sealed struct {
	blk *types.Block
	err error
}

type world struct {
	f        *chainFx
	eng      *ucon.Server
	mux      *event.TypeMux
	sub      *event.TypeMuxSubscription
	sealed   []sealed
	pending  []ucon.VoteMsgEvent // cached vote messages the handler re-posted (processCachedMsgs), not yet given to the voter
	arrivals []string            // keys of the votes delivered while their index was in the future, in order of arrival
}

func newWorld(f *chainFx) (*world, error) {
	w := &world{f: f, mux: new(event.TypeMux)}
	eng, _ := ucon.NewVRFServer(youdb.NewMemDatabase())
	me := f.ms[0]
	if err := eng.SetValKey(me.key.Priv, blsBytes(me.key)); err != nil {
		return nil, err
	}
	w.sub = w.mux.Subscribe(ucon.SendMessageEvent{}, ucon.CommitEvent{}, ucon.RoundIndexChangeEvent{}, ucon.UpdateExistedHeaderEvent{}, ucon.VoteMsgEvent{})
	base := runtime.NumGoroutine() // quiescent here: the previous behaviour was drained
	if err := eng.VerifAssemble(f.bc, &inserter{w}, w.mux); err != nil {
		return nil, err
	}
	w.eng = eng
	// StartNewRound posts the first ContextChangeEvent asynchronously: wait for that goroutine to end
	if err := w.drain(base, map[string]interface{}{}); err != nil {
		return nil, err
	}
	return w, nil
}

func (w *world) senders(vs ucon.VotesInfoForBlockHash) []int {
	out := []int{}
	for a := range vs {
		if n, ok := w.f.idx[a]; ok {
			out = append(out, n)
		} else {
			out = append(out, -1)
		}
	}
	sort.Ints(out)
	return out
}

// drain: see drive/voter.  Commit events are executed through the real Server.commit as they are collected.
func (w *world) drain(base int, ev map[string]interface{}) error {
	deadline := time.Now().Add(20 * time.Second)
	list := func(k string) []map[string]interface{} {
		if l, ok := ev[k].([]map[string]interface{}); ok {
			return l
		}
		return []map[string]interface{}{}
	}
	sent, commits, upd := list("sent"), list("commits"), list("upd")
	nsent0 := len(sent)
	nric := 0
	for {
		select {
		case e := <-w.sub.Chan():
			switch d := e.Data.(type) {
			case ucon.SendMessageEvent:
				var m ucon.BlockHashWithVotes
				if err := rlp.DecodeBytes(d.Payload, &m); err != nil {
					continue // proposals etc.
				}
				k := "?"
				for n, vt := range kinds {
					if ucon.VoteTypeToMsgCode(vt) == d.Code {
						k = n
					}
				}
				sent = append(sent, map[string]interface{}{"k": k, "r": m.Round.Int64(), "i": m.RoundIndex, "b": w.f.names[m.BlockHash], "w": m.Vote.Votes})
			case ucon.CommitEvent:
				n0 := len(w.sealed)
				w.eng.VerifCommit(d)
				c := map[string]interface{}{"r": d.Round.Int64(), "i": d.RoundIndex, "b": w.f.names[d.Block.Hash()],
					"pre": w.senders(d.ChamberPrecommits), "cert": w.senders(d.ChamberCerts), "sealed": len(w.sealed) > n0, "verifies": false}
				if len(w.sealed) > n0 {
					s := w.sealed[len(w.sealed)-1]
					c["verifies"] = s.err == nil
					if s.err != nil {
						c["err"] = s.err.Error()
					}
				}
				commits = append(commits, c)
			case ucon.VoteMsgEvent:
				w.pending = append(w.pending, d)
			case ucon.RoundIndexChangeEvent:
				nric++
			case ucon.UpdateExistedHeaderEvent:
				upd = append(upd, map[string]interface{}{"i": d.RoundIndex, "b": w.f.names[d.BlockHash], "pre": w.senders(d.ChamberPrecommits)})
			}
		default:
			if runtime.NumGoroutine() <= base {
				key := func(m map[string]interface{}) string { return fmt.Sprint(m["k"], m["r"], m["i"], m["b"]) }
				tail := sent[nsent0:]
				sort.SliceStable(tail, func(a, b int) bool { return key(tail[a]) < key(tail[b]) })
				ev["sent"] = sent
				ev["commits"] = commits
				if len(upd) > 0 {
					ev["upd"] = upd
				}
				return nil
			}
			if time.Now().After(deadline) {
				return fmt.Errorf("event posts did not quiesce (goroutines %d > %d)", runtime.NumGoroutine(), base)
			}
			runtime.Gosched()
		}
	}
}

// voteKey identifies a vote message: kind/sender/block/index.
func (w *world) voteKey(k string, s int, b string, i uint32) string { return fmt.Sprint(k, "/", s, "/", b, "/", i) }

// replayCached gives the vote messages the handler re-posted from its cache to the voter, as Voter.eventLoop does
// (status msgSame).  The engine posts them asynchronously, i.e. in no particular order; the driver uses the order
// prevotes, precommits, next-index votes, each in order of arrival.
func (w *world) replayCached(ev map[string]interface{}) error {
	type item struct {
		e    ucon.VoteMsgEvent
		k    string
		s    int
		b    string
		rank int
	}
	items := []item{}
	used := map[int]bool{}
	for _, e := range w.pending {
		it := item{e: e, k: "?", s: -1}
		for n, vt := range kinds {
			if vt == e.VType {
				it.k = n
			}
		}
		if n, ok := w.f.idx[e.Msg.VerifSender()]; ok {
			it.s = n
		}
		it.b = w.f.names[e.Msg.VotesData.BlockHash]
		key := w.voteKey(it.k, it.s, it.b, e.Msg.VotesData.RoundIndex)
		it.rank = len(w.arrivals)
		for n, a := range w.arrivals {
			if a == key && !used[n] { // a message delivered twice is cached twice: one arrival position each
				it.rank = n
				used[n] = true
				break
			}
		}
		ko := map[string]int{"Prevote": 0, "Precommit": 1, "Next": 2, "Cert": 3}[it.k]
		it.rank += ko * 1000000
		items = append(items, it)
	}
	w.pending = nil
	sort.SliceStable(items, func(a, b int) bool { return items[a].rank < items[b].rank })
	replayed := []map[string]interface{}{}
	for _, it := range items {
		base := runtime.NumGoroutine()
		err, invalid := w.eng.VerifVoter().VerifVoteMsgEvent(it.e)
		r := map[string]interface{}{"k": it.k, "s": it.s, "b": it.b, "i": it.e.Msg.VotesData.RoundIndex}
		if err != nil || invalid {
			r["rej"] = fmt.Sprint(err)
		}
		replayed = append(replayed, r)
		if err := w.drain(base, ev); err != nil {
			return err
		}
	}
	if len(replayed) > 0 {
		ev["replayed"] = replayed
	}
	return nil
}

func (w *world) obs() map[string]interface{} {
	v := w.eng.VerifVoter()
	st := v.VerifState()
	r, i := w.eng.VerifContext()
	cnt := map[string][]uint32{}
	for _, k := range kindOrder {
		row := []uint32{}
		for _, b := range []string{"A", "B"} {
			n, _ := v.VerifTally(r, i, kinds[k], w.f.blocks[b].Hash())
			row = append(row, n)
		}
		cnt[k] = row
	}
	return map[string]interface{}{"i": i, "step": st.Step, "pc": st.Precommitted, "cd": st.Certificated, "cm": st.Committed, "cnt": cnt}
}

func (w *world) step(op Op) (map[string]interface{}, error) {
	ev := map[string]interface{}{"ev": op.Op}
	base := runtime.NumGoroutine()
	func() {
		defer func() {
			if r := recover(); r != nil {
				ev["panic"] = fmt.Sprint(r)
			}
		}()
		switch op.Op {
		case "Step":
			ev["st"], ev["best"] = op.St, op.Best
			if b, ok := w.f.blocks[op.Best]; ok && op.St == ucon.UConStepPrevote {
				if err := w.eng.VerifSetBest(b); err != nil {
					panic(err)
				}
			}
			w.eng.VerifStep(op.St)
		case "NextIdx":
			if err := w.eng.VerifNextIndex(); err != nil {
				panic(err)
			}
			w.eng.VerifStep(ucon.UConStepStart)
		case "Recv":
			ev["s"], ev["k"], ev["b"], ev["i"], ev["cred"] = op.S, op.K, op.B, op.I, op.Cred
			_, cur := w.eng.VerifContext()
			err := w.eng.HandleMsg(w.f.voteMsg(op.S, op.K, op.B, op.I, op.Cred), time.Now())
			if err != nil {
				ev["rej"] = err.Error()
			} else if op.I > cur {
				w.arrivals = append(w.arrivals, w.voteKey(op.K, op.S, op.B, op.I))
			}
		default:
			panic("unknown op " + op.Op)
		}
	}()
	if err := w.drain(base, ev); err != nil {
		return nil, err
	}
	if err := w.replayCached(ev); err != nil {
		return nil, err
	}
	ev["obs"] = w.obs()
	return ev, nil
}

func run(env *drive.Env) error {
	logging.Root().SetHandler(logging.DiscardHandler())
	params.InitNetworkId(params.NetworkIdForTestCase)
	chains := map[bool]*chainFx{}
	var beh []Op
	for env.Next(&beh) {
		if len(beh) == 0 || beh[0].Op != "Cfg" {
			return fmt.Errorf("behaviour %d does not start with Cfg", env.T)
		}
		cert := beh[0].Cert
		f := chains[cert]
		if f == nil {
			var err error
			if f, err = newChain(cert); err != nil {
				return fmt.Errorf("fixture: %v", err)
			}
			chains = map[bool]*chainFx{cert: f} // the frequency is a package variable: one mode at a time
		}
		w, err := newWorld(f)
		if err != nil {
			return fmt.Errorf("fixture: %v", err)
		}
		// let the engine's own start-up posts drain, then deliver step 0 as the engine's first context
		first := map[string]interface{}{"ev": "Cfg", "cert": cert, "T": f.total.Int64(), "w": stakes}
		base := runtime.NumGoroutine()
		w.eng.VerifStep(ucon.UConStepStart)
		// both proposals have arrived (the first context change of a round clears the proposal cache, so only now)
		for _, b := range f.blocks {
			w.eng.VerifCacheBlock(b)
		}
		if err := w.drain(base, first); err != nil {
			return err
		}
		if err := w.replayCached(first); err != nil {
			return err
		}
		first["obs"] = w.obs()
		env.Emit(first)
		for _, op := range beh[1:] {
			ev, err := w.step(op)
			if err != nil {
				return fmt.Errorf("behaviour %d: %v", env.T, err)
			}
			env.Emit(ev)
		}
		w.sub.Unsubscribe()
		beh = nil
	}
	return nil
}
