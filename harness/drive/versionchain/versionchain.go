// Package versionchain drives spec/VersionChain.tla through a REAL core.BlockChain (C12, chain level).
//
// Fixture: solo engine, params.Versions scaled to {5, 6} (vote rounds 2, threshold 2, min wait 1, max wait 2,
// version 5 approves the upgrade to 6).  Real blocks (no transactions) whose version fields are set by hand:
//
//	A1..A6 : a proposal at A1, an approval at A2, the switch to version 6 at A4
//	B1..B6 : no proposal at all, version 5 throughout
//	C2..C6 : children of B1 that CONTINUE A's proposal (C2 = [5,6,2,3,4]): valid as successors of A1, not of B1
//
// A behaviour is a schedule of actions {"a":"import","seg":[names]}, {"a":"sethead","n":k}, {"a":"query"}.
// After every action the driver records the canonical chain (walked from CurrentBlock through parent hashes), the
// number index (GetHeaderByNumber) and, for "query", the answers of BlockChain.VersionForRound(r) for r in 8..15.
package versionchain

import (
	"encoding/json"
	"fmt"
	"math/big"

	"github.com/youchainhq/go-youchain/common"
	"github.com/youchainhq/go-youchain/consensus/solo"
	"github.com/youchainhq/go-youchain/core"
	"github.com/youchainhq/go-youchain/core/rawdb"
	"github.com/youchainhq/go-youchain/core/types"
	"github.com/youchainhq/go-youchain/event"
	"github.com/youchainhq/go-youchain/local"
	"github.com/youchainhq/go-youchain/logging"
	"github.com/youchainhq/go-youchain/params"
	"github.com/youchainhq/go-youchain/youdb"
	"verif/harness/drive"
)

func init() { drive.Register("versionchain", run) }

// Act is one action of a schedule.
type Act struct {
	A   string   `json:"a"`
	Seg []string `json:"seg"`
	N   uint64   `json:"n"`
}

const (
	lookback = 8 // core.protocolRoundBack (a constant of the code)
	qLo      = 8
	qHi      = 15
)

type fixtureT struct {
	genesis *core.Genesis
	blocks  map[string]*types.Block
	names   map[common.Hash]string
	order   []string
	parent  map[string]string
	builder *core.BlockChain
	bdb     youdb.Database
	nprobe  int
}

type critSignal struct{ msg string }

// pureVerify calls the REAL core.VerifyYouVersionState (the pure verifier): "ok", "reject", "crit".
func pureVerify(prev, curr *types.Header) (verdict string) {
	defer func() {
		if r := recover(); r != nil {
			if _, ok := r.(critSignal); ok {
				verdict = "crit"
				return
			}
			panic(r)
		}
	}()
	if err := core.VerifyYouVersionState(prev, curr); err != nil {
		return "reject"
	}
	return "ok"
}

// pureFirstRejected: index of the first header of the segment the pure verifier rejects along the segment's REAL parent
// chain, -1 none, -2 the real parent is not known to the chain under test.
func (fx *fixtureT) pureFirstRejected(bc *core.BlockChain, seg []string) int {
	first := fx.blocks[seg[0]]
	if bc.GetHeader(first.ParentHash(), first.NumberU64()-1) == nil {
		return -2
	}
	prev := fx.blocks[fx.parent[seg[0]]].Header()
	for i, n := range seg {
		h := fx.blocks[n].Header()
		if pureVerify(prev, h) != "ok" {
			return i
		}
		prev = h
	}
	return -1
}

// versionFailureIndex parses "VerifyYouVersionState failed, index=%d ..." (-1: the import did not fail for its version state).
func versionFailureIndex(err error) int {
	if err == nil {
		return -1
	}
	var i int
	if _, e := fmt.Sscanf(err.Error(), "VerifyYouVersionState failed, index=%d", &i); e == nil {
		return i
	}
	return -1
}

// buildOn builds a real block without transactions on top of `parent` with the given version fields.
func (fx *fixtureT) buildOn(parent *types.Block, extra string, v [5]uint64) (*types.Block, error) {
	hdr := &types.Header{ParentHash: parent.Hash(), Number: new(big.Int).Add(parent.Number(), big.NewInt(1)), Time: parent.Time() + 10,
		Coinbase: common.Address{0xc0}, GasLimit: core.CalcGasLimit(parent), GasRewards: big.NewInt(0), Subsidy: big.NewInt(0), Extra: []byte(extra)}
	hdr.CurrVersion, hdr.NextVersion = params.YouVersion(v[0]), params.YouVersion(v[1])
	hdr.NextApprovals, hdr.NextVoteBefore, hdr.NextSwitchOn = v[2], v[3], v[4]
	sdb, err := fx.builder.StateAt(parent.Root(), parent.ValRoot(), parent.StakingRoot())
	if err != nil {
		return nil, err
	}
	return fx.builder.Engine().FinalizeAndAssemble(fx.builder, hdr, sdb, nil, nil)
}

// probe: every candidate header (chosen by TLC) as a real single-block segment on top of block p of a fresh chain; records
// which ones the real pure verifier accepts and which ones InsertChain accepts.
func (fx *fixtureT) probe(env *drive.Env, p string, cands [][5]uint64) error {
	db := youdb.NewMemDatabase()
	fx.genesis.MustCommit(db)
	bc, err := newChain(db)
	if err != nil {
		return err
	}
	defer bc.Stop()
	var path types.Blocks
	for n := p; n != "G"; n = fx.parent[n] {
		path = append(types.Blocks{fx.blocks[n]}, path...)
	}
	if len(path) > 0 {
		if err := bc.InsertChain(path); err != nil {
			return fmt.Errorf("probe parent %s cannot be imported: %v", p, err)
		}
	}
	parent := fx.blocks[p]
	pure, imp := []int{}, []int{}
	for i, c := range cands {
		fx.nprobe++
		z, err := fx.buildOn(parent, fmt.Sprintf("Z%d", fx.nprobe), c)
		if err != nil {
			return err
		}
		if pureVerify(parent.Header(), z.Header()) == "ok" {
			pure = append(pure, i)
		}
		if err := bc.InsertChain(types.Blocks{z}); err == nil {
			imp = append(imp, i)
		} else if versionFailureIndex(err) < 0 {
			return fmt.Errorf("probe %v on %s failed for another reason: %v", c, p, err)
		}
	}
	env.Emit(map[string]interface{}{"ev": "probe", "p": p, "pn": parent.NumberU64(), "pv": vt(parent.Header()), "cands": cands, "pure": pure, "imp": imp})
	return nil
}

func (fx *fixtureT) name(h common.Hash) string {
	if n, ok := fx.names[h]; ok {
		return n
	}
	return "?"
}

func newChain(db youdb.Database) (*core.BlockChain, error) {
	return core.NewBlockChain(db, solo.NewSolo(), new(event.TypeMux), params.ArchiveNode, local.FakeDetailDB())
}

func installTable() {
	v5 := params.Versions[params.YouV5]
	v5.UpgradeVoteRounds, v5.UpgradeThreshold, v5.MinUpgradeWaitRounds, v5.MaxUpgradeWaitRounds = 2, 2, 1, 2
	v5.UpgradeWaitRounds = 0
	v5.ApprovedUpgradeVersion = 6
	v6 := v5
	v6.Version = 6
	v6.ApprovedUpgradeVersion = 0
	params.Versions = params.VersionsMap{params.YouV5: v5, 6: v6}
}

func vt(h *types.Header) []uint64 {
	return []uint64{uint64(h.CurrVersion), uint64(h.NextVersion), h.NextApprovals, h.NextVoteBefore, h.NextSwitchOn}
}

func buildFixture() (*fixtureT, error) {
	fx := &fixtureT{blocks: map[string]*types.Block{}, names: map[common.Hash]string{}, parent: map[string]string{}}
	fx.genesis = &core.Genesis{NetworkId: params.NetworkIdForTestCase, GasLimit: 8000000,
		Alloc: core.GenesisAlloc{common.Address{1}: {Balance: big.NewInt(1000)}}, CurrVersion: params.YouV5}
	bdb := youdb.NewMemDatabase()
	fx.genesis.MustCommit(bdb)
	builder, err := newChain(bdb)
	if err != nil {
		return nil, err
	}
	fx.add("G", "", builder.Genesis())
	build := func(name, parentName string, v [5]uint64) error {
		parent := fx.blocks[parentName]
		hdr := &types.Header{ParentHash: parent.Hash(), Number: new(big.Int).Add(parent.Number(), big.NewInt(1)), Time: parent.Time() + 10,
			Coinbase: common.Address{0xc0}, GasLimit: core.CalcGasLimit(parent), GasRewards: big.NewInt(0), Subsidy: big.NewInt(0), Extra: []byte(name)}
		hdr.CurrVersion, hdr.NextVersion = params.YouVersion(v[0]), params.YouVersion(v[1])
		hdr.NextApprovals, hdr.NextVoteBefore, hdr.NextSwitchOn = v[2], v[3], v[4]
		sdb, err := builder.StateAt(parent.Root(), parent.ValRoot(), parent.StakingRoot())
		if err != nil {
			return fmt.Errorf("state of %s: %v", parentName, err)
		}
		blk, err := builder.Engine().FinalizeAndAssemble(builder, hdr, sdb, nil, nil)
		if err != nil {
			return err
		}
		rawdb.WriteBlock(bdb, blk)
		fx.add(name, parentName, blk)
		return nil
	}
	idle5, idle6 := [5]uint64{5, 0, 0, 0, 0}, [5]uint64{6, 0, 0, 0, 0}
	type spec struct {
		name, parent string
		v            [5]uint64
	}
	for _, s := range []spec{
		{"A1", "G", [5]uint64{5, 6, 1, 3, 4}}, {"A2", "A1", [5]uint64{5, 6, 2, 3, 4}}, {"A3", "A2", [5]uint64{5, 6, 2, 3, 4}},
		{"A4", "A3", idle6}, {"A5", "A4", idle6}, {"A6", "A5", idle6},
		{"B1", "G", idle5}, {"B2", "B1", idle5}, {"B3", "B2", idle5}, {"B4", "B3", idle5}, {"B5", "B4", idle5}, {"B6", "B5", idle5},
		{"C2", "B1", [5]uint64{5, 6, 2, 3, 4}}, {"C3", "C2", [5]uint64{5, 6, 2, 3, 4}}, {"C4", "C3", idle6}, {"C5", "C4", idle6}, {"C6", "C5", idle6},
		// D: proposal, no approval, the fields COPIED across the window-closing round 3 (the pure verifier rejects D3), switch at 4
		{"D1", "G", [5]uint64{5, 6, 1, 3, 4}}, {"D2", "D1", [5]uint64{5, 6, 1, 3, 4}}, {"D3", "D2", [5]uint64{5, 6, 1, 3, 4}},
		{"D4", "D3", idle6}, {"D5", "D4", idle6}, {"D6", "D5", idle6},
	} {
		if err := build(s.name, s.parent, s.v); err != nil {
			return nil, err
		}
	}
	fx.builder, fx.bdb = builder, bdb
	return fx, nil
}

func (fx *fixtureT) add(name, parent string, b *types.Block) {
	fx.blocks[name] = b
	fx.names[b.Hash()] = name
	fx.parent[name] = parent
	fx.order = append(fx.order, name)
}

func (fx *fixtureT) treeEvent() map[string]interface{} {
	par, num, ver := map[string]string{}, map[string]uint64{}, map[string][]uint64{}
	for _, n := range fx.order {
		b := fx.blocks[n]
		par[n] = "-"
		if n != "G" {
			par[n] = fx.name(b.ParentHash())
		}
		num[n] = b.NumberU64()
		ver[n] = vt(b.Header())
	}
	v5 := params.Versions[params.YouV5]
	return map[string]interface{}{"ev": "tree", "par": par, "num": num, "ver": ver, "lookback": lookback,
		"P": map[string]uint64{"vr": v5.UpgradeVoteRounds, "th": v5.UpgradeThreshold, "minw": v5.MinUpgradeWaitRounds, "maxw": v5.MaxUpgradeWaitRounds}}
}

// observe: the canonical chain as the chain of parent links ending in the head, and the number index.
func (fx *fixtureT) observe(bc *core.BlockChain) map[string]interface{} {
	head := bc.CurrentBlock().Header()
	n := head.Number.Uint64()
	chain := make([]string, n+1)
	vers := make([][]uint64, n+1)
	complete := true
	for h := head; ; {
		i := h.Number.Uint64()
		chain[i], vers[i] = fx.name(h.Hash()), vt(h)
		if i == 0 {
			break
		}
		p := bc.GetHeader(h.ParentHash, i-1)
		if p == nil {
			complete = false
			break
		}
		h = p
	}
	index := make([]string, n+1)
	for i := uint64(0); i <= n; i++ {
		index[i] = "-"
		if h := bc.GetHeaderByNumber(i); h != nil {
			index[i] = fx.name(h.Hash())
		}
	}
	return map[string]interface{}{"head": fx.name(head.Hash()), "hn": n, "chain": chain, "vers": vers, "index": index, "complete": complete}
}

func errClass(err error) string {
	if err == nil {
		return ""
	}
	s := err.Error()
	if len(s) > 70 {
		s = s[:70]
	}
	return s
}

// query asks BlockChain.VersionForRound(r) for r in qLo..qHi; 0 = no answer (error).
func query(bc *core.BlockChain) []int64 {
	ans := []int64{}
	for r := uint64(qLo); r <= qHi; r++ {
		yp, err := bc.VersionForRound(r)
		if err != nil || yp == nil {
			ans = append(ans, 0)
		} else {
			ans = append(ans, int64(yp.Version))
		}
	}
	return ans
}

func run(env *drive.Env) error {
	logging.Root().SetHandler(logging.DiscardHandler())
	params.InitNetworkId(params.NetworkIdForTestCase)
	saved := params.Versions
	defer func() { params.Versions = saved }()
	installTable()
	fx, err := buildFixture()
	if err != nil {
		return fmt.Errorf("fixture: %v", err)
	}
	autoQuery := env.OptInt("autoquery", 1) == 1
	logging.Root().SetHandler(logging.FuncHandler(func(r *logging.Record) error {
		if r.Lvl == logging.LvlCrit {
			panic(critSignal{r.Msg})
		}
		return nil
	}))
	// a behaviour is a schedule [{"a":...}...] or a probe {"probe": parent, "cands": [[cv,nv,ap,vb,so]...]}
	var raw json.RawMessage
	for env.Next(&raw) {
		var beh []Act
		if len(raw) > 0 && raw[0] == '{' {
			var pr struct {
				Probe string      `json:"probe"`
				Cands [][5]uint64 `json:"cands"`
			}
			if err := json.Unmarshal(raw, &pr); err != nil {
				return err
			}
			env.Emit(fx.treeEvent())
			if err := fx.probe(env, pr.Probe, pr.Cands); err != nil {
				return err
			}
			raw = nil
			continue
		}
		if err := json.Unmarshal(raw, &beh); err != nil {
			return err
		}
		raw = nil
		env.Emit(fx.treeEvent())
		db := youdb.NewMemDatabase()
		fx.genesis.MustCommit(db)
		bc, err := newChain(db)
		if err != nil {
			return err
		}
		for i, a := range beh {
			ev := map[string]interface{}{"ev": a.A, "i": i}
			switch a.A {
			case "import":
				var bs types.Blocks
				for _, n := range a.Seg {
					b, ok := fx.blocks[n]
					if !ok {
						return fmt.Errorf("unknown block %q", n)
					}
					bs = append(bs, b)
				}
				ev["seg"] = a.Seg
				ev["pure"] = fx.pureFirstRejected(bc, a.Seg)
				ierr := bc.InsertChain(bs)
				ev["err"], ev["vidx"] = errClass(ierr), versionFailureIndex(ierr)
			case "sethead":
				ev["k"] = a.N
				if a.N < bc.CurrentBlock().NumberU64() {
					ev["err"] = errClass(bc.SetHead(a.N))
				} else {
					ev["err"] = "noop"
				}
			case "query":
				ev["lo"], ev["ans"] = qLo, query(bc)
			default:
				return fmt.Errorf("unknown action %q", a.A)
			}
			ev["obs"] = fx.observe(bc)
			env.Emit(ev)
			if autoQuery && a.A != "query" {
				// asked after EVERY action, so that each reorganisation / rewind meets warm answers
				env.Emit(map[string]interface{}{"ev": "query", "i": i, "auto": 1, "lo": qLo, "ans": query(bc), "obs": fx.observe(bc)})
			}
		}
		bc.Stop()
	}
	return nil
}
