// Package valset drives behaviours of spec/ValSet.tla through the real core/state.StateDB (C08): the validator set, its
// incrementally maintained statistics, the address index and the delegator side, using the call patterns of the staking
// module (take_effect_handler.go, endblock.go, slash.go).
package valset

import (
	"fmt"
	"math/big"
	"sort"

	"github.com/youchainhq/go-youchain/common"
	"github.com/youchainhq/go-youchain/core/state"
	"github.com/youchainhq/go-youchain/core/types"
	"github.com/youchainhq/go-youchain/params"
	"github.com/youchainhq/go-youchain/staking"
	"verif/harness/drive"
	"verif/harness/fixture"
)

func init() { drive.Register("valset", run) }

// Op is one abstract action of a behaviour.
type Op struct {
	Op string `json:"op"`
	V  int    `json:"v"`
	A  int    `json:"a"`
	D  int    `json:"d"`
	Id int    `json:"id"`
	On bool   `json:"on"`
	B  int    `json:"b"` // 1 = blind: do not read the state after this operation (reads fill lazy caches)
}

const (
	nAccts  = 2
	nVals   = 3
	balBase = 100000
	// scaled business thresholds of the take-effect handlers (params.StakingParams MinSelfStakes/MinStakes/MinDelegationTokens)
	minSelfStake  = 1
	minStake      = 1
	minDelegation = 5
)

var roles = []params.ValidatorRole{0, params.RoleChancellor, params.RoleHouse, params.RoleSenator}

type world struct {
	st     *state.StateDB
	other  *state.StateDB // the other side of the last Copy: the original the copy was taken from (or, after Swap, the copy)
	accts  []*fixture.Key
	vals   []*fixture.Key
	aIdx   map[common.Address]int
	vIdx   map[common.Address]int
	unit   *big.Int
	ids    map[int]int
	height uint64
	cfg    *params.YouParams
}

func newWorld() *world {
	w := &world{accts: fixture.Keys("acct", nAccts), vals: fixture.Keys("val", nVals), ids: map[int]int{},
		aIdx: map[common.Address]int{}, vIdx: map[common.Address]int{}, height: 10}
	w.unit = fixture.ScaleStakeUnit()
	for i := 1; i <= nAccts; i++ {
		w.aIdx[w.accts[i].Addr] = i
	}
	for i := 1; i <= nVals; i++ {
		w.vIdx[w.vals[i].Addr] = i
	}
	w.cfg = &params.YouParams{}
	w.cfg.PenaltyTo = common.BigToAddress(big.NewInt(0x1111111112))
	w.cfg.ExpelledRoundForDoubleSign = 16
	w.cfg.ExpelledRoundForInactive = 8
	st, _ := fixture.NewMemState()
	for i := 1; i <= nAccts; i++ {
		st.AddBalance(w.accts[i].Addr, big.NewInt(balBase))
	}
	r1, r2, r3, err := st.Commit(true)
	if err != nil {
		panic(err)
	}
	st2, err := state.New(r1, r2, r3, st.Database())
	if err != nil {
		panic(err)
	}
	w.st = st2
	return w
}

func bi(n int) *big.Int { return big.NewInt(int64(n)) }

// settle is settleValidatorRewards of staking/endblock.go (without the local recorder).
func (w *world) settle(val *state.Validator) {
	db := w.st
	if val.Stake.Sign() == 0 && val.RewardsDistributable.Sign() > 0 {
		db.AddBalance(val.Coinbase, val.RewardsDistributable)
		newVal := val.PartialCopy()
		newVal.RewardsDistributable.SetUint64(0)
		newVal.RewardsLastSettled = w.height
		db.UpdateValidator(newVal, val)
		return
	}
	if val.Stake.Sign() == 0 || val.RewardsDistributable.Sign() == 0 {
		return
	}
	total := new(big.Int).Set(val.RewardsDistributable)
	commission := new(big.Int)
	if val.CommissionRate > 0 {
		commission.Mul(total, big.NewInt(int64(val.CommissionRate)))
		commission.Div(commission, big.NewInt(int64(params.CommissionRateBase)))
		total.Sub(total, commission)
	}
	per, residue := new(big.Int).QuoRem(total, val.Stake, new(big.Int))
	selfReward := new(big.Int).Mul(per, val.SelfStake)
	selfReward.Add(selfReward, commission)
	db.AddBalance(val.Coinbase, selfReward)
	for _, dlg := range val.Delegations {
		db.AddBalance(dlg.Delegator, new(big.Int).Mul(per, dlg.Stake))
	}
	if val.IsOffline() {
		db.AddBalance(val.Coinbase, residue)
		residue = new(big.Int)
	}
	newVal := val.PartialCopy()
	newVal.RewardsDistributable.Set(residue)
	newVal.RewardsLastSettled = w.height
	db.UpdateValidator(newVal, val)
}

// apply performs one abstract action on the real StateDB with the staking module's call pattern.
func (w *world) apply(op *Op) (res map[string]interface{}) {
	res = map[string]interface{}{}
	defer func() {
		if r := recover(); r != nil {
			res["panic"] = fmt.Sprint(r)
		}
	}()
	st := w.st
	var val *state.Validator
	if op.V >= 1 && op.V <= nVals {
		switch op.Op {
		case "Create", "Remove":
		default:
			val = st.GetValidatorByMainAddr(w.vals[op.V].Addr)
			if val == nil {
				res["refused"] = true
				return
			}
		}
	}
	switch op.Op {
	case "Create": // teCreate
		k := w.vals[op.V]
		tok := bi(op.D)
		if st.CreateValidator(fmt.Sprintf("v%d", op.V), k.Addr, k.Addr, roles[op.V], k.PubComp, k.BlsPkB, tok, params.YOUToStake(tok),
			params.AcceptDelegation, 1000, 1000, params.ValidatorOffline) == nil {
			res["refused"] = true
		}
	case "Deposit": // teDeposit
		newVal := val.PartialCopy()
		newVal.SelfToken.Add(newVal.SelfToken, bi(op.D))
		newStake := params.YOUToStake(newVal.SelfToken)
		delta := new(big.Int).Sub(newStake, newVal.SelfStake)
		newVal.SelfStake.Set(newStake)
		newVal.Token.Add(newVal.Token, bi(op.D))
		newVal.Stake.Add(newVal.Stake, delta)
		st.UpdateValidator(newVal, val)
	case "Withdraw": // teWithdraw
		newVal := val.PartialCopy()
		withdraw := bi(op.D)
		if withdraw.Cmp(newVal.SelfToken) > 0 {
			withdraw = new(big.Int).Set(newVal.SelfToken)
		} else {
			remain := new(big.Int).Sub(newVal.SelfToken, withdraw)
			if params.YOUToStake(remain).Uint64() < minSelfStake {
				withdraw.Set(val.SelfToken)
			}
		}
		newVal.SelfToken.Sub(newVal.SelfToken, withdraw)
		newStake := params.YOUToStake(newVal.SelfToken)
		delta := new(big.Int).Sub(newVal.SelfStake, newStake)
		newVal.SelfStake.Set(newStake)
		if newVal.IsOnline() && (newStake.Uint64() < minSelfStake || newVal.Stake.Uint64() < minStake+delta.Uint64()) {
			newVal.Status = params.ValidatorOffline
		}
		newVal.Token.Sub(newVal.Token, withdraw)
		newVal.Stake.Sub(newVal.Stake, delta)
		st.UpdateValidator(newVal, val)
	case "Status": // teChangeStatus
		status := params.ValidatorOffline
		if op.On {
			status = params.ValidatorOnline
		}
		if status == params.ValidatorOnline && val.Stake.Uint64() < minStake {
			res["refused"] = true
			break
		}
		newVal := val.PartialCopy()
		newVal.Status = status
		newVal.UpdateLastActive(w.height)
		st.UpdateValidator(newVal, val)
	case "Delegate": // teDelegationAdd
		if val.Expelled || val.AcceptDelegation == params.NotAcceptDelegation {
			res["refused"] = true
			break
		}
		st.UpdateDelegation(w.accts[op.A].Addr, val, bi(op.D))
	case "Undelegate": // teDelegationSub
		delegator := w.accts[op.A].Addr
		dfrom := val.GetDelegationFrom(delegator)
		withdraw := bi(op.D)
		if dfrom == nil {
			res["refused"] = true
			break
		} else if withdraw.Cmp(dfrom.Token) > 0 {
			withdraw = new(big.Int).Set(dfrom.Token)
		}
		if withdraw.Sign() <= 0 {
			res["refused"] = true
			break
		}
		remain := new(big.Int).Sub(dfrom.Token, withdraw)
		if remain.Sign() > 0 && remain.Cmp(bi(minDelegation)) < 0 {
			withdraw.Add(withdraw, remain)
		}
		newVal, _, _, _ := st.UpdateDelegation(delegator, val, new(big.Int).Neg(withdraw))
		if newVal.IsOnline() && newVal.Stake.Uint64() < minStake {
			old := newVal.PartialCopy()
			newVal.Status = params.ValidatorOffline // in place, as teDelegationSub does (newVal is already held by the journal)
			st.UpdateValidator(newVal, old)
			res["forced"] = true
		}
	case "Reward": // rewardsToPool: the live record is modified in place, old is its partial copy
		old := val.PartialCopy()
		val.UpdateLastActive(w.height)
		val.AddTotalRewards(bi(op.D))
		st.UpdateValidator(val, old)
	case "Distribute": // distributeRewards: reward on a partial copy, then forced settlement with the record read before
		if val.IsOffline() {
			w.settle(val)
			break
		}
		newVal := val.PartialCopy()
		newVal.AddTotalRewards(bi(op.D))
		st.UpdateValidator(newVal, val)
		w.settle(val)
	case "Settle": // processPendingTxs: settleValidatorRewards on the current record
		w.settle(val)
	case "Penalise": // inactivitySlashing / double sign -> doPenalize -> takePenalty (the real staking code)
		hdr := &types.Header{Number: new(big.Int).SetUint64(w.height)}
		staking.VerifDoPenalize(w.cfg, op.On, st, hdr, val, bi(op.D))
	case "Recover": // recoverFromExpiredExpelling: in place
		old := val.PartialCopy()
		val.Expelled = false
		val.ExpelExpired = 0
		st.UpdateValidator(val, old)
	case "Remove":
		if !st.RemoveValidator(w.vals[op.V].Addr) {
			res["refused"] = true
		}
	case "Snapshot":
		w.ids[op.Id] = st.Snapshot()
	case "Revert":
		st.RevertToSnapshot(w.ids[op.Id])
	case "Finalise":
		st.Finalise(true)
	case "Root":
		st.IntermediateRoot(true)
		w.height++
	case "Commit":
		if _, _, _, err := st.Commit(true); err != nil {
			panic(err)
		}
		w.height++
	case "Reload":
		r1, r2, r3, err := st.Commit(true)
		if err != nil {
			panic(err)
		}
		st2, err := state.New(r1, r2, r3, st.Database())
		if err != nil {
			panic(err)
		}
		w.st = st2
		w.height++
		// what consensus reads from a freshly opened state (a separate throw-away object: GetValidators caches its result)
		if st3, err := state.New(r1, r2, r3, st.Database()); err == nil {
			gv := []int{}
			for _, v := range st3.GetValidators().List() {
				gv = append(gv, w.vIdx[v.MainAddress()])
			}
			sort.Ints(gv)
			res["gv"] = gv
		}
	case "Copy":
		w.other = st
		w.st = st.Copy()
	case "Swap":
		if w.other == nil {
			res["refused"] = true
			break
		}
		w.st, w.other = w.other, w.st
	case "ForUpdate": // the read the end-of-period code does (distributeRewards, slashingAndRecoveringYouV5)
		fu := []int{}
		for _, v := range st.GetValidatorsForUpdate() {
			if v == nil {
				fu = append(fu, -1) // the index names an address without a record: the list holds a nil record
			} else if !v.VerifDeleted() {
				fu = append(fu, w.vIdx[v.MainAddress()])
			}
		}
		sort.Ints(fu)
		res["fu"] = fu
	default:
		panic("unknown op " + op.Op)
	}
	return res
}

type dlg struct {
	A int   `json:"a"`
	T int64 `json:"t"`
	S int64 `json:"s"`
}

type valObs struct {
	Ex   bool   `json:"ex"`
	Role string `json:"role,omitempty"`
	On   bool   `json:"on"`
	Tok  int64  `json:"tok"`
	Stk  int64  `json:"stk"`
	St   int64  `json:"st"`
	Ss   int64  `json:"ss"`
	Dl   []dlg  `json:"dl"`
	Rew  int64  `json:"rew"`
	Exp  bool   `json:"exp"`
}

// absent is the projection of a validator that does not exist (only "ex" is ever read then)
type absent struct {
	Ex bool `json:"ex"`
}

type acctObs struct {
	Dbal int64 `json:"dbal"`
	To   []int `json:"to"`
}

type obs struct {
	V  []interface{}      `json:"v"`
	St map[string][]int64 `json:"st"`
	Ix []int              `json:"ix"`
	A  []acctObs          `json:"a"`
}

func roleName(r params.ValidatorRole) string {
	switch r {
	case params.RoleChancellor:
		return "c"
	case params.RoleSenator:
		return "s"
	case params.RoleHouse:
		return "h"
	}
	return "?"
}

// small maps an integer of the code onto the trace encoding; values outside 31 bits (a wrapped counter) become -1.
func small(b *big.Int) int64 {
	if b == nil {
		return 0
	}
	if !b.IsInt64() || b.Int64() > 1<<30 || b.Int64() < -(1<<30) {
		return -1
	}
	return b.Int64()
}

// smallU reads a counter as a signed number, so that a counter decremented below zero (it wraps) shows as -1, -2, ...
func smallU(n uint64) int64 {
	if s := int64(n); s >= -(1<<30) && s <= 1<<30 {
		return s
	}
	return -(1 << 30)
}

// project reads the observables through getters only.
func (w *world) project() (o *obs, perr string) {
	defer func() {
		if r := recover(); r != nil {
			perr = fmt.Sprint(r)
		}
	}()
	st := w.st
	o = &obs{St: map[string][]int64{}, Ix: []int{}}
	for i := 1; i <= nVals; i++ {
		v := st.GetValidatorByMainAddr(w.vals[i].Addr)
		if v == nil {
			o.V = append(o.V, absent{})
			continue
		}
		var vo valObs
		{
			vo = valObs{Ex: true, Role: roleName(v.Role), On: v.Status == params.ValidatorOnline, Tok: small(v.Token), Stk: small(v.Stake),
				St: small(v.SelfToken), Ss: small(v.SelfStake), Dl: []dlg{}, Rew: small(v.RewardsDistributable), Exp: v.Expelled}
			for _, d := range v.Delegations {
				vo.Dl = append(vo.Dl, dlg{w.aIdx[d.Delegator], small(d.Token), small(d.Stake)})
			}
		}
		o.V = append(o.V, vo)
	}
	if stat, err := st.GetValidatorsStat(); err == nil && stat != nil {
		put := func(name string, k *state.ValKindStat) {
			o.St[name] = []int64{small(k.GetOnlineStake()), small(k.GetOnlineToken()), smallU(k.GetCount()),
				small(k.GetOfflineStake()), small(k.GetOfflineToken()), smallU(k.GetOfflineCount())}
		}
		put("all", stat.GetByKind(params.KindValidator))
		put("chamber", stat.GetByKind(params.KindChamber))
		put("house", stat.GetByKind(params.KindHouse))
		put("c", stat.GetByRole(params.RoleChancellor))
		put("s", stat.GetByRole(params.RoleSenator))
		put("h", stat.GetByRole(params.RoleHouse))
	}
	for _, a := range st.VerifValidatorIndex() {
		o.Ix = append(o.Ix, w.vIdx[a])
	}
	sort.Ints(o.Ix)
	for i := 1; i <= nAccts; i++ {
		a := w.accts[i].Addr
		ao := acctObs{Dbal: small(st.VerifDelegationBalance(a)), To: []int{}}
		for _, v := range st.VerifDelegations(a) {
			ao.To = append(ao.To, w.vIdx[v])
		}
		sort.Ints(ao.To)
		o.A = append(o.A, ao)
	}
	return o, ""
}

func run(env *drive.Env) error {
	var beh []Op
	for env.Next(&beh) {
		w := newWorld()
		for i := range beh {
			op := &beh[i]
			res := w.apply(op)
			ev := map[string]interface{}{"ev": op.Op, "args": op}
			for k, v := range res {
				ev[k] = v
			}
			if res["panic"] == nil && op.B == 1 {
				ev["blind"] = true
				delete(ev, "gv")
			} else if res["panic"] == nil {
				o, perr := w.project()
				if perr != "" {
					ev["panic"] = "projection: " + perr
				} else {
					ev["obs"] = o
					if w.other != nil {
						// both sides of a copy must keep matching their own records
						main := w.st
						w.st = w.other
						oo, operr := w.project()
						w.st = main
						if operr != "" {
							ev["panic"] = "projection of the other side: " + operr
							delete(ev, "obs")
						} else {
							ev["oobs"] = oo
						}
					}
				}
			}
			env.Emit(ev)
			if ev["panic"] != nil {
				break
			}
		}
		beh = nil
	}
	return nil
}
