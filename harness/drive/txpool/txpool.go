// Package txpool drives behaviours of spec/TxPool.tla through the real core.TxPool (C20).
//
// The pool runs over a stub chain whose head state the driver sets (fresh in-memory StateDB per head, so the pool's own
// copy is never mutated behind its back) and which serves real blocks for the reorg path of TxPool.reset (re-injection).
// Every abstract action maps onto a synchronous entry point (AddRemotesSync / AddLocals wait for the reorg step,
// VerifReset waits on the done channel of requestReset, SetGasPrice and the eviction pass run under the pool lock), so
// the views are read at quiescence: Content(), Pending(), Stats(), Nonce(a), Status(hashes), Locals(), GasPrice().
//
// A transaction [a, n, p, v] is a real signed transfer of account a with nonce n, gas price p, gas 21000 and value
// v*21000, so that its cost is (p+v)*21000; balances are multiples of 21000.
package txpool

import (
	"encoding/json"
	"fmt"
	"math/big"
	"math/rand"
	"runtime/debug"
	"sort"
	"strings"
	"sync"
	"sync/atomic"
	"time"

	"github.com/youchainhq/go-youchain/common"
	"github.com/youchainhq/go-youchain/core"
	"github.com/youchainhq/go-youchain/core/state"
	"github.com/youchainhq/go-youchain/core/types"
	"github.com/youchainhq/go-youchain/event"
	"github.com/youchainhq/go-youchain/logging"
	"github.com/youchainhq/go-youchain/params"
	"verif/harness/drive"
	"verif/harness/fixture"
)

func init() { drive.Register("txpool", run) }

const unit = 21000

// T is the abstract transaction.
type T struct {
	A int `json:"a"`
	N int `json:"n"`
	P int `json:"p"`
	V int `json:"v"`
}

// Op is one abstract action.
type Op struct {
	Op    string `json:"op"`
	Accts []int  `json:"accts,omitempty"`
	AS    int    `json:"as,omitempty"`
	GS    int    `json:"gs,omitempty"`
	AQ    int    `json:"aq,omitempty"`
	GQ    int    `json:"gq,omitempty"`
	Bump  int    `json:"bump,omitempty"`
	Ts    []T    `json:"ts,omitempty"`
	Local bool   `json:"local,omitempty"`
	A     int    `json:"a,omitempty"`
	N     int    `json:"n"`
	B     int    `json:"b"`
	P     int    `json:"p,omitempty"`
}

// ---------------------------------------------------------------- stub chain
type chain struct {
	mu        sync.RWMutex
	statedb   *state.StateDB
	head      *types.Block
	blocks    map[common.Hash]*types.Block
	feed      *event.Feed
	processor core.Processor
}

func (c *chain) Processor() core.Processor { return c.processor }
func (c *chain) CurrentBlock() *types.Block {
	c.mu.RLock()
	defer c.mu.RUnlock()
	return c.head
}
func (c *chain) GetBlock(hash common.Hash, number uint64) *types.Block {
	c.mu.RLock()
	defer c.mu.RUnlock()
	return c.blocks[hash]
}
func (c *chain) StateAt(common.Hash, common.Hash, common.Hash) (*state.StateDB, error) {
	c.mu.RLock()
	defer c.mu.RUnlock()
	return c.statedb, nil
}

// advance installs a new head block and its state.
func (c *chain) advance(b *types.Block, st *state.StateDB) {
	c.mu.Lock()
	defer c.mu.Unlock()
	c.blocks[b.Hash()] = b
	c.statedb = st
	c.head = b
}
func (c *chain) SubscribeChainHeadEvent(ch chan<- core.ChainHeadEvent) event.Subscription {
	return c.feed.Subscribe(ch)
}

func (c *chain) put(b *types.Block) {
	c.mu.Lock()
	defer c.mu.Unlock()
	c.blocks[b.Hash()] = b
}

func mkBlock(number uint64, parent common.Hash, extra string, txs []*types.Transaction) *types.Block {
	h := &types.Header{Number: new(big.Int).SetUint64(number), ParentHash: parent, GasLimit: 1000000, Extra: []byte(extra),
		Subsidy: big.NewInt(0), GasRewards: big.NewInt(0), Time: 1000 + number}
	return types.NewBlock(h, txs, nil)
}

// ---------------------------------------------------------------- world
type world struct {
	na     int
	keys   []*fixture.Key
	idx    map[common.Address]int
	ch     *chain
	pool   *core.TxPool
	sn, sb []int // the chain state the pool was last reset to (index a-1)
	known  map[common.Hash]T
	order  []common.Hash
	last   *lastBlock
	cfg    *Op
}

type lastBlock struct {
	blk    *types.Block
	a      int
	pn, pb int
	txs    []T
}

var (
	txCache = map[T]*types.Transaction{}
	signer  types.Signer
)

func (w *world) tx(t T) *types.Transaction {
	x, ok := txCache[t]
	if !ok {
		raw := types.NewTransaction(uint64(t.N), common.BigToAddress(big.NewInt(0xdead)), big.NewInt(int64(t.V*unit)), unit,
			big.NewInt(int64(t.P)), nil)
		var err error
		x, err = types.SignTx(raw, signer, w.keys[t.A].Priv)
		if err != nil {
			panic(err)
		}
		txCache[t] = x
	}
	if _, seen := w.known[x.Hash()]; !seen {
		w.known[x.Hash()] = t
		w.order = append(w.order, x.Hash())
	}
	return x
}

func (w *world) newState() *state.StateDB {
	st, _ := fixture.NewMemState()
	for a := 1; a <= w.na; a++ {
		st.SetNonce(w.keys[a].Addr, uint64(w.sn[a-1]))
		st.AddBalance(w.keys[a].Addr, big.NewInt(int64(w.sb[a-1]*unit)))
	}
	return st
}

func newWorld(op *Op) *world {
	w := &world{na: len(op.Accts), known: map[common.Hash]T{}, idx: map[common.Address]int{}, cfg: op}
	w.keys = fixture.Keys("txpool", w.na)
	for a := 1; a <= w.na; a++ {
		w.idx[w.keys[a].Addr] = a
		w.sn = append(w.sn, 0)
		w.sb = append(w.sb, 4)
	}
	w.ch = &chain{blocks: map[common.Hash]*types.Block{}, feed: new(event.Feed), processor: core.NewStateProcessor(nil, nil)}
	w.ch.head = mkBlock(1, common.Hash{}, "verif-genesis", nil)
	w.ch.put(w.ch.head)
	w.ch.statedb = w.newState()
	cfg := core.TxPoolConfig{Journal: "", NoLocals: false, Rejournal: time.Hour, PriceLimit: 1, PriceBump: uint64(op.Bump),
		AccountSlots: uint64(op.AS), GlobalSlots: uint64(op.GS), AccountQueue: uint64(op.AQ), GlobalQueue: uint64(op.GQ), Lifetime: time.Hour}
	w.pool = core.NewTxPool(cfg, w.ch)
	return w
}

func (w *world) close() { w.pool.Stop() }

func errClass(err error) string {
	switch {
	case err == nil:
		return "ok"
	case err == core.ErrUnderpriced:
		return "underpriced"
	case err == core.ErrNonceTooLow:
		return "nonce"
	case err == core.ErrInsufficientFunds:
		return "funds"
	case err == core.ErrReplaceUnderpriced:
		return "replace"
	case strings.HasPrefix(err.Error(), "know transaction"):
		return "known"
	default:
		return "other:" + err.Error()
	}
}

func (w *world) abs(list types.Transactions) [][]int {
	out := [][]int{}
	for _, x := range list {
		t, ok := w.known[x.Hash()]
		if !ok {
			out = append(out, []int{0, int(x.Nonce()), 0, 0})
			continue
		}
		out = append(out, []int{t.N, t.P, t.V})
	}
	return out
}

func (w *world) perAcct(m map[common.Address]types.Transactions) ([][][]int, int) {
	out := make([][][]int, w.na)
	for i := range out {
		out[i] = [][]int{}
	}
	foreign := 0
	for addr, list := range m {
		a, ok := w.idx[addr]
		if !ok {
			foreign += len(list)
			continue
		}
		out[a-1] = w.abs(list)
	}
	return out, foreign
}

// obs reads the views of the pool through its exported API.
func (w *world) obs() map[string]interface{} {
	pend, que := w.pool.Content()
	miner, _ := w.pool.Pending()
	np, nq := w.pool.Stats()
	o := map[string]interface{}{}
	var f1, f2, f3 int
	o["pend"], f1 = w.perAcct(pend)
	o["que"], f2 = w.perAcct(que)
	o["miner"], f3 = w.perAcct(miner)
	o["foreign"] = f1 + f2 + f3
	o["stats"] = []int{np, nq}
	nonce := []int{}
	for a := 1; a <= w.na; a++ {
		nonce = append(nonce, int(w.pool.Nonce(w.keys[a].Addr)))
	}
	o["nonce"] = nonce
	// status of every transaction this behaviour ever created: [a, n, p, v, status] for those the pool knows
	st := w.pool.Status(w.order)
	known := [][]int{}
	for i, h := range w.order {
		if st[i] != core.TxStatusUnknown {
			t := w.known[h]
			known = append(known, []int{t.A, t.N, t.P, t.V, int(st[i])})
		}
	}
	sort.Slice(known, func(i, j int) bool {
		for k := 0; k < 4; k++ {
			if known[i][k] != known[j][k] {
				return known[i][k] < known[j][k]
			}
		}
		return false
	})
	o["known"] = known
	loc := []int{}
	for _, addr := range w.pool.Locals() {
		if a, ok := w.idx[addr]; ok {
			loc = append(loc, a)
		}
	}
	sort.Ints(loc)
	o["loc"] = loc
	o["sn"], o["sb"] = append([]int{}, w.sn...), append([]int{}, w.sb...)
	o["gp"] = int(w.pool.GasPrice().Int64())
	all, priced := w.pool.VerifInternals()
	o["int"] = []int{all, priced}
	return o
}

func (w *world) apply(op *Op) (res map[string]interface{}) {
	res = map[string]interface{}{}
	defer func() {
		if r := recover(); r != nil {
			res["panic"] = fmt.Sprint(r) + " " + string(debug.Stack())
		}
	}()
	switch op.Op {
	case "AddSync":
		txs := make([]*types.Transaction, 0, len(op.Ts))
		for _, t := range op.Ts {
			txs = append(txs, w.tx(t))
		}
		var errs []error
		if op.Local {
			errs = w.pool.AddLocals(txs)
		} else {
			errs = w.pool.AddRemotesSync(txs)
		}
		cls := []string{}
		for _, e := range errs {
			cls = append(cls, errClass(e))
		}
		res["errs"] = cls
	case "ResetSync":
		a := op.A
		mined := []T{}
		var txs []*types.Transaction
		if op.N > w.sn[a-1] {
			// the block that advances the nonce holds the pool's pending transactions of the account where it has them
			// (what a miner would have taken) and transactions the pool never saw otherwise
			pend, _ := w.pool.Pending()
			have := map[int]*types.Transaction{}
			for _, x := range pend[w.keys[a].Addr] {
				have[int(x.Nonce())] = x
			}
			for k := w.sn[a-1]; k < op.N; k++ {
				if x, ok := have[k]; ok {
					txs = append(txs, x)
					mined = append(mined, w.known[x.Hash()])
				} else {
					t := T{A: a, N: k, P: 1, V: 0}
					txs = append(txs, w.tx(t))
					mined = append(mined, t)
				}
			}
		}
		old := w.ch.CurrentBlock()
		blk := mkBlock(old.NumberU64()+1, old.Hash(), "verif-main", txs)
		if op.N > w.sn[a-1] {
			w.last = &lastBlock{blk: blk, a: a, pn: w.sn[a-1], pb: w.sb[a-1], txs: mined}
		} else {
			w.last = nil
		}
		w.sn[a-1], w.sb[a-1] = op.N, op.B
		w.ch.advance(blk, w.newState())
		w.pool.VerifReset(old.Header(), blk.Header())
		res["mined"] = mined
	case "ResetBack":
		if w.last == nil {
			res["skipped"] = true
			break
		}
		l := w.last
		sib := mkBlock(l.blk.NumberU64(), l.blk.ParentHash(), "verif-sibling", nil)
		w.sn[l.a-1], w.sb[l.a-1] = l.pn, l.pb
		w.ch.advance(sib, w.newState())
		w.pool.VerifReset(l.blk.Header(), sib.Header())
		res["reinj"] = l.txs
		w.last = nil
	case "SetGasPrice":
		w.pool.SetGasPrice(big.NewInt(int64(op.P)))
	case "Evict":
		w.pool.VerifEvictPass()
	default:
		panic("unknown op " + op.Op)
	}
	return res
}

func args(op *Op) map[string]interface{} {
	switch op.Op {
	case "AddSync":
		return map[string]interface{}{"ts": op.Ts, "local": op.Local}
	case "ResetSync":
		return map[string]interface{}{"a": op.A, "n": op.N, "b": op.B}
	case "SetGasPrice":
		return map[string]interface{}{"p": op.P}
	default:
		return map[string]interface{}{}
	}
}

func run(env *drive.Env) error {
	params.InitNetworkId(params.NetworkIdForTestCase)
	signer = types.MakeSigner(big.NewInt(0))
	if env.OptInt("log", 0) == 0 {
		logging.Verbosity(logging.LvlCrit)
	}
	if env.Opt("mode", "") == "stress" {
		return stress(env)
	}
	conc := env.Opt("mode", "") == "conc"
	var beh []Op
	for env.Next(&beh) {
		if len(beh) == 0 || beh[0].Op != "Init" {
			return fmt.Errorf("behaviour %d does not start with Init", env.T)
		}
		w := newWorld(&beh[0])
		env.Emit(map[string]interface{}{"ev": "Init", "args": map[string]interface{}{"na": w.na, "as": beh[0].AS, "gs": beh[0].GS,
			"aq": beh[0].AQ, "gq": beh[0].GQ, "bump": beh[0].Bump}, "obs": w.obs()})
		for i := 1; i < len(beh); i++ {
			op := &beh[i]
			var res map[string]interface{}
			var reads map[string]interface{}
			if conc {
				res, reads = w.applyConcurrently(op, env.OptInt("readers", 3))
			} else {
				res = w.apply(op)
			}
			ev := map[string]interface{}{"ev": op.Op, "args": args(op), "res": res}
			if reads != nil {
				ev["reads"] = reads
			}
			if res["panic"] != nil {
				ev["panic"] = res["panic"]
				env.Emit(ev)
				break
			}
			ev["obs"] = w.obs()
			env.Emit(ev)
		}
		w.close()
		beh = nil
	}
	return nil
}

// stress is the concurrent driver of the thorough tier: per round, goroutines submit remote and local transactions through
// the asynchronous entry points, move the head, change the price floor, run the eviction pass and read the views, all at
// once; after the round the driver waits for quiescence (VerifSync: a reorg run that starts after everything requested
// before) and samples the views.  Head changes are child blocks only (no re-injection).  Built with -race by the check.
func stress(env *drive.Env) error {
	traces := env.OptInt("traces", 20)
	rounds := env.OptInt("rounds", 25)
	limits := [][4]int{{1, 3, 1, 2}, {2, 3, 2, 2}, {1, 2, 1, 1}, {2, 4, 2, 3}}
	for b := 0; b < traces; b++ {
		rnd := rand.New(rand.NewSource(env.Seed*1000 + int64(b)))
		lim := limits[b%len(limits)]
		na := 2 + b%2
		accts := []int{}
		for a := 1; a <= na; a++ {
			accts = append(accts, a)
		}
		init := &Op{Op: "Init", Accts: accts, AS: lim[0], GS: lim[1], AQ: lim[2], GQ: lim[3], Bump: 10}
		env.Begin(b)
		w := newWorld(init)
		// every transaction of the alphabet is created up front: the driver's own tables are read-only afterwards
		var alphabet []T
		for a := 1; a <= na; a++ {
			for n := 0; n <= 3; n++ {
				for p := 1; p <= 2; p++ {
					for _, v := range []int{0, 2} {
						t := T{A: a, N: n, P: p, V: v}
						w.tx(t)
						alphabet = append(alphabet, t)
					}
				}
			}
		}
		env.Emit(map[string]interface{}{"ev": "Init", "args": map[string]interface{}{"na": w.na, "as": lim[0], "gs": lim[1], "aq": lim[2],
			"gq": lim[3], "bump": 10}, "obs": w.obs()})
		for r := 0; r < rounds; r++ {
			var wg sync.WaitGroup
			stop := make(chan struct{})
			pick := func(rr *rand.Rand) *types.Transaction { return txCache[alphabet[rr.Intn(len(alphabet))]] }
			seeds := []int64{rnd.Int63(), rnd.Int63(), rnd.Int63(), rnd.Int63(), rnd.Int63()}
			doReset, doPrice, doEvict, doLocal := rnd.Intn(2) == 0, rnd.Intn(3) == 0, rnd.Intn(4) == 0, rnd.Intn(4) == 0
			for g := 0; g < 2; g++ {
				wg.Add(1)
				go func(seed int64) {
					defer wg.Done()
					rr := rand.New(rand.NewSource(seed))
					for i := 0; i < 4; i++ {
						if rr.Intn(2) == 0 {
							w.pool.AddRemotes(types.Transactions{pick(rr)})
						} else {
							w.pool.AddRemotes(types.Transactions{pick(rr), pick(rr)})
						}
					}
				}(seeds[g])
			}
			if doLocal {
				wg.Add(1)
				go func(seed int64) {
					defer wg.Done()
					rr := rand.New(rand.NewSource(seed))
					w.pool.AddLocal(txCache[T{A: 1 + rr.Intn(na), N: rr.Intn(4), P: 1, V: 0}])
				}(seeds[2])
			}
			if doReset {
				wg.Add(1)
				go func(seed int64) {
					defer wg.Done()
					rr := rand.New(rand.NewSource(seed))
					a := 1 + rr.Intn(na)
					old := w.ch.CurrentBlock()
					blk := mkBlock(old.NumberU64()+1, old.Hash(), "verif-stress", nil)
					w.sn[a-1], w.sb[a-1] = rr.Intn(4), []int{1, 4}[rr.Intn(2)]
					w.ch.advance(blk, w.newState())
					w.pool.VerifReset(old.Header(), blk.Header())
				}(seeds[3])
			}
			if doPrice {
				wg.Add(1)
				go func(seed int64) {
					defer wg.Done()
					w.pool.SetGasPrice(big.NewInt(1 + seed%2))
				}(seeds[4])
			}
			if doEvict {
				wg.Add(1)
				go func() {
					defer wg.Done()
					w.pool.VerifEvictPass()
				}()
			}
			// a reader, as the RPC and the miner would
			rdone := make(chan struct{})
			go func() {
				defer close(rdone)
				for {
					select {
					case <-stop:
						return
					default:
					}
					w.pool.Content()
					w.pool.Pending()
					w.pool.Stats()
					w.pool.Nonce(w.keys[1].Addr)
				}
			}()
			wg.Wait()
			close(stop)
			<-rdone
			w.pool.VerifSync()
			env.Emit(map[string]interface{}{"ev": "Sample", "args": map[string]interface{}{"demoting": doReset || doPrice, "round": r},
				"res": map[string]interface{}{}, "obs": w.obs()})
		}
		w.close()
	}
	return nil
}

// ---------------------------------------------------------------- concurrent blocks
// applyConcurrently runs one writer step (the abstract action, through its synchronous entry point) while k reader
// goroutines, released by the same barrier, keep calling the read API of the pool (Nonce of every account, Stats, Content,
// Pending, Locals, Status of every transaction created so far) the way RPC, miner and protocol handlers do.  It returns the
// writer's result and, per API, the set of distinct values the readers saw; each of them must be the view of the pool at
// some point between the start and the end of the block (judged by spec/TxPool_Conc.tla).  Every transaction the step
// needs is created before the goroutines start, so the driver's own tables are only read concurrently.
type seen struct {
	mu sync.Mutex
	m  map[string]map[string]json.RawMessage
}

func (s *seen) add(api string, v interface{}) {
	b, err := json.Marshal(v)
	if err != nil {
		return
	}
	s.mu.Lock()
	if s.m[api] == nil {
		s.m[api] = map[string]json.RawMessage{}
	}
	s.m[api][string(b)] = b
	s.mu.Unlock()
}

func (w *world) readOnce(s *seen, hashes []common.Hash) {
	for a := 1; a <= w.na; a++ {
		s.add(fmt.Sprintf("nonce%d", a), int(w.pool.Nonce(w.keys[a].Addr)))
	}
	np, nq := w.pool.Stats()
	s.add("stats", []int{np, nq})
	pend, que := w.pool.Content()
	pa, _ := w.perAcct(pend)
	qa, _ := w.perAcct(que)
	s.add("content", []interface{}{pa, qa})
	miner, _ := w.pool.Pending()
	ma, _ := w.perAcct(miner)
	s.add("miner", ma)
	loc := []int{}
	for _, addr := range w.pool.Locals() {
		if a, ok := w.idx[addr]; ok {
			loc = append(loc, a)
		}
	}
	sort.Ints(loc)
	s.add("loc", loc)
	st := w.pool.Status(hashes)
	known := [][]int{}
	for i, h := range hashes {
		if st[i] != core.TxStatusUnknown {
			t := w.known[h]
			known = append(known, []int{t.A, t.N, t.P, t.V, int(st[i])})
		}
	}
	s.add("status", known)
}

func (w *world) applyConcurrently(op *Op, k int) (map[string]interface{}, map[string]interface{}) {
	// create what the step will need (signing touches the driver's tables)
	for _, t := range op.Ts {
		w.tx(t)
	}
	if op.Op == "ResetSync" {
		for n := 0; n <= op.N; n++ {
			w.tx(T{A: op.A, N: n, P: 1, V: 0})
		}
	}
	hashes := append([]common.Hash{}, w.order...)
	s := &seen{m: map[string]map[string]json.RawMessage{}}
	start := make(chan struct{})
	var stop int32
	var wg sync.WaitGroup
	for g := 0; g < k; g++ {
		wg.Add(1)
		go func() {
			defer wg.Done()
			<-start
			for {
				w.readOnce(s, hashes)
				if atomic.LoadInt32(&stop) != 0 {
					w.readOnce(s, hashes)
					return
				}
			}
		}()
	}
	close(start)
	res := w.apply(op)
	atomic.StoreInt32(&stop, 1)
	wg.Wait()
	reads := map[string]interface{}{}
	for api, vals := range s.m {
		keys := make([]string, 0, len(vals))
		for kk := range vals {
			keys = append(keys, kk)
		}
		sort.Strings(keys)
		list := []json.RawMessage{}
		for _, kk := range keys {
			list = append(list, vals[kk])
		}
		reads[api] = list
	}
	return res, reads
}
