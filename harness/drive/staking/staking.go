package stakingdrv

import (
	"fmt"
	"math/big"

	"github.com/youchainhq/go-youchain/common"
	"github.com/youchainhq/go-youchain/core/state"
	"github.com/youchainhq/go-youchain/core/types"
	"github.com/youchainhq/go-youchain/rlp"
	stk "github.com/youchainhq/go-youchain/staking"
	"verif/harness/drive"
	"verif/harness/fixture"
)

func init() { drive.Register("staking", run) }

// CfgFromEnv reads the chain-level parameter table from the driver options.
func CfgFromEnv(env *drive.Env) Cfg {
	c := DefaultCfg()
	c.Period = uint64(env.OptInt("period", int(c.Period)))
	c.Retention = c.Period
	c.MaxRewardsPeriod = uint64(env.OptInt("mrp", int(c.MaxRewardsPeriod)))
	c.InactWait = uint64(env.OptInt("inact", int(c.InactWait)))
	c.PenaltyInactive = uint64(env.OptInt("pen", int(c.PenaltyInactive)))
	c.SubsidyThreshold = uint64(env.OptInt("sub", int(c.SubsidyThreshold)))
	c.MaxStake = uint64(env.OptInt("maxstake", int(c.MaxStake)))
	c.WithdrawDelay = uint64(env.OptInt("wdelay", int(c.WithdrawDelay)))
	c.Pool = int64(env.OptInt("pool", int(c.Pool)))
	c.GasLimit = uint64(env.OptInt("gaslimit", int(c.GasLimit)))
	c.StartV4 = env.OptInt("v4", 0) == 1
	return c
}

// FailObs is a take-effect failure announced in the end-of-block receipt.
type FailObs struct {
	H     string `json:"h"`
	Topic string `json:"topic"`
	From  string `json:"from"`
	X     int64  `json:"x"`
}

// SlashObs is a penalty announced in the end-of-block receipt.
type SlashObs struct {
	V     string      `json:"v"`
	Total int64       `json:"total"`
	Type  int         `json:"type"`
	Wq    []SlashedWq `json:"wq"` // withdraw records the penalty was taken from, with what is left of them
}

// SlashedWq is a withdraw record named by a slashing log.
type SlashedWq struct {
	Id  string `json:"id"`
	Fin int64  `json:"fin"`
}

// DecodeEndReceipt extracts what the staking module's receipt announces (failures, penalties, proposer reward).
func (w *World) DecodeEndReceipt(r *types.Receipt) (fails []FailObs, slashes []SlashObs, proposer int64) {
	fails, slashes = []FailObs{}, []SlashObs{}
	if r == nil {
		return
	}
	tDep, tDlg := common.StringToHash(stk.LogTopicDepositFailed), common.StringToHash(stk.LogTopicDelegationAddFailed)
	tSl, tPr := common.StringToHash(stk.LogTopicSlashing), common.StringToHash(stk.LogTopicProposerRewards)
	for _, l := range r.Logs {
		if len(l.Topics) == 0 {
			continue
		}
		switch l.Topics[0] {
		case tDep, tDlg:
			f := FailObs{H: l.TxHash.Hex()[2:10], Topic: "deposit_failed", From: "-"}
			if l.Topics[0] == tDlg {
				f.Topic = "delegation_add_failed"
			}
			if info, ok := w.TxKind[l.TxHash]; ok {
				f.From, f.X = info.From, info.Detained
			}
			fails = append(fails, f)
		case tSl:
			var sd stk.SlashDataV5
			if err := rlp.DecodeBytes(l.Data, &sd); err == nil {
				so := SlashObs{V: w.name(sd.MainAddress), Total: fixture.I(sd.Total), Type: int(sd.Type), Wq: []SlashedWq{}}
				for _, fw := range sd.FromWithdraw {
					if fw != nil && fw.Record != nil {
						so.Wq = append(so.Wq, SlashedWq{Id: fmt.Sprintf("%s:%d", w.name(fw.Record.Operator), fw.Record.Nonce), Fin: fixture.I(fw.Record.FinalBalance)})
					}
				}
				slashes = append(slashes, so)
			} else {
				slashes = append(slashes, SlashObs{V: "undecodable", Total: 0, Type: -1, Wq: []SlashedWq{}})
			}
		case tPr:
			proposer = fixture.I(new(big.Int).SetBytes(l.Data))
		}
	}
	return
}

func run(env *drive.Env) error {
	Install(CfgFromEnv(env))
	per := Params().StakingTrieFrequency
	gap := Params().MaxRewardsPeriod * per // forceSettleGap of distributeRewards
	var beh []ABlock
	for env.Next(&beh) {
		func() {
			defer func() {
				if r := recover(); r != nil {
					env.Emit(map[string]interface{}{"ev": "Panic", "panic": fmt.Sprint(r)})
				}
			}()
			w := NewWorld()
			defer w.Stop()
			st0, err := w.NextState(w.A)
			if err != nil {
				panic(err)
			}
			env.Emit(map[string]interface{}{"ev": "Block", "blk": 0, "pe": false, "imp": "", "cb": "-", "obs": w.ReadBuckets(st0, nil, true)})
			for bi := range beh {
				ab := &beh[bi]
				var n uint64
				hooks := &BuildHooks{
					Start: func(num uint64, st *state.StateDB, hdr *types.Header) { n = num },
					AfterTx: func(i int, a *ATx, r *TxResult, st *state.StateDB, hdr *types.Header) {
						env.Emit(map[string]interface{}{"ev": "Tx", "blk": n, "i": i, "k": a.K, "from": a.A, "v": a.V, "b": a.B, "x": a.X,
							"f": a.F, "c": a.C, "r": a.R, "p": r.Price, "refused": r.Refused, "failed": r.Failed, "err": r.Err, "herr": r.HandlerErr, "gas": r.GasUsed, "lim": r.GasLimit,
							"obs": w.ReadBuckets(st, hdr.GasRewards, false)})
					},
					AfterEnd: func(st *state.StateDB, hdr *types.Header, payouts []Payout, rcpt *types.Receipt) {
						fails, slashes, prop := w.DecodeEndReceipt(rcpt)
						if payouts == nil {
							payouts = []Payout{}
						}
						// after EndBlock the block's fees have been turned into rewards: nothing is in flight any more
						env.Emit(map[string]interface{}{"ev": "EndBlock", "blk": n, "pe": (n+1)%per == 0, "gr": fixture.I(hdr.GasRewards),
							"sub": fixture.I(hdr.Subsidy), "cb": ab.Cb, "gap": gap, "pay": payouts, "fails": fails, "slashes": slashes, "prop": prop,
							"obs": w.ReadBuckets(st, nil, false)})
					},
				}
				blk, _, err := w.BuildBlock(ab, hooks)
				if err != nil {
					env.Emit(map[string]interface{}{"ev": "BuildError", "blk": n, "err": err.Error()})
					return
				}
				imp := ""
				if err := w.B.Bc.InsertChain(types.Blocks{blk}); err != nil {
					imp = err.Error()
				}
				st, err := w.NextState(w.A)
				if err != nil {
					panic(err)
				}
				env.Emit(map[string]interface{}{"ev": "Block", "blk": n, "pe": (n+1)%per == 0, "imp": imp, "cb": ab.Cb, "obs": w.ReadBuckets(st, nil, true)})
			}
		}()
		beh = nil
	}
	return nil
}
