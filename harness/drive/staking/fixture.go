// Package stakingdrv holds the staking chain fixture (scaled protocol-version-5 parameters, solo engine, staking module
// registered, a builder chain A that follows the miner's sequence of exported calls and an independent validator chain B)
// and the C07 driver that executes histories generated from spec/Staking.tla on it.  The C06 driver reuses the fixture.
package stakingdrv

import (
	"encoding/binary"
	"fmt"
	"math/big"
	"os"
	"sort"

	"github.com/youchainhq/go-youchain/common"
	"github.com/youchainhq/go-youchain/consensus"
	"github.com/youchainhq/go-youchain/consensus/solo"
	"github.com/youchainhq/go-youchain/core"
	"github.com/youchainhq/go-youchain/core/state"
	"github.com/youchainhq/go-youchain/core/types"
	"github.com/youchainhq/go-youchain/core/vm"
	"github.com/youchainhq/go-youchain/event"
	"github.com/youchainhq/go-youchain/local"
	"github.com/youchainhq/go-youchain/logging"
	"github.com/youchainhq/go-youchain/params"
	"github.com/youchainhq/go-youchain/rlp"
	stk "github.com/youchainhq/go-youchain/staking"
	"github.com/youchainhq/go-youchain/youdb"
	"verif/harness/fixture"
)

// Cfg is the chain-level part of the scaled parameter table (DESIGN.md Appendix B).  It is process global
// (params.Versions), therefore one table per driver process.
type Cfg struct {
	Period           uint64 // StakingTrieFrequency
	MaxRewardsPeriod uint64
	WithdrawDelay    uint64
	Retention        uint64
	InactWait        uint64 // InactivityPenaltyWaitRounds
	PenaltyInactive  uint64 // PenaltyFractionForInactive (percent)
	SubsidyThreshold uint64
	MaxStake         uint64 // MaxStakes for every role (stake units)
	Pool             int64  // genesis balance of the rewards pool account (subsidies): well funded, nearly dry or empty
	GasLimit         uint64 // genesis block gas limit (8 000 000; 100 000 = a block that holds four transfers)
	// StartV4: genesis runs protocol version 4, whose table approves the upgrade to version 5 with scaled voting
	// parameters: proposal in block 1, switch of the header version in block 3, version-5 parameters from block 11 on
	StartV4 bool
}

// DefaultCfg is the table of Appendix B.
func DefaultCfg() Cfg {
	return Cfg{Period: 4, MaxRewardsPeriod: 2, WithdrawDelay: 6, Retention: 4, InactWait: 8, PenaltyInactive: 10,
		SubsidyThreshold: 1000, MaxStake: 150, Pool: 1000000, GasLimit: 8000000}
}

// LastHandlerErr is the reason the staking converter logged for the transaction applied last ("" = none).
var LastHandlerErr string

var installed bool
var installedCfg Cfg

// Install writes the scaled table into params.Versions[YouV5].  Must be called once, before any chain exists.
func Install(c Cfg) {
	if installed {
		panic("parameter table already installed in this process")
	}
	installed = true
	installedCfg = c
	if os.Getenv("VERIF_LOG") == "" { // VERIF_LOG=1 keeps the repository's own log output (debugging aid)
		// the staking converter reports the handler check that refused a transaction only in its log: keep that
		logging.Root().SetHandler(logging.FuncHandler(func(r *logging.Record) error {
			switch r.Msg {
			case "tx failed", "tx decode failed", "not enough gas for validator creation":
				LastHandlerErr = r.Msg
				for i := 0; i+1 < len(r.Ctx); i += 2 {
					if k, ok := r.Ctx[i].(string); ok && k == "err" {
						LastHandlerErr = fmt.Sprint(r.Ctx[i+1])
					}
				}
				if r.Msg != "tx failed" {
					LastHandlerErr = r.Msg
				}
			}
			return nil
		}))
	}
	params.InitNetworkId(params.NetworkIdForTestCase)
	params.StakeUint.SetInt64(10)
	v5 := params.Versions[params.YouV5].DeepCopy()
	v5.StakingTrieFrequency = c.Period
	v5.WithdrawDelay = c.WithdrawDelay
	v5.WithdrawRecordRetention = c.Retention
	v5.MaxRewardsPeriod = c.MaxRewardsPeriod
	v5.MinStakes = map[params.ValidatorRole]uint64{params.RoleChancellor: 2, params.RoleSenator: 2, params.RoleHouse: 1}
	v5.MinSelfStakes = map[params.ValidatorRole]uint64{params.RoleChancellor: 1, params.RoleSenator: 1, params.RoleHouse: 0}
	v5.MaxStakes = map[params.ValidatorRole]uint64{params.RoleChancellor: c.MaxStake, params.RoleSenator: c.MaxStake, params.RoleHouse: c.MaxStake}
	v5.SubsidyThreshold = c.SubsidyThreshold
	v5.MinDelegationTokens = big.NewInt(10)
	v5.MaxDelegationForValidator = 6 // a validator with several delegators can be penalised
	v5.MaxDelegationForDelegator = 2
	v5.InactivityPenaltyWaitRounds = c.InactWait
	v5.PenaltyFractionForInactive = c.PenaltyInactive
	v5.ExpelledRoundForInactive = 6 // longer than a period: a status change of an expelled validator can be refused
	v5.ExpelledRoundForDoubleSign = 8
	v5.StakeLookBack = 4 // blocks are imported one at a time (Appendix B)
	params.Versions[params.YouV5] = v5
	if c.StartV4 {
		v4 := v5.DeepCopy()
		v4.Version = params.YouV4
		v4.ApprovedUpgradeVersion = params.YouV5
		v4.UpgradeVoteRounds, v4.UpgradeThreshold, v4.MinUpgradeWaitRounds, v4.MaxUpgradeWaitRounds = 2, 2, 0, 3
		v4.InactivityPenaltyWaitRounds = 0
		params.Versions[params.YouV4] = v4
	}
}

// Params returns the installed table.
func Params() params.YouParams { return params.Versions[params.YouV5] }

// ---------------------------------------------------------------------------------------------- identities

// Who is one named identity of the closed world of a history.
type Who struct {
	Name string
	Key  *fixture.Key
	Addr common.Address
}

const (
	NUsers = 3
	NGen   = 3
	NNew   = 2
)

// ContractAddr holds the storage-refund contract: empty call data sets slot 0, any call data clears it.
var ContractAddr = common.HexToAddress("0xc0de")
var contractCode = common.FromHex("36600a57600160005500" + "5b600060005500")

// Node is one chain with its own database.
type Node struct {
	Db  youdb.Database
	Bc  *core.BlockChain
	St  *stk.Staking
	Mux *event.TypeMux
}

// World is the fixture of one history.
type World struct {
	A, B    *Node
	C       *Node // a second builder on the same genesis, created on demand: it builds sibling branches
	Who     map[string]*Who
	Names   map[common.Address]string
	Order   []string // all account names in a fixed order
	ValIds  []string // names of all validator identities (existing or not)
	Signer  types.Signer
	Genesis *core.Genesis
	TxKind  map[common.Hash]*TxInfo // transactions included so far (for decoding staking records)
	// GasLimit is the gas limit of the block under construction (for transactions whose gas limit is near it)
	GasLimit uint64
}

// TxInfo is what a pending staking transaction detains, decoded from the transaction itself.
type TxInfo struct {
	Id       string
	Kind     string
	From     string
	Val      string
	Detained int64
}

// ChainEngine is what a node needs from its engine: the consensus interface plus the staking module's vote check.
type ChainEngine interface {
	consensus.Engine
	CheckValidatorVotes(chain consensus.ChainReader, header *types.Header) (map[common.Address]bool, error)
}

func newNode(g *core.Genesis, eng ChainEngine) *Node {
	db := youdb.NewMemDatabase()
	g.MustCommit(db)
	if eng == nil {
		eng = solo.NewSolo()
	}
	// the chain posts its head events with `go mux.Post`: it needs a mux (without subscribers unless a miner is attached)
	mux := new(event.TypeMux)
	bc, err := core.NewBlockChain(db, eng, mux, params.ArchiveNode, local.FakeDetailDB())
	if err != nil {
		panic(err)
	}
	// no event mux: the staking module then starts no goroutines; evidences are handed over synchronously
	st := stk.NewStaking(nil)
	st.Register(bc.Processor())
	if err := st.Start(bc, eng); err != nil {
		panic(err)
	}
	return &Node{Db: db, Bc: bc, St: st, Mux: mux}
}

// Stop releases the goroutines of both chains.
func (w *World) Stop() {
	w.A.Bc.Stop()
	w.B.Bc.Stop()
	if w.C != nil {
		w.C.Bc.Stop()
	}
}

// GenesisTokens are the stakes of the three genesis validators (LU; stake unit 10): Chancellor, House, Senator.
var GenesisTokens = []int64{1000, 505, 300}

// NewWorld builds genesis and the two chains.
func NewWorld() *World { return NewWorldEngine(nil) }

// NewWorldEngine builds the world with the given engine on chain A (nil = solo); chain B always runs the plain solo engine.
func NewWorldEngine(engA ChainEngine) *World {
	w := &World{Who: map[string]*Who{}, Names: map[common.Address]string{}, Signer: types.MakeSigner(big.NewInt(0)),
		TxKind: map[common.Hash]*TxInfo{}}
	add := func(name string, k *fixture.Key, addr common.Address) {
		w.Who[name] = &Who{Name: name, Key: k, Addr: addr}
		w.Names[addr] = name
		w.Order = append(w.Order, name)
	}
	us, gs, ns := fixture.Keys("user", NUsers), fixture.Keys("gval", NGen), fixture.Keys("nval", NNew)
	for i := 1; i <= NUsers; i++ {
		add(fmt.Sprintf("u%d", i), us[i], us[i].Addr)
	}
	for i := 1; i <= NGen; i++ {
		add(fmt.Sprintf("g%d", i), gs[i], gs[i].Addr)
		w.ValIds = append(w.ValIds, fmt.Sprintf("g%d", i))
	}
	for i := 1; i <= NNew; i++ {
		add(fmt.Sprintf("n%d", i), ns[i], ns[i].Addr)
		w.ValIds = append(w.ValIds, fmt.Sprintf("n%d", i))
	}
	// an account that can pay for the gas of one cheap transfer only
	pk := fixture.Keys("poor", 1)[1]
	add("p1", pk, pk.Addr)
	yp := Params()
	add("c", nil, ContractAddr)
	add("pool", nil, yp.RewardsPoolAddress)
	add("pen", nil, yp.PenaltyTo)

	alloc := core.GenesisAlloc{}
	for i := 1; i <= NUsers; i++ {
		alloc[us[i].Addr] = core.GenesisAccount{Balance: big.NewInt(10000000)}
	}
	for i := 1; i <= NGen; i++ {
		alloc[gs[i].Addr] = core.GenesisAccount{Balance: big.NewInt(5000000)}
	}
	for i := 1; i <= NNew; i++ {
		alloc[ns[i].Addr] = core.GenesisAccount{Balance: big.NewInt(10000000)}
	}
	alloc[yp.RewardsPoolAddress] = core.GenesisAccount{Balance: big.NewInt(installedCfg.Pool)}
	alloc[pk.Addr] = core.GenesisAccount{Balance: big.NewInt(30000)}
	alloc[ContractAddr] = core.GenesisAccount{Balance: big.NewInt(0), Code: contractCode}
	vals := core.GenesisValidators{}
	roles := []params.ValidatorRole{params.RoleChancellor, params.RoleHouse, params.RoleSenator}
	for i := 1; i <= NGen; i++ {
		k := gs[i]
		vals[k.Addr] = core.GenesisValidator{Name: fmt.Sprintf("g%d", i), OperatorAddress: k.Addr, Coinbase: k.Addr,
			MainPubKey: k.PubComp, BlsPubKey: k.BlsPkB, Token: big.NewInt(GenesisTokens[i-1]), Role: roles[i-1],
			Status: params.ValidatorOnline}
	}
	w.Genesis = &core.Genesis{NetworkId: params.NetworkIdForTestCase, GasLimit: installedCfg.GasLimit, Alloc: alloc, Validators: vals,
		CurrVersion: params.YouV5}
	if installedCfg.StartV4 {
		w.Genesis.CurrVersion = params.YouV4
	}
	w.A, w.B = newNode(w.Genesis, engA), newNode(w.Genesis, nil)
	return w
}

func (w *World) name(a common.Address) string {
	if a == (common.Address{}) {
		return "-"
	}
	if n, ok := w.Names[a]; ok {
		return n
	}
	return "x" + a.Hex()[2:8]
}

// ---------------------------------------------------------------------------------------------- transactions

// ATx is one abstract transaction of a history (spec/Staking.tla, record TxRec).
type ATx struct {
	K string `json:"k"`           // kind
	A string `json:"a"`           // sender
	B string `json:"b"`           // second party: recipient of a transfer / of a withdrawal
	V string `json:"v"`           // validator
	X int64  `json:"x"`           // amount (LU)
	P int64  `json:"p"`           // gas price
	F int64  `json:"f"`           // flag: status (0/1), role (1..3), accept-delegation
	C int64  `json:"c"`           // commission rate (1/10000)
	R int64  `json:"r"`           // risk obligation (1/10000)
	G int64  `json:"g,omitempty"` // gas limit override (miner stage)
	Z string `json:"z,omitempty"` // variant: "op" (operator is not the sender), "pub" (malformed main key), "norcpt" (no recipient)
}

// ABlock is one abstract block.
type ABlock struct {
	Cb  string `json:"cb"`
	Txs []ATx  `json:"txs"`
	Ev  []AEv  `json:"ev,omitempty"` // evidences handed to the builder's staking module before the block (C06)
	// Rg > 0: before the importing node gets this block it is shown a sibling branch that replaces its last Rg blocks, so
	// that this block makes it switch back and re-adopt them (C06)
	Rg int `json:"rg,omitempty"`
	// Batch (on the first block of a history): the importing node gets the blocks in batches of this many per InsertChain
	// call (-1 = the whole chain in one call; 0 or 1 = one block at a time)
	Batch int `json:"batch,omitempty"`
}

// AEv is an abstract double-sign evidence against validator V for round = parent height + D, handed to the builder's
// staking module before the block is built.
type AEv struct {
	V string `json:"v"`
	D int    `json:"d"`
}

// MakeEvidence builds a EvidenceDoubleSignV5 with two valid BLS signatures of validator v over two different block
// hashes at (round, index 1).  It returns false when v is not in the look-back validator set of that round.
func (w *World) MakeEvidence(v string, round uint64) (stk.Evidence, bool) {
	who := w.Who[v]
	if who == nil || who.Key == nil {
		return stk.Evidence{}, false
	}
	rd, err := w.A.Bc.LookBackVldReaderForRound(round, false)
	if err != nil {
		return stk.Evidence{}, false
	}
	idx, ok := rd.GetValidators().GetIndex(who.Addr)
	if !ok {
		return stk.Evidence{}, false
	}
	ri := uint32(1)
	buf := make([]byte, 4)
	binary.BigEndian.PutUint32(buf, ri)
	rb := append(new(big.Int).SetUint64(round).Bytes(), buf...)
	hA, hB := common.Hash{0xaa, byte(round)}, common.Hash{0xbb, byte(round)}
	sA := who.Key.BlsSk.Sign(append(hA.Bytes(), rb...)).Compress().Bytes()
	sB := who.Key.BlsSk.Sign(append(hB.Bytes(), rb...)).Compress().Bytes()
	return stk.NewEvidence(stk.EvidenceDoubleSignV5{Round: round, RoundIndex: ri, SignerIdx: uint32(idx), VoteType: stk.Prevote,
		Signs: []*stk.SignInfo{{Hash: hA, Sign: sA}, {Hash: hB, Sign: sB}}}), true
}

// stakingData encodes a staking message the way staking.EncodeMessage does, but without the client-side PreCheck:
// a sender is free to submit a message that the handler will reject.
func stakingData(action stk.ActionType, payload stk.Msg) []byte {
	pl, err := rlp.EncodeToBytes(payload)
	if err != nil {
		panic(fmt.Sprintf("encode staking payload: %v", err))
	}
	bs, err := rlp.EncodeToBytes(&stk.Message{Action: action, Payload: pl})
	if err != nil {
		panic(fmt.Sprintf("encode staking message: %v", err))
	}
	return bs
}

// MakeTx maps an abstract transaction to a signed real one against the nonce the sender has in st.
func (w *World) MakeTx(a *ATx, st *state.StateDB) *types.Transaction {
	from := w.Who[a.A]
	if from == nil || from.Key == nil {
		panic("unknown sender " + a.A)
	}
	return w.MakeTxAt(a, st.GetNonce(from.Addr), st.GetBalance(from.Addr))
}

// MakeTxAt maps an abstract transaction to a signed real one with the given next nonce and current balance of the sender
// (pool submissions: the nonce is the pool's pending nonce).
func (w *World) MakeTxAt(a *ATx, nonce uint64, balance *big.Int) *types.Transaction {
	from := w.Who[a.A]
	if from == nil || from.Key == nil {
		panic("unknown sender " + a.A)
	}
	price := big.NewInt(a.P)
	if a.P == 0 {
		price = big.NewInt(1)
	}
	x := big.NewInt(a.X)
	var to common.Address
	var value = new(big.Int)
	var gas uint64 = 120000
	var data []byte
	vaddr := func() common.Address {
		if v := w.Who[a.V]; v != nil {
			return v.Addr
		}
		panic("unknown validator " + a.V)
	}
	sm := params.StakingModuleAddress
	switch a.K {
	case "transfer":
		to, value, gas = w.Who[a.B].Addr, x, params.TxGas
	case "nofunds": // value above the balance: refused by the EVM's CanTransfer (consensus error), reverted by the builder
		to, gas = w.Who[a.B].Addr, params.TxGas
		value = new(big.Int).Add(balance, big.NewInt(1))
	case "badnonce": // refused up front
		to, value, gas = w.Who[a.B].Addr, x, params.TxGas
		nonce += 3
	case "lownonce": // a nonce already used: refused up front
		to, value, gas = w.Who[a.B].Addr, x, params.TxGas
		if nonce > 0 {
			nonce--
		}
	case "poor": // the sender cannot pay for the gas: refused up front
		to, value, gas = w.Who[a.B].Addr, x, params.TxGas
	case "lowgas": // gas limit below the intrinsic gas: refused after gas was bought
		to, value, gas = w.Who[a.B].Addr, x, params.TxGas-1000
	case "callset":
		to, gas = ContractAddr, 100000
	case "callclear":
		to, gas, data = ContractAddr, 100000, []byte{1}
	case "create":
		v := w.Who[a.V]
		to, gas = sm, 1100000
		op, pub := from.Addr, []byte(v.Key.PubComp)
		if a.Z == "op" {
			op = w.Who["u3"].Addr
		}
		if a.Z == "pub" {
			pub = []byte{1, 2, 3, 4, 5, 6, 7, 8, 9, 10}
		}
		data = stakingData(stk.ValidatorCreate, &stk.TxCreateValidator{Name: a.V, OperatorAddress: op, Coinbase: v.Addr,
			MainPubKey: pub, BlsPubKey: v.Key.BlsPkB, Value: x, Nonce: nonce, CommissionRate: uint16(a.C),
			RiskObligation: uint16(a.R), AcceptDelegation: params.AcceptDelegation, Role: params.ValidatorRole(a.F)})
	case "update":
		to = sm
		data = stakingData(stk.ValidatorUpdate, &stk.TxUpdateValidator{Nonce: nonce, MainAddress: vaddr(), CommissionRate: uint16(a.C),
			RiskObligation: uint16(a.R), AcceptDelegation: uint16(a.F)})
	case "deposit":
		to = sm
		data = stakingData(stk.ValidatorDeposit, &stk.TxValidatorDeposit{MainAddress: vaddr(), Value: x, Nonce: nonce})
	case "withdraw":
		to = sm
		rcpt := w.Who[a.B].Addr
		if a.Z == "norcpt" {
			rcpt = common.Address{}
		}
		data = stakingData(stk.ValidatorWithDraw, &stk.TxValidatorWithdraw{MainAddress: vaddr(), Recipient: rcpt, Value: x, Nonce: nonce})
	case "status":
		to = sm
		data = stakingData(stk.ValidatorChangeStatus, &stk.TxValidatorChangeStatus{MainAddress: vaddr(), Status: uint8(a.F), Nonce: nonce})
	case "settle":
		to = sm
		data = stakingData(stk.ValidatorSettle, &stk.TxValidatorSettle{MainAddress: vaddr()})
	case "dadd":
		to = sm
		data = stakingData(stk.DelegationAdd, &stk.TxDelegation{Validator: vaddr(), Value: x})
	case "dsub":
		to = sm
		data = stakingData(stk.DelegationSub, &stk.TxDelegation{Validator: vaddr(), Value: x})
	case "dsettle":
		to = sm
		data = stakingData(stk.DelegationSettle, &stk.TxDelegationSettle{Validator: vaddr()})
	case "garbage": // undecodable staking message: accepted, failed, all gas used
		to, data = sm, []byte{0xff, 0x01, 0x02}
	case "badaction": // a well-formed staking message with an action the module does not know
		bs, _ := rlp.EncodeToBytes(&stk.Message{Action: stk.ActionType(0x7f), Payload: []byte{0xc0}})
		to, data = sm, bs
	case "biggas": // the same with a gas limit of which only two fit into a block
		to, data, gas = sm, []byte{0xff, 0x01, 0x02}, 3000000
	case "drain": // a transfer that leaves the sender 5000 LU (or X): its later transactions cannot pay any more
		to, gas = w.Who[a.B].Addr, params.TxGas
		leave := int64(5000)
		if a.X > 0 {
			leave = a.X // leave exactly X
		}
		value = new(big.Int).Sub(balance, new(big.Int).Add(big.NewInt(leave), new(big.Int).Mul(price, big.NewInt(int64(params.TxGas)))))
		if value.Sign() < 0 {
			value = new(big.Int)
		}
	case "widegas": // a plain transfer whose gas LIMIT is nearly the block's gas limit (it uses 21000)
		to, value = w.Who[a.B].Addr, x
		gas = params.TxGas
		if w.GasLimit > 30000 {
			gas = w.GasLimit - 5000
		}
	case "ample": // a transfer with twice the gas limit it needs (gas-limit class "ample")
		to, value, gas = w.Who[a.B].Addr, x, 2*params.TxGas
	case "gap": // a transfer one nonce ahead: not executable until the gap is filled
		to, value, gas = w.Who[a.B].Addr, x, params.TxGas
		nonce++
	default:
		panic("unknown tx kind " + a.K)
	}
	if a.G > 0 {
		gas = uint64(a.G)
	}
	tx, err := types.SignTx(types.NewTransaction(nonce, to, value, gas, price, data), w.Signer, from.Key.Priv)
	if err != nil {
		panic(err)
	}
	info := &TxInfo{Id: tx.Hash().Hex()[2:10], Kind: a.K, From: a.A, Val: a.V}
	switch a.K {
	case "create", "deposit", "dadd":
		info.Detained = a.X
	}
	if a.V == "" {
		info.Val = "-"
	}
	w.TxKind[tx.Hash()] = info
	return tx
}

// ---------------------------------------------------------------------------------------------- building blocks

// TxResult is what the builder observed for one offered transaction.
type TxResult struct {
	Tx       *types.Transaction
	Refused  bool // ApplyTransaction returned an error; the builder reverted to its snapshot and skipped it
	Err      string
	Failed   bool
	GasUsed  uint64
	Receipt  *types.Receipt
	GasLimit uint64
	Price    int64
	// HandlerErr is the handler check that made a staking transaction fail (from the converter's log)
	HandlerErr string
}

// Payout is one AddReward call seen by the block's detail recorder.
type Payout struct {
	V  string `json:"v"`
	To string `json:"to"`
	X  int64  `json:"x"`
}

// BuildHooks lets a driver observe the builder at the points where the live state is consistent.
type BuildHooks struct {
	Start       func(n uint64, st *state.StateDB, hdr *types.Header)
	AfterTx     func(i int, a *ATx, r *TxResult, st *state.StateDB, hdr *types.Header)
	AfterEnd    func(st *state.StateDB, hdr *types.Header, payouts []Payout, rcpt *types.Receipt)
	Assembled   func(blk *types.Block, stateErr error)          // after FinalizeAndAssemble: the memoized database error of the state
	BeforeWrite func(blk *types.Block, receipts types.Receipts) // assembled, chain head is still the parent
	AfterCommit func(blk *types.Block, receipts types.Receipts)
}

// payoutRecorder implements local.DetailRecorder; it records the AddReward calls of settleValidatorRewards.
type payoutRecorder struct {
	w   *World
	out []Payout
}

func (r *payoutRecorder) IsWatch() bool                                                            { return true }
func (r *payoutRecorder) Init(common.Hash, uint64)                                                 {}
func (r *payoutRecorder) Finalize() *local.Detail                                                  { return nil }
func (r *payoutRecorder) AddInnerTx(common.Hash, common.Address, common.Address, *big.Int, uint64) {}
func (r *payoutRecorder) AddReward(validator, coinbase common.Address, value *big.Int) {
	r.out = append(r.out, Payout{V: r.w.name(validator), To: r.w.name(coinbase), X: fixture.I(value)})
}

// BuildBlock performs the miner's sequence of exported calls on chain A for one abstract block and writes the block.
// (miner/worker.go commitNewWork, commitTransactions, commitTransaction, commit, resultLoop)
func (w *World) BuildBlock(ab *ABlock, h *BuildHooks) (*types.Block, types.Receipts, error) {
	return w.BuildBlockOn(w.A, ab, h, nil)
}

// ForkBranch makes the second builder C follow chain A up to height `from` and build n empty sibling blocks on top of it
// (marked in the header's extra data, so that they differ from A's blocks).  It returns the branch.
func (w *World) ForkBranch(from uint64, n int) (types.Blocks, error) {
	if w.C == nil {
		w.C = newNode(w.Genesis, nil)
	}
	for i := uint64(1); i <= from; i++ {
		blk := w.A.Bc.GetBlockByNumber(i)
		if blk == nil {
			return nil, fmt.Errorf("chain A has no block %d", i)
		}
		if c := w.C.Bc.GetBlockByNumber(i); c != nil && c.Hash() == blk.Hash() {
			continue
		}
		if err := w.C.Bc.InsertChain(types.Blocks{blk}); err != nil {
			return nil, fmt.Errorf("second builder cannot follow chain A at %d: %v", i, err)
		}
	}
	if w.C.Bc.CurrentBlock().NumberU64() != from || w.C.Bc.CurrentBlock().Hash() != w.A.Bc.GetBlockByNumber(from).Hash() {
		return nil, fmt.Errorf("second builder is not on chain A at %d", from)
	}
	var out types.Blocks
	for i := 0; i < n; i++ {
		blk, _, err := w.BuildBlockOn(w.C, &ABlock{Cb: "g1"}, nil, []byte("alt"))
		if err != nil {
			return nil, err
		}
		out = append(out, blk)
	}
	return out, nil
}

// BuildBlockOn is BuildBlock on the given node.
func (w *World) BuildBlockOn(n *Node, ab *ABlock, h *BuildHooks, extra []byte) (*types.Block, types.Receipts, error) {
	bc := n.Bc
	parent := bc.CurrentBlock()
	num := new(big.Int).Add(parent.Number(), big.NewInt(1))
	cb := w.Who[ab.Cb]
	if cb == nil {
		return nil, nil, fmt.Errorf("unknown coinbase %q", ab.Cb)
	}
	// a real engine never selects a proposer that is not a validator (the history cannot know whom the previous block
	// removed): fall back to g1
	if pst, err := bc.State(); err == nil && pst.GetValidatorByMainAddr(cb.Addr) == nil {
		cb = w.Who["g1"]
		ab.Cb = "g1"
		if pst.GetValidatorByMainAddr(cb.Addr) == nil {
			return nil, nil, fmt.Errorf("no validator left to propose")
		}
	}
	hdr := &types.Header{ParentHash: parent.Hash(), Number: num, Time: parent.Time() + 10, Coinbase: cb.Addr,
		GasLimit: core.CalcGasLimit(parent), GasRewards: big.NewInt(0), Subsidy: big.NewInt(0), Extra: []byte{}}
	if extra != nil {
		hdr.Extra = extra
	}
	if err := core.ProcessYouVersionState(parent.Header(), hdr); err != nil {
		return nil, nil, err
	}
	yp, err := bc.VersionForRound(num.Uint64())
	if err != nil {
		return nil, nil, err
	}
	sroot := core.StakingRootForNewBlock(yp.StakingTrieFrequency, parent.Header())
	sdb, err := bc.StateAt(parent.Root(), parent.ValRoot(), sroot)
	if err != nil {
		return nil, nil, err
	}
	sdb.IntermediateRoot(true)
	w.GasLimit = hdr.GasLimit
	if h != nil && h.Start != nil {
		h.Start(num.Uint64(), sdb, hdr)
	}
	gp := new(core.GasPool).AddGas(hdr.GasLimit)
	cfg, err := core.PrepareVMConfig(bc, num.Uint64(), vm.LocalConfig{})
	if err != nil {
		return nil, nil, err
	}
	var txs []*types.Transaction
	var rcpts []*types.Receipt
	coinbase := cb.Addr
	for i := range ab.Txs {
		a := &ab.Txs[i]
		tx := w.MakeTx(a, sdb)
		res := &TxResult{Tx: tx, GasLimit: tx.Gas(), Price: tx.GasPrice().Int64()}
		if gp.Gas() < params.TxGas {
			res.Refused, res.Err = true, "block gas exhausted"
		} else {
			sdb.Prepare(tx.Hash(), common.Hash{}, len(txs))
			snap := sdb.Snapshot()
			LastHandlerErr = ""
			r, gas, err := bc.Processor().ApplyTransaction(tx, w.Signer, sdb, bc, hdr, &coinbase, &hdr.GasUsed, hdr.GasRewards, gp, cfg, local.FakeRecorder())
			if err != nil {
				sdb.RevertToSnapshot(snap)
				res.Refused, res.Err = true, err.Error()
			} else {
				txs = append(txs, tx)
				rcpts = append(rcpts, r)
				res.Receipt, res.GasUsed, res.Failed = r, gas, r.Status == types.ReceiptStatusFailed
				if res.Failed {
					res.HandlerErr = LastHandlerErr
				}
			}
		}
		if res.Refused {
			delete(w.TxKind, tx.Hash())
		}
		if h != nil && h.AfterTx != nil {
			h.AfterTx(i, a, res, sdb, hdr)
		}
	}
	rec := &payoutRecorder{w: w}
	res, _, _ := bc.Processor().EndBlock(bc, hdr, txs, sdb, true, rec)
	var endRcpt *types.Receipt
	for _, rr := range res {
		if rr != nil {
			rcpts = append(rcpts, rr)
			endRcpt = rr
		}
	}
	if h != nil && h.AfterEnd != nil {
		h.AfterEnd(sdb, hdr, rec.out, endRcpt)
	}
	blk, err := bc.Engine().FinalizeAndAssemble(bc, hdr, sdb, txs, rcpts)
	if err != nil {
		return nil, nil, err
	}
	if h != nil && h.Assembled != nil {
		h.Assembled(blk, sdb.Error())
	}
	// worker.resultLoop: receipts get the block hash, then WriteBlockWithState
	hash := blk.Hash()
	out := make([]*types.Receipt, len(rcpts))
	for i, r := range rcpts {
		r.BlockHash, r.BlockNumber, r.TransactionIndex = hash, blk.Number(), uint(i)
		cp := *r
		out[i] = &cp
		for _, l := range r.Logs {
			l.BlockHash = hash
		}
	}
	if h != nil && h.BeforeWrite != nil {
		h.BeforeWrite(blk, out)
	}
	if err := bc.WriteBlockWithState(blk, sdb, out); err != nil {
		return nil, nil, err
	}
	if h != nil && h.AfterCommit != nil {
		h.AfterCommit(blk, out)
	}
	return blk, out, nil
}

// NextState opens, on node n, the state the next block will start from (staking trie reset at a period start).
func (w *World) NextState(n *Node) (*state.StateDB, error) {
	parent := n.Bc.CurrentBlock()
	yp, err := n.Bc.VersionForRound(parent.NumberU64() + 1)
	if err != nil {
		return nil, err
	}
	sroot := core.StakingRootForNewBlock(yp.StakingTrieFrequency, parent.Header())
	return n.Bc.StateAt(parent.Root(), parent.ValRoot(), sroot)
}

// ---------------------------------------------------------------------------------------------- value buckets

// NV is a named amount.
type NV struct {
	A string `json:"a"`
	V int64  `json:"v"`
}

// DlgObs is one delegation of a validator record.
type DlgObs struct {
	D string `json:"d"`
	T int64  `json:"t"`
}

// ValObs is one validator record.
type ValObs struct {
	V    string   `json:"v"`
	Self int64    `json:"self"`
	Tok  int64    `json:"tok"`
	Stk  int64    `json:"stk"`
	Dl   []DlgObs `json:"dl"`
	Rd   int64    `json:"rd"` // RewardsDistributable
	Rt   int64    `json:"rt"` // RewardsTotal
	Ls   int64    `json:"ls"` // RewardsLastSettled
	On   bool     `json:"on"`
	Role int      `json:"role"`
	Cb   string   `json:"cb"`
	Op   string   `json:"op"`
	Ex   bool     `json:"ex"`
	Acc  bool     `json:"acc"`
	La   int64    `json:"la"` // last active
}

// WqObs is one withdraw record.
type WqObs struct {
	Id   string `json:"id"`
	V    string `json:"v"`
	D    string `json:"d"`
	To   string `json:"to"`
	Fin  int64  `json:"fin"`
	Ini  int64  `json:"ini"`
	Done int    `json:"done"`
	Ch   int64  `json:"ch"`
}

// PendObs is one pending transaction listed by a staking record, with what it detains.
type PendObs struct {
	H    string `json:"h"`
	K    string `json:"k"`
	From string `json:"from"`
	V    string `json:"v"`
	X    int64  `json:"x"`
}

// RecObs is the final value of one staking record of the current period (delegator "-" = the validator's own record).
type RecObs struct {
	D  string `json:"d"`
	V  string `json:"v"`
	Fv int64  `json:"fv"`
}

// Buckets are all value buckets of DESIGN.md 7/C07 read from a state.
type Buckets struct {
	Bal   []NV      `json:"bal"`
	Vals  []ValObs  `json:"vals"`
	Pools []int64   `json:"pools"` // rewardsDistributable: roles chancellor, senator, house, kinds validator, chamber, house
	Res   []int64   `json:"res"`   // rewardsResidue, same order
	Wq    []WqObs   `json:"wq"`
	Pend  []PendObs `json:"pend"`
	Recs  []RecObs  `json:"recs"`
	Infl  int64     `json:"infl"` // header.GasRewards not yet turned into rewards
	Burnt int64     `json:"burnt"`
}

// ReadBuckets projects a state.  With full=true (committed state) every account of the trie and every staking record is
// enumerated; otherwise the closed world of the history is read through getters (reads are not journalled).
func (w *World) ReadBuckets(st *state.StateDB, inflight *big.Int, full bool) *Buckets {
	b := &Buckets{Bal: []NV{}, Vals: []ValObs{}, Wq: []WqObs{}, Pend: []PendObs{}, Recs: []RecObs{}, Infl: fixture.I(inflight)}
	known := new(big.Int)
	for _, n := range w.Order {
		bal := st.GetBalance(w.Who[n].Addr)
		known.Add(known, bal)
		b.Bal = append(b.Bal, NV{n, fixture.I(bal)})
	}
	if full {
		// every account in the trie: what is not in the closed world is reported as one bucket
		all := new(big.Int)
		d := st.RawDump()
		for _, acc := range d.Accounts {
			v, ok := new(big.Int).SetString(acc.Balance, 10)
			if !ok {
				panic("bad balance in dump: " + acc.Balance)
			}
			all.Add(all, v)
		}
		b.Bal = append(b.Bal, NV{"other", fixture.I(new(big.Int).Sub(all, known))})
	}
	// validators: the index of the state, not the closed world
	var vaddrs []common.Address
	vaddrs = append(vaddrs, st.VerifValidatorIndex()...)
	sort.Slice(vaddrs, func(i, j int) bool { return w.name(vaddrs[i]) < w.name(vaddrs[j]) })
	for _, a := range vaddrs {
		v := st.GetValidatorByMainAddr(a)
		if v == nil {
			continue
		}
		o := ValObs{V: w.name(a), Self: fixture.I(v.SelfToken), Tok: fixture.I(v.Token), Stk: fixture.I(v.Stake), Dl: []DlgObs{},
			Rd: fixture.I(v.RewardsDistributable), Rt: fixture.I(v.RewardsTotal), Ls: int64(v.RewardsLastSettled), On: v.IsOnline(),
			Role: int(v.Role), Cb: w.name(v.Coinbase), Op: w.name(v.OperatorAddress), Ex: v.Expelled,
			Acc: v.AcceptDelegation == params.AcceptDelegation, La: int64(v.LastActive())}
		for _, d := range v.Delegations {
			o.Dl = append(o.Dl, DlgObs{w.name(d.Delegator), fixture.I(d.Token)})
		}
		b.Vals = append(b.Vals, o)
	}
	stat, err := st.GetValidatorsStat()
	if err != nil {
		panic(err)
	}
	for _, r := range []params.ValidatorRole{params.RoleChancellor, params.RoleSenator, params.RoleHouse} {
		b.Pools = append(b.Pools, fixture.I(stat.GetByRole(r).GetRewardsDistributable()))
		b.Res = append(b.Res, fixture.I(stat.GetByRole(r).GetRewardsResidue()))
	}
	for _, k := range []params.ValidatorKind{params.KindValidator, params.KindChamber, params.KindHouse} {
		b.Pools = append(b.Pools, fixture.I(stat.GetByKind(k).GetRewardsDistributable()))
		b.Res = append(b.Res, fixture.I(stat.GetByKind(k).GetRewardsResidue()))
	}
	for _, r := range st.GetWithdrawQueue().Records {
		b.Wq = append(b.Wq, WqObs{Id: fmt.Sprintf("%s:%d", w.name(r.Operator), r.Nonce), V: w.name(r.Validator), D: w.name(r.Delegator),
			To: w.name(r.Recipient), Fin: fixture.I(r.FinalBalance), Ini: fixture.I(r.InitialBalance), Done: int(r.Finished),
			Ch: int64(r.CompletionHeight)})
	}
	addRec := func(d, v common.Address, rec *state.Record) {
		if rec.FinalValue != nil && rec.FinalValue.Sign() != 0 {
			b.Recs = append(b.Recs, RecObs{D: w.name(d), V: w.name(v), Fv: fixture.I(rec.FinalValue)})
		}
		for _, h := range rec.TxHashes {
			if info, ok := w.TxKind[h]; ok {
				b.Pend = append(b.Pend, PendObs{H: info.Id, K: info.Kind, From: info.From, V: info.Val, X: info.Detained})
			} else {
				b.Pend = append(b.Pend, PendObs{H: h.Hex()[2:10], K: "unknown", From: "-", V: "-", X: 0})
			}
		}
	}
	if full {
		if err := st.ForEachStakingRecord(func(d, v common.Address, rec *state.Record) error { addRec(d, v, rec); return nil }); err != nil {
			panic(err)
		}
	} else {
		ds := []common.Address{{}}
		for _, n := range w.Order {
			ds = append(ds, w.Who[n].Addr)
		}
		for _, vn := range w.ValIds {
			for _, d := range ds {
				if rec := st.GetStakingRecord(d, w.Who[vn].Addr); rec != nil {
					addRec(d, w.Who[vn].Addr, rec)
				}
			}
		}
	}
	sort.Slice(b.Pend, func(i, j int) bool { return b.Pend[i].H < b.Pend[j].H })
	sort.Slice(b.Recs, func(i, j int) bool { return b.Recs[i].D+"/"+b.Recs[i].V < b.Recs[j].D+"/"+b.Recs[j].V })
	return b
}
