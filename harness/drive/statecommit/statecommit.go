// Package statecommit drives behaviours of spec/StateCommit.tla through the real core/state.StateDB (C10): writes over a
// small alphabet with IntermediateRoot / Commit / reopen / Copy points interleaved.  At every control point it records the
// root triple and dumps of the objects involved (live object through getters; reopened state through getters and through
// trie enumeration; copies at the copy point and again after every later operation).
package statecommit

import (
	"bytes"
	"encoding/json"
	"fmt"
	"math/big"
	"sort"

	"github.com/youchainhq/go-youchain/common"
	"github.com/youchainhq/go-youchain/core/state"
	"github.com/youchainhq/go-youchain/crypto"
	"github.com/youchainhq/go-youchain/params"
	"github.com/youchainhq/go-youchain/rlp"
	"github.com/youchainhq/go-youchain/youdb"
	"verif/harness/drive"
	"verif/harness/fixture"
)

func init() { drive.Register("statecommit", run) }

// Op is one abstract action of a behaviour.
type Op struct {
	Op string `json:"op"`
	A  int    `json:"a"` // account id (0 = the zero address, staking records only)
	V  int    `json:"v"` // validator id
	D  int    `json:"d"` // amount / value
	S  int    `json:"s"` // storage slot 1|2
	R  int    `json:"r"` // withdraw record id / index
	H  int    `json:"h"` // transaction hash id (0 = none)
	Tag string `json:"tag"` // root computations: the content the model says has been written (echoed to the monitor)
	B  int    `json:"b"` // 2 = no dump BEFORE the root computation (Root / Commit / Reload); 1 = blind: take no dump at this step (reads fill lazy caches); CopySwap and the Reload after it
}

const (
	nAccts  = 2
	nVals   = 2
	balBase = 1000 // account 1 is funded in the committed starting state; account 2 is not
)

var roles = []params.ValidatorRole{0, params.RoleChancellor, params.RoleHouse}

type world struct {
	st     *state.StateDB
	db     state.Database
	accts  []*fixture.Key
	vals   []*fixture.Key
	aIdx   map[common.Address]int
	vIdx   map[common.Address]int
	frozen []*state.StateDB // copies (or originals) that nobody writes to any more
	// the node database: db is a cache (trie.Database) over disk; only flushed roots survive a restart
	disk       youdb.Database
	lastCommit [3]common.Hash
	flushed    [3]common.Hash
	unflushed  [][3]common.Hash // committed root triples never flushed (the last one may be lastCommit)
	commits    [][3]common.Hash // root triples of the Commits made through the current Database, oldest first
}

func newWorld() *world {
	w := &world{accts: fixture.Keys("acct", nAccts), vals: fixture.Keys("val", nVals), aIdx: map[common.Address]int{}, vIdx: map[common.Address]int{}}
	fixture.ScaleStakeUnit()
	for i := 1; i <= nAccts; i++ {
		w.aIdx[w.accts[i].Addr] = i
	}
	for i := 1; i <= nVals; i++ {
		w.vIdx[w.vals[i].Addr] = i
	}
	w.disk = youdb.NewMemDatabase()
	db := state.NewDatabase(w.disk)
	st, err := state.New(common.Hash{}, common.Hash{}, common.Hash{}, db)
	if err != nil {
		panic(err)
	}
	st.AddBalance(w.accts[1].Addr, big.NewInt(balBase))
	r1, r2, r3, err := st.Commit(true)
	if err != nil {
		panic(err)
	}
	// the starting state is on disk, as every block's state is (core/blockchain.go WriteBlockWithState)
	for _, r := range []common.Hash{r1, r2, r3} {
		if err := db.TrieDB().Commit(r, false); err != nil {
			panic(err)
		}
	}
	w.lastCommit = [3]common.Hash{r1, r2, r3}
	w.flushed = w.lastCommit
	st2, err := state.New(r1, r2, r3, db)
	if err != nil {
		panic(err)
	}
	w.st, w.db = st2, db
	return w
}

func bi(n int) *big.Int { return big.NewInt(int64(n)) }

func slot(s int) common.Hash {
	if s == 2 {
		return fixture.Slot2
	}
	return fixture.Slot1
}

func (w *world) addr(a int) common.Address {
	if a == 0 {
		return common.Address{}
	}
	return w.accts[a].Addr
}

func txHash(h int) common.Hash {
	if h == 0 {
		return common.Hash{}
	}
	return common.BigToHash(big.NewInt(int64(0x7700 + h)))
}

// ---------------------------------------------------------------- dumps

type acctD struct {
	Bal   int64 `json:"bal"`
	Nonce int64 `json:"nonce"`
	Code  int   `json:"code"`
	S1    int64 `json:"s1"`
	S2    int64 `json:"s2"`
	Dbal  int64 `json:"dbal"`
	To    []int `json:"to"`
}

type valD struct {
	Ex  bool  `json:"ex"`
	Tok int64 `json:"tok"`
	Stk int64 `json:"stk"`
	St  int64 `json:"st"`
	Ss  int64 `json:"ss"`
	Dl  int64 `json:"dl"`  // tokens delegated by account 1
	Dls int64 `json:"dls"` // their stake
	Nd  int   `json:"nd"`  // number of delegations
}

type recD struct {
	A   int   `json:"a"`
	V   int   `json:"v"`
	Val int64 `json:"val"`
	Tx  []int `json:"tx"`
}

type dump struct {
	A    []acctD  `json:"a"`
	V    []valD   `json:"v"`
	Stat []int64  `json:"stat"` // the "all" kind: onStake,onToken,onCount,offStake,offToken,offCount, then chamber, house (18 numbers)
	Ix   []int    `json:"ix"`
	Wq   []int    `json:"wq"`
	Rec  []recD   `json:"rec"`
	Rel  [][2]int `json:"rel"`
	Err  string   `json:"err,omitempty"`
}

// MarshalJSON writes a dump as nested arrays [accounts, validators, stat, index, queue, records, relations, error]
// (positions instead of field names keep the trace small; TLC reads them as tuples).
func (d *dump) MarshalJSON() ([]byte, error) {
	b2i := func(b bool) int {
		if b {
			return 1
		}
		return 0
	}
	as := [][]interface{}{}
	for _, a := range d.A {
		as = append(as, []interface{}{a.Bal, a.Nonce, a.Code, a.S1, a.S2, a.Dbal, a.To})
	}
	vs := [][]interface{}{}
	for _, v := range d.V {
		vs = append(vs, []interface{}{b2i(v.Ex), v.Tok, v.Stk, v.St, v.Ss, v.Dl, v.Dls, v.Nd})
	}
	rs := [][]interface{}{}
	for _, r := range d.Rec {
		rs = append(rs, []interface{}{r.A, r.V, r.Val, r.Tx})
	}
	nz := func(x []int) []int {
		if x == nil {
			return []int{}
		}
		return x
	}
	stat := d.Stat
	if stat == nil {
		stat = []int64{}
	}
	rel := d.Rel
	if rel == nil {
		rel = [][2]int{}
	}
	return json.Marshal([]interface{}{as, vs, stat, nz(d.Ix), nz(d.Wq), rs, rel, d.Err})
}

func codeId(c []byte) int {
	if len(c) == 0 {
		return 0
	}
	return int(c[0])
}

func hashId(h common.Hash) int { return int(h.Big().Int64() - 0x7700) }

// getterDump reads every observable of st through the public getters (reads are not journalled).
func (w *world) getterDump(st *state.StateDB) (d *dump) {
	d = &dump{Ix: []int{}, Wq: []int{}, Rec: []recD{}, Rel: [][2]int{}}
	defer func() {
		if r := recover(); r != nil {
			d = &dump{Err: fmt.Sprint(r)}
		}
	}()
	for i := 1; i <= nAccts; i++ {
		a := w.accts[i].Addr
		ad := acctD{Bal: fixture.I(st.GetBalance(a)), Nonce: int64(st.GetNonce(a)), Code: codeId(st.GetCode(a)),
			S1: fixture.I(st.GetState(a, fixture.Slot1).Big()), S2: fixture.I(st.GetState(a, fixture.Slot2).Big()),
			Dbal: fixture.I(st.VerifDelegationBalance(a)), To: []int{}}
		if i == 1 {
			ad.Bal -= balBase
		}
		for _, v := range st.VerifDelegations(a) {
			ad.To = append(ad.To, w.vIdx[v])
		}
		sort.Ints(ad.To)
		d.A = append(d.A, ad)
	}
	for i := 1; i <= nVals; i++ {
		d.V = append(d.V, w.valDump(st.GetValidatorByMainAddr(w.vals[i].Addr)))
	}
	if stat, err := st.GetValidatorsStat(); err == nil && stat != nil {
		d.Stat = statDump(stat)
	}
	for _, a := range st.VerifValidatorIndex() {
		d.Ix = append(d.Ix, w.vIdx[a])
	}
	sort.Ints(d.Ix)
	if q := st.GetWithdrawQueue(); q != nil {
		for _, r := range q.Records {
			d.Wq = append(d.Wq, int(r.Nonce))
		}
	}
	for a := 0; a <= 1; a++ {
		for v := 1; v <= nVals; v++ {
			if r := st.GetStakingRecord(w.addr(a), w.vals[v].Addr); r != nil {
				rd := recD{A: a, V: v, Val: fixture.I(r.FinalValue), Tx: []int{}}
				for _, h := range r.TxHashes {
					rd.Tx = append(rd.Tx, hashId(h))
				}
				d.Rec = append(d.Rec, rd)
			}
		}
	}
	for a := 1; a <= nAccts; a++ {
		for v := 1; v <= nVals; v++ {
			if st.PendingRelationshipExist(w.accts[a].Addr, w.vals[v].Addr) {
				d.Rel = append(d.Rel, [2]int{a, v})
			}
		}
	}
	return d
}

func statDump(stat *state.ValidatorsStat) []int64 {
	out := []int64{}
	for _, k := range []params.ValidatorKind{params.KindValidator, params.KindChamber, params.KindHouse} {
		s := stat.GetByKind(k)
		out = append(out, fixture.I(s.GetOnlineStake()), fixture.I(s.GetOnlineToken()), int64(s.GetCount()),
			fixture.I(s.GetOfflineStake()), fixture.I(s.GetOfflineToken()), int64(s.GetOfflineCount()))
	}
	return out
}

func (w *world) valDump(v *state.Validator) valD {
	if v == nil {
		return valD{}
	}
	vd := valD{Ex: true, Tok: fixture.I(v.Token), Stk: fixture.I(v.Stake), St: fixture.I(v.SelfToken), Ss: fixture.I(v.SelfStake), Nd: len(v.Delegations)}
	for _, dl := range v.Delegations {
		if w.aIdx[dl.Delegator] == 1 {
			vd.Dl, vd.Dls = fixture.I(dl.Token), fixture.I(dl.Stake)
		}
	}
	return vd
}

// enumDump reads the same observables by ENUMERATING the leaves of the three tries of st (state.VerifEnumerate: hashed keys
// and raw values, no preimages needed) and decoding them, so that entries outside the fixture's universe show as well.
func (w *world) enumDump(st *state.StateDB) (d *dump) {
	d = &dump{Ix: []int{}, Wq: []int{}, Rec: []recD{}, Rel: [][2]int{}}
	defer func() {
		if r := recover(); r != nil {
			d = &dump{Err: fmt.Sprint(r)}
		}
	}()
	accts, valLeaves, stLeaves, err := st.VerifEnumerate()
	if err != nil {
		panic(err)
	}
	extra := 0
	hashOf := func(b []byte) common.Hash { return crypto.Keccak256Hash(b) }
	acctByKey := map[common.Hash]int{}
	for i := 1; i <= nAccts; i++ {
		acctByKey[hashOf(w.accts[i].Addr[:])] = i
	}
	out := make([]acctD, nAccts)
	for i := range out {
		out[i].To = []int{}
	}
	for _, al := range accts {
		i, ok := acctByKey[al.Key]
		if !ok {
			extra++
			continue
		}
		if al.CodeErr != nil {
			panic(al.CodeErr)
		}
		if al.DlgErr != nil {
			panic("load delegations error: " + al.DlgErr.Error())
		}
		ad := &out[i-1]
		ad.Bal, ad.Nonce, ad.Code, ad.Dbal = fixture.I(al.Account.Balance), int64(al.Account.Nonce), codeId(al.Code), fixture.I(al.Account.DelegationBalance)
		if i == 1 {
			ad.Bal -= balBase
		}
		for _, v := range al.Delegations {
			ad.To = append(ad.To, w.vIdx[v])
		}
		sort.Ints(ad.To)
		for _, sl := range al.Storage {
			_, content, _, err := rlp.Split(sl.Value)
			if err != nil {
				panic(err)
			}
			val := fixture.I(new(big.Int).SetBytes(content))
			switch sl.Key {
			case hashOf(fixture.Slot1[:]):
				ad.S1 = val
			case hashOf(fixture.Slot2[:]):
				ad.S2 = val
			default:
				extra++
			}
		}
	}
	d.A = out
	vals := make([]valD, nVals)
	strip := func(v, flag []byte) []byte { return v[len(flag):] }
	for _, leaf := range valLeaves {
		switch {
		case bytes.HasPrefix(leaf.Value, state.VerifFlagValidator):
			var v state.Validator
			if err := rlp.DecodeBytes(strip(leaf.Value, state.VerifFlagValidator), &v); err != nil {
				panic(err)
			}
			i, ok := w.vIdx[v.MainAddress()]
			if !ok {
				extra++
				continue
			}
			vals[i-1] = w.valDump(&v)
		case bytes.HasPrefix(leaf.Value, state.VerifFlagIndex):
			ix := state.NewValidatorIndex()
			if err := rlp.DecodeBytes(strip(leaf.Value, state.VerifFlagIndex), ix); err != nil {
				panic(err)
			}
			for _, a := range ix.List() {
				d.Ix = append(d.Ix, w.vIdx[a])
			}
			sort.Ints(d.Ix)
		case bytes.HasPrefix(leaf.Value, state.VerifFlagStat):
			stat := state.NewValidatorsStat()
			if err := rlp.DecodeBytes(strip(leaf.Value, state.VerifFlagStat), stat); err != nil {
				panic(err)
			}
			d.Stat = statDump(stat)
		case bytes.HasPrefix(leaf.Value, state.VerifFlagQueue):
			var q state.WithdrawQueue
			if err := rlp.DecodeBytes(strip(leaf.Value, state.VerifFlagQueue), &q); err != nil {
				panic(err)
			}
			for _, r := range q.Records {
				d.Wq = append(d.Wq, int(r.Nonce))
			}
		default:
			extra++
		}
	}
	d.V = vals
	recKey := map[common.Hash][2]int{}
	for a := 0; a <= 1; a++ {
		for v := 1; v <= nVals; v++ {
			da, va := w.addr(a), w.vals[v].Addr
			recKey[hashOf(append(append([]byte{}, da[:]...), va[:]...))] = [2]int{a, v}
		}
	}
	recs := map[[2]int]recD{}
	for _, leaf := range stLeaves {
		if bytes.HasPrefix(leaf.Value, state.VerifFlagPending) {
			pairs, err := state.VerifDecodePendingRelationship(strip(leaf.Value, state.VerifFlagPending))
			if err != nil {
				panic(err)
			}
			for _, p := range pairs {
				d.Rel = append(d.Rel, [2]int{w.aIdx[p[0]], w.vIdx[p[1]]})
			}
			continue
		}
		k, ok := recKey[leaf.Key]
		if !ok {
			extra++
			continue
		}
		var r state.Record
		if err := rlp.DecodeBytes(leaf.Value, &r); err != nil {
			panic(err)
		}
		rd := recD{A: k[0], V: k[1], Val: fixture.I(r.FinalValue), Tx: []int{}}
		for _, h := range r.TxHashes {
			rd.Tx = append(rd.Tx, hashId(h))
		}
		recs[k] = rd
	}
	for a := 0; a <= 1; a++ {
		for v := 1; v <= nVals; v++ {
			if rd, ok := recs[[2]int{a, v}]; ok {
				d.Rec = append(d.Rec, rd)
			}
		}
	}
	sort.Slice(d.Rel, func(i, j int) bool { return d.Rel[i][0] < d.Rel[j][0] || (d.Rel[i][0] == d.Rel[j][0] && d.Rel[i][1] < d.Rel[j][1]) })
	if extra != 0 {
		d.Err = fmt.Sprintf("%d entries outside the universe", extra)
	}
	return d
}

// ---------------------------------------------------------------- actions

func (w *world) apply(op *Op, ev map[string]interface{}) {
	defer func() {
		if r := recover(); r != nil {
			ev["panic"] = fmt.Sprint(r)
		}
	}()
	st := w.st
	switch op.Op {
	case "AddBalance":
		st.AddBalance(w.addr(op.A), bi(op.D))
	case "SubBalance":
		st.SubBalance(w.addr(op.A), bi(op.D))
	case "SetNonce":
		st.SetNonce(w.addr(op.A), uint64(op.D))
	case "SetCode":
		st.SetCode(w.addr(op.A), []byte{byte(op.D)})
	case "SetState":
		st.SetState(w.addr(op.A), slot(op.S), common.BigToHash(bi(op.D)))
	case "CreateValidator":
		k := w.vals[op.V]
		tok := bi(op.D)
		if st.CreateValidator(fmt.Sprintf("v%d", op.V), k.Addr, k.Addr, roles[op.V], k.PubComp, k.BlsPkB, tok, params.YOUToStake(tok),
			params.AcceptDelegation, 1000, 1000, params.ValidatorOffline) == nil {
			ev["refused"] = true
		}
	case "Deposit", "WithdrawAll":
		old := st.GetValidatorByMainAddr(w.vals[op.V].Addr)
		if old == nil {
			ev["refused"] = true
			break
		}
		nv := old.PartialCopy()
		d := bi(op.D)
		if op.Op == "WithdrawAll" {
			d = new(big.Int).Neg(old.SelfToken)
		}
		nv.SelfToken.Add(nv.SelfToken, d)
		ns := params.YOUToStake(nv.SelfToken)
		delta := new(big.Int).Sub(ns, nv.SelfStake)
		nv.SelfStake.Set(ns)
		nv.Token.Add(nv.Token, d)
		nv.Stake.Add(nv.Stake, delta)
		st.UpdateValidator(nv, old)
	case "Delegate":
		val := st.GetValidatorByMainAddr(w.vals[op.V].Addr)
		if val == nil {
			ev["refused"] = true
			break
		}
		st.UpdateDelegation(w.addr(op.A), val, bi(op.D)) // op.D may be negative (withdrawal of a delegation)
	case "AddWithdraw":
		st.AddWithdrawRecord(&state.WithdrawRecord{Operator: w.accts[1].Addr, Validator: w.vals[1].Addr, Recipient: w.accts[1].Addr,
			Nonce: uint64(op.R), CreationHeight: 1, CompletionHeight: 7, InitialBalance: bi(op.R), FinalBalance: bi(op.R)})
	case "RemoveWithdraw":
		st.RemoveWithdrawRecords([]int{op.R - 1})
	case "AddRecord":
		var val *big.Int
		if op.D >= 0 {
			val = bi(op.D)
		}
		st.AddStakingRecord(w.addr(op.A), w.vals[op.V].Addr, txHash(op.H), val)
	case "AddRel":
		st.AddPendingRelationship(w.addr(op.A), w.vals[op.V].Addr)
	case "ResetStaking":
		// core.ResetStakingTrieOnNewPeriod: the same object is carried over a staking-period boundary
		st.ResetStakingTrie()
	case "ReadRecord":
		// a read: loads the record into the object's cache
		if r := st.GetStakingRecord(w.addr(op.A), w.vals[op.V].Addr); r != nil {
			ev["got"] = len(r.TxHashes)
		}
		st.PendingValidatorExist(w.vals[op.V].Addr)
	case "Finalise":
		st.Finalise(true)
	case "ReadComp":
		// a read of ONE lazily loaded component
		switch op.D {
		case 1:
			st.GetValidatorsStat()
		case 2:
			st.GetValidatorByMainAddr(w.vals[1].Addr)
			st.VerifValidatorIndex()
		case 3:
			st.GetWithdrawQueue()
		case 4:
			st.PendingRelationshipExist(w.accts[1].Addr, w.vals[1].Addr)
		case 5:
			st.GetStakingRecord(common.Address{}, w.vals[1].Addr)
		case 6:
			st.VerifDelegations(w.accts[1].Addr)
		}
	case "Root":
		if op.B != 2 {
			ev["pre"] = w.getterDump(st) // what the object shows BEFORE the root computation
		}
		a, b, c := st.IntermediateRoot(true)
		ev["roots"] = fixture.Roots(a, b, c)
		ev["live"] = w.getterDump(st)
	case "Commit", "Reload":
		if op.Op == "Reload" && op.B == 1 {
			// blind: the copy made by the preceding blind CopySwap is committed without ever having been read; only the state
			// reopened from its roots is dumped, and -- afterwards -- the original the copy was taken from
			a, b, c, err := st.Commit(true)
			if err != nil {
				panic(err)
			}
			ev["blind"] = true
			ev["roots"] = fixture.Roots(a, b, c)
			w.commits = append(w.commits, [3]common.Hash{a, b, c})
			if t := [3]common.Hash{a, b, c}; t != w.lastCommit {
				w.lastCommit = t
				if t != w.flushed {
					w.unflushed = append(w.unflushed, t)
				}
			}
			re, err := state.New(a, b, c, w.db)
			if err != nil {
				panic(err)
			}
			ev["re"] = w.getterDump(re)
			ev["raw"] = w.enumDump(re)
			ra, rb, rc := re.IntermediateRoot(true)
			ev["reroots"] = fixture.Roots(ra, rb, rc)
			if len(w.frozen) > 0 {
				ev["orig"] = w.getterDump(w.frozen[len(w.frozen)-1])
			}
			if w.st, err = state.New(a, b, c, w.db); err != nil {
				panic(err)
			}
			break
		}
		if op.B != 2 {
			ev["pre"] = w.getterDump(st)
		}
		a, b, c, err := st.Commit(true)
		if err != nil {
			panic(err)
		}
		ev["roots"] = fixture.Roots(a, b, c)
		ev["live"] = w.getterDump(st)
		w.commits = append(w.commits, [3]common.Hash{a, b, c})
		if t := [3]common.Hash{a, b, c}; t != w.lastCommit {
			w.lastCommit = t
			if t != w.flushed {
				w.unflushed = append(w.unflushed, t)
			}
		}
		re, err := state.New(a, b, c, w.db)
		if err != nil {
			ev["re"] = &dump{Err: err.Error()}
			ev["raw"] = &dump{Err: err.Error()}
			break
		}
		rd := w.getterDump(re)
		ev["re"] = rd
		ev["raw"] = w.enumDump(re)
		// the reopened state yields the same roots again (nothing is pending in it)
		ra, rb, rc := re.IntermediateRoot(true)
		ev["reroots"] = fixture.Roots(ra, rb, rc)
		if op.Op == "Reload" {
			if w.st, err = state.New(a, b, c, w.db); err != nil {
				panic(err)
			}
		}
	case "Flush":
		// what WriteBlockWithState does after state.Commit: the three roots go to disk
		for _, r := range w.lastCommit {
			if err := w.db.TrieDB().Commit(r, false); err != nil {
				panic(err)
			}
		}
		w.flushed = w.lastCommit
		keep := w.unflushed[:0]
		for _, t := range w.unflushed {
			if t != w.flushed {
				keep = append(keep, t)
			}
		}
		w.unflushed = keep
		// what a restarted node would read: a FRESH state.Database (empty cache) over the same disk; a throw-away object
		fresh := state.NewDatabase(w.disk)
		re, err := state.New(w.flushed[0], w.flushed[1], w.flushed[2], fresh)
		if err != nil {
			ev["disk"], ev["diskraw"] = &dump{Err: err.Error()}, &dump{Err: err.Error()}
			break
		}
		ev["disk"] = w.getterDump(re)
		ev["diskraw"] = w.enumDump(re)
	case "GC":
		// drop the older, never flushed roots from the cache, then write the rest of the cache out
		n := 0
		for _, t := range w.unflushed {
			if t == w.lastCommit {
				continue
			}
			for i, r := range t {
				if r != w.lastCommit[i] && r != w.flushed[i] {
					w.db.TrieDB().Dereference(r)
					n++
				}
			}
		}
		keep := w.unflushed[:0]
		for _, t := range w.unflushed {
			if t == w.lastCommit {
				keep = append(keep, t)
			}
		}
		w.unflushed = keep
		if err := w.db.TrieDB().Cap(0); err != nil {
			panic(err)
		}
		ev["dereferenced"] = n
		if len(w.commits) > 0 {
			w.commits = w.commits[len(w.commits)-1:] // the collected roots can no longer be reopened
		}
	case "Restart":
		w.db = state.NewDatabase(w.disk)
		re, err := state.New(w.flushed[0], w.flushed[1], w.flushed[2], w.db)
		if err != nil {
			panic(err)
		}
		w.st = re
		w.lastCommit = w.flushed
		w.unflushed = nil
		w.commits = [][3]common.Hash{w.flushed}
		ev["live"] = w.getterDump(re)
		ev["raw"] = w.enumDump(re)
	case "ReloadOld":
		// state.New(k-th last committed roots) through the SAME Database, while the live object has gone on: a throw-away probe
		if op.D < 1 || op.D > len(w.commits) {
			ev["refused"] = true
			break
		}
		t := w.commits[len(w.commits)-op.D]
		ev["roots"] = fixture.Roots(t[0], t[1], t[2])
		re, err := state.New(t[0], t[1], t[2], w.db)
		if err != nil {
			ev["re"], ev["raw"] = &dump{Err: err.Error()}, &dump{Err: err.Error()}
			ev["reroots"] = []string{"", "", ""}
			break
		}
		ev["re"] = w.getterDump(re)
		ev["raw"] = w.enumDump(re)
		ra, rb, rc := re.IntermediateRoot(true)
		ev["reroots"] = fixture.Roots(ra, rb, rc)
	case "AddRecordOther":
		// both sides of a copy go on recording: the same call on the most recent frozen object
		if len(w.frozen) == 0 {
			ev["refused"] = true
			break
		}
		ev["mainpre"] = w.getterDump(st)
		var val *big.Int
		if op.D >= 0 {
			val = bi(op.D)
		}
		w.frozen[len(w.frozen)-1].AddStakingRecord(w.addr(op.A), w.vals[op.V].Addr, txHash(op.H), val)
		ev["main"] = w.getterDump(st)
	case "Copy", "CopySwap":
		if op.Op == "CopySwap" && op.B == 1 {
			w.frozen = append(w.frozen, st)
			w.st = st.Copy()
			ev["blind"] = true
			break
		}
		cp := st.Copy()
		ev["orig"] = w.getterDump(st)
		ev["copy"] = w.getterDump(cp)
		if op.Op == "Copy" {
			w.frozen = append(w.frozen, cp)
		} else {
			w.frozen = append(w.frozen, st)
			w.st = cp
		}
	default:
		panic("unknown op " + op.Op)
	}
}

func run(env *drive.Env) error {
	var beh []Op
	for env.Next(&beh) {
		w := newWorld()
		for i := range beh {
			op := &beh[i]
			ev := map[string]interface{}{"ev": op.Op, "args": op}
			nfz := len(w.frozen)
			w.apply(op, ev)
			// objects frozen BEFORE this operation must still show what they showed when they were frozen
			if nfz > 0 && ev["panic"] == nil && ev["blind"] == nil {
				fz := []*dump{}
				for _, f := range w.frozen[:nfz] {
					fz = append(fz, w.getterDump(f))
				}
				ev["fz"] = fz
			}
			env.Emit(ev)
			if ev["panic"] != nil {
				break
			}
		}
		// end of the behaviour: the roots of the main object and of every frozen object, with the content each of them shows
		end := map[string]interface{}{"ev": "End"}
		func() {
			defer func() {
				if r := recover(); r != nil {
					end["panic"] = fmt.Sprint(r)
				}
			}()
			if len(w.frozen) > 0 {
				fz := []*dump{}
				for _, f := range w.frozen {
					fz = append(fz, w.getterDump(f)) // before the root computation below normalises them
				}
				end["fz"] = fz
			}
			objs := append([]*state.StateDB{w.st}, w.frozen...)
			var roots [][]string
			var dumps, pres []*dump
			for _, o := range objs {
				pres = append(pres, w.getterDump(o))
				a, b, c := o.IntermediateRoot(true)
				roots = append(roots, fixture.Roots(a, b, c))
				dumps = append(dumps, w.getterDump(o))
			}
			end["endroots"], end["enddumps"], end["endpre"] = roots, dumps, pres
		}()
		env.Emit(end)
		beh = nil
	}
	return nil
}
