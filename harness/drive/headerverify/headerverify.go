// Package headerverify drives header descriptions of spec/HeaderVerify.tla through the real ucon header
// verifier (C01): every abstract description is built concretely -- real secp256k1-VRF credentials, real BLS
// precommit signatures and aggregate, real BlockConsensusData / UconValidators encodings -- and handed to
// (*ucon.Server).VerifySeal, VerifyHeader (through a stub consensus.ChainReader whose look-back validator state is
// a real validator trie written by core.Genesis) and VerifySideChainHeader.  One trace line per description:
// the description, the three real verdicts and the error strings.
package headerverify

import (
	"encoding/binary"
	"fmt"
	"math/big"
	"runtime/debug"
	"strings"

	"github.com/youchainhq/go-youchain/bls"
	"github.com/youchainhq/go-youchain/common"
	"github.com/youchainhq/go-youchain/consensus/ucon"
	"github.com/youchainhq/go-youchain/core"
	"github.com/youchainhq/go-youchain/core/rawdb"
	"github.com/youchainhq/go-youchain/core/state"
	"github.com/youchainhq/go-youchain/core/types"
	"github.com/youchainhq/go-youchain/crypto"
	"github.com/youchainhq/go-youchain/crypto/vrf"
	secp256k1VRF "github.com/youchainhq/go-youchain/crypto/vrf/secp256k1"
	"github.com/youchainhq/go-youchain/logging"
	"github.com/youchainhq/go-youchain/params"
	"github.com/youchainhq/go-youchain/rlp"
	"github.com/youchainhq/go-youchain/youdb"
	"verif/harness/drive"
	"verif/harness/fixture"
)

func init() { drive.Register("headerverify", run) }

// ---------------------------------------------------------------- configurations

type valSpec struct {
	Kind  string `json:"kind"` // "chamber" | "house"
	On    bool   `json:"on"`
	Stake int64  `json:"stake"`
}

// cfgSpec is one fixture configuration: a look-back validator set and the protocol parameters in force.
type cfgSpec struct {
	Name     string
	Vals     []valSpec
	ProtoV   uint64   // ValidatorThreshold of the version in force
	ProtoP   uint64   // ProposerThreshold of the version in force
	Ths      []uint64 // threshold alphabet a forger may declare (contains ProtoV and ProtoP)
	Voters   []int    // voters of the honest header (validator ids, 1-based)
	Prop     int      // proposer of the honest header
	Natural  bool     // p < 1 under the protocol thresholds: the genesis seed is searched until the honest committee has a quorum
	Tail     bool     // natural, and moreover one honest voter's VRF output lies in the top 1% of the range (upper-tail branch of choose)
	SaltHint int      // start of the seed search
	Pad      int      // filler validators (offline chamber, stake 50): the list is sorted by DESCENDING stake, so they take the list
	// indices 0..Pad-1 and the modelled validators get indices >= Pad
}

const (
	stepProposal  = 1 // ucon.UConStepProposal
	stepPrevote   = 2 // ucon.Prevote
	stepPrecommit = 3 // ucon.Precommit
	nIdx          = 2 // round indices 1..nIdx
	nSeeds        = 2 // seed 1 = the look-back seed of this round, seed 2 = another round's seed
)

func chamberOnline(vs []valSpec) int64 {
	t := int64(0)
	for _, v := range vs {
		if v.Kind == "chamber" && v.On {
			t += v.Stake
		}
	}
	return t
}

func configs() []cfgSpec {
	a := []valSpec{{"chamber", true, 4}, {"chamber", true, 3}, {"chamber", true, 2}, {"chamber", false, 3}, {"house", true, 5}}
	b := []valSpec{{"chamber", true, 3}, {"chamber", true, 4}, {"chamber", true, 5}, {"chamber", false, 6}, {"house", true, 4}}
	c := []valSpec{{"chamber", true, 5}, {"chamber", true, 5}, {"house", false, 6}, {"chamber", false, 2}, {"chamber", true, 2}}
	n := []valSpec{{"chamber", true, 12}, {"chamber", true, 10}, {"chamber", true, 8}, {"chamber", false, 10}, {"house", true, 9}}
	return []cfgSpec{
		// degenerate: thresholds = online chamber stake, so p = 1 and every credential selects all of the stake
		{Name: "degenerate-A", Vals: a, ProtoV: 9, ProtoP: 9, Ths: []uint64{9, 1, 4, 12}, Voters: []int{1, 2}, Prop: 1},
		{Name: "degenerate-B", Vals: b, ProtoV: 12, ProtoP: 12, Ths: []uint64{12, 1, 6, 13}, Voters: []int{2, 3}, Prop: 2},
		{Name: "degenerate-C", Vals: c, ProtoV: 12, ProtoP: 12, Ths: []uint64{12, 2, 8, 20}, Voters: []int{1, 2}, Prop: 5},
		// natural: p < 1 (a second "version": different thresholds for proposer and committee)
		{Name: "natural-N", Vals: n, ProtoV: 20, ProtoP: 6, Ths: []uint64{20, 6, 2, 30}, Voters: []int{1, 2, 3}, Prop: 1, Natural: true},
		// large set: 63 fillers in front, so the modelled validators sit at list indices 63 (house, stake 5), 64 (stake 4), 65/66 (stake 3,
		// one online, one offline), 67 (stake 2): both sides of a 64-entry boundary of any index-keyed bookkeeping in the verifier
		{Name: "large-L", Vals: a, ProtoV: 9, ProtoP: 9, Ths: []uint64{9, 1, 4, 12}, Voters: []int{1, 2}, Prop: 1, Pad: 63},
		// natural with a voter in the upper tail of the sortition (VRF output above 0.99 of the range)
		{Name: "natural-T", Vals: n, ProtoV: 20, ProtoP: 6, Ths: []uint64{20, 6, 2, 30}, Voters: []int{1, 2, 3}, Prop: 2, Natural: true, Tail: true, SaltHint: 2181},
	}
}

// ---------------------------------------------------------------- fixture

type stubChain struct {
	yp      *params.YouParams
	headers map[uint64]*types.Header
	sdb     state.Database
}

func (c *stubChain) VersionForRound(uint64) (*params.YouParams, error) { return c.yp, nil }
func (c *stubChain) VersionForRoundWithParents(uint64, []*types.Header) (*params.YouParams, error) {
	return c.yp, nil
}
func (c *stubChain) CurrentHeader() *types.Header { return c.headers[0] }
func (c *stubChain) GetHeader(h common.Hash, n uint64) *types.Header {
	if x := c.headers[n]; x != nil && x.Hash() == h {
		return x
	}
	return nil
}
func (c *stubChain) GetHeaderByNumber(n uint64) *types.Header { return c.headers[n] }
func (c *stubChain) GetHeaderByHash(h common.Hash) *types.Header {
	for _, x := range c.headers {
		if x.Hash() == h {
			return x
		}
	}
	return nil
}
func (c *stubChain) GetBlock(common.Hash, uint64) *types.Block { return nil }
func (c *stubChain) GetBlockByNumber(uint64) *types.Block      { return nil }
func (c *stubChain) GetVldReader(valRoot common.Hash) (state.ValidatorReader, error) {
	return state.NewVldReader(valRoot, c.sdb, false)
}
func (c *stubChain) GetAcReader() rawdb.AcReader       { return nil }
func (c *stubChain) UpdateExistedHeader(*types.Header) {}

type cred struct {
	val   common.Hash
	proof []byte
}

type world struct {
	id      int
	cfg     cfgSpec
	nv      int
	keys    []*fixture.Key   // 1..nv members, nv+1 non-member
	vrfs    []vrf.PrivateKey // same indexing
	realIdx []uint32         // index in the sorted look-back validator list (non-member: out of range)
	total   *big.Int         // online chamber stake as the code reads it
	genesis *types.Block
	chain   *stubChain
	eng     *ucon.Server
	vld     state.ValidatorReader
	seeds   [nSeeds + 1]common.Hash
	creds   map[[4]int]cred // (validator, seed id, step, index) -> VRF evaluation
	sigs    map[string]bls.Signature
	seat    [][][][][]int // [v][t][i][s][d], all 1-based with a dummy 0 entry
	salt    int
}

var blsMgr = bls.NewBlsManager()

func newWorld(id int, cfg cfgSpec) (*world, error) {
	w := &world{id: id, cfg: cfg, nv: len(cfg.Vals), creds: map[[4]int]cred{}, sigs: map[string]bls.Signature{}}
	w.keys = fixture.Keys("c01-"+cfg.Name, w.nv+1+cfg.Pad) // 1..nv modelled, nv+1 stranger, then the fillers
	w.vrfs = make([]vrf.PrivateKey, w.nv+2)
	for i := 1; i <= w.nv+1; i++ {
		sk, err := secp256k1VRF.NewVRFSigner(w.keys[i].Priv)
		if err != nil {
			return nil, err
		}
		w.vrfs[i] = sk
	}
	yp := params.Versions[params.YouV5] // a copy
	yp.ProposerThreshold, yp.ValidatorThreshold, yp.CertValThreshold = cfg.ProtoP, cfg.ProtoV, cfg.ProtoV
	if !yp.EnableBls {
		return nil, fmt.Errorf("fixture expects a BLS-enabled protocol version")
	}
	// the look-back seed is searched (credentials depend on keys and seed only) before the genesis state is built
	w.total = big.NewInt(chamberOnline(cfg.Vals))
	salt := cfg.SaltHint // where the search succeeded when the fixture was written (only a starting point: the conditions are re-checked)
	for ; ; salt++ {
		if salt > cfg.SaltHint+20000 {
			return nil, fmt.Errorf("no genesis seed gives the honest committee of %s the required pattern", cfg.Name)
		}
		w.setSeeds(salt)
		if !cfg.Natural || ((!cfg.Tail || w.anyTail()) && w.honestQuorum() && (!cfg.Tail || w.tailVoter() > 0)) {
			break
		}
	}
	w.salt = salt
	if err := w.build(&yp); err != nil {
		return nil, err
	}
	w.table()
	return w, nil
}

func (w *world) setSeeds(salt int) {
	w.creds = map[[4]int]cred{}
	w.seeds[1] = common.Hash{0x5d, byte(salt), byte(salt >> 8)}
	w.seeds[2] = common.Hash{0x77, byte(salt), byte(salt >> 8)}
}

// tailVoter returns an honest voter whose precommit credential of index 1 has a VRF output above 0.99 of the range, whose seat
// count leaves room for inflation and without which the honest committee has no quorum (0: none).
func (w *world) tailVoter() int {
	hmax := new(big.Int).Sub(new(big.Int).Lsh(big.NewInt(1), 256), big.NewInt(1))
	sum := int64(0)
	for _, v := range w.cfg.Voters {
		sum += int64(w.seats(v, w.cfg.ProtoV, 1, stepPrecommit, 1))
	}
	q := int64(w.cfg.ProtoV) * 685 / 1000
	for _, v := range w.cfg.Voters {
		c := w.credential(v, 1, stepPrecommit, 1)
		h := new(big.Int).SetBytes(c.val[:])
		j := int64(w.seats(v, w.cfg.ProtoV, 1, stepPrecommit, 1))
		if new(big.Int).Mul(h, big.NewInt(100)).Cmp(new(big.Int).Mul(hmax, big.NewInt(99))) > 0 && j < w.cfg.Vals[v-1].Stake && sum-j < q {
			return v
		}
	}
	return 0
}

// anyTail: some honest voter's VRF output is above 0.99 of the range (cheap pre-test of the seed search).
func (w *world) anyTail() bool {
	hmax := new(big.Int).Sub(new(big.Int).Lsh(big.NewInt(1), 256), big.NewInt(1))
	for _, v := range w.cfg.Voters {
		c := w.credential(v, 1, stepPrecommit, 1)
		if new(big.Int).Mul(new(big.Int).SetBytes(c.val[:]), big.NewInt(100)).Cmp(new(big.Int).Mul(hmax, big.NewInt(99))) > 0 {
			return true
		}
	}
	return false
}

func (w *world) build(yp *params.YouParams) error {
	cfg := w.cfg
	gvals := core.GenesisValidators{}
	for i := 0; i < cfg.Pad; i++ {
		k := w.keys[w.nv+2+i]
		gvals[k.Addr] = core.GenesisValidator{Name: fmt.Sprintf("f%d", i+1), OperatorAddress: k.Addr, Coinbase: k.Addr,
			MainPubKey: k.PubComp, BlsPubKey: k.BlsPkB, Token: new(big.Int).Mul(big.NewInt(50), params.StakeUint), Role: params.RoleSenator, Status: params.ValidatorOffline}
	}
	for i, v := range cfg.Vals {
		k := w.keys[i+1]
		role := params.RoleSenator
		if v.Kind == "house" {
			role = params.RoleHouse
		}
		status := uint8(params.ValidatorOnline)
		if !v.On {
			status = params.ValidatorOffline
		}
		gvals[k.Addr] = core.GenesisValidator{Name: fmt.Sprintf("v%d", i+1), OperatorAddress: k.Addr, Coinbase: k.Addr,
			MainPubKey: k.PubComp, BlsPubKey: k.BlsPkB, Token: new(big.Int).Mul(big.NewInt(v.Stake), params.StakeUint),
			Role: role, Status: status}
	}
	gcons := &ucon.BlockConsensusData{Round: big.NewInt(0), RoundIndex: 1, Seed: w.seeds[1], SortitionProof: []byte{1}, Priority: common.Hash{1},
		SubUsers: 1, Signature: []byte{}, ProposerThreshold: cfg.ProtoP, ValidatorThreshold: cfg.ProtoV, CertValThreshold: cfg.ProtoV}
	gcb, err := rlp.EncodeToBytes(gcons)
	if err != nil {
		return err
	}
	g := &core.Genesis{NetworkId: params.NetworkIdForTestCase, GasLimit: 8000000, Alloc: core.GenesisAlloc{yp.RewardsPoolAddress: {Balance: big.NewInt(1000000)}},
		Validators: gvals, CurrVersion: params.YouV5, Consensus: gcb, Mixhash: types.UConMixHash}
	db := youdb.NewMemDatabase()
	w.genesis = g.ToBlock(db)
	w.chain = &stubChain{yp: yp, headers: map[uint64]*types.Header{0: w.genesis.Header()}, sdb: state.NewDatabase(db)}
	w.eng, err = ucon.NewVRFServer(db)
	if err != nil {
		return err
	}
	w.vld, err = w.chain.GetVldReader(w.genesis.Header().ValRoot)
	if err != nil {
		return err
	}
	stat, err := w.vld.GetValidatorsStat()
	if err != nil {
		return err
	}
	if t := stat.GetStakeByKind(params.KindChamber); t.Cmp(w.total) != 0 {
		return fmt.Errorf("fixture: online chamber stake is %v, expected %v", t, w.total)
	}
	w.realIdx = make([]uint32, w.nv+2)
	vs := w.vld.GetValidators()
	for i := 1; i <= w.nv; i++ {
		idx, ok := vs.GetIndex(w.keys[i].Addr)
		if !ok {
			return fmt.Errorf("fixture: validator %d not in the look-back set", i)
		}
		if idx < cfg.Pad {
			return fmt.Errorf("fixture: modelled validator %d sorts before the fillers (index %d)", i, idx)
		}
		w.realIdx[i] = uint32(idx)
	}
	w.realIdx[w.nv+1] = uint32(vs.Len()) // the first index that is not a member
	return nil
}

func (w *world) stake(v int) *big.Int { return big.NewInt(w.cfg.Vals[v-1].Stake) }

// credential evaluates validator v's VRF on MakeM(seed d, step s, index i).
func (w *world) credential(v, d, s, i int) cred {
	k := [4]int{v, d, s, i}
	if c, ok := w.creds[k]; ok {
		return c
	}
	val, proof := w.vrfs[v].Evaluate(ucon.MakeM(w.seeds[d], uint32(s), uint32(i)))
	c := cred{common.Hash(val), proof}
	w.creds[k] = c
	return c
}

// seats is the real sortition result of member v for (threshold, index, step, seed); -1 when the code panics (p > 1).
func (w *world) seats(v int, th uint64, i, s, d int) (j int) {
	defer func() {
		if r := recover(); r != nil {
			j = -1
		}
	}()
	_, _, jj := ucon.VrfSortition(w.vrfs[v], w.seeds[d], uint32(i), uint32(s), th, w.stake(v), w.total)
	return int(jj)
}

func (w *world) honestQuorum() bool {
	sum := int64(0)
	for _, v := range w.cfg.Voters {
		j := w.seats(v, w.cfg.ProtoV, 1, stepPrecommit, 1)
		if j <= 0 {
			return false
		}
		sum += int64(j)
	}
	q := int64(w.cfg.ProtoV) * 685 / 1000
	// exact quorum: dropping the smallest vote must lose it
	min := int64(1 << 30)
	for _, v := range w.cfg.Voters {
		if j := int64(w.seats(v, w.cfg.ProtoV, 1, stepPrecommit, 1)); j < min {
			min = j
		}
	}
	// (tail configuration: the quorum must be lost without the tail voter instead -- tailVoter)
	return sum >= q && (w.cfg.Tail || sum-min < q) && w.seats(w.cfg.Prop, w.cfg.ProtoP, 1, stepProposal, 1) > 0
}

func (w *world) table() {
	w.seat = make([][][][][]int, w.nv+1)
	for v := 1; v <= w.nv; v++ {
		w.seat[v] = make([][][][]int, len(w.cfg.Ths)+1)
		for t := 1; t <= len(w.cfg.Ths); t++ {
			w.seat[v][t] = make([][][]int, nIdx+1)
			for i := 1; i <= nIdx; i++ {
				w.seat[v][t][i] = make([][]int, 4)
				for s := 1; s <= 3; s++ {
					w.seat[v][t][i][s] = make([]int, nSeeds+1)
					for d := 1; d <= nSeeds; d++ {
						w.seat[v][t][i][s][d] = w.seats(v, w.cfg.Ths[t-1], i, s, d)
					}
				}
			}
		}
	}
}

// fixtureJSON is what the specification knows about the configuration (fixtures.json).
func (w *world) fixtureJSON() map[string]interface{} {
	// drop the dummy 0 entries: JSON arrays become 1-based TLA+ sequences
	seat := make([]interface{}, 0, w.nv)
	for v := 1; v <= w.nv; v++ {
		var tv []interface{}
		for t := 1; t <= len(w.cfg.Ths); t++ {
			var iv []interface{}
			for i := 1; i <= nIdx; i++ {
				var sv []interface{}
				for s := 1; s <= 3; s++ {
					sv = append(sv, w.seat[v][t][i][s][1:])
				}
				iv = append(iv, sv)
			}
			tv = append(tv, iv)
		}
		seat = append(seat, tv)
	}
	return map[string]interface{}{"name": w.cfg.Name, "vals": w.cfg.Vals, "protoV": w.cfg.ProtoV, "protoP": w.cfg.ProtoP, "ths": w.cfg.Ths,
		"voters": w.cfg.Voters, "prop": w.cfg.Prop, "total": w.total.Int64(), "seat": seat, "nidx": nIdx,
		"pad": w.cfg.Pad, "salt": w.salt, "listIndex": w.realIdx[1 : w.nv+1], "tailVoter": w.tailVoter()}
}

// ---------------------------------------------------------------- header descriptions

// CredD describes a sortition credential as presented: made by key `By` (0 = the claimed owner) for message
// (seed Cd, step Cs, index Ci), possibly with a corrupted proof byte, claiming J seats.
type VoteD struct {
	V  int    `json:"v"`  // claimed voter: validator id, nv+1 = an index outside the validator list
	Ci int    `json:"ci"` // credential: round index
	Cs int    `json:"cs"` // credential: step
	Cd int    `json:"cd"` // credential: seed (1 = this round's look-back seed)
	Pb string `json:"pb"` // "ok" | "foreign" (proof made with another member's key) | "corrupt"
	J  int    `json:"j"`  // claimed weight
	Sb int    `json:"sb"` // BLS signature: 0 = not in the aggregate, 1 = over this block's hash, 2 = over another block's hash
	Sr int    `json:"sr"` // 1 = this round, 2 = another round
	Si int    `json:"si"` // round index in the signed payload
}

type PropD struct {
	P    int    `json:"p"`
	Ci   int    `json:"ci"`
	Cs   int    `json:"cs"`
	Cd   int    `json:"cd"`
	Pb   string `json:"pb"`
	J    int    `json:"j"`
	Prio string `json:"prio"` // "ok" = max keccak over seats 0..J of the presented VRF value | "bad" = another seat's hash / flipped
}

type Desc struct {
	Cfg   int     `json:"cfg"`
	DeclV uint64  `json:"declV"`
	DeclP uint64  `json:"declP"`
	Pidx  int     `json:"pidx"`
	Vidx  int     `json:"vidx"`
	Prop  PropD   `json:"prop"`
	Votes []VoteD `json:"votes"`
	Agg   string  `json:"agg"` // "ok" = sum of the listed signatures | "flip" | "unrelated"
	D     int     `json:"d"`   // forging depth (informational)
}

func (w *world) proofFor(owner, d, s, i int, pb string) (common.Hash, []byte) {
	by := owner
	if pb == "foreign" {
		by = owner%w.nv + 1 // another member's key
	}
	c := w.credential(by, d, s, i)
	proof := append([]byte{}, c.proof...)
	if pb == "corrupt" {
		proof[len(proof)/2] ^= 0x01
	}
	return c.val, proof
}

func payload(hash common.Hash, round *big.Int, idx int) []byte {
	b := make([]byte, 4)
	binary.BigEndian.PutUint32(b, uint32(idx))
	return append(append(append([]byte{}, hash.Bytes()...), round.Bytes()...), b...)
}

func (w *world) sign(v int, pl []byte) bls.Signature {
	k := fmt.Sprintf("%d/%x", v, pl)
	if s, ok := w.sigs[k]; ok {
		return s
	}
	s := w.keys[v].BlsSk.Sign(pl)
	w.sigs[k] = s
	return s
}

// infinity is the compressed encoding of the neutral element of the signature group (the sum of no signatures).
func infinity() []byte {
	b := make([]byte, bls.SignatureBytes)
	b[0] = 0xc0
	return b
}

// buildHeader turns a description into a concrete header of round 1 on top of the fixture's genesis.
func (w *world) buildHeader(d *Desc) (*types.Header, error) {
	g := w.genesis.Header()
	round := big.NewInt(1)
	pk := w.keys[d.Prop.P]
	h := &types.Header{ParentHash: g.Hash(), Number: round, Time: g.Time + 10, Coinbase: pk.Addr, GasLimit: g.GasLimit,
		GasRewards: big.NewInt(0), Subsidy: big.NewInt(0), Extra: []byte{}, MixDigest: types.UConMixHash,
		Root: g.Root, ValRoot: g.ValRoot, StakingRoot: g.StakingRoot, CurrVersion: g.CurrVersion}
	val, proof := w.proofFor(d.Prop.P, d.Prop.Cd, d.Prop.Cs, d.Prop.Ci, d.Prop.Pb)
	prio := ucon.VrfComputePriority(val, uint32(d.Prop.J))
	if d.Prop.Prio != "ok" {
		// the hash of seat 0 when it is not the maximum, otherwise a flipped maximum
		alt := ucon.VrfComputePriority(val, 0)
		if alt == prio {
			alt[31] ^= 0x01
		}
		prio = alt
	}
	nseed, _ := ucon.ComputeSeed(w.vrfs[d.Prop.P], round, uint32(d.Pidx), w.seeds[1])
	cd := &ucon.BlockConsensusData{Round: round, RoundIndex: uint32(d.Pidx), Seed: nseed, SortitionProof: proof, Priority: prio,
		SubUsers: uint32(d.Prop.J), ProposerThreshold: d.DeclP, ValidatorThreshold: d.DeclV, CertValThreshold: w.cfg.ProtoV}
	if err := cd.SetSignature(pk.Priv); err != nil {
		return nil, err
	}
	var err error
	if h.Consensus, err = rlp.EncodeToBytes(cd); err != nil {
		return nil, err
	}
	if h.Signature, err = crypto.Sign(h.Hash().Bytes(), pk.Priv); err != nil {
		return nil, err
	}
	// another block of the same round: same header with a different extra field
	other := types.CopyHeader(h)
	other.Extra = []byte{0x01}
	hashes := [3]common.Hash{{}, h.Hash(), other.Hash()}
	rounds := [3]*big.Int{nil, round, big.NewInt(2)}
	var votes []ucon.SingleVote
	var sigs []bls.Signature
	for _, v := range d.Votes {
		sv := ucon.SingleVote{VoterIdx: w.realIdx[v.V], Votes: uint32(v.J)}
		_, sv.Proof = w.proofFor(v.V, v.Cd, v.Cs, v.Ci, v.Pb)
		votes = append(votes, sv)
		if v.Sb != 0 {
			sigs = append(sigs, w.sign(v.V, payload(hashes[v.Sb], rounds[v.Sr], v.Si)))
		}
	}
	asig := infinity()
	if len(sigs) > 0 {
		a, err := blsMgr.Aggregate(sigs)
		if err != nil {
			return nil, err
		}
		asig = a.Compress().Bytes()
	}
	switch d.Agg {
	case "flip":
		asig = append([]byte{}, asig...)
		asig[len(asig)-1] ^= 0x01
	case "unrelated":
		asig = w.sign(w.nv+1, payload(hashes[1], round, d.Vidx)).Compress().Bytes()
	}
	uv := &ucon.UconValidators{RoundIndex: uint32(d.Vidx), ChamberCommitters: votes, SCAggrSig: asig}
	if h.Validator, err = uv.ValidatorsToByte(); err != nil {
		return nil, err
	}
	if h.Certificate, err = (&ucon.UconValidators{RoundIndex: uint32(d.Vidx)}).ValidatorsToByte(); err != nil {
		return nil, err
	}
	return h, nil
}

func guard(f func() error) (err error, pmsg string) {
	defer func() {
		if r := recover(); r != nil {
			pmsg = fmt.Sprint(r) + " @ " + panicSite()
		}
	}()
	return f(), ""
}

// panicSite names the first frames below the panic (function names only), for the evidence.
func panicSite() string {
	lines := strings.Split(string(debug.Stack()), "\n")
	var fns []string
	seen := false
	for _, l := range lines {
		if strings.HasPrefix(l, "panic(") {
			seen = true
			continue
		}
		if !seen || strings.HasPrefix(l, "\t") || strings.HasPrefix(l, "runtime.") || l == "" {
			continue
		}
		if i := strings.LastIndex(l, "("); i > 0 {
			l = l[:i]
		}
		if j := strings.LastIndex(l, "/"); j >= 0 {
			l = l[j+1:]
		}
		fns = append(fns, l)
		if len(fns) == 4 {
			break
		}
	}
	return strings.Join(fns, " < ")
}

func verdict(ev map[string]interface{}, name string, err error, pmsg string) {
	ev[name] = err == nil && pmsg == ""
	if err != nil {
		ev[name+"Err"] = err.Error()
	}
	if pmsg != "" {
		ev[name+"Panic"] = pmsg
	}
}

func (w *world) verify(d *Desc, all bool) map[string]interface{} {
	ev := map[string]interface{}{"ev": "Verify", "desc": d}
	h, err := w.buildHeader(d)
	if err != nil {
		ev["skip"] = err.Error()
		return ev
	}
	e1, p1 := guard(func() error { return w.eng.VerifySeal(w.chain, h) })
	verdict(ev, "seal", e1, p1)
	accept := e1 == nil && p1 == ""
	if all {
		e2, p2 := guard(func() error { return w.eng.VerifyHeader(w.chain, h, true) })
		verdict(ev, "hdr", e2, p2)
		blk := types.NewBlockWithHeader(h)
		e3, p3 := guard(func() error {
			return w.eng.VerifySideChainHeader(&w.chain.yp.CaravelParams, w.genesis.Header(), w.vld, nil, nil, blk, []*types.Block{w.genesis})
		})
		verdict(ev, "side", e3, p3)
		accept = accept || (e2 == nil && p2 == "") || (e3 == nil && p3 == "")
	}
	ev["accept"] = accept
	if p1 != "" {
		ev["panic"] = p1
	}
	return ev
}

// ---------------------------------------------------------------- driver

type line struct {
	Desc
}

func run(env *drive.Env) error {
	logging.Root().SetHandler(logging.DiscardHandler())
	params.InitNetworkId(params.NetworkIdForTestCase)
	cfgs := configs()
	worlds := map[int]*world{}
	get := func(id int) (*world, error) {
		if w, ok := worlds[id]; ok {
			return w, nil
		}
		if id < 1 || id > len(cfgs) {
			return nil, fmt.Errorf("unknown configuration %d", id)
		}
		w, err := newWorld(id, cfgs[id-1])
		if err != nil {
			return nil, err
		}
		worlds[id] = w
		return w, nil
	}
	if env.Opt("mode", "verify") == "table" {
		env.Begin(0)
		for id := 1; id <= len(cfgs); id++ {
			w, err := get(id)
			if err != nil {
				return err
			}
			env.Emit(map[string]interface{}{"ev": "fixture", "cfg": id, "fx": w.fixtureJSON()})
		}
		return nil
	}
	// all=1: every description goes through all three entry points; all=0: VerifyHeader and VerifySideChainHeader see every third
	all := env.Opt("all", "1") == "1"
	var d Desc
	for {
		d = Desc{}
		if !env.Next(&d) {
			break
		}
		w, err := get(d.Cfg)
		if err != nil {
			return err
		}
		env.Emit(w.verify(&d, all || env.T%3 == 0))
	}
	return nil
}
