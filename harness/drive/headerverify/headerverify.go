// Package headerverify drives header descriptions of spec/HeaderVerify.tla through the real ucon header
// verifier (C01): every abstract description is built concretely -- real secp256k1-VRF credentials, real BLS
// precommit signatures and aggregate, real BlockConsensusData / UconValidators encodings -- and handed to
// (*ucon.Server).VerifySeal, VerifyHeader (through a stub consensus.ChainReader whose look-back validator state is
// a real validator trie written by core.Genesis) and VerifySideChainHeader.  One trace line per description:
// the description, the three real verdicts and the error strings.
package headerverify

import (
	"encoding/binary"
	"fmt"
	"math/big"
	"runtime/debug"
	"strings"

	"github.com/youchainhq/go-youchain/bls"
	"github.com/youchainhq/go-youchain/common"
	"github.com/youchainhq/go-youchain/consensus/ucon"
	"github.com/youchainhq/go-youchain/core"
	"github.com/youchainhq/go-youchain/core/rawdb"
	"github.com/youchainhq/go-youchain/core/state"
	"github.com/youchainhq/go-youchain/core/types"
	"github.com/youchainhq/go-youchain/crypto"
	"github.com/youchainhq/go-youchain/crypto/vrf"
	secp256k1VRF "github.com/youchainhq/go-youchain/crypto/vrf/secp256k1"
	"github.com/youchainhq/go-youchain/logging"
	"github.com/youchainhq/go-youchain/params"
	"github.com/youchainhq/go-youchain/rlp"
	"github.com/youchainhq/go-youchain/youdb"
	"verif/harness/drive"
	"verif/harness/fixture"
)

func init() { drive.Register("headerverify", run) }

// ---------------------------------------------------------------- configurations

type valSpec struct {
	Kind  string `json:"kind"` // "chamber" | "house"
	On    bool   `json:"on"`
	Stake int64  `json:"stake"`
}

// cfgSpec is one fixture configuration: a look-back validator set and the protocol parameters in force.
type cfgSpec struct {
	Name     string
	Vals     []valSpec
	ProtoV   uint64   // ValidatorThreshold of the version in force
	ProtoP   uint64   // ProposerThreshold of the version in force
	Ths      []uint64 // threshold alphabet a forger may declare (contains ProtoV and ProtoP)
	Voters   []int    // voters of the honest header (validator ids, 1-based)
	Prop     int      // proposer of the honest header
	Natural  bool     // p < 1 under the protocol thresholds: the genesis seed is searched until the honest committee has a quorum
	Tail     bool     // natural, and moreover one honest voter's VRF output lies in the top 1% of the range (upper-tail branch of choose)
	SaltHint int      // start of the seed search
	Family   string   // configurations of one family are EPOCHS of one chain: same validator main keys, one verifier engine (its caches
	// live across them); the driver verifies their headers in configuration order within one process
	Rekeyed  []int // validators whose BLS key differs between the two epochs of the family
	Gen      int   // BLS key generation the rekeyed validators have REGISTERED in this configuration (0 / 1)
	BlsOff   bool  // the protocol version in force has EnableBls = false (ECDSA signature per vote, no aggregate)
	Newcomer int64 // > 0: the chain's CURRENT validator set is the look-back set plus validator nv+1 (online chamber, this stake),
	// registered after the look-back block; descriptions may make the look-back trie unreadable
	CertRound bool      // the header under verification is at a certificate round (multiple of params.ACoCHTFrequency)
	CVals     []valSpec // the CERTIFICATE look-back validator set (same identities, other stakes / status / kind)
	ProtoC    uint64    // CertValThreshold of the version in force
	CVoters   []int     // certificate voters of the honest header
	Pad       int       // filler validators (offline chamber, stake 50): the list is sorted by DESCENDING stake, so they take the list
	// indices 0..Pad-1 and the modelled validators get indices >= Pad
}

const (
	stepProposal  = 1 // ucon.UConStepProposal
	stepPrevote   = 2 // ucon.Prevote
	stepPrecommit = 3 // ucon.Precommit
	stepCert      = 5 // ucon.Certificate
	nSteps        = 5
	nIdx          = 2 // round indices 1..nIdx
	nSeeds        = 3 // seed 1 = the look-back seed of this round, seed 2 = another round's seed, seed 3 = the certificate look-back seed
)

func chamberOnline(vs []valSpec) int64 {
	t := int64(0)
	for _, v := range vs {
		if v.Kind == "chamber" && v.On {
			t += v.Stake
		}
	}
	return t
}

func configs() []cfgSpec {
	a := []valSpec{{"chamber", true, 4}, {"chamber", true, 3}, {"chamber", true, 2}, {"chamber", false, 3}, {"house", true, 5}}
	b := []valSpec{{"chamber", true, 3}, {"chamber", true, 4}, {"chamber", true, 5}, {"chamber", false, 6}, {"house", true, 4}}
	c := []valSpec{{"chamber", true, 5}, {"chamber", true, 5}, {"house", false, 6}, {"chamber", false, 2}, {"chamber", true, 2}}
	n := []valSpec{{"chamber", true, 12}, {"chamber", true, 10}, {"chamber", true, 8}, {"chamber", false, 10}, {"house", true, 9}}
	e2 := []valSpec{{"chamber", true, 4}, {"chamber", true, 2}, {"chamber", true, 3}, {"chamber", false, 3}, {"house", true, 5}}
	ca := []valSpec{{"chamber", true, 3}, {"chamber", true, 5}, {"chamber", false, 2}, {"chamber", true, 4}, {"house", true, 6}}
	cn := []valSpec{{"chamber", true, 10}, {"chamber", true, 12}, {"chamber", false, 8}, {"chamber", true, 9}, {"house", true, 7}}
	return []cfgSpec{
		// degenerate: thresholds = online chamber stake, so p = 1 and every credential selects all of the stake
		{Name: "degenerate-A", Vals: a, ProtoV: 9, ProtoP: 9, Ths: []uint64{9, 1, 4, 12}, Voters: []int{1, 2}, Prop: 1},
		{Name: "degenerate-B", Vals: b, ProtoV: 12, ProtoP: 12, Ths: []uint64{12, 1, 6, 13}, Voters: []int{2, 3}, Prop: 2},
		{Name: "degenerate-C", Vals: c, ProtoV: 12, ProtoP: 12, Ths: []uint64{12, 2, 8, 20}, Voters: []int{1, 2}, Prop: 5},
		// natural: p < 1 (a second "version": different thresholds for proposer and committee)
		{Name: "natural-N", Vals: n, ProtoV: 20, ProtoP: 6, Ths: []uint64{20, 6, 2, 30}, Voters: []int{1, 2, 3}, Prop: 1, Natural: true},
		// large set: 63 fillers in front, so the modelled validators sit at list indices 63 (house, stake 5), 64 (stake 4), 65/66 (stake 3,
		// one online, one offline), 67 (stake 2): both sides of a 64-entry boundary of any index-keyed bookkeeping in the verifier
		{Name: "large-L", Vals: a, ProtoV: 9, ProtoP: 9, Ths: []uint64{9, 1, 4, 12}, Voters: []int{1, 2}, Prop: 1, Pad: 63},
		// natural with a voter in the upper tail of the sortition (VRF output above 0.99 of the range)
		{Name: "natural-T", Vals: n, ProtoV: 20, ProtoP: 6, Ths: []uint64{20, 6, 2, 30}, Voters: []int{1, 2, 3}, Prop: 2, Natural: true, Tail: true, SaltHint: 2181},
		// certificate round 3 * ACoCHTFrequency: the stake look-back set (round - 16) and the certificate look-back set (round - 2 * 32768)
		// differ: validator 3 is online for precommits but OFFLINE in the certificate set, validator 4 the other way round, stakes differ
		{Name: "cert-D", Vals: a, ProtoV: 9, ProtoP: 9, Ths: []uint64{9, 12, 1, 4, 13}, Voters: []int{1, 2}, Prop: 1,
			CertRound: true, CVals: ca, ProtoC: 12, CVoters: []int{2, 1}},
		{Name: "cert-N", Vals: n, ProtoV: 20, ProtoP: 6, Ths: []uint64{20, 6, 24, 2, 32}, Voters: []int{1, 2, 3}, Prop: 1, Natural: true,
			CertRound: true, CVals: cn, ProtoC: 24, CVoters: []int{1, 2, 4}, SaltHint: 4},
		// two epochs of one chain, verified by ONE engine in this order: in E2 validator 1 has re-registered with the same main key and a
		// new BLS key, validators 2 and 3 have swapped stakes
		// a protocol version without BLS: every precommit carries its own ECDSA signature
		{Name: "ecdsa-A", Vals: a, ProtoV: 9, ProtoP: 9, Ths: []uint64{9, 1, 4, 12}, Voters: []int{1, 2}, Prop: 1, BlsOff: true},
		// the current validator set differs from the look-back set: a newcomer with a large stake registered after the look-back block
		{Name: "lookback-U", Vals: a, ProtoV: 9, ProtoP: 9, Ths: []uint64{9, 1, 4, 12}, Voters: []int{1, 2}, Prop: 1, Newcomer: 60, Natural: true},
		{Name: "epoch-E1", Family: "E", Vals: a, ProtoV: 9, ProtoP: 9, Ths: []uint64{9, 1, 4, 12}, Voters: []int{1, 2}, Prop: 1, Rekeyed: []int{1}, Gen: 0},
		{Name: "epoch-E2", Family: "E", Vals: e2, ProtoV: 9, ProtoP: 9, Ths: []uint64{9, 1, 4, 12}, Voters: []int{1, 3}, Prop: 1, Rekeyed: []int{1}, Gen: 1},
	}
}

// ---------------------------------------------------------------- fixture

type stubChain struct {
	yp      *params.YouParams
	headers map[uint64]*types.Header
	sdb     state.Database
	gone    map[common.Hash]bool // validator tries this node cannot read (pruned / fast-synced)
	current *types.Header        // CurrentHeader (nil: the genesis header)
}

func (c *stubChain) VersionForRound(uint64) (*params.YouParams, error) { return c.yp, nil }
func (c *stubChain) VersionForRoundWithParents(uint64, []*types.Header) (*params.YouParams, error) {
	return c.yp, nil
}
func (c *stubChain) CurrentHeader() *types.Header {
	if c.current != nil {
		return c.current
	}
	return c.headers[0]
}
func (c *stubChain) GetHeader(h common.Hash, n uint64) *types.Header {
	if x := c.headers[n]; x != nil && x.Hash() == h {
		return x
	}
	return nil
}
func (c *stubChain) GetHeaderByNumber(n uint64) *types.Header { return c.headers[n] }
func (c *stubChain) GetHeaderByHash(h common.Hash) *types.Header {
	for _, x := range c.headers {
		if x.Hash() == h {
			return x
		}
	}
	return nil
}
func (c *stubChain) GetBlock(common.Hash, uint64) *types.Block { return nil }
func (c *stubChain) GetBlockByNumber(uint64) *types.Block      { return nil }
func (c *stubChain) GetVldReader(valRoot common.Hash) (state.ValidatorReader, error) {
	if c.gone[valRoot] {
		return nil, fmt.Errorf("missing trie node %x (validator trie pruned)", valRoot[:8])
	}
	return state.NewVldReader(valRoot, c.sdb, false)
}
func (c *stubChain) GetAcReader() rawdb.AcReader       { return nil }
func (c *stubChain) UpdateExistedHeader(*types.Header) {}

type cred struct {
	val   common.Hash
	proof []byte
}

type world struct {
	id       int
	cfg      cfgSpec
	nv       int
	keys     []*fixture.Key   // 1..nv members, nv+1 non-member
	vrfs     []vrf.PrivateKey // same indexing
	realIdx  []uint32         // index in the sorted stake look-back validator list (non-member: out of range)
	crealIdx []uint32         // index in the sorted CERTIFICATE look-back validator list
	total    *big.Int         // online chamber stake of the stake look-back set
	ctotal   *big.Int         // online chamber stake of the certificate look-back set
	round    *big.Int         // round of the header under verification
	genesis  *types.Block
	parent   *types.Block
	seedHdr  *types.Header // look-back header that carries seed 1
	chain    *stubChain
	eng      *ucon.Server
	vld      state.ValidatorReader // stake look-back set
	cvld     state.ValidatorReader // certificate look-back set
	seeds    [nSeeds + 1]common.Hash
	creds    map[[4]int]cred // (validator, seed id, step, index) -> VRF evaluation
	sigs     map[string]bls.Signature
	seat     [][][][][]int // [v][t][i][s][d] with the stake look-back set's stake / total, all 1-based with a dummy 0 entry
	cseat    [][][][][]int // the same with the certificate look-back set's stake / total
	salt     int
	csalt    int
	bls2     []*fixture.Key // second-generation BLS keys (only the BLS part is used)
	T        int            // index of the description being verified (sampling)
	useat    [][][][][]int  // seat table of validators 1..nv+1 under the CURRENT set (Newcomer configurations)
	urealIdx []uint32       // list positions in the current set
	utotal   *big.Int
	honest   *types.Header // the honest header of the configuration (what the chain stores in the "known" variants)
}

// engines: one verifier engine per family (epochs of one chain share the engine and therefore its caches)
var engines = map[string]*ucon.Server{}

// blsKey returns the BLS identity validator v signs with: the one registered in this configuration (bk = 0) or the one it holds in
// the sibling configuration (bk = 1).  They differ only for the rekeyed validators.
func (w *world) blsKey(v, bk int) *fixture.Key {
	rek := false
	for _, r := range w.cfg.Rekeyed {
		rek = rek || r == v
	}
	gen := 0
	if rek {
		gen = (w.cfg.Gen + bk) % 2
	}
	if gen == 1 {
		return w.bls2[v]
	}
	return w.keys[v]
}

var blsMgr = bls.NewBlsManager()

func newWorld(id int, cfg cfgSpec) (*world, error) {
	if cfg.ProtoC == 0 {
		cfg.ProtoC = cfg.ProtoV
	}
	if cfg.CVals == nil {
		cfg.CVals = cfg.Vals
	}
	w := &world{id: id, cfg: cfg, nv: len(cfg.Vals), creds: map[[4]int]cred{}, sigs: map[string]bls.Signature{}}
	fam := cfg.Name
	if cfg.Family != "" {
		fam = "family-" + cfg.Family
	}
	w.keys = fixture.Keys("c01-"+fam, w.nv+1+cfg.Pad) // 1..nv modelled, nv+1 stranger, then the fillers
	w.bls2 = fixture.Keys("c01-"+fam+"-bls2", w.nv+1)
	w.vrfs = make([]vrf.PrivateKey, w.nv+2)
	for i := 1; i <= w.nv+1; i++ {
		sk, err := secp256k1VRF.NewVRFSigner(w.keys[i].Priv)
		if err != nil {
			return nil, err
		}
		w.vrfs[i] = sk
	}
	yp := params.Versions[params.YouV5] // a copy
	yp.ProposerThreshold, yp.ValidatorThreshold, yp.CertValThreshold = cfg.ProtoP, cfg.ProtoV, cfg.ProtoC
	if !yp.EnableBls {
		return nil, fmt.Errorf("fixture expects a BLS-enabled protocol version")
	}
	// the stub chain hands THIS copy to the verifier (VersionForRound...), so a version without BLS needs no change of params.Versions
	yp.EnableBls = !cfg.BlsOff
	w.utotal = big.NewInt(chamberOnline(cfg.Vals) + cfg.Newcomer)
	// the look-back seeds are searched (credentials depend on keys and seed only) before the states are built
	w.total = big.NewInt(chamberOnline(cfg.Vals))
	w.ctotal = big.NewInt(chamberOnline(cfg.CVals))
	salt := cfg.SaltHint // where the search succeeded when the fixture was written (only a starting point: the conditions are re-checked)
	for ; ; salt++ {
		if salt > cfg.SaltHint+20000 {
			return nil, fmt.Errorf("no look-back seed gives the honest committee of %s the required pattern", cfg.Name)
		}
		w.setSeeds(salt, 0)
		if cfg.Newcomer > 0 {
			// the newcomer alone reaches the quorum with the seats the CURRENT set gives it, and is a proposer there
			if int64(w.useats(w.nv+1, cfg.ProtoV, 1, stepPrecommit, 1)) >= int64(cfg.ProtoV)*685/1000 && w.useats(w.nv+1, cfg.ProtoP, 1, stepProposal, 1) > 0 {
				break
			}
			continue
		}
		if !cfg.Natural || ((!cfg.Tail || w.anyTail()) && w.honestQuorum() && (!cfg.Tail || w.tailVoter() > 0)) {
			break
		}
	}
	w.salt = salt
	for csalt := 0; cfg.CertRound; csalt++ {
		if csalt > 20000 {
			return nil, fmt.Errorf("no certificate look-back seed gives the honest certificate committee of %s an exact quorum", cfg.Name)
		}
		w.setSeeds(salt, csalt)
		if !cfg.Natural || w.honestCertQuorum() {
			w.csalt = csalt
			break
		}
	}
	if err := w.build(&yp); err != nil {
		return nil, err
	}
	w.table()
	return w, nil
}

func (w *world) setSeeds(salt, csalt int) {
	w.creds = map[[4]int]cred{}
	w.seeds[1] = common.Hash{0x5d, byte(salt), byte(salt >> 8)}
	w.seeds[2] = common.Hash{0x77, byte(salt), byte(salt >> 8)}
	w.seeds[3] = common.Hash{0xce, byte(csalt), byte(csalt >> 8)}
}

// tailVoter returns an honest voter whose precommit credential of index 1 has a VRF output above 0.99 of the range, whose seat
// count leaves room for inflation and without which the honest committee has no quorum (0: none).
func (w *world) tailVoter() int {
	hmax := new(big.Int).Sub(new(big.Int).Lsh(big.NewInt(1), 256), big.NewInt(1))
	sum := int64(0)
	for _, v := range w.cfg.Voters {
		sum += int64(w.seats(v, w.cfg.ProtoV, 1, stepPrecommit, 1, false))
	}
	q := int64(w.cfg.ProtoV) * 685 / 1000
	for _, v := range w.cfg.Voters {
		c := w.credential(v, 1, stepPrecommit, 1)
		h := new(big.Int).SetBytes(c.val[:])
		j := int64(w.seats(v, w.cfg.ProtoV, 1, stepPrecommit, 1, false))
		if new(big.Int).Mul(h, big.NewInt(100)).Cmp(new(big.Int).Mul(hmax, big.NewInt(99))) > 0 && j < w.cfg.Vals[v-1].Stake && sum-j < q {
			return v
		}
	}
	return 0
}

// anyTail: some honest voter's VRF output is above 0.99 of the range (cheap pre-test of the seed search).
func (w *world) anyTail() bool {
	hmax := new(big.Int).Sub(new(big.Int).Lsh(big.NewInt(1), 256), big.NewInt(1))
	for _, v := range w.cfg.Voters {
		c := w.credential(v, 1, stepPrecommit, 1)
		if new(big.Int).Mul(new(big.Int).SetBytes(c.val[:]), big.NewInt(100)).Cmp(new(big.Int).Mul(hmax, big.NewInt(99))) > 0 {
			return true
		}
	}
	return false
}

func (w *world) genesisValidators(vals []valSpec) core.GenesisValidators {
	gvals := core.GenesisValidators{}
	for i := 0; i < w.cfg.Pad; i++ {
		k := w.keys[w.nv+2+i]
		gvals[k.Addr] = core.GenesisValidator{Name: fmt.Sprintf("f%d", i+1), OperatorAddress: k.Addr, Coinbase: k.Addr,
			MainPubKey: k.PubComp, BlsPubKey: k.BlsPkB, Token: new(big.Int).Mul(big.NewInt(50), params.StakeUint), Role: params.RoleSenator, Status: params.ValidatorOffline}
	}
	for i, v := range vals {
		k := w.keys[i+1]
		role := params.RoleSenator
		if v.Kind == "house" {
			role = params.RoleHouse
		}
		status := uint8(params.ValidatorOnline)
		if !v.On {
			status = params.ValidatorOffline
		}
		gvals[k.Addr] = core.GenesisValidator{Name: fmt.Sprintf("v%d", i+1), OperatorAddress: k.Addr, Coinbase: k.Addr,
			MainPubKey: k.PubComp, BlsPubKey: w.blsKey(i+1, 0).BlsPkB, Token: new(big.Int).Mul(big.NewInt(v.Stake), params.StakeUint),
			Role: role, Status: status}
	}
	return gvals
}

func (w *world) consensusBytes(round int64, seed common.Hash, certTh uint64) []byte {
	c := &ucon.BlockConsensusData{Round: big.NewInt(round), RoundIndex: 1, Seed: seed, SortitionProof: []byte{1}, Priority: common.Hash{1},
		SubUsers: 1, Signature: []byte{}, ProposerThreshold: w.cfg.ProtoP, ValidatorThreshold: w.cfg.ProtoV, CertValThreshold: certTh}
	b, err := rlp.EncodeToBytes(c)
	if err != nil {
		panic(err)
	}
	return b
}

// indexOf fills the list positions of the modelled validators in a look-back set.
func (w *world) indexOf(vld state.ValidatorReader, total *big.Int) ([]uint32, error) {
	stat, err := vld.GetValidatorsStat()
	if err != nil {
		return nil, err
	}
	if t := stat.GetStakeByKind(params.KindChamber); t.Cmp(total) != 0 {
		return nil, fmt.Errorf("fixture: online chamber stake is %v, expected %v", t, total)
	}
	idxs := make([]uint32, w.nv+2)
	vs := vld.GetValidators()
	for i := 1; i <= w.nv; i++ {
		idx, ok := vs.GetIndex(w.keys[i].Addr)
		if !ok {
			return nil, fmt.Errorf("fixture: validator %d not in the look-back set", i)
		}
		if idx < w.cfg.Pad {
			return nil, fmt.Errorf("fixture: modelled validator %d sorts before the fillers (index %d)", i, idx)
		}
		idxs[i] = uint32(idx)
	}
	idxs[w.nv+1] = uint32(vs.Len()) // the first index that is not a member
	return idxs, nil
}

// build writes the look-back validator set(s) into real validator tries and puts the headers the verifier consults on the stub
// chain.  Plain configurations: round 1, every look-back is the genesis block.  Certificate configurations: round
// 3 * ACoCHTFrequency; the verifier reads the parent (round - 1), the seed look-back (round - SeedLookBack), the stake look-back
// (round - StakeLookBack), the certificate seed look-back (round - ACoCHTFrequency: seed 3, declared CertValThreshold, version)
// and the certificate stake look-back (round - 2 * ACoCHTFrequency: the certificate validator set).
func (w *world) build(yp *params.YouParams) error {
	cfg := w.cfg
	g := &core.Genesis{NetworkId: params.NetworkIdForTestCase, GasLimit: 8000000, Alloc: core.GenesisAlloc{yp.RewardsPoolAddress: {Balance: big.NewInt(1000000)}},
		Validators: w.genesisValidators(cfg.Vals), CurrVersion: params.YouV5, Consensus: w.consensusBytes(0, w.seeds[1], cfg.ProtoC), Mixhash: types.UConMixHash}
	db := youdb.NewMemDatabase()
	w.genesis = g.ToBlock(db)
	w.chain = &stubChain{yp: yp, headers: map[uint64]*types.Header{0: w.genesis.Header()}, sdb: state.NewDatabase(db)}
	var err error
	if e, ok := engines[cfg.Family]; ok && cfg.Family != "" {
		w.eng = e
	} else {
		if w.eng, err = ucon.NewVRFServer(db); err != nil {
			return err
		}
		if cfg.Family != "" {
			engines[cfg.Family] = w.eng
		}
	}
	if w.vld, err = w.chain.GetVldReader(w.genesis.Header().ValRoot); err != nil {
		return err
	}
	if w.realIdx, err = w.indexOf(w.vld, w.total); err != nil {
		return err
	}
	w.round, w.parent, w.seedHdr, w.cvld, w.crealIdx = big.NewInt(1), w.genesis, w.genesis.Header(), w.vld, w.realIdx
	w.chain.gone = map[common.Hash]bool{}
	if cfg.Newcomer > 0 {
		// the CURRENT validator set: a third state in the same database; the stub's CurrentHeader carries its root
		gu := *g
		gu.Validators = w.genesisValidators(cfg.Vals)
		k := w.keys[w.nv+1]
		gu.Validators[k.Addr] = core.GenesisValidator{Name: "newcomer", OperatorAddress: k.Addr, Coinbase: k.Addr, MainPubKey: k.PubComp, BlsPubKey: k.BlsPkB,
			Token: new(big.Int).Mul(big.NewInt(cfg.Newcomer), params.StakeUint), Role: params.RoleSenator, Status: params.ValidatorOnline}
		ublock := gu.ToBlock(db)
		uh := types.CopyHeader(w.genesis.Header())
		uh.Number, uh.ValRoot = big.NewInt(5), ublock.Header().ValRoot
		w.chain.current = uh
		uvld, err := w.chain.GetVldReader(uh.ValRoot)
		if err != nil {
			return err
		}
		w.urealIdx = make([]uint32, w.nv+2)
		for i := 1; i <= w.nv+1; i++ {
			idx, ok := uvld.GetValidators().GetIndex(w.keys[i].Addr)
			if !ok {
				return fmt.Errorf("fixture: validator %d not in the current set", i)
			}
			w.urealIdx[i] = uint32(idx)
		}
	}
	if !cfg.CertRound {
		return nil
	}
	// the certificate look-back set: a second state in the same database
	gc := *g
	gc.Validators = w.genesisValidators(cfg.CVals)
	cblock := gc.ToBlock(db)
	if w.cvld, err = w.chain.GetVldReader(cblock.Header().ValRoot); err != nil {
		return err
	}
	if w.crealIdx, err = w.indexOf(w.cvld, w.ctotal); err != nil {
		return err
	}
	f := int64(params.ACoCHTFrequency)
	n := 3 * f
	w.round = big.NewInt(n)
	gh := w.genesis.Header()
	mk := func(num int64, valRoot common.Hash, seed common.Hash, certTh uint64) *types.Header {
		return &types.Header{Number: big.NewInt(num), Time: uint64(num), GasLimit: gh.GasLimit, GasRewards: big.NewInt(0), Subsidy: big.NewInt(0), Extra: []byte{},
			MixDigest: types.UConMixHash, Root: gh.Root, ValRoot: valRoot, StakingRoot: gh.StakingRoot, CurrVersion: gh.CurrVersion,
			Consensus: w.consensusBytes(num, seed, certTh)}
	}
	other := common.Hash{0xee}
	w.seedHdr = mk(n-int64(yp.SeedLookBack), gh.ValRoot, w.seeds[1], cfg.ProtoC)
	w.chain.headers[uint64(n-int64(yp.SeedLookBack))] = w.seedHdr
	w.chain.headers[uint64(n-int64(yp.StakeLookBack))] = mk(n-int64(yp.StakeLookBack), gh.ValRoot, other, cfg.ProtoC)
	w.chain.headers[uint64(n-2*f)] = mk(n-2*f, cblock.Header().ValRoot, other, cfg.ProtoC)
	w.chain.headers[uint64(n-f)] = mk(n-f, gh.ValRoot, w.seeds[3], cfg.ProtoC) // replaced per description (declared CertValThreshold)
	ph := mk(n-1, gh.ValRoot, other, cfg.ProtoC)
	w.chain.headers[uint64(n-1)] = ph
	w.parent = types.NewBlockWithHeader(ph)
	// the genesis block of this stub chain must not be what any look-back resolves to
	return nil
}

func (w *world) certHeader(declC uint64) *types.Header {
	gh := w.genesis.Header()
	num := w.round.Int64() - int64(params.ACoCHTFrequency)
	return &types.Header{Number: big.NewInt(num), Time: uint64(num), GasLimit: gh.GasLimit, GasRewards: big.NewInt(0), Subsidy: big.NewInt(0), Extra: []byte{},
		MixDigest: types.UConMixHash, Root: gh.Root, ValRoot: gh.ValRoot, StakingRoot: gh.StakingRoot, CurrVersion: gh.CurrVersion,
		Consensus: w.consensusBytes(num, w.seeds[3], declC)}
}

func (w *world) stake(v int, cert bool) *big.Int {
	if cert {
		return big.NewInt(w.cfg.CVals[v-1].Stake)
	}
	return big.NewInt(w.cfg.Vals[v-1].Stake)
}

// credential evaluates validator v's VRF on MakeM(seed d, step s, index i).
func (w *world) credential(v, d, s, i int) cred {
	k := [4]int{v, d, s, i}
	if c, ok := w.creds[k]; ok {
		return c
	}
	val, proof := w.vrfs[v].Evaluate(ucon.MakeM(w.seeds[d], uint32(s), uint32(i)))
	c := cred{common.Hash(val), proof}
	w.creds[k] = c
	return c
}

// seats is the real sortition result of member v for (threshold, index, step, seed) with the stake and total of the stake
// look-back set or (cert) of the certificate look-back set; -1 when the code panics (p > 1).
func (w *world) seats(v int, th uint64, i, s, d int, cert bool) (j int) {
	defer func() {
		if r := recover(); r != nil {
			j = -1
		}
	}()
	total := w.total
	if cert {
		total = w.ctotal
	}
	_, _, jj := ucon.VrfSortition(w.vrfs[v], w.seeds[d], uint32(i), uint32(s), th, w.stake(v, cert), total)
	return int(jj)
}

func (w *world) honestQuorum() bool {
	sum := int64(0)
	min := int64(1 << 30)
	for _, v := range w.cfg.Voters {
		j := int64(w.seats(v, w.cfg.ProtoV, 1, stepPrecommit, 1, false))
		if j <= 0 {
			return false
		}
		sum += j
		if j < min {
			min = j
		}
	}
	q := int64(w.cfg.ProtoV) * 685 / 1000
	// exact quorum: dropping the smallest vote must lose it
	// (tail configuration: the quorum must be lost without the tail voter instead -- tailVoter)
	return sum >= q && (w.cfg.Tail || sum-min < q) && w.seats(w.cfg.Prop, w.cfg.ProtoP, 1, stepProposal, 1, false) > 0
}

// useats: real sortition of validator v (1..nv+1) with its stake in the CURRENT set and that set's total; -1 on panic.
func (w *world) useats(v int, th uint64, i, s, d int) (j int) {
	defer func() {
		if r := recover(); r != nil {
			j = -1
		}
	}()
	st := big.NewInt(w.cfg.Newcomer)
	if v <= w.nv {
		st = w.stake(v, false)
	}
	_, _, jj := ucon.VrfSortition(w.vrfs[v], w.seeds[d], uint32(i), uint32(s), th, st, w.utotal)
	return int(jj)
}

// honestCertQuorum: the honest certificate committee carries an exact quorum floor(0.585 * CertValThreshold).
func (w *world) honestCertQuorum() bool {
	sum := int64(0)
	min := int64(1 << 30)
	for _, v := range w.cfg.CVoters {
		j := int64(w.seats(v, w.cfg.ProtoC, 1, stepCert, 3, true))
		if j <= 0 {
			return false
		}
		sum += j
		if j < min {
			min = j
		}
	}
	q := int64(w.cfg.ProtoC) * 585 / 1000
	return sum >= q && sum-min < q
}

func (w *world) tableOf(cert bool) [][][][][]int {
	seat := make([][][][][]int, w.nv+1)
	for v := 1; v <= w.nv; v++ {
		seat[v] = make([][][][]int, len(w.cfg.Ths)+1)
		for t := 1; t <= len(w.cfg.Ths); t++ {
			seat[v][t] = make([][][]int, nIdx+1)
			for i := 1; i <= nIdx; i++ {
				seat[v][t][i] = make([][]int, nSteps+1)
				for s := 1; s <= nSteps; s++ {
					seat[v][t][i][s] = make([]int, nSeeds+1)
					for d := 1; d <= nSeeds; d++ {
						seat[v][t][i][s][d] = w.seats(v, w.cfg.Ths[t-1], i, s, d, cert)
					}
				}
			}
		}
	}
	return seat
}

func (w *world) table() {
	if w.cfg.Newcomer > 0 {
		w.useat = make([][][][][]int, w.nv+2)
		for v := 1; v <= w.nv+1; v++ {
			w.useat[v] = make([][][][]int, len(w.cfg.Ths)+1)
			for t := 1; t <= len(w.cfg.Ths); t++ {
				w.useat[v][t] = make([][][]int, nIdx+1)
				for i := 1; i <= nIdx; i++ {
					w.useat[v][t][i] = make([][]int, nSteps+1)
					for s := 1; s <= nSteps; s++ {
						w.useat[v][t][i][s] = make([]int, nSeeds+1)
						for d := 1; d <= nSeeds; d++ {
							w.useat[v][t][i][s][d] = w.useats(v, w.cfg.Ths[t-1], i, s, d)
						}
					}
				}
			}
		}
	}
	w.seat = w.tableOf(false)
	w.cseat = w.seat
	if w.cfg.CertRound {
		w.cseat = w.tableOf(true)
	}
}

// drop the dummy 0 entries: JSON arrays become 1-based TLA+ sequences
func (w *world) seatJSON(tab [][][][][]int) []interface{} {
	seat := make([]interface{}, 0, w.nv)
	for v := 1; v < len(tab); v++ {
		var tv []interface{}
		for t := 1; t <= len(w.cfg.Ths); t++ {
			var iv []interface{}
			for i := 1; i <= nIdx; i++ {
				var sv []interface{}
				for s := 1; s <= nSteps; s++ {
					sv = append(sv, tab[v][t][i][s][1:])
				}
				iv = append(iv, sv)
			}
			tv = append(tv, iv)
		}
		seat = append(seat, tv)
	}
	return seat
}

// positions returns, 1-based and relative to the first modelled validator, the list position of every modelled validator and
// the inverse (which validator sits at a position).
func (w *world) positions(idxs []uint32) (pos []int, inv []int) {
	pos = make([]int, w.nv)
	inv = make([]int, w.nv)
	for v := 1; v <= w.nv; v++ {
		pos[v-1] = int(idxs[v]) - w.cfg.Pad + 1
		inv[int(idxs[v])-w.cfg.Pad] = v
	}
	return
}

// fixtureJSON is what the specification knows about the configuration (fixtures.json).
func (w *world) fixtureJSON() map[string]interface{} {
	sidx, _ := w.positions(w.realIdx)
	cidx, cpos := w.positions(w.crealIdx)
	_, spos := w.positions(w.realIdx)
	uidx := []int{}
	useat := []interface{}{}
	if w.cfg.Newcomer > 0 {
		for v := 1; v <= w.nv+1; v++ {
			uidx = append(uidx, int(w.urealIdx[v])-w.cfg.Pad+1)
		}
		useat = w.seatJSON(w.useat)
	}
	return map[string]interface{}{"name": w.cfg.Name, "bls": !w.cfg.BlsOff, "hasCurrent": w.cfg.Newcomer > 0, "uidx": uidx, "useat": useat, "spos": spos,
		"vals": w.cfg.Vals, "protoV": w.cfg.ProtoV, "protoP": w.cfg.ProtoP, "ths": w.cfg.Ths,
		"voters": w.cfg.Voters, "prop": w.cfg.Prop, "total": w.total.Int64(), "seat": w.seatJSON(w.seat), "nidx": nIdx,
		"pad": w.cfg.Pad, "salt": w.salt, "listIndex": w.realIdx[1 : w.nv+1], "tailVoter": w.tailVoter(),
		"certRound": w.cfg.CertRound, "cvals": w.cfg.CVals, "protoC": w.cfg.ProtoC, "cvoters": append([]int{}, w.cfg.CVoters...), "ctotal": w.ctotal.Int64(),
		"rekeyed": append([]int{}, w.cfg.Rekeyed...), "family": w.cfg.Family,
		"cseat": w.seatJSON(w.cseat), "sidx": sidx, "cidx": cidx, "cpos": cpos, "round": w.round.Int64(), "csalt": w.csalt}
}

// ---------------------------------------------------------------- header descriptions

// VoteD describes one entry of a vote list as presented: the sortition proof was made for message (seed Cd, step Cs, index Ci)
// with the voter's key ("ok"), another member's key ("foreign") or has a flipped byte ("corrupt"); J seats are claimed.
type VoteD struct {
	V  int    `json:"v"`  // the validator whose keys made the vote: validator id, nv+1 = a stranger (index outside the validator list)
	Ci int    `json:"ci"` // credential: round index
	Cs int    `json:"cs"` // credential: step
	Cd int    `json:"cd"` // credential: seed (1 = this round's look-back seed, 3 = the certificate look-back seed)
	Pb string `json:"pb"` // "ok" | "foreign" (proof made with another member's key) | "corrupt"
	J  int    `json:"j"`  // claimed weight
	Sb int    `json:"sb"` // BLS signature: 0 = not in the aggregate, 1 = over this block's hash, 2 = over another block's hash
	Sr int    `json:"sr"` // 1 = this round, 2 = another round
	Si int    `json:"si"` // round index in the signed payload
	Bk int    `json:"bk"` // 0 = signed with the BLS key registered in this configuration, 1 = with the key of the sibling epoch
	Ls int    `json:"ls"` // certificate votes: list the VoterIdx was taken from, 1 = certificate look-back set, 2 = stake look-back set
}

type PropD struct {
	P    int    `json:"p"`
	Ci   int    `json:"ci"`
	Cs   int    `json:"cs"`
	Cd   int    `json:"cd"`
	Pb   string `json:"pb"`
	J    int    `json:"j"`
	Prio string `json:"prio"` // "ok" = max keccak over seats 0..J of the presented VRF value | "bad" = another seat's hash / flipped
}

type Desc struct {
	Cfg   int     `json:"cfg"`
	DeclV uint64  `json:"declV"`
	DeclP uint64  `json:"declP"`
	Pidx  int     `json:"pidx"`
	Vidx  int     `json:"vidx"`
	Prop  PropD   `json:"prop"`
	Votes []VoteD `json:"votes"`
	Agg   string  `json:"agg"` // "ok" = sum of the listed signatures | "flip" | "unrelated"
	Cf    string  `json:"cf"`  // header.Certificate: "list" = the certificate vote list below | "absent" = zero bytes | "std" = what honest
	// non-certificate blocks carry (an empty list) | "junk" = arbitrary bytes
	CVotes []VoteD `json:"cvotes"`
	CAgg   string  `json:"cagg"`
	DeclC  uint64  `json:"declC"` // CertValThreshold declared by the certificate look-back header (chain context, itself author-declared)
	CfIdx  int     `json:"cfidx"` // RoundIndex inside the Certificate field (the full verifier ignores it, VerifyAcHeader uses it)
	Lb     int     `json:"lb"`    // 1 = the look-back validator trie cannot be read by the chain-based entry points
	D      int     `json:"d"`     // forging depth (informational)
}

func (w *world) proofFor(owner, d, s, i int, pb string) (common.Hash, []byte) {
	by := owner
	if pb == "foreign" {
		by = owner%w.nv + 1 // another member's key
	}
	c := w.credential(by, d, s, i)
	proof := append([]byte{}, c.proof...)
	if pb == "corrupt" {
		proof[len(proof)/2] ^= 0x01
	}
	return c.val, proof
}

func payload(hash common.Hash, round *big.Int, idx int) []byte {
	b := make([]byte, 4)
	binary.BigEndian.PutUint32(b, uint32(idx))
	return append(append(append([]byte{}, hash.Bytes()...), round.Bytes()...), b...)
}

func (w *world) sign(v, bk int, pl []byte) bls.Signature {
	k := fmt.Sprintf("%d/%d/%x", v, bk, pl)
	if s, ok := w.sigs[k]; ok {
		return s
	}
	s := w.blsKey(v, bk).BlsSk.Sign(pl)
	w.sigs[k] = s
	return s
}

// infinity is the compressed encoding of the neutral element of the signature group (the sum of no signatures).
func infinity() []byte {
	b := make([]byte, bls.SignatureBytes)
	b[0] = 0xc0
	return b
}

// voteList builds the concrete entries and the aggregate of one vote list.
func (w *world) voteList(vs []VoteD, agg string, cert bool, hashes [3]common.Hash, rounds [3]*big.Int, idx int) ([]ucon.SingleVote, []byte, error) {
	var votes []ucon.SingleVote
	var sigs []bls.Signature
	for _, v := range vs {
		pos := w.realIdx[v.V]
		if cert && v.Ls != 2 {
			pos = w.crealIdx[v.V]
		}
		if !cert && v.Ls == 3 && w.urealIdx != nil {
			pos = w.urealIdx[v.V] // built against the CURRENT validator set
		}
		sv := ucon.SingleVote{VoterIdx: pos, Votes: uint32(v.J)}
		_, sv.Proof = w.proofFor(v.V, v.Cd, v.Cs, v.Ci, v.Pb)
		if w.cfg.BlsOff && v.Sb != 0 {
			// no BLS: the entry carries the voter's own ECDSA signature over the payload
			sig, err := ucon.Sign(w.keys[v.V].Priv, payload(hashes[v.Sb], rounds[v.Sr], v.Si))
			if err != nil {
				return nil, nil, err
			}
			sv.Signature = sig
		}
		votes = append(votes, sv)
		if v.Sb != 0 {
			sigs = append(sigs, w.sign(v.V, v.Bk, payload(hashes[v.Sb], rounds[v.Sr], v.Si)))
		}
	}
	asig := infinity()
	if len(sigs) > 0 {
		a, err := blsMgr.Aggregate(sigs)
		if err != nil {
			return nil, nil, err
		}
		asig = a.Compress().Bytes()
	}
	switch agg {
	case "flip":
		asig = append([]byte{}, asig...)
		asig[len(asig)-1] ^= 0x01
	case "unrelated":
		asig = w.sign(w.nv+1, 0, payload(hashes[1], rounds[1], idx)).Compress().Bytes()
	}
	return votes, asig, nil
}

// buildHeader turns a description into a concrete header of the configuration's round on top of the stub chain.
func (w *world) buildHeader(d *Desc) (*types.Header, error) {
	g := w.genesis.Header()
	round := w.round
	pk := w.keys[d.Prop.P]
	ph := w.parent.Header()
	h := &types.Header{ParentHash: ph.Hash(), Number: round, Time: ph.Time + 10, Coinbase: pk.Addr, GasLimit: g.GasLimit,
		GasRewards: big.NewInt(0), Subsidy: big.NewInt(0), Extra: []byte{}, MixDigest: types.UConMixHash,
		Root: g.Root, ValRoot: g.ValRoot, StakingRoot: g.StakingRoot, CurrVersion: g.CurrVersion}
	if w.cfg.CertRound {
		h.ChtRoot, h.BltRoot = []byte{0xc4}, []byte{0xb1} // certificate-round headers carry the CHT / bloom-trie roots
	}
	val, proof := w.proofFor(d.Prop.P, d.Prop.Cd, d.Prop.Cs, d.Prop.Ci, d.Prop.Pb)
	prio := ucon.VrfComputePriority(val, uint32(d.Prop.J))
	if d.Prop.Prio != "ok" {
		// the hash of seat 0 when it is not the maximum, otherwise a flipped maximum
		alt := ucon.VrfComputePriority(val, 0)
		if alt == prio {
			alt[31] ^= 0x01
		}
		prio = alt
	}
	nseed, _ := ucon.ComputeSeed(w.vrfs[d.Prop.P], round, uint32(d.Pidx), w.seeds[1])
	cd := &ucon.BlockConsensusData{Round: round, RoundIndex: uint32(d.Pidx), Seed: nseed, SortitionProof: proof, Priority: prio,
		SubUsers: uint32(d.Prop.J), ProposerThreshold: d.DeclP, ValidatorThreshold: d.DeclV, CertValThreshold: w.cfg.ProtoC}
	if err := cd.SetSignature(pk.Priv); err != nil {
		return nil, err
	}
	var err error
	if h.Consensus, err = rlp.EncodeToBytes(cd); err != nil {
		return nil, err
	}
	if h.Signature, err = crypto.Sign(h.Hash().Bytes(), pk.Priv); err != nil {
		return nil, err
	}
	// another block of the same round: same header with a different extra field
	other := types.CopyHeader(h)
	other.Extra = []byte{0x01}
	hashes := [3]common.Hash{{}, h.Hash(), other.Hash()}
	rounds := [3]*big.Int{nil, round, new(big.Int).Add(round, big.NewInt(1))}
	votes, asig, err := w.voteList(d.Votes, d.Agg, false, hashes, rounds, d.Vidx)
	if err != nil {
		return nil, err
	}
	uv := &ucon.UconValidators{RoundIndex: uint32(d.Vidx), ChamberCommitters: votes, SCAggrSig: asig}
	if h.Validator, err = uv.ValidatorsToByte(); err != nil {
		return nil, err
	}
	switch d.Cf {
	case "list":
		cidx := d.CfIdx
		if cidx == 0 {
			cidx = d.Vidx
		}
		cvotes, casig, err := w.voteList(d.CVotes, d.CAgg, true, hashes, rounds, d.Vidx)
		if err != nil {
			return nil, err
		}
		if h.Certificate, err = (&ucon.UconValidators{RoundIndex: uint32(cidx), ChamberCerts: cvotes, CCAggrSig: casig}).ValidatorsToByte(); err != nil {
			return nil, err
		}
	case "absent":
		h.Certificate = []byte{}
	case "junk":
		h.Certificate = []byte{0xde, 0xad, 0xbe, 0xef, 0x01}
	default: // "std" (and descriptions recorded before the certificate extension)
		if h.Certificate, err = (&ucon.UconValidators{RoundIndex: uint32(d.Vidx)}).ValidatorsToByte(); err != nil {
			return nil, err
		}
	}
	return h, nil
}

// honestDesc is the honest header of the configuration (Init of the forging state machine).
func (w *world) honestDesc() *Desc {
	th := func(T uint64) int {
		for t, x := range w.cfg.Ths {
			if x == T {
				return t + 1
			}
		}
		panic("threshold not in the alphabet")
	}
	pos := func(x int) int {
		if x < 0 {
			return 0
		}
		return x
	}
	d := &Desc{Cfg: w.id, DeclV: w.cfg.ProtoV, DeclP: w.cfg.ProtoP, Pidx: 1, Vidx: 1, Agg: "ok", Cf: "std", CAgg: "ok", DeclC: w.cfg.ProtoC, CfIdx: 1,
		Prop: PropD{P: w.cfg.Prop, Ci: 1, Cs: stepProposal, Cd: 1, Pb: "ok", J: pos(w.seat[w.cfg.Prop][th(w.cfg.ProtoP)][1][stepProposal][1]), Prio: "ok"}}
	for _, v := range w.cfg.Voters {
		d.Votes = append(d.Votes, VoteD{V: v, Ci: 1, Cs: stepPrecommit, Cd: 1, Pb: "ok", J: pos(w.seat[v][th(w.cfg.ProtoV)][1][stepPrecommit][1]), Sb: 1, Sr: 1, Si: 1})
	}
	if w.cfg.CertRound {
		d.Cf = "list"
		for _, v := range w.cfg.CVoters {
			d.CVotes = append(d.CVotes, VoteD{V: v, Ci: 1, Cs: stepCert, Cd: 3, Pb: "ok", J: pos(w.cseat[v][th(w.cfg.ProtoC)][1][stepCert][3]), Sb: 1, Sr: 1, Si: 1, Ls: 1})
		}
	}
	return d
}

func guard(f func() error) (err error, pmsg string) {
	defer func() {
		if r := recover(); r != nil {
			pmsg = fmt.Sprint(r) + " @ " + panicSite()
		}
	}()
	return f(), ""
}

// panicSite names the first frames below the panic (function names only), for the evidence.
func panicSite() string {
	lines := strings.Split(string(debug.Stack()), "\n")
	var fns []string
	seen := false
	for _, l := range lines {
		if strings.HasPrefix(l, "panic(") {
			seen = true
			continue
		}
		if !seen || strings.HasPrefix(l, "\t") || strings.HasPrefix(l, "runtime.") || l == "" {
			continue
		}
		if i := strings.LastIndex(l, "("); i > 0 {
			l = l[:i]
		}
		if j := strings.LastIndex(l, "/"); j >= 0 {
			l = l[j+1:]
		}
		fns = append(fns, l)
		if len(fns) == 4 {
			break
		}
	}
	return strings.Join(fns, " < ")
}

func verdict(ev map[string]interface{}, name string, err error, pmsg string) {
	ev[name] = err == nil && pmsg == ""
	if err != nil {
		ev[name+"Err"] = err.Error()
	}
	if pmsg != "" {
		ev[name+"Panic"] = pmsg
	}
}

func ok(err error, p string) bool { return err == nil && p == "" }

// entry points of the real verifier; known = the stub chain already stores the honest header of this round (same hash as every
// description that differs from it only in fields outside the hash)
func (w *world) verifyAll(ev map[string]interface{}, h *types.Header, certHdr *types.Header, certVld state.ValidatorReader, sfx string, seal, hdr, side, ac bool) (accept, acAccept bool) {
	if seal {
		e, p := guard(func() error { return w.eng.VerifySeal(w.chain, h) })
		verdict(ev, "seal"+sfx, e, p)
		accept = accept || ok(e, p)
		if p != "" && sfx == "" {
			ev["panic"] = p
		}
	}
	if hdr {
		e, p := guard(func() error { return w.eng.VerifyHeader(w.chain, h, true) })
		verdict(ev, "hdr"+sfx, e, p)
		accept = accept || ok(e, p)
		if sfx == "K" && !seal && w.T%2 == 1 {
			// (sampled runs: VerifyHeaders shares verifyHeader with VerifyHeader; it sees every second known-chain description)
		} else if p != "" {
			// VerifyHeaders runs the same code in its own goroutine, without recover: the panic would kill the process (as it kills a node)
			ev["hdrs"+sfx] = false
			ev["hdrs"+sfx+"Panic"] = "not called: VerifyHeader panicked, VerifyHeaders would take the process down"
		} else {
			e, p = guard(func() error {
				abort, results := w.eng.VerifyHeaders(w.chain, []*types.Header{h}, []bool{true})
				defer close(abort)
				return <-results
			})
			verdict(ev, "hdrs"+sfx, e, p)
			accept = accept || ok(e, p)
		}
	}
	if side {
		blk := types.NewBlockWithHeader(h)
		e, p := guard(func() error {
			return w.eng.VerifySideChainHeader(&w.chain.yp.CaravelParams, w.seedHdr, w.vld, certHdr, certVld, blk, []*types.Block{w.parent})
		})
		verdict(ev, "side"+sfx, e, p)
		accept = accept || ok(e, p)
	}
	if ac && w.cfg.CertRound {
		// the light-client path: the header is verified using only its CHT certificates
		e, p := guard(func() error { return w.eng.VerifyAcHeader(w.chain, h, nil) })
		verdict(ev, "ac"+sfx, e, p)
		acAccept = ok(e, p)
	}
	return
}

func (w *world) verify(d *Desc, all, ac, known, full bool) map[string]interface{} {
	ev := map[string]interface{}{"ev": "Verify", "desc": d}
	h, err := w.buildHeader(d)
	if err != nil {
		ev["skip"] = err.Error()
		return ev
	}
	if w.honest == nil {
		if w.honest, err = w.buildHeader(w.honestDesc()); err != nil {
			ev["skip"] = err.Error()
			return ev
		}
	}
	var certHdr *types.Header
	var certVld state.ValidatorReader
	if w.cfg.CertRound {
		// the certificate look-back header of the chain declares d.DeclC
		certHdr, certVld = w.certHeader(d.DeclC), w.cvld
		w.chain.headers[certHdr.Number.Uint64()] = certHdr
	}
	n := w.round.Uint64()
	delete(w.chain.headers, n)
	// the look-back validator trie is unreadable for the chain-based entry points (VerifySideChainHeader gets the reader from its caller)
	lbRoot := w.genesis.Header().ValRoot
	w.chain.gone[lbRoot] = d.Lb == 1
	defer delete(w.chain.gone, lbRoot)
	a1, c1 := w.verifyAll(ev, h, certHdr, certVld, "", true, all, all, ac)
	// the same with a chain that already stores the honest header at this number: VerifyHeader / VerifyHeaders always, the others sampled
	a2, c2 := false, false
	// interesting only when the hash is the stored one (otherwise VerifyHeader refuses it before any consensus check: sampled)
	if known && (full || h.Hash() == w.honest.Hash() || w.T%8 == 0) {
		w.chain.headers[n] = w.honest
		a2, c2 = w.verifyAll(ev, h, certHdr, certVld, "K", full, true, full, ac && full)
		delete(w.chain.headers, n)
	}
	ev["accept"] = a1 || a2
	if _, has := ev["ac"]; has {
		ev["ac"] = c1 || c2
	}
	return ev
}

// ---------------------------------------------------------------- driver

func run(env *drive.Env) error {
	logging.Root().SetHandler(logging.DiscardHandler())
	params.InitNetworkId(params.NetworkIdForTestCase)
	cfgs := configs()
	worlds := map[int]*world{}
	get := func(id int) (*world, error) {
		if w, ok := worlds[id]; ok {
			return w, nil
		}
		if id < 1 || id > len(cfgs) {
			return nil, fmt.Errorf("unknown configuration %d", id)
		}
		w, err := newWorld(id, cfgs[id-1])
		if err != nil {
			return nil, err
		}
		worlds[id] = w
		return w, nil
	}
	if env.Opt("mode", "verify") == "table" {
		env.Begin(0)
		for id := 1; id <= len(cfgs); id++ {
			w, err := get(id)
			if err != nil {
				return err
			}
			env.Emit(map[string]interface{}{"ev": "fixture", "cfg": id, "fx": w.fixtureJSON()})
		}
		return nil
	}
	// all=1: every description goes through all entry points, and through VerifyHeader / VerifyHeaders (every third: all of them) with
	// the chain state "honest header known"; all=0: VerifyHeader, VerifyHeaders and
	// VerifySideChainHeader see every sixth, VerifyAcHeader every third, the "known header" chain state every description of forging
	// depth <= 1 and every third of the others
	all := env.Opt("all", "1") == "1"
	var d Desc
	for {
		d = Desc{}
		if !env.Next(&d) {
			break
		}
		w, err := get(d.Cfg)
		if err != nil {
			return err
		}
		w.T = env.T
		env.Emit(w.verify(&d, all || env.T%6 == 0, all || env.T%3 == 0, all || d.D <= 1 || env.T%3 == 0, all && env.T%3 == 0))
	}
	return nil
}
