// Package fetcher drives behaviours of spec/Fetcher.tla through the real you/fetcher.Fetcher (C18, announced-block route).
//
// The fetcher is a goroutine loop without a lock; its callbacks chainHeight and getBlock are invoked ON that goroutine.
// The driver uses this: a "barrier" is an Enqueue of a block far beyond maxQueueDist (enqueue calls chainHeight, then
// discards the block without touching any state); when the chainHeight stub sees that it was called from enqueue it runs
// the closure the driver left for it -- on the loop goroutine, after every earlier event and the import pass that followed
// it.  Snapshots of the state and the passage of time (ageing of announce timestamps) go through such closures, so there
// is no unsynchronised access and nothing depends on sleeping: announces are given a timestamp in the future (they never
// become due by themselves), "Wave" makes them all due and waits (polling with barriers) until the fetcher's own timer has
// handled them, "Expire" makes the running fetches older than fetchTimeout.  Quiescence after an event = a snapshot in
// which every queued block is still in the priority queue (an import that was started keeps its queued entry until `done`).
//
// Behaviours run concurrently (each has its own fetcher); their events are written in order afterwards.
package fetcher

import (
	"bufio"
	"encoding/json"
	"errors"
	"fmt"
	"math/big"
	"os"
	"runtime"
	"runtime/debug"
	"sort"
	"strings"
	"sync"
	"time"

	"github.com/youchainhq/go-youchain/common"
	"github.com/youchainhq/go-youchain/core/types"
	"github.com/youchainhq/go-youchain/crypto"
	"github.com/youchainhq/go-youchain/logging"
	rf "github.com/youchainhq/go-youchain/you/fetcher"
	"verif/harness/drive"
)

func init() { drive.Register("fetcher", run) }

// Op is one abstract action.
type Op struct {
	Op     string   `json:"op"`
	Peers  []string `json:"peers,omitempty"`
	N      int      `json:"n,omitempty"`
	ForkAt int      `json:"forkat,omitempty"`
	Bad    []int    `json:"bad,omitempty"`
	P      string   `json:"p,omitempty"`
	B      int      `json:"b"`
	Nk     string   `json:"nk,omitempty"`
	Ok     bool     `json:"ok"`
}

const (
	honest  = "hp"
	barrier = "barrier"
)

type world struct {
	n, forkAt int
	bad       map[int]bool
	peers     []string
	blocks    []*types.Block // index id (0 = genesis)
	liars     []*types.Block // same header, other transactions
	ids       map[common.Hash]int
	bar       *types.Block
	f         *rf.Fetcher

	mu      sync.Mutex
	known   map[common.Hash]bool
	height  uint64
	cbs     []map[string]interface{}
	reqs    int
	nverify int // passed header verifications and accepted imports: each is followed by one broadcast on a goroutine of its own
	nbcast  int
	pending func()
	junk    int
}

func mkTx(seed int) *types.Transaction {
	return types.NewTransaction(uint64(seed), common.BigToAddress(big.NewInt(int64(7000+seed))), big.NewInt(int64(seed)), 21000, big.NewInt(1), nil)
}

func mkBlock(number uint64, parent common.Hash, extra string, txs []*types.Transaction) *types.Block {
	h := &types.Header{Number: new(big.Int).SetUint64(number), ParentHash: parent, GasLimit: 8000000, Extra: []byte(extra),
		Subsidy: big.NewInt(0), GasRewards: big.NewInt(0), Time: 1000 + number}
	return types.NewBlock(h, txs, nil)
}

func bodyOK(b *types.Block) bool { return types.DeriveSha(b.Transactions()) == b.TxHash() }

func newWorld(op *Op) *world {
	w := &world{n: op.N, forkAt: op.ForkAt, bad: map[int]bool{}, peers: append([]string{}, op.Peers...), ids: map[common.Hash]int{},
		known: map[common.Hash]bool{}}
	sort.Strings(w.peers)
	w.peers = append(w.peers, honest)
	for _, b := range op.Bad {
		w.bad[b] = true
	}
	gen := mkBlock(100, common.Hash{}, "verif-genesis", nil)
	w.blocks = []*types.Block{gen}
	w.liars = []*types.Block{gen}
	w.known[gen.Hash()] = true
	w.height = 0
	base := gen.NumberU64()
	for id := 1; id <= w.n+1; id++ {
		num, par, extra := id, id-1, "main"
		if id == w.n+1 {
			num, par, extra = w.forkAt, w.forkAt-1, "fork"
		}
		b := mkBlock(base+uint64(num), w.blocks[par].Hash(), extra, []*types.Transaction{mkTx(id)})
		w.blocks = append(w.blocks, b)
		w.liars = append(w.liars, b.WithBody(&types.Body{Transactions: []*types.Transaction{mkTx(500 + id)}}))
		w.ids[b.Hash()] = id
	}
	w.bar = mkBlock(base+1<<30, common.Hash{}, "verif-barrier", nil)
	w.f = rf.New(w.getBlock, w.verifyHeader, w.broadcastBlock, w.chainHeight, w.insertChain, w.dropPeer)
	w.f.Start()
	return w
}

// relative number of a block (the genesis has number 100 so that "number 0 = unknown" stays distinct)
func (w *world) base() uint64 { return w.blocks[0].NumberU64() }

func (w *world) log(m map[string]interface{}) {
	w.mu.Lock()
	w.cbs = append(w.cbs, m)
	w.mu.Unlock()
}

// ---------------------------------------------------------------- callbacks
func (w *world) getBlock(h common.Hash) *types.Block {
	w.mu.Lock()
	defer w.mu.Unlock()
	if !w.known[h] {
		return nil
	}
	if id, ok := w.ids[h]; ok {
		return w.blocks[id]
	}
	return w.blocks[0]
}

func (w *world) verifyHeader(h *types.Header) error {
	id := w.ids[h.Hash()]
	if w.bad[id] {
		w.log(map[string]interface{}{"k": "verify", "b": id, "pass": false})
		return errors.New("verif: bad header")
	}
	w.mu.Lock()
	w.nverify++
	w.cbs = append(w.cbs, map[string]interface{}{"k": "verify", "b": id, "pass": true})
	w.mu.Unlock()
	return nil
}

func (w *world) broadcastBlock(b *types.Block, propagate bool) {
	ok := bodyOK(b)
	w.mu.Lock()
	w.nbcast++
	w.cbs = append(w.cbs, map[string]interface{}{"k": "bcast", "b": w.ids[b.Hash()], "ok": ok, "prop": propagate})
	w.mu.Unlock()
}

func calledFromEnqueue() bool {
	pcs := make([]uintptr, 8)
	n := runtime.Callers(3, pcs)
	frames := runtime.CallersFrames(pcs[:n])
	for {
		fr, more := frames.Next()
		if strings.HasSuffix(fr.Function, "(*Fetcher).enqueue") {
			return true
		}
		if !more {
			return false
		}
	}
}

func (w *world) chainHeight() uint64 {
	w.mu.Lock()
	fn := w.pending
	h := w.base() + w.height
	w.mu.Unlock()
	if fn != nil && calledFromEnqueue() {
		w.mu.Lock()
		w.pending = nil
		w.mu.Unlock()
		fn()
	}
	return h
}

func (w *world) insertChain(blocks types.Blocks) error {
	w.mu.Lock()
	defer w.mu.Unlock()
	for _, b := range blocks {
		id := w.ids[b.Hash()]
		pk, ok, dup := w.known[b.ParentHash()], bodyOK(b), w.known[b.Hash()]
		acc := pk && ok
		w.cbs = append(w.cbs, map[string]interface{}{"k": "insert", "b": id, "ok": ok, "pk": pk, "dup": dup, "acc": acc})
		if !acc {
			return errors.New("verif: importer refuses the block")
		}
		w.known[b.Hash()] = true
		w.nverify++
		if n := b.NumberU64() - w.base(); n > w.height {
			w.height = n
		}
	}
	return nil
}

func (w *world) dropPeer(id string) { w.log(map[string]interface{}{"k": "drop", "p": id}) }

// ---------------------------------------------------------------- loop-side access
type quiesceErr string

func (w *world) onLoop(fn func()) {
	// a first barrier: once the loop has taken it, every earlier event has been processed completely, so the closure can
	// only run inside the enqueue of a barrier (this one or the next), never inside the enqueue of a real delivery
	if err := w.f.Enqueue(barrier, w.bar); err != nil {
		panic(quiesceErr("barrier refused: " + err.Error()))
	}
	done := make(chan struct{})
	w.mu.Lock()
	w.pending = func() { fn(); close(done) }
	w.mu.Unlock()
	if err := w.f.Enqueue(barrier, w.bar); err != nil {
		panic(quiesceErr("barrier refused: " + err.Error()))
	}
	select {
	case <-done:
	case <-time.After(20 * time.Second):
		panic(quiesceErr("barrier was not processed within 20s"))
	}
}

func (w *world) snap() rf.VerifState {
	var st rf.VerifState
	w.onLoop(func() { st = w.f.VerifState() })
	return st
}

// settle waits until no import is in flight and returns the state then.
func (w *world) settle() rf.VerifState {
	deadline := time.Now().Add(20 * time.Second)
	for i := 0; ; i++ {
		st := w.snap()
		if st.QueueSize >= len(st.Queued) { // an import that was started keeps its queued entry but has left the priority queue
			return st
		}
		if time.Now().After(deadline) {
			panic(quiesceErr("imports did not finish within 20s"))
		}
		if i < 50 {
			runtime.Gosched()
		} else {
			time.Sleep(200 * time.Microsecond) // polling interval only
		}
	}
}

// nextWanted is the lowest block of the main chain that is not known yet (0 when the chain is complete).
func (w *world) nextWanted() int {
	w.mu.Lock()
	defer w.mu.Unlock()
	for id := 1; id <= w.n; id++ {
		if !w.known[w.blocks[id].Hash()] {
			return id
		}
	}
	return 0
}

func (w *world) heightNow() uint64 {
	w.mu.Lock()
	defer w.mu.Unlock()
	return w.height
}

// ---------------------------------------------------------------- projection
func (w *world) obs(st rf.VerifState) map[string]interface{} {
	zero := func() map[string]int {
		m := map[string]int{}
		for _, p := range w.peers {
			m[p] = 0
		}
		return m
	}
	ann, qs, junkA, junkF := zero(), zero(), zero(), zero()
	other := 0
	for p, n := range st.Announces {
		if _, ok := ann[p]; ok {
			ann[p] = n
		} else if n != 0 {
			other++
		}
	}
	for p, n := range st.Queues {
		if _, ok := qs[p]; ok {
			qs[p] = n
		} else if n != 0 {
			other++
		}
	}
	nb := w.n + 1
	anns := make([][]string, nb)
	fet := make([]string, nb)
	qd := make([]string, nb)
	for i := range anns {
		anns[i], fet[i], qd[i] = []string{}, "none", "none"
	}
	for h, os := range st.Announced {
		if id, ok := w.ids[h]; ok {
			anns[id-1] = os
		} else {
			for _, o := range os {
				junkA[o]++
			}
		}
	}
	for h, o := range st.Fetching {
		if id, ok := w.ids[h]; ok {
			fet[id-1] = o
		} else {
			junkF[o]++
		}
	}
	for h, o := range st.Queued {
		if id, ok := w.ids[h]; ok {
			qd[id-1] = o
		} else {
			other++
		}
	}
	w.mu.Lock()
	known := []int{}
	for h := range w.known {
		if id, ok := w.ids[h]; ok {
			known = append(known, id)
		}
	}
	height := int(w.height)
	w.mu.Unlock()
	sort.Ints(known)
	return map[string]interface{}{"ann": ann, "qs": qs, "junkA": junkA, "junkF": junkF, "anns": anns, "fet": fet, "qd": qd,
		"qsize": st.QueueSize, "other": other, "known": known, "h": height}
}

func (w *world) takeCbs() []map[string]interface{} {
	// broadcasts run on goroutines of their own: wait until each one that was started has been recorded
	for i := 0; i < 10000; i++ {
		w.mu.Lock()
		done := w.nbcast >= w.nverify
		w.mu.Unlock()
		if done {
			break
		}
		time.Sleep(200 * time.Microsecond) // polling interval only
	}
	w.mu.Lock()
	out := w.cbs
	w.cbs = nil
	w.mu.Unlock()
	if out == nil {
		out = []map[string]interface{}{}
	}
	return out
}

// ---------------------------------------------------------------- actions
func (w *world) fetchFn(p string) func(common.Hash) error {
	return func(h common.Hash) error {
		w.mu.Lock()
		w.reqs++
		w.cbs = append(w.cbs, map[string]interface{}{"k": "request", "p": p, "b": w.ids[h]})
		w.mu.Unlock()
		return nil
	}
}

func (w *world) notify(p string, b int, nk string) {
	var hash common.Hash
	if b == 0 {
		w.junk++
		hash = crypto.Keccak256Hash([]byte(fmt.Sprintf("verif-junk-%d", w.junk)))
	} else {
		hash = w.blocks[b].Hash()
	}
	var number uint64
	switch nk {
	case "zero":
		number = 0
	case "far":
		number = w.base() + w.heightNow() + 33
	default:
		if b == 0 {
			number = w.base() + w.heightNow() + 1
		} else {
			number = w.blocks[b].NumberU64()
		}
	}
	// a timestamp in the future: the announce becomes due only when the driver lets time pass
	if err := w.f.Notify(p, hash, number, time.Now().Add(time.Hour), w.fetchFn(p)); err != nil {
		panic(quiesceErr("notify refused: " + err.Error()))
	}
}

func (w *world) wave() rf.VerifState {
	before := w.snap()
	w.mu.Lock()
	reqs0 := w.reqs
	w.mu.Unlock()
	w.onLoop(func() { w.f.VerifAgeAnnounced(time.Second) })
	deadline := time.Now().Add(10 * time.Second)
	for {
		st := w.snap()
		if len(st.Announced) == 0 {
			// the requests go out on goroutines: wait until they are recorded
			want := reqs0
			if d := len(st.Fetching) - len(before.Fetching); d > 0 {
				want += d
			}
			for i := 0; i < 5000; i++ {
				w.mu.Lock()
				got := w.reqs
				w.mu.Unlock()
				if got >= want {
					break
				}
				time.Sleep(200 * time.Microsecond)
			}
			return w.settle()
		}
		if time.Now().After(deadline) {
			panic(quiesceErr("the fetch timer did not handle due announces within 10s"))
		}
		time.Sleep(2 * time.Millisecond) // polling interval only
	}
}

func (w *world) expire() rf.VerifState {
	w.onLoop(func() { w.f.VerifAgeFetching(10 * time.Second) })
	w.snap() // one more iteration: the expiry runs at the top of the loop
	return w.settle()
}

func (w *world) deliver(p string, b int, ok bool) {
	blk := w.blocks[b]
	if !ok {
		blk = w.liars[b]
	}
	if err := w.f.Enqueue(p, blk); err != nil {
		panic(quiesceErr("enqueue refused: " + err.Error()))
	}
}

func (w *world) apply(op *Op) rf.VerifState {
	switch op.Op {
	case "Notify":
		w.notify(op.P, op.B, op.Nk)
		return w.settle()
	case "Wave":
		return w.wave()
	case "Expire":
		return w.expire()
	case "Deliver":
		w.deliver(op.P, op.B, op.Ok)
		return w.settle()
	default:
		panic("unknown op " + op.Op)
	}
}

// complete: the honest peer announces the next block of the chain, the timer fires, the peer delivers it
func (w *world) complete() rf.VerifState {
	w.settle()
	for try := 0; try < 3*w.n+3 && w.nextWanted() != 0; try++ {
		next := w.nextWanted()
		w.notify(honest, next, "true")
		w.settle()
		w.wave()
		w.deliver(honest, next, true)
		w.settle()
		if w.nextWanted() == next {
			w.expire()
		}
	}
	w.expire()
	return w.settle()
}

type event = map[string]interface{}

func runOne(beh []Op) (evs []event) {
	defer func() {
		if r := recover(); r != nil {
			if q, ok := r.(quiesceErr); ok {
				evs = append(evs, event{"ev": "DriverError", "msg": string(q)})
			} else {
				evs = append(evs, event{"ev": "Panic", "panic": fmt.Sprint(r) + " " + string(debug.Stack())})
			}
		}
	}()
	w := newWorld(&beh[0])
	defer w.f.Stop()
	hl, bl, ud, qd, _, _ := rf.VerifLimits()
	evs = append(evs, event{"ev": "Init", "args": event{"peers": w.peers, "n": w.n, "forkat": w.forkAt, "bad": beh[0].Bad,
		"hl": hl, "bl": bl, "ud": ud, "qd": qd}, "cb": []int{}, "obs": w.obs(w.settle())})
	for i := 1; i < len(beh); i++ {
		op := &beh[i]
		st := w.apply(op)
		args := event{}
		switch op.Op {
		case "Notify":
			args = event{"p": op.P, "b": op.B, "nk": op.Nk}
		case "Deliver":
			args = event{"p": op.P, "b": op.B, "ok": op.Ok}
		}
		evs = append(evs, event{"ev": op.Op, "args": args, "cb": w.takeCbs(), "obs": w.obs(st)})
	}
	st := w.complete()
	evs = append(evs, event{"ev": "Complete", "args": event{}, "cb": w.takeCbs(), "obs": w.obs(st)})
	return evs
}

func run(env *drive.Env) error {
	logging.Verbosity(logging.LvlCrit)
	path := env.Opt("beh", "")
	if path == "" {
		return fmt.Errorf("fetcher driver needs beh=<behaviours file>")
	}
	fh, err := os.Open(path)
	if err != nil {
		return err
	}
	defer fh.Close()
	var behs [][]Op
	sc := bufio.NewScanner(fh)
	sc.Buffer(make([]byte, 1<<20), 1<<28)
	for sc.Scan() {
		if len(strings.TrimSpace(sc.Text())) == 0 {
			continue
		}
		var b []Op
		if err := json.Unmarshal(sc.Bytes(), &b); err != nil {
			return err
		}
		if len(b) == 0 || b[0].Op != "Init" {
			return fmt.Errorf("behaviour %d does not start with Init", len(behs))
		}
		behs = append(behs, b)
	}
	results := make([][]event, len(behs))
	workers := env.OptInt("par", 24)
	var wg sync.WaitGroup
	next := make(chan int)
	for g := 0; g < workers; g++ {
		wg.Add(1)
		go func() {
			defer wg.Done()
			for i := range next {
				results[i] = runOne(behs[i])
			}
		}()
	}
	for i := range behs {
		next <- i
	}
	close(next)
	wg.Wait()
	for i, evs := range results {
		env.Begin(i)
		for _, e := range evs {
			if e["ev"] == "DriverError" {
				return fmt.Errorf("behaviour %d: %v", i, e["msg"])
			}
			env.Emit(e)
		}
	}
	return nil
}
