package blockexec

// Exported for the miner stage (package minerexec), which lives in its own package so that cmd/blockexec does not link
// go-youchain/miner.

import (
	"math/rand"

	"github.com/youchainhq/go-youchain/common"
	"github.com/youchainhq/go-youchain/core/types"
	sd "verif/harness/drive/staking"
)

// Rerun executes blk with the import path's executor on a fresh StateDB of node n (see rerun).
func Rerun(w *sd.World, n *sd.Node, blk *types.Block, variant int, rnd *rand.Rand) map[string]interface{} {
	return rerun(w, n, blk, variant, rnd)
}

// BuiltFields are the header commitments of a built block and the digests of its receipts.
func BuiltFields(blk *types.Block, rs types.Receipts) map[string]interface{} {
	return builtFields(blk, rs)
}

// ErrClass projects an import error onto the check that raised it.
func ErrClass(msg string) string { return errClass(msg) }

// Short is the trace form of a hash.
func Short(h common.Hash) string { return short(h) }

// LogsDigest and StatusDigest digest the logs / the status and gas fields of receipts.
func LogsDigest(rs types.Receipts) string   { return logsDigest(rs) }
func StatusDigest(rs types.Receipts) string { return statusDigest(rs) }

// LogIndexDigest digests the transaction index every log carries.
func LogIndexDigest(rs types.Receipts) string { return logIndexDigest(rs) }

// HasPenalty reports whether the receipts carry a slashing log.
func HasPenalty(rs types.Receipts) bool { return hasPenalty(rs) }
