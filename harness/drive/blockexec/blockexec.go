// Package blockexec drives block programs (spec/BlockExec.tla, spec/Staking.tla) through the two block-execution paths of
// the real code (C06): the builder path on chain A (the miner's sequence of exported calls, EndBlock with isSeal=true) and
// the import path (StateProcessor.Process, EndBlock with isSeal=false, ValidateState) on an independent chain B; and it
// re-executes every block several times on fresh state objects.  It records Built / Rerun / Imported events; the
// comparison is made by spec/BlockExec_Mon.tla.
package blockexec

import (
	"fmt"
	"math/rand"
	"strings"

	"github.com/youchainhq/go-youchain/common"
	"github.com/youchainhq/go-youchain/core"
	"github.com/youchainhq/go-youchain/core/state"
	"github.com/youchainhq/go-youchain/core/types"
	"github.com/youchainhq/go-youchain/core/vm"
	"github.com/youchainhq/go-youchain/crypto"
	"github.com/youchainhq/go-youchain/local"
	"github.com/youchainhq/go-youchain/rlp"
	stk "github.com/youchainhq/go-youchain/staking"
	"verif/harness/drive"
	sd "verif/harness/drive/staking"
	"verif/harness/fixture"
)

func init() { drive.Register("blockexec", run) }

func short(h common.Hash) string { return h.Hex()[2:18] }

func logsDigest(rs types.Receipts) string {
	var logs []*types.Log
	for _, r := range rs {
		logs = append(logs, r.Logs...)
	}
	b, err := rlp.EncodeToBytes(logs)
	if err != nil {
		return "err:" + err.Error()
	}
	return short(crypto.Keccak256Hash(b))
}

// statusDigest covers what the receipt trie does not commit to in every encoding: status, cumulative gas, gas used per receipt.
func statusDigest(rs types.Receipts) string {
	var sb strings.Builder
	for _, r := range rs {
		fmt.Fprintf(&sb, "%d/%d/%d;", r.Status, r.CumulativeGasUsed, r.GasUsed)
	}
	return short(crypto.Keccak256Hash([]byte(sb.String())))
}

// listed counts the evidences in header.SlashData.
func listed(data []byte) int {
	if len(data) == 0 {
		return 0
	}
	var evs []stk.Evidence
	if err := rlp.DecodeBytes(data, &evs); err != nil {
		return -1
	}
	return len(evs)
}

// logIndexDigest covers where the logs say they come from (transaction index per log): stored with the receipts and
// served to log subscribers, but not part of the receipt trie.
func logIndexDigest(rs types.Receipts) string {
	var sb strings.Builder
	for i, r := range rs {
		for _, l := range r.Logs {
			fmt.Fprintf(&sb, "%d:%d;", i, l.TxIndex)
		}
	}
	return short(crypto.Keccak256Hash([]byte(sb.String())))
}

// hasPenalty reports whether the receipts carry a slashing log (double-sign evidence or inactivity penalty).
func hasPenalty(rs types.Receipts) bool {
	t := common.StringToHash(stk.LogTopicSlashing)
	for _, r := range rs {
		for _, l := range r.Logs {
			if len(l.Topics) > 0 && l.Topics[0] == t {
				return true
			}
		}
	}
	return false
}

func builtFields(blk *types.Block, rs types.Receipts) map[string]interface{} {
	h := blk.Header()
	return map[string]interface{}{
		"root": short(h.Root), "vroot": short(h.ValRoot), "sroot": short(h.StakingRoot), "rcpt": short(h.ReceiptHash),
		"bloom": short(crypto.Keccak256Hash(h.Bloom.Bytes())), "gas": h.GasUsed, "gr": fixture.I(h.GasRewards),
		"sub": fixture.I(h.Subsidy), "slash": short(crypto.Keccak256Hash(h.SlashData)), "nslash": listed(h.SlashData),
		"logs": logsDigest(rs), "stat": statusDigest(rs), "lidx": logIndexDigest(rs), "ntx": len(blk.Transactions()),
	}
}

// rerun executes blk with the import path's executor on a fresh StateDB opened on the parent's roots of node n, whose head
// must still be the parent.  variant selects how the state object and its caches are obtained.
func rerun(w *sd.World, n *sd.Node, blk *types.Block, variant int, rnd *rand.Rand) (out map[string]interface{}) {
	out = map[string]interface{}{"root": "", "vroot": "", "sroot": "", "rcpt": "", "bloom": "", "gas": 0, "logs": "", "stat": "", "lidx": ""}
	defer func() {
		if r := recover(); r != nil {
			out["err"] = "panic: " + fmt.Sprint(r)
		}
	}()
	num := blk.NumberU64()
	parent := n.Bc.GetBlock(blk.ParentHash(), num-1)
	if parent == nil {
		out["err"] = "no parent"
		return
	}
	yp, err := n.Bc.VersionForRound(num)
	if err != nil {
		out["err"] = err.Error()
		return
	}
	sroot := core.StakingRootForNewBlock(yp.StakingTrieFrequency, parent.Header())
	var st *state.StateDB
	switch variant % 3 {
	case 0: // the chain's own state cache
		st, err = n.Bc.StateAt(parent.Root(), parent.ValRoot(), sroot)
	default: // a fresh state database (empty trie cache) over the same disk database
		st, err = state.New(parent.Root(), parent.ValRoot(), sroot, state.NewDatabase(n.Db))
	}
	if err != nil {
		out["err"] = err.Error()
		return
	}
	if variant%3 == 2 {
		// shuffled cache warm-up: read the closed world in a random order before executing
		names := append([]string{}, w.Order...)
		rnd.Shuffle(len(names), func(i, j int) { names[i], names[j] = names[j], names[i] })
		for _, nm := range names {
			st.GetBalance(w.Who[nm].Addr)
			st.GetValidatorByMainAddr(w.Who[nm].Addr)
		}
		st.GetWithdrawQueue()
	}
	res, err := n.Bc.Processor().Process(yp, blk, st, vm.LocalConfig{}, local.FakeRecorder())
	if err != nil {
		out["err"] = err.Error()
		return
	}
	root, vroot, sr := st.IntermediateRoot(true)
	out["err"] = ""
	out["root"], out["vroot"], out["sroot"] = short(root), short(vroot), short(sr)
	out["rcpt"] = short(types.DeriveSha(res.Recs))
	bloom := types.CreateBloom(res.Recs)
	out["bloom"] = short(crypto.Keccak256Hash(bloom.Bytes()))
	out["gas"] = res.UsedGas
	out["logs"], out["stat"], out["lidx"] = logsDigest(res.Recs), statusDigest(res.Recs), logIndexDigest(res.Recs)
	return
}

// errClass projects an import error onto the check that raised it.
func errClass(msg string) string {
	for _, c := range [][2]string{{"invalid gas used", "gas_used"}, {"invalid bloom", "bloom"}, {"invalid receipt root", "receipt_root"},
		{"invalid merkle root", "state_root"}, {"invalid validator root", "val_root"}, {"invalid staking root", "staking_root"},
		{"invalid gas rewards", "gas_rewards"}, {"panic", "panic"}, {"nonce", "tx_refused"}, {"insufficient", "tx_refused"},
		{"out of gas", "tx_refused"}, {"gas limit reached", "tx_refused"}} {
		if strings.Contains(msg, c[0]) {
			return c[1]
		}
	}
	if msg == "" {
		return ""
	}
	return "other"
}

func run(env *drive.Env) error {
	sd.Install(sd.CfgFromEnv(env))
	K := env.OptInt("k", 3)
	KP := env.OptInt("kp", 8)
	per := sd.Params().StakingTrieFrequency
	rnd := rand.New(rand.NewSource(env.Seed))
	var beh []sd.ABlock
	for env.Next(&beh) {
		func() {
			defer func() {
				if r := recover(); r != nil {
					env.Emit(map[string]interface{}{"ev": "Panic", "panic": fmt.Sprint(r)})
				}
			}()
			w := sd.NewWorld()
			defer w.Stop()
			var rounds [][2]string // (round, validator) of the evidences handed to the builder so far
			// batch > 1 (or -1 = everything): the importing node gets several blocks per InsertChain call.  The events of
			// a block are then held back and written, block by block, when its batch has been imported.
			batch := 1
			if len(beh) > 0 && beh[0].Batch != 0 {
				batch = beh[0].Batch
			}
			type held struct {
				blk *types.Block
				evs []map[string]interface{}
			}
			var hold []held
			var cur *held
			emit := func(ev map[string]interface{}) {
				if batch == 1 {
					env.Emit(ev)
				} else {
					cur.evs = append(cur.evs, ev)
				}
			}
			flush := func() bool {
				if len(hold) == 0 {
					return true
				}
				var blocks types.Blocks
				for _, h := range hold {
					blocks = append(blocks, h.blk)
				}
				ierr := w.B.Bc.InsertChain(blocks)
				ok := true
				for _, h := range hold {
					for _, ev := range h.evs {
						env.Emit(ev)
					}
					imp := map[string]interface{}{"ev": "Imported", "blk": h.blk.NumberU64(), "err": "", "batch": len(hold)}
					canon := w.B.Bc.GetBlockByNumber(h.blk.NumberU64())
					imp["head"] = canon != nil && canon.Hash() == h.blk.Hash()
					if imp["head"] == false {
						imp["err"] = "not imported"
						if ierr != nil {
							imp["err"] = ierr.Error()
						}
						ok = false
					}
					imp["errc"] = errClass(fmt.Sprint(imp["err"]))
					brs := w.B.Bc.GetReceiptsByHash(h.blk.Hash())
					imp["rcpt"], imp["logs"], imp["stat"], imp["lidx"] = short(types.DeriveSha(brs)), logsDigest(brs), statusDigest(brs), logIndexDigest(brs)
					env.Emit(imp)
					if !ok {
						break
					}
				}
				hold = nil
				return ok
			}
			for bi := range beh {
				ab := &beh[bi]
				num := w.A.Bc.CurrentBlock().NumberU64() + 1
				nev, nev0 := 0, 0
				for _, e := range ab.Ev {
					if ev, ok := w.MakeEvidence(e.V, num-1+uint64(e.D)); ok {
						w.A.St.VerifC06AddEvidence(ev)
						rounds = append(rounds, [2]string{fmt.Sprint(num - 1 + uint64(e.D)), e.V})
						nev++
					}
				}
				// evidences in the builder's local list that are about the parent round: the ones slashing() processes now
				accused := map[string]bool{}
				for _, r := range rounds {
					if r[0] == fmt.Sprint(num-1) {
						accused[r[1]] = true
					}
				}
				nev0 = len(accused) // distinct validators accused about the parent round
				kinds := map[string]bool{}
				dberr := ""
				cur = &held{}
				hooks := &sd.BuildHooks{
					Assembled: func(blk *types.Block, stateErr error) {
						if stateErr != nil {
							dberr = "state_error" // StateDB.Error(): a trie update failed while the roots were computed
						}
					},
					AfterTx: func(i int, a *sd.ATx, r *sd.TxResult, st *state.StateDB, hdr *types.Header) {
						if r.Refused {
							kinds["refused"] = true
						} else {
							kinds[a.K] = true
						}
					},
					BeforeWrite: func(blk *types.Block, rs types.Receipts) {
						ks := []string{}
						for k := range kinds {
							ks = append(ks, k)
						}
						ev := builtFields(blk, rs)
						ev["ev"], ev["blk"], ev["pe"], ev["nev"], ev["nev0"], ev["kinds"] = "Built", num, (num+1)%per == 0, nev, nev0, ks
						ev["dberr"] = dberr
						ev["pen"] = hasPenalty(rs)
						emit(ev)
						kk := K
						if hasPenalty(rs) && KP > kk {
							kk = KP // penalty logs list the parties they took from: more repetitions against map-order dependence
						}
						for k := 0; k < kk; k++ {
							r := rerun(w, w.A, blk, k, rnd)
							r["ev"], r["blk"], r["k"], r["on"], r["errc"] = "Rerun", num, k, "A", errClass(fmt.Sprint(r["err"]))
							emit(r)
						}
					},
				}
				blk, rs, err := w.BuildBlock(ab, hooks)
				if err != nil {
					env.Emit(map[string]interface{}{"ev": "BuildError", "blk": num, "err": err.Error()})
					return
				}
				if batch != 1 {
					cur.blk = blk
					hold = append(hold, *cur)
					if (batch > 1 && len(hold) >= batch) || bi == len(beh)-1 || dberr != "" {
						if !flush() || dberr != "" {
							return
						}
					}
					continue
				}
				// once more on the independent chain, before it imports the block (its head is the parent)
				r := rerun(w, w.B, blk, K+1, rnd)
				r["ev"], r["blk"], r["k"], r["on"], r["errc"] = "Rerun", num, K, "B", errClass(fmt.Sprint(r["err"]))
				env.Emit(r)
				// a fork switch on the importing node: it is shown a sibling branch that replaces its last Rg blocks (built by
				// a second builder), so that importing the builder's block makes it switch back and re-adopt them
				if ab.Rg > 0 && num >= uint64(ab.Rg)+1 {
					fk := map[string]interface{}{"ev": "Fork", "blk": num, "back": ab.Rg, "err": "", "errc": "", "switched": false}
					branch, err := w.ForkBranch(num-1-uint64(ab.Rg), 1)
					if err != nil {
						fk["err"], fk["errc"] = err.Error(), "fork_build"
					} else {
						if err := w.B.Bc.InsertChain(branch); err != nil {
							fk["err"], fk["errc"] = err.Error(), errClass(err.Error())
						}
						fk["switched"] = w.B.Bc.CurrentBlock().Hash() == branch[len(branch)-1].Hash()
					}
					env.Emit(fk)
				}
				imp := map[string]interface{}{"ev": "Imported", "blk": num, "err": ""}
				if err := w.B.Bc.InsertChain(types.Blocks{blk}); err != nil {
					imp["err"] = err.Error()
				}
				imp["errc"] = errClass(fmt.Sprint(imp["err"]))
				imp["head"] = w.B.Bc.CurrentBlock().Hash() == blk.Hash()
				brs := w.B.Bc.GetReceiptsByHash(blk.Hash())
				imp["rcpt"], imp["logs"], imp["stat"], imp["lidx"] = short(types.DeriveSha(brs)), logsDigest(brs), statusDigest(brs), logIndexDigest(brs)
				_ = rs
				env.Emit(imp)
				if imp["err"] != "" || dberr != "" {
					// chain B cannot follow any further / the builder's state object reported a database error: what
					// chain A builds on top of such a block is not meaningful
					return
				}
			}
		}()
		beh = nil
	}
	return nil
}
