// Package sortition records real input/output of the sortition functions of consensus/ucon (C04):
// choose (through VerifChoose), VrfSortition, VrfVerifySortition, VrfComputePriority / computePriority,
// VrfVerifyPriority -- for the points and credential cases enumerated by spec/Sortition.tla and for seeded
// random cases.  The trace is judged by spec/Sortition_Mon.tla over exact (BigNat) binomial tails.
package sortition

import (
	"bytes"
	"crypto/elliptic"
	"crypto/sha256"
	"encoding/hex"
	"fmt"
	"math/big"
	"math/rand"

	"github.com/youchainhq/go-youchain/common"
	"github.com/youchainhq/go-youchain/consensus/ucon"
	"github.com/youchainhq/go-youchain/crypto"
	"github.com/youchainhq/go-youchain/crypto/vrf"
	secp256k1VRF "github.com/youchainhq/go-youchain/crypto/vrf/secp256k1"
	"github.com/youchainhq/go-youchain/logging"
	"github.com/youchainhq/go-youchain/params"
	"verif/harness/drive"
	"verif/harness/fixture"
)

func init() { drive.Register("sortition", run) }

// Base is an abstract base credential of Sortition.tla (CredCases) or a concrete random one.
type Base struct {
	K  int   `json:"k"`
	Sd int   `json:"sd"`
	Ix int   `json:"ix"`
	St int   `json:"st"`
	W  int64 `json:"w"`
	A  int64 `json:"a"`
	B  int64 `json:"b"`
}

// Item is one input line: a point ("P"), a credential case ("C") or a request for random cases ("R").
type Item struct {
	Kind    string    `json:"kind"`
	Tag     string    `json:"tag"`
	H       string    `json:"h"`
	W       int64     `json:"w"`
	A       int64     `json:"a"`
	B       int64     `json:"b"`
	Ej      int64     `json:"ej"`
	Fn      string    `json:"fn"`
	Base    Base      `json:"base"`
	Pert    string    `json:"pert"`
	Expect  string    `json:"expect"`
	N       int       `json:"n"`
	MaxW    int64     `json:"maxw"`
	Ops     []SeqOp   `json:"ops"`
	AOps    []AliasOp `json:"aops"`
	K       int       `json:"k"`
	Sd      int       `json:"sd"`
	Ix      int       `json:"ix"`
	St      int       `json:"st"`
	Hid     int       `json:"hid"`
	J       int64     `json:"j"`
	Role    string    `json:"role"`
	Pset    int       `json:"pset"`
	JMax    int64     `json:"jmax"`
	Targets []int64   `json:"targets"`
}

// Tup is the (key, seed variant, index, step) tuple of a sequence operation.
type Tup struct {
	K  int    `json:"k"`
	Sv string `json:"sv"`
	Ix int    `json:"ix"`
	St int    `json:"st"`
}

// AliasOp is one call of an aliasing sequence: which function, which value of the total stake (Tv) and of the stake (Wv) the shared
// objects hold at call time, and (verify) whether the claimed seat count is right for these values or for those of the previous call.
type AliasOp struct {
	Fn string `json:"fn"`
	Tv int    `json:"tv"`
	Wv int    `json:"wv"`
	Cj string `json:"cj"`
}

// SeqOp is one operation of a generated sequence: issue a credential for T, or present the credential issued for C with inputs T.
type SeqOp struct {
	Op string `json:"op"`
	T  Tup    `json:"t"`
	C  Tup    `json:"c"`
}

type world struct {
	keys  []*fixture.Key
	sks   []vrf.PrivateKey
	pks   []vrf.PublicKey
	tails map[Base]common.Hash // seeds found for the bases with sd = 0 (VRF output in the top 1% of the range)
	// ALIASING: every call into the code under test passes THESE two objects for stake and total stake; they are mutated in place
	// (SetInt64) before each call, and the values at call time are what the trace records
	sw, sb *big.Int
}

func (wd *world) stakeObj(w int64) *big.Int { return wd.sw.SetInt64(w) }
func (wd *world) totalObj(b int64) *big.Int { return wd.sb.SetInt64(b) }

var hmax = new(big.Int).Sub(new(big.Int).Lsh(big.NewInt(1), 256), big.NewInt(1))

func inTail(h common.Hash) bool {
	return new(big.Int).Mul(new(big.Int).SetBytes(h[:]), big.NewInt(100)).Cmp(new(big.Int).Mul(hmax, big.NewInt(99))) > 0
}

// seed of a base: sd >= 1 names a fixed seed; sd = 0 asks for a seed for which this key's VRF output on (seed, step, index) is in the
// upper tail -- searched deterministically (about a hundred evaluations).
func (wd *world) seed(bs Base) common.Hash {
	if bs.Sd != 0 {
		return seedOf(bs.Sd)
	}
	if sd, ok := wd.tails[bs]; ok {
		return sd
	}
	for n := 0; ; n++ {
		sd := crypto.Keccak256Hash([]byte("c04-tail-seed"), big.NewInt(int64(n)).Bytes(), big.NewInt(int64(bs.K*100+bs.Ix*10+bs.St)).Bytes(), big.NewInt(bs.W).Bytes())
		val, _ := wd.sks[bs.K].Evaluate(ucon.MakeM(sd, uint32(bs.St), uint32(bs.Ix)))
		if inTail(common.Hash(val)) {
			wd.tails[bs] = sd
			return sd
		}
	}
}

// seed variants of the perturbations and of the sequences
func flip(sd common.Hash, bytes ...int) common.Hash {
	for _, b := range bytes {
		sd[b] ^= 0xa5
	}
	return sd
}

func newWorld(n int) *world {
	w := &world{keys: fixture.Keys("c04", n), tails: map[Base]common.Hash{}, sw: new(big.Int), sb: new(big.Int)}
	w.sks = make([]vrf.PrivateKey, n+1)
	w.pks = make([]vrf.PublicKey, n+1)
	for i := 1; i <= n; i++ {
		sk, err := secp256k1VRF.NewVRFSigner(w.keys[i].Priv)
		if err != nil {
			panic(err)
		}
		pk, err := secp256k1VRF.NewVRFVerifier(&w.keys[i].Priv.PublicKey)
		if err != nil {
			panic(err)
		}
		w.sks[i], w.pks[i] = sk, pk
	}
	return w
}

func seedOf(sd int) common.Hash {
	return crypto.Keccak256Hash([]byte("c04-seed"), big.NewInt(int64(sd)).Bytes())
}

func hashOfHex(s string) (common.Hash, error) {
	if len(s)%2 == 1 {
		s = "0" + s
	}
	b, err := hex.DecodeString(s)
	if err != nil || len(b) > 32 {
		return common.Hash{}, fmt.Errorf("bad 256-bit value %q", s)
	}
	return common.BytesToHash(b), nil
}

func hx(h common.Hash) string { return new(big.Int).SetBytes(h[:]).Text(16) }

func q(h common.Hash, w, a, b, j int64) map[string]interface{} {
	return map[string]interface{}{"h": hx(h), "w": w, "a": a, "b": b, "j": j}
}

func guard(ev map[string]interface{}, f func()) {
	defer func() {
		if r := recover(); r != nil {
			ev["panic"] = fmt.Sprint(r)
		}
	}()
	f()
}

// point presents a chosen VRF output to the real choose().
func point(env *drive.Env, src, tag string, h common.Hash, w, a, b, ej int64) {
	ev := map[string]interface{}{"ev": "choose", "src": src, "tag": tag, "ej": ej}
	guard(ev, func() {
		j := ucon.VerifChoose(h, big.NewInt(w), uint64(a), big.NewInt(b))
		ev["q"] = q(h, w, a, b, j)
	})
	env.Emit(ev)
}

// issue runs the real VrfSortition and records its result as a "choose" line and the priority with the per-seat hashes.
func (wd *world) issue(env *drive.Env, bs Base, emit bool) (common.Hash, []byte, int64) {
	val, proof, j := ucon.VrfSortition(wd.sks[bs.K], wd.seed(bs), uint32(bs.Ix), uint32(bs.St), uint64(bs.A), wd.stakeObj(bs.W), wd.totalObj(bs.B))
	if emit {
		tag := "issue"
		if bs.Sd == 0 {
			tag = "issue_tail"
		}
		env.Emit(map[string]interface{}{"ev": "choose", "src": "vrf", "tag": tag, "ej": -1, "q": q(val, bs.W, bs.A, bs.B, int64(j))})
		wd.priority(env, val, int64(j))
	}
	return val, proof, int64(j)
}

// ---------------------------------------------------------------- issuer stage

// lbParams is what the chain yields for one look-back class: ordinary votes / proposals read the seed SeedLookBack blocks back and the
// stake StakeLookBack blocks back; certificate votes read both ACoCHTFrequency-class look-backs.  The two classes DIFFER in everything.
type lbParams struct {
	seed           common.Hash
	stake, total   int64
	voteTh, propTh uint64
}

func certClass(lb params.LookBackType) bool {
	return params.TurnToSeedType(lb) == params.LookBackCertSeed
}

// issuer draws a credential through the REAL issuing side -- a SortitionManager built with NewSortitionManager over stub look-back
// functions that answer per look-back type, the way Server.getLookBackSeed / getLookbackStakeInfo select (TurnToSeedType /
// TurnToStakeType) -- and presents it to the real verifier functions with the seed / stake / threshold of the credential's OWN look-back
// class (what Server.verifySortition / verifyPriority select for that step) and with the seed of the OTHER class.
func (wd *world) issuer(env *drive.Env, role string, k, ix, pset int) {
	tag := []byte(fmt.Sprintf("c04-issuer/%d/%d/%d", env.Seed, env.T, pset))
	cls := map[bool]*lbParams{
		false: {seed: crypto.Keccak256Hash(tag, []byte("pos")), stake: 40, total: 100, voteTh: 30, propTh: 10},
		true:  {seed: crypto.Keccak256Hash(tag, []byte("cert")), stake: 55, total: 160, voteTh: 90, propTh: 10},
	}
	if pset == 2 {
		cls[false] = &lbParams{seed: crypto.Keccak256Hash(tag, []byte("pos")), stake: 300, total: 1000, voteTh: 120, propTh: 26}
		cls[true] = &lbParams{seed: crypto.Keccak256Hash(tag, []byte("cert")), stake: 250, total: 900, voteTh: 200, propTh: 26}
	}
	calls := []string{}
	getStake := func(round *big.Int, addr common.Address, isProposer bool, lb params.LookBackType) (*big.Int, *big.Int, uint64, params.ValidatorKind, uint8, error) {
		p := cls[certClass(lb)]
		calls = append(calls, fmt.Sprintf("stake:%d", lb))
		th := p.voteTh
		if isProposer {
			th = p.propTh
		}
		return big.NewInt(p.stake), big.NewInt(p.total), th, params.KindChamber, params.ValidatorOnline, nil
	}
	getSeed := func(round *big.Int, lb params.LookBackType) (common.Hash, error) {
		calls = append(calls, fmt.Sprintf("seed:%d", lb))
		return cls[certClass(lb)].seed, nil
	}
	sm := ucon.NewSortitionManager(wd.sks[k], getStake, getSeed, wd.keys[k].Addr)
	round := big.NewInt(98304)
	// the step value and the look-back type the voter / proposer passes for this role (voter.go vote(), proposal.go)
	step := map[string]uint32{"proposal": 1, "prevote": 2, "precommit": 3, "nextindex": 4, "certificate": 5}[role]
	lb := params.LookBackPos
	if role == "certificate" {
		lb = params.LookBackCert
	}
	own, other := cls[certClass(lb)], cls[!certClass(lb)]
	ev := map[string]interface{}{"ev": "issuer", "role": role, "k": k, "ix": ix, "pset": pset}
	var view *ucon.StepView
	guard(ev, func() {
		if role == "proposal" {
			_, view = sm.VerifIsProposer(round, uint32(ix))
		} else {
			_, view = sm.VerifIsValidator(round, uint32(ix), step, lb)
		}
	})
	ev["calls"] = calls
	if view == nil || view.SortitionProof == nil {
		ev["noview"] = true
		env.Emit(ev)
		return
	}
	j := int64(view.SubUsers)
	ev["j"] = j
	th := own.voteTh
	if role == "proposal" {
		th = own.propTh
	}
	try := func(name string, seed common.Hash) {
		guard(ev, func() {
			var ok bool
			var err error
			if role == "proposal" {
				ok, err = ucon.VrfVerifyPriority(wd.pks[k], seed, uint32(ix), step, view.SortitionProof, view.Priority, view.SubUsers, th, wd.stakeObj(own.stake), wd.totalObj(own.total))
			} else {
				ok, err = ucon.VrfVerifySortition(wd.pks[k], seed, uint32(ix), step, view.SortitionProof, view.SubUsers, th, wd.stakeObj(own.stake), wd.totalObj(own.total))
			}
			ev[name] = ok && err == nil
			if err != nil {
				ev[name+"Err"] = err.Error()
			}
		})
	}
	try("own", own.seed)
	try("other", other.seed)
	env.Emit(ev)
	// the issued seat count is the quantile for the OWN class's stake / threshold / total and the VRF output under the own seed
	if h, err := wd.pks[k].ProofToHash(ucon.MakeM(own.seed, step, uint32(ix)), view.SortitionProof); err == nil {
		env.Emit(map[string]interface{}{"ev": "choose", "src": "issuer", "tag": "issuer_" + role, "ej": -1, "q": q(common.Hash(h), own.stake, int64(th), own.total, j)})
		if role == "proposal" {
			wd.priorityCheck(env, common.Hash(h), j, view.Priority)
		}
	}
}

// priorityCheck records the priority an issuer put into its step view next to the per-seat reference hashes.
func (wd *world) priorityCheck(env *drive.Env, val common.Hash, j int64, prio common.Hash) {
	var seats []string
	for i := int64(0); i <= j; i++ {
		seats = append(seats, hx(seatHash(val, i)))
	}
	env.Emit(map[string]interface{}{"ev": "priority", "j": j, "seats": seats, "prio": hx(prio), "prio2": hx(prio)})
}

// seatHash is the PROTOCOL definition of the hash of seat i (Sortition.tla, PrioCases): keccak256(output || I2OSP(i)), I2OSP(i) the
// minimal big-endian bytes of i.
func seatHash(val common.Hash, i int64) common.Hash {
	var buf [40]byte
	copy(buf[:32], val[:])
	n := 32
	// I2OSP: minimal big-endian bytes, most significant first; nothing for i = 0
	started := false
	for shift := 56; shift >= 0; shift -= 8 {
		b := byte(uint64(i) >> uint(shift))
		if b != 0 || started {
			started = true
			buf[n] = b
			n++
		}
	}
	return crypto.Keccak256Hash(buf[:n])
}

// argmaxPrefix returns the argmax over 0..j and over 0..jp (jp <= j) in one pass.
func argmaxPrefix(val common.Hash, j, jp int64) (am, amp int64) {
	best := seatHash(val, 0)
	for i := int64(1); i <= j; i++ {
		if h := seatHash(val, i); bytes.Compare(h[:], best[:]) > 0 {
			best, am = h, i
		}
		if i == jp {
			amp = am
		}
	}
	return
}

// argmaxOf returns the seat in 0..j with the largest reference hash.
func argmaxOf(val common.Hash, j int64) int64 {
	best, bi := seatHash(val, 0), int64(0)
	for i := int64(1); i <= j; i++ {
		if h := seatHash(val, i); bytes.Compare(h[:], best[:]) > 0 {
			best, bi = h, i
		}
	}
	return bi
}

// argmaxSearch: a deterministic search over VRF outputs (hash inputs keccak("c04-argmax", seed, n)) until, for jmax seats and for the
// first 600 seats, the seat with the largest hash is each of the wanted seat indices (0, the one-byte / two-byte boundary 255 256 257,
// multiples of 256, ...); for every hit the real computePriority is recorded next to ALL per-seat reference hashes.
func (wd *world) argmaxSearch(env *drive.Env, jmax int64, targets []int64) {
	want := map[[2]int64]bool{}
	for _, t := range targets {
		want[[2]int64{jmax, t}] = true
		if t <= 600 && jmax > 600 {
			want[[2]int64{600, t}] = true
		}
	}
	for n := int64(0); n < 20000 && len(want) > 0; n++ {
		h := crypto.Keccak256Hash([]byte("c04-argmax"), big.NewInt(env.Seed).Bytes(), big.NewInt(n).Bytes())
		am, amp := argmaxPrefix(h, jmax, 600)
		for _, c := range [][2]int64{{jmax, am}, {600, amp}} {
			if want[c] {
				delete(want, c)
				wd.priorityAt(env, h, c[0], c[1])
			}
		}
	}
	if len(want) > 0 {
		env.Emit(map[string]interface{}{"ev": "note", "msg": fmt.Sprintf("argmax search: %d targets not reached", len(want))})
	}
}

// argmaxCredential: the same with REAL credentials: seeds are searched until the winner of several hundred seats (stake w, p = a/b) has
// its largest seat hash on a positive multiple of 256; the credential is then verified with the priority the code computes and with the
// reference maximum (both must be accepted: they are the same value).
func (wd *world) argmaxCredential(env *drive.Env, w, a, b int64) {
	for n := 0; n < 4000; n++ {
		bs := Base{K: 1, Sd: 5000 + n + int(env.Seed)*10000, Ix: 1, St: 1, W: w, A: a, B: b}
		val, _, j := wd.issue(env, bs, false)
		if j < 256 {
			continue
		}
		if am := argmaxOf(val, j); am > 0 && am%256 == 0 {
			wd.issue(env, bs, true)
			env.Emit(map[string]interface{}{"ev": "argmax", "j": j, "argmax": am})
			wd.verify(env, "priority", bs, "none", "issued")
			wd.verify(env, "priority", bs, "ref_max", "issued")
			wd.verify(env, "priority", bs, "prio_seat", "reject")
			return
		}
	}
	env.Emit(map[string]interface{}{"ev": "note", "msg": "argmax credential search: no seed found"})
}

func (wd *world) priorityAt(env *drive.Env, val common.Hash, j, am int64) {
	wd.priority(env, val, j)
	env.Emit(map[string]interface{}{"ev": "argmax", "j": j, "argmax": am})
}

// priority records computePriority(hash, j) next to the hash of every seat 0..j (keccak(hash || i), i as minimal big-endian bytes).
func (wd *world) priority(env *drive.Env, val common.Hash, j int64) {
	if j > 2000 {
		return
	}
	var seats []string
	for i := int64(0); i <= j; i++ {
		seats = append(seats, hx(crypto.Keccak256Hash(append(append([]byte{}, val[:]...), big.NewInt(i).Bytes()...))))
	}
	p1 := ucon.VrfComputePriority(val, uint32(j))
	p2 := ucon.VerifComputePriority(val, j)
	env.Emit(map[string]interface{}{"ev": "priority", "j": j, "seats": seats, "prio": hx(p1), "prio2": hx(p2)})
}

// verify presents the credential issued for bs to the real verifier with one field perturbed.
func (wd *world) verify(env *drive.Env, fn string, bs Base, pert, expect string) {
	val, proof, ji := wd.issue(env, bs, false)
	k, sd, ix, st, w, a, b, jc := bs.K, wd.seed(bs), bs.Ix, bs.St, bs.W, bs.A, bs.B, ji
	proof = append([]byte{}, proof...)
	prio := ucon.VrfComputePriority(val, uint32(ji))
	skip := ""
	switch pert {
	case "none":
	case "key":
		k = k%2 + 1
	case "seed":
		sd = seedOf(bs.Sd%2 + 1)
	case "seed_first8": // differs in bytes 0..7 only
		sd = flip(sd, 0, 3, 7)
	case "seed_byte8":
		sd = flip(sd, 8)
	case "seed_last":
		sd = flip(sd, 31)
	case "j+2":
		jc += 2
	case "j=stake":
		if jc == w {
			skip = "j is the whole stake already"
		}
		jc = w
	case "index":
		ix = ix%2 + 1
	case "step":
		st = st%5 + 1
	case "j+1":
		jc++
	case "j-1":
		if jc == 0 {
			skip = "j = 0"
		}
		jc--
	case "proof_first":
		proof[0] ^= 0x01
	case "proof_mid":
		proof[len(proof)/2] ^= 0x80
	case "proof_last":
		proof[len(proof)-1] ^= 0x01
	case "proof_trunc":
		proof = proof[:len(proof)-1]
	case "stake+1":
		w++
	case "stake-1":
		w--
	case "stake*2":
		w *= 2
	case "total+1":
		b++
	case "total*2":
		b *= 2
	case "th+1":
		a++
	case "th-1":
		a--
	case "th*2":
		a *= 2
	case "ref_max": // the reference maximum over the seats 0..ji (what the statement calls the priority)
		prio = seatHash(val, argmaxOf(val, ji))
	case "prio_flip":
		prio[31] ^= 0x01
	case "prio_seat":
		// the hash of a seat that is not the maximum
		alt := crypto.Keccak256Hash(val[:])
		if alt == prio {
			alt = crypto.Keccak256Hash(append(append([]byte{}, val[:]...), 1))
		}
		if ji == 0 {
			skip = "a single seat"
		}
		prio = alt
	default:
		skip = "unknown perturbation"
	}
	if w < 1 || a < 1 || a > b {
		skip = "outside the domain (p must be in (0, 1], stake >= 1)"
	}
	ev := map[string]interface{}{"ev": "verify", "fn": fn, "pert": pert, "expect": expect, "ji": ji}
	if bs.Sd == 0 {
		ev["tail"] = true
	}
	if skip != "" {
		ev["skip"] = skip
		env.Emit(ev)
		return
	}
	guard(ev, func() {
		var ok bool
		var err error
		if fn == "priority" {
			ok, err = ucon.VrfVerifyPriority(wd.pks[k], sd, uint32(ix), uint32(st), proof, prio, uint32(jc), uint64(a), wd.stakeObj(w), wd.totalObj(b))
		} else {
			ok, err = ucon.VrfVerifySortition(wd.pks[k], sd, uint32(ix), uint32(st), proof, uint32(jc), uint64(a), wd.stakeObj(w), wd.totalObj(b))
		}
		ev["accept"] = ok && err == nil
		if err != nil {
			ev["err"] = err.Error()
		}
	})
	ev["q"] = q(val, w, a, b, jc)
	env.Emit(ev)
}

var allPerts = []string{"key", "seed", "seed_first8", "seed_byte8", "seed_last", "j+2", "j=stake", "index", "step", "j+1", "j-1", "proof_first", "proof_mid", "proof_last", "proof_trunc",
	"stake+1", "stake-1", "stake*2", "total+1", "total*2", "th+1", "th-1", "th*2"}

func expectOf(p string) string {
	switch p {
	case "none":
		return "issued"
	case "stake+1", "stake-1", "stake*2", "total+1", "total*2", "th+1", "th-1", "th*2":
		return "recompute"
	}
	return "reject"
}

func rndHash(r *rand.Rand) common.Hash {
	var h common.Hash
	r.Read(h[:])
	return h
}

// random cases: real VrfSortition over random parameters (means on both sides of the code's m < 20 switch), chosen hashes in
// the upper tail (mirrored branch) and in the far lower tail, each credential verified as issued and under random perturbations.
func (wd *world) random(env *drive.Env, n int, maxw int64) {
	r := rand.New(rand.NewSource(env.Seed*7919 + int64(env.T)))
	hmax := new(big.Int).Sub(new(big.Int).Lsh(big.NewInt(1), 256), big.NewInt(1))
	for i := 0; i < n; i++ {
		w := 1 + r.Int63n(maxw)
		if r.Intn(4) == 0 {
			w = 1 + r.Int63n(40)
		}
		b := w + r.Int63n(20*w+1)
		var a int64
		switch {
		case w > 200:
			// large stakes: small p, means 0.1 .. 60 on both sides of the code's m < 20 switch (the scan costs one state per seat)
			m10 := 1 + r.Int63n(600)
			a = m10 * b / (10 * w)
		case r.Intn(4) == 0:
			a = b - r.Int63n(b/10+1) // p close to 1
		case r.Intn(3) == 0:
			a = 1 + r.Int63n(b/50+1) // small p
		default:
			a = 1 + r.Int63n(b)
		}
		if a < 1 {
			a = 1
		}
		if a > b {
			a = b
		}
		bs := Base{K: 1 + r.Intn(2), Sd: 1 + r.Intn(1000), Ix: 1 + r.Intn(3), St: 1 + r.Intn(5), W: w, A: a, B: b}
		switch i % 4 {
		case 0, 1:
			wd.issue(env, bs, true)
			wd.verify(env, "sortition", bs, "none", "issued")
			wd.verify(env, "priority", bs, "none", "issued")
			p := allPerts[r.Intn(len(allPerts))]
			wd.verify(env, "sortition", bs, p, expectOf(p))
			p = allPerts[r.Intn(len(allPerts))]
			wd.verify(env, "priority", bs, p, expectOf(p))
		case 2: // upper tail: 1 - t = u * 2^-k
			k := uint(7 + r.Intn(60))
			u := new(big.Int).SetBytes(rndHash(r).Bytes())
			h := new(big.Int).Sub(hmax, new(big.Int).Rsh(u, k))
			point(env, "chosen", "upper", common.BigToHash(h), w, a, b, -1)
		case 3: // lower tail: t = u * 2^-k
			k := uint(r.Intn(80))
			u := new(big.Int).SetBytes(rndHash(r).Bytes())
			point(env, "chosen", "lower", common.BigToHash(new(big.Int).Rsh(u, k)), w, a, b, -1)
		}
	}
}

// sequence executes Issue / Verify operations in this order in this process.  The seeds are fresh for every behaviour (derived from
// the behaviour index), so that nothing evaluated for an earlier behaviour can be confused with them.
func (wd *world) sequence(env *drive.Env, ops []SeqOp) {
	const w, a, b = int64(40), int64(60), int64(100)
	base := crypto.Keccak256Hash([]byte("c04-seq"), big.NewInt(int64(env.T)).Bytes(), big.NewInt(env.Seed).Bytes())
	seed := func(sv string) common.Hash {
		switch sv {
		case "first8":
			return flip(base, 0, 3, 7)
		case "byte8":
			return flip(base, 8)
		case "last":
			return flip(base, 31)
		case "other":
			return crypto.Keccak256Hash(base[:])
		}
		return base
	}
	type cr struct {
		proof []byte
		j     uint32
	}
	creds := map[Tup]cr{}
	for _, op := range ops {
		switch op.Op {
		case "issue":
			t := op.T
			val, proof, j := ucon.VrfSortition(wd.sks[t.K], seed(t.Sv), uint32(t.Ix), uint32(t.St), uint64(a), big.NewInt(w), big.NewInt(b))
			creds[t] = cr{proof, j}
			env.Emit(map[string]interface{}{"ev": "seq_issue", "tup": t, "h": hx(val), "j": j})
		case "verify":
			c, t := creds[op.C], op.T
			ev := map[string]interface{}{"ev": "seq_verify", "c": op.C, "as": t, "ji": c.j}
			guard(ev, func() {
				ok, err := ucon.VrfVerifySortition(wd.pks[t.K], seed(t.Sv), uint32(t.Ix), uint32(t.St), c.proof, c.j, uint64(a), big.NewInt(w), big.NewInt(b))
				ev["accept"] = ok && err == nil
				if err != nil {
					ev["err"] = err.Error()
				}
			})
			env.Emit(ev)
		}
	}
}

// alias executes an aliasing sequence: ONE big.Int for the stake and ONE for the total stake serve all calls and are mutated in
// place between them.  The claimed seat count of a verify call is computed by VerifChoose on FRESH objects holding the values of
// this call ("now") or of the previous call ("prev"); the monitor judges every call by the values recorded at call time.
func (wd *world) alias(env *drive.Env, ops []AliasOp) {
	const a = int64(30)
	stakes := [3]int64{0, 40, 43}
	totals := [3]int64{0, 100, 200}
	seed := crypto.Keccak256Hash([]byte("c04-alias"), big.NewInt(int64(env.T)).Bytes(), big.NewInt(env.Seed).Bytes())
	const k, ix, st = 1, 1, 3
	val, proof := wd.sks[k].Evaluate(ucon.MakeM(seed, uint32(st), uint32(ix)))
	h := common.Hash(val)
	stake, total := new(big.Int), new(big.Int) // the aliased objects of this sequence
	pw, pb := stakes[1], totals[1]
	for n, op := range ops {
		w, b := stakes[op.Wv], totals[op.Tv]
		stake.SetInt64(w) // in place
		total.SetInt64(b)
		switch op.Fn {
		case "sortition":
			ev := map[string]interface{}{"ev": "choose", "src": "alias", "tag": "alias", "ej": -1, "pos": n}
			guard(ev, func() {
				hv, _, j := ucon.VrfSortition(wd.sks[k], seed, uint32(ix), uint32(st), uint64(a), stake, total)
				ev["q"] = q(hv, w, a, b, int64(j))
			})
			env.Emit(ev)
		default:
			cw, cb := w, b
			if op.Cj == "prev" {
				cw, cb = pw, pb
			}
			jc := ucon.VerifChoose(h, big.NewInt(cw), uint64(a), big.NewInt(cb))
			fn := "sortition"
			if op.Fn == "verify_priority" {
				fn = "priority"
			}
			ev := map[string]interface{}{"ev": "verify", "fn": fn, "pert": "alias_" + op.Cj, "expect": "recompute", "ji": jc, "pos": n}
			guard(ev, func() {
				var ok bool
				var err error
				if fn == "priority" {
					ok, err = ucon.VrfVerifyPriority(wd.pks[k], seed, uint32(ix), uint32(st), proof, ucon.VrfComputePriority(h, uint32(jc)), uint32(jc), uint64(a), stake, total)
				} else {
					ok, err = ucon.VrfVerifySortition(wd.pks[k], seed, uint32(ix), uint32(st), proof, uint32(jc), uint64(a), stake, total)
				}
				ev["accept"] = ok && err == nil
				if err != nil {
					ev["err"] = err.Error()
				}
			})
			ev["q"] = q(h, w, a, b, jc)
			env.Emit(ev)
		}
		if stake.Int64() != w || total.Int64() != b {
			env.Emit(map[string]interface{}{"ev": "note", "msg": "the code under test modified its big.Int inputs"})
		}
		pw, pb = w, b
	}
}

// ---------------------------------------------------------------- malicious prover

// maliciousEvaluate is secp256k1VRF.PrivateKey.Evaluate transcribed (same transcript, same challenge derivation, same proof layout
// s || t || point), with hooks that change the ENCODING of what the proof carries while the challenge is recomputed consistently:
//
//	prefix : the first byte of the 65-byte VRF point (honest: 0x04); the point bytes feed the transcript and the output hash
//	negY   : the point with the other y (a different point: control, must never verify)
//	addN   : s or t written as s + N / t + N when that still fits 32 bytes (same residue, other bytes)
//
// With prefix = 0x04 and no other hook it is the honest algorithm (control: must verify with Evaluate's output).
func maliciousEvaluate(d *big.Int, pubX, pubY *big.Int, m []byte, nonce []byte, prefix byte, negY bool, addN string) (out [32]byte, proof []byte, applicable bool) {
	curve := crypto.S256()
	cp := curve.Params()
	r := new(big.Int).SetBytes(nonce)
	r.Mod(r, new(big.Int).Sub(cp.N, big.NewInt(1)))
	r.Add(r, big.NewInt(1))
	hx, hy := secp256k1VRF.H1(m)
	vx, vy := curve.ScalarMult(hx, hy, d.Bytes())
	if negY {
		vy = new(big.Int).Sub(cp.P, vy)
	}
	vrfData := elliptic.Marshal(curve, vx, vy)
	vrfData[0] = prefix
	rgx, rgy := curve.ScalarBaseMult(r.Bytes())
	rhx, rhy := curve.ScalarMult(hx, hy, r.Bytes())
	var b bytes.Buffer
	b.Write(elliptic.Marshal(curve, cp.Gx, cp.Gy))
	b.Write(elliptic.Marshal(curve, hx, hy))
	b.Write(elliptic.Marshal(curve, pubX, pubY))
	b.Write(vrfData)
	b.Write(elliptic.Marshal(curve, rgx, rgy))
	b.Write(elliptic.Marshal(curve, rhx, rhy))
	s := secp256k1VRF.H2(b.Bytes())
	t := new(big.Int).Sub(r, new(big.Int).Mul(s, d))
	t.Mod(t, cp.N)
	applicable = true
	switch addN {
	case "s":
		s = new(big.Int).Add(s, cp.N)
	case "t":
		t = new(big.Int).Add(t, cp.N)
	}
	if s.BitLen() > 256 || t.BitLen() > 256 {
		return out, nil, false // the non-reduced form does not fit the 32-byte field
	}
	var buf bytes.Buffer
	buf.Write(make([]byte, 32-len(s.Bytes())))
	buf.Write(s.Bytes())
	buf.Write(make([]byte, 32-len(t.Bytes())))
	buf.Write(t.Bytes())
	buf.Write(vrfData)
	return sha256.Sum256(vrfData), buf.Bytes(), true
}

// unique presents to the real ProofToHash, for one (key, message), the honest proof and proofs a malicious KEY HOLDER can make with
// other encodings, and records which are accepted with which output.
func (wd *world) unique(env *drive.Env, k, sd, ix, st int) {
	m := ucon.MakeM(seedOf(sd), uint32(st), uint32(ix))
	key := wd.keys[k].Priv
	eval, honest := wd.sks[k].Evaluate(m)
	nonce := crypto.Keccak256([]byte("c04-nonce"), m, big.NewInt(env.Seed).Bytes())
	type tr struct {
		Mal    string `json:"mal"`
		Accept bool   `json:"accept"`
		Out    string `json:"out"`
		Err    string `json:"err,omitempty"`
	}
	var tries []tr
	present := func(name string, proof []byte) {
		t := tr{Mal: name}
		func() {
			defer func() {
				if r := recover(); r != nil {
					t.Err = "panic: " + fmt.Sprint(r)
				}
			}()
			out, err := wd.pks[k].ProofToHash(m, proof)
			t.Accept = err == nil
			if err != nil {
				t.Err = err.Error()
			} else {
				t.Out = hx(common.Hash(out))
			}
		}()
		tries = append(tries, t)
	}
	present("evaluate", honest)
	if _, p, ok := maliciousEvaluate(key.D, key.X, key.Y, m, nonce, 0x04, false, ""); ok {
		present("transcribed_honest", p)
	}
	for _, pf := range []byte{0x00, 0x01, 0x02, 0x03, 0x05, 0x06, 0x07, 0x44, 0x84, 0xff} {
		if _, p, ok := maliciousEvaluate(key.D, key.X, key.Y, m, nonce, pf, false, ""); ok {
			present(fmt.Sprintf("prefix_%02x", pf), p)
		}
	}
	if _, p, ok := maliciousEvaluate(key.D, key.X, key.Y, m, nonce, 0x04, true, ""); ok {
		present("other_y", p)
	}
	for _, an := range []string{"s", "t"} {
		if _, p, ok := maliciousEvaluate(key.D, key.X, key.Y, m, nonce, 0x04, false, an); ok {
			present("nonreduced_"+an, p)
		}
	}
	// encodings of the honest proof itself: prefix flipped without recomputing the challenge, trailing byte, truncated
	hp := append([]byte{}, honest...)
	hp[64] = 0x02
	present("honest_prefix_flipped", hp)
	present("honest_extra_byte", append(append([]byte{}, honest...), 0))
	present("honest_truncated", honest[:len(honest)-1])
	env.Emit(map[string]interface{}{"ev": "vrf_unique", "k": k, "sd": sd, "ix": ix, "st": st, "eval": hx(common.Hash(eval)), "tries": tries})
}

func run(env *drive.Env) error {
	logging.Root().SetHandler(logging.DiscardHandler())
	wd := newWorld(2)
	issued := map[Base]bool{}
	var it Item
	for {
		it = Item{}
		if !env.Next(&it) {
			break
		}
		switch it.Kind {
		case "P":
			h, err := hashOfHex(it.H)
			if err != nil {
				return err
			}
			point(env, "point", it.Tag, h, it.W, it.A, it.B, it.Ej)
		case "C":
			if !issued[it.Base] {
				issued[it.Base] = true
				wd.issue(env, it.Base, true)
			}
			wd.verify(env, it.Fn, it.Base, it.Pert, it.Expect)
		case "R":
			wd.random(env, it.N, it.MaxW)
		case "S":
			wd.sequence(env, it.Ops)
		case "A":
			wd.alias(env, it.AOps)
		case "U":
			wd.unique(env, it.K, it.Sd, it.Ix, it.St)
		case "I":
			wd.issuer(env, it.Role, it.K, it.Ix, it.Pset)
		case "X":
			wd.argmaxSearch(env, it.JMax, it.Targets)
		case "XC":
			wd.argmaxCredential(env, it.W, it.A, it.B)
		case "Q":
			h := crypto.Keccak256Hash([]byte("c04-prio"), big.NewInt(int64(it.Hid)).Bytes(), big.NewInt(env.Seed).Bytes())
			wd.priority(env, h, it.J)
		default:
			return fmt.Errorf("unknown item kind %q", it.Kind)
		}
	}
	return nil
}
