// Package journal drives behaviours of spec/Journal.tla through the real core/state.StateDB (C09).
package journal

import (
	"fmt"
	"math/big"

	"github.com/youchainhq/go-youchain/common"
	"github.com/youchainhq/go-youchain/core/state"
	"github.com/youchainhq/go-youchain/core/types"
	"github.com/youchainhq/go-youchain/crypto"
	"github.com/youchainhq/go-youchain/params"
	"verif/harness/drive"
	"verif/harness/fixture"
)

func init() { drive.Register("journal", run) }

// Op is one abstract action of a behaviour.
type Op struct {
	Op   string `json:"op"`
	A    int    `json:"a"`
	V    int    `json:"v"`
	D    int    `json:"d"`
	S    string `json:"s"`
	Id   int    `json:"id"`
	Tok  int    `json:"tok"`
	Flip bool   `json:"flip"`
	R    int    `json:"r"`
	I    int    `json:"i"`
}

const (
	nAccts  = 3 // a1, a2 pre-funded; a3 does not exist initially
	nFunded = 2
	nVals   = 3
	funding = 1000
)

type world struct {
	st     *state.StateDB
	accts  []*fixture.Key
	vals   []*fixture.Key
	names  fixture.Names
	aAddrs []common.Address
	vAddrs []common.Address
	unit   *big.Int
	ids    map[int]int // model snapshot id -> real id
	nlog   uint
}

func newWorld() *world {
	w := &world{accts: fixture.Keys("acct", nAccts), vals: fixture.Keys("val", nVals), names: fixture.Names{}, ids: map[int]int{}}
	w.unit = fixture.ScaleStakeUnit()
	for i := 1; i <= nAccts; i++ {
		w.names[w.accts[i].Addr] = fmt.Sprintf("a%d", i)
		w.aAddrs = append(w.aAddrs, w.accts[i].Addr)
	}
	for i := 1; i <= nVals; i++ {
		w.names[w.vals[i].Addr] = fmt.Sprintf("v%d", i)
		w.vAddrs = append(w.vAddrs, w.vals[i].Addr)
	}
	st, _ := fixture.NewMemState()
	// a committed, non-empty starting point: funded accounts (so that nothing is "empty")
	for _, a := range w.aAddrs[:nFunded] {
		st.AddBalance(a, big.NewInt(funding))
	}
	r1, r2, r3, err := st.Commit(true)
	if err != nil {
		panic(err)
	}
	st2, err := state.New(r1, r2, r3, st.Database())
	if err != nil {
		panic(err)
	}
	w.st = st2
	return w
}

func (w *world) units(n int) *big.Int { return new(big.Int).Mul(big.NewInt(int64(n)), w.unit) }

// apply performs one abstract action on the real StateDB.  It returns (realSnapshotId, panicMessage).
func (w *world) apply(op *Op) (res map[string]interface{}) {
	res = map[string]interface{}{}
	defer func() {
		if r := recover(); r != nil {
			res["panic"] = fmt.Sprint(r)
		}
	}()
	st := w.st
	switch op.Op {
	case "AddBalance":
		st.AddBalance(w.accts[op.A].Addr, big.NewInt(int64(op.D)))
	case "SubBalance":
		st.SubBalance(w.accts[op.A].Addr, big.NewInt(int64(op.D)))
	case "Suicide":
		st.Suicide(w.accts[op.A].Addr)
	case "CreateAccount":
		st.CreateAccount(w.accts[op.A].Addr)
	case "SetNonce":
		st.SetNonce(w.accts[op.A].Addr, uint64(op.V))
	case "SetCode":
		code := []byte{byte(op.V)}
		if op.V == 0 {
			code = []byte{} // the model's 0 is "no code" (empty code hash)
		}
		st.SetCode(w.accts[op.A].Addr, code)
	case "SetState":
		slot := fixture.Slot1
		if op.S == "s2" {
			slot = fixture.Slot2
		}
		st.SetState(w.accts[op.A].Addr, slot, common.BigToHash(big.NewInt(int64(op.V))))
	case "AddLog":
		w.nlog++
		st.AddLog(&types.Log{Address: w.accts[1].Addr, Data: []byte{byte(w.nlog)}})
	case "AddPreimage":
		b := []byte{byte(op.V)}
		st.AddPreimage(crypto.Keccak256Hash(b), b)
	case "AddRefund":
		st.AddRefund(uint64(op.V))
	case "SubRefund":
		st.SubRefund(uint64(op.V))
	case "CreateValidator":
		k := w.vals[op.V]
		role := params.RoleChancellor
		if op.V%2 == 0 {
			role = params.RoleHouse
		}
		tok := w.units(op.Tok)
		if st.CreateValidator(fmt.Sprintf("v%d", op.V), k.Addr, k.Addr, role, k.PubComp, k.BlsPkB, tok, params.YOUToStake(tok),
			params.AcceptDelegation, 1000, 1000, params.ValidatorOffline) == nil {
			res["refused"] = true
		}
	case "UpdateValidator":
		// the staking module's pattern: PartialCopy, modify, UpdateValidator(new, old)
		old := st.GetValidatorByMainAddr(w.vals[op.V].Addr)
		if old == nil {
			res["refused"] = true
			break
		}
		nv := old.PartialCopy()
		d := w.units(op.D)
		nv.Token.Add(nv.Token, d)
		nv.SelfToken.Add(nv.SelfToken, d)
		nv.SelfStake = params.YOUToStake(nv.SelfToken)
		nv.Stake.Add(nv.Stake, new(big.Int).Sub(nv.SelfStake, old.SelfStake))
		if op.Flip {
			if nv.Status == params.ValidatorOnline {
				nv.Status = params.ValidatorOffline
			} else {
				nv.Status = params.ValidatorOnline
			}
		}
		if !st.UpdateValidator(nv, old) {
			res["refused"] = true
		}
	case "RemoveValidator":
		if !st.RemoveValidator(w.vals[op.V].Addr) {
			res["refused"] = true
		}
	case "AddWithdraw":
		st.AddWithdrawRecord(&state.WithdrawRecord{Operator: w.accts[1].Addr, Validator: w.vals[1].Addr, Recipient: w.accts[1].Addr,
			Nonce: uint64(op.R), CreationHeight: 1, CompletionHeight: 7, InitialBalance: w.units(op.R), FinalBalance: w.units(op.R)})
	case "RemoveWithdraw":
		st.RemoveWithdrawRecords([]int{op.I - 1})
	case "UpdateDelegation":
		val := st.GetValidatorByMainAddr(w.vals[op.V].Addr)
		if val == nil {
			res["refused"] = true
			break
		}
		st.UpdateDelegation(w.accts[op.A].Addr, val, w.units(op.D))
	case "Snapshot":
		w.ids[op.Id] = st.Snapshot()
	case "Revert":
		st.RevertToSnapshot(w.ids[op.Id])
	case "Finalise":
		st.Finalise(true)
	default:
		panic("unknown op " + op.Op)
	}
	return res
}

func (w *world) proj() *fixture.StateProj {
	return fixture.ProjectState(w.st, w.names, w.aAddrs, w.vAddrs, 0)
}

// abstract maps the projection onto the vocabulary of spec/Journal.tla (amounts in stake units).
func (w *world) abstract(p *fixture.StateProj) map[string]interface{} {
	u := w.unit.Int64()
	m := map[string]interface{}{}
	var bal, nonce, s1, s2, code, dbal []int64
	var dto [][]int
	var ex, sui []bool
	for i := 1; i <= nAccts; i++ {
		a := p.Accts[fmt.Sprintf("a%d", i)]
		c := int64(0)
		if len(a.Code) > 0 {
			fmt.Sscanf(a.Code, "%x", &c)
		}
		to := []int{}
		for _, vn := range a.Dlgs {
			var vi int
			fmt.Sscanf(vn, "v%d", &vi)
			to = append(to, vi)
		}
		dto = append(dto, to)
		ex, sui = append(ex, a.Exists), append(sui, a.Sui)
		bal, nonce, s1, s2, code, dbal = append(bal, a.Bal), append(nonce, int64(a.Nonce)), append(s1, a.S1), append(s2, a.S2), append(code, c), append(dbal, a.Dbal/u)
	}
	m["bal"], m["nonce"], m["s1"], m["s2"], m["code"], m["dbal"] = bal, nonce, s1, s2, code, dbal
	m["dto"], m["ex"], m["sui"] = dto, ex, sui
	var vals [][]interface{}
	for i := 1; i <= nVals; i++ {
		v := p.Vals[fmt.Sprintf("v%d", i)]
		dl := make([]int64, nAccts)
		for _, d := range v.Dlgs {
			var ai int
			fmt.Sscanf(d.D, "a%d", &ai)
			dl[ai-1] = d.Token / u
		}
		vals = append(vals, []interface{}{v.Token / u, v.Status == int(params.ValidatorOnline), v.Exists, dl})
	}
	m["val"] = vals
	all := p.Stat["all"]
	m["stat"] = []int64{all.OnToken / u, all.OffToken / u, int64(all.OnCount), int64(all.OffCount)}
	wq := []int64{}
	for _, r := range p.Wq {
		wq = append(wq, int64(r.Nonce))
	}
	m["wq"] = wq
	m["pre"] = p.Pre
	m["refund"] = p.Refund
	m["logs"] = p.Logs
	return m
}

// rootsAfter replays ops[0..n) on a fresh world and returns the root triple of the resulting live state.
func rootsAfter(ops []Op, n int) (roots []string, perr string) {
	defer func() {
		if r := recover(); r != nil {
			perr = fmt.Sprint(r)
		}
	}()
	w := newWorld()
	for i := 0; i < n; i++ {
		if r := w.apply(&ops[i]); r["panic"] != nil {
			return nil, fmt.Sprint(r["panic"])
		}
	}
	a, b, c := w.st.IntermediateRoot(true)
	return fixture.Roots(a, b, c), ""
}

func run(env *drive.Env) error {
	withRoots := env.OptInt("roots", 1) == 1
	var beh []Op
	for env.Next(&beh) {
		w := newWorld()
		snapAt := map[int]int{} // model id -> index of the Snapshot op
		for i := range beh {
			op := &beh[i]
			res := w.apply(op)
			ev := map[string]interface{}{"ev": op.Op, "i": i, "args": op}
			for k, v := range res {
				ev[k] = v
			}
			if res["panic"] == nil {
				p := w.proj()
				if op.Op == "Snapshot" || op.Op == "Revert" {
					ev["obs"] = p // the full projection, judged by the monitor
				}
				ev["m"] = w.abstract(p) // the model's vocabulary, judged by the conformance spec
				rv, vr, jl, vjl := w.st.VerifRevisionLists()
				ev["lens"] = []int{rv, vr, jl, vjl}
			}
			if op.Op == "Snapshot" {
				snapAt[op.Id] = i
			}
			if op.Op == "Revert" && res["panic"] == nil && withRoots {
				// "resulting roots": a fresh replay up to here must give the roots of a fresh replay up to the snapshot
				ra, ea := rootsAfter(beh, i+1)
				rs, es := rootsAfter(beh, snapAt[op.Id]+1)
				// a panic while computing roots shows up as a root triple that cannot match
				if ea != "" {
					ra = []string{"panic-after: " + ea, "", ""}
				}
				if es != "" {
					rs = []string{"panic-at-snapshot: " + es, "", ""}
				}
				ev["rootsAfter"], ev["rootsAtSnap"] = ra, rs
			}
			env.Emit(ev)
			if res["panic"] != nil {
				break
			}
		}
		beh = nil
	}
	return nil
}
