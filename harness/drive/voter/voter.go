// Package voter drives behaviours of spec/Voter.tla through the real ucon.Voter + ucon.VoteDB (C02).
//
// The Voter is built with the exported constructor on a crash-injecting database; its environment
// (sortition, proposals, stake lookup) is stubbed so that the node is always selected with weight 1
// and a "quorum" is one signed vote message of weight 10 (threshold 10, quorum floor(6.85) = 6).
// Events are delivered through the synchronous entry points of consensus/ucon/verif_voter.go; the
// votes that leave the node are the SendMessageEvents captured on the event mux.
//
// Crash points: the database panics right after (or right before) the n-th write of an action; the
// Voter is then discarded, which is what a process kill at that instruction leaves behind (the
// deferred functions on the way are mutex unlocks only).  Restart = NewVoter on the same database,
// followed by the engine's first ContextChangeEvent (round head+1, index 1, step 0).
package voter

import (
	"crypto/ecdsa"
	"encoding/binary"
	"fmt"
	"math/big"
	"runtime"
	"sort"
	"sync"
	"time"

	"github.com/youchainhq/go-youchain/common"
	"github.com/youchainhq/go-youchain/consensus/ucon"
	"github.com/youchainhq/go-youchain/core/state"
	"github.com/youchainhq/go-youchain/core/types"
	"github.com/youchainhq/go-youchain/event"
	"github.com/youchainhq/go-youchain/logging"
	"github.com/youchainhq/go-youchain/params"
	"github.com/youchainhq/go-youchain/rlp"
	"github.com/youchainhq/go-youchain/youdb"
	"verif/harness/drive"
	"verif/harness/fixture"
)

func init() { drive.Register("voter", run) }

// Op is one abstract action of a behaviour of Voter.tla.
type Op struct {
	Op   string `json:"op"`
	R    int64  `json:"r"`
	I    uint32 `json:"i"`
	St   uint32 `json:"st"`
	Best string `json:"best"`
	K    string `json:"k"`
	B    string `json:"b"`
	C    bool   `json:"c"`  // certificate round
	Cw   *int   `json:"cw"` // crash inside the action: writes performed ...
	Cp   *int   `json:"cp"` // ... and votes posted before the process died (absent or -1: no crash inside)
}

// ---------------------------------------------------------------- crash-injecting database

type crashSentinel struct{}

type crashDB struct {
	mu          sync.Mutex
	m           map[string][]byte
	writes      int // writes since arm()
	panicAfter  int // panic right after performing write #n (0 = off)
	panicBefore int // panic instead of performing write #n (0 = off)
}

func newCrashDB() *crashDB { return &crashDB{m: map[string][]byte{}} }

func (d *crashDB) arm(after, before int) { d.writes, d.panicAfter, d.panicBefore = 0, after, before }

func (d *crashDB) Put(k, v []byte) error {
	d.mu.Lock()
	d.writes++
	if d.panicBefore > 0 && d.writes == d.panicBefore {
		d.mu.Unlock()
		panic(crashSentinel{})
	}
	d.m[string(k)] = common.CopyBytes(v)
	after := d.panicAfter > 0 && d.writes == d.panicAfter
	d.mu.Unlock()
	if after {
		panic(crashSentinel{})
	}
	return nil
}
func (d *crashDB) Delete(k []byte) error {
	d.mu.Lock()
	defer d.mu.Unlock()
	delete(d.m, string(k))
	return nil
}
func (d *crashDB) Get(k []byte) ([]byte, error) {
	d.mu.Lock()
	defer d.mu.Unlock()
	if v, ok := d.m[string(k)]; ok {
		return common.CopyBytes(v), nil
	}
	return nil, fmt.Errorf("not found")
}
func (d *crashDB) Has(k []byte) (bool, error) {
	d.mu.Lock()
	defer d.mu.Unlock()
	_, ok := d.m[string(k)]
	return ok, nil
}
func (d *crashDB) Close()                {}
func (d *crashDB) NewBatch() youdb.Batch { return youdb.NewMemDatabase().NewBatch() } // not used by the voter

// ---------------------------------------------------------------- environment stubs

type pm struct{ st *state.StateDB }

func (f *pm) CurrentCaravelParams() *params.CaravelParams {
	yp := params.Versions[params.YouCurrentVersion]
	yp.EnableBls = false
	return &yp.CaravelParams
}
func (f *pm) CertificateParams(round *big.Int) (*params.CaravelParams, error) {
	return f.CurrentCaravelParams(), nil
}
func (f *pm) CurrentYouParams() *params.YouParams {
	yp := params.Versions[params.YouCurrentVersion]
	yp.EnableBls = false
	return &yp
}
func (f *pm) GetLookBackVldReader(cp *params.CaravelParams, num *big.Int, lbType params.LookBackType) (state.ValidatorReader, error) {
	return f.st, nil
}

const (
	threshold    = 10
	quorumWeight = 10
)

var kinds = map[string]ucon.VoteType{"Prevote": ucon.Prevote, "Precommit": ucon.Precommit, "Next": ucon.NextIndex, "Cert": ucon.Certificate}
var kindNames = map[ucon.VoteType]string{ucon.Prevote: "Prevote", ucon.Precommit: "Precommit", ucon.NextIndex: "Next", ucon.Certificate: "Cert"}
var kindOrder = []string{"Prevote", "Precommit", "Next", "Cert"}

type world struct {
	db     *crashDB
	key    *fixture.Key
	mux    *event.TypeMux
	sub    *event.TypeMuxSubscription
	pm     *pm
	v      *ucon.Voter
	best   string
	blocks map[string]*types.Block
	names  map[common.Hash]string
	r      int64
	i      uint32
	cert   bool
}

func newWorld() *world {
	w := &world{db: newCrashDB(), key: fixture.Keys("voter", 1)[1], mux: new(event.TypeMux), blocks: map[string]*types.Block{}, names: map[common.Hash]string{{}: "E"}}
	st, _ := fixture.NewMemState()
	w.pm = &pm{st: st}
	for _, n := range []string{"A", "B", "C"} {
		b := types.NewBlockWithHeader(&types.Header{Number: big.NewInt(1), Extra: []byte("verif-block-" + n), GasRewards: big.NewInt(0), Subsidy: big.NewInt(0)})
		w.blocks[n] = b
		w.names[b.Hash()] = n
	}
	w.sub = w.mux.Subscribe(ucon.SendMessageEvent{}, ucon.CommitEvent{}, ucon.RoundIndexChangeEvent{}, ucon.UpdateExistedHeaderEvent{})
	return w
}

func (w *world) hash(n string) common.Hash {
	if b, ok := w.blocks[n]; ok {
		return b.Hash()
	}
	return common.Hash{}
}

func (w *world) name(h common.Hash) string {
	if n, ok := w.names[h]; ok {
		return n
	}
	return "?" + h.String()[2:8]
}

func prio(n string) common.Hash { return common.BytesToHash([]byte("prio-" + n)) }

func (w *world) newVoter() *ucon.Voter {
	v := ucon.NewVoter(w.db, w.key.Priv, w.key.BlsSk, w.mux,
		func(pubKey *ecdsa.PublicKey, data *ucon.SortitionData, lb params.LookBackType) error { return nil },
		func(round *big.Int, ri uint32, step uint32, lb params.LookBackType) (bool, *ucon.StepView) {
			return true, &ucon.StepView{SortitionProof: []byte{1}, SubUsers: 1, ValidatorType: params.KindChamber, Threshold: threshold}
		},
		func(round *big.Int, ri uint32) (common.Hash, common.Hash, bool) {
			if _, ok := w.blocks[w.best]; !ok {
				return common.Hash{}, common.Hash{}, false
			}
			return prio(w.best), w.hash(w.best), true
		},
		func(h, pr common.Hash) *types.Block {
			if n, ok := w.names[h]; ok {
				return w.blocks[n]
			}
			return nil
		},
		func(round *big.Int, addr common.Address, isP bool, lb params.LookBackType) (*big.Int, *big.Int, uint64, params.ValidatorKind, uint8, error) {
			return big.NewInt(1), big.NewInt(threshold), threshold, params.KindChamber, params.ValidatorOnline, nil
		},
		func(round *big.Int, kind params.ValidatorKind, lb params.LookBackType) uint64 { return 4 }, w.pm)
	v.SetLookBackMgr(w.pm)
	return v
}

// drain collects every event posted (AsyncPost = one goroutine per event) since `base` goroutines were alive.
// A posting goroutine ends only after this goroutine -- the only subscriber -- has received its event, so
// when the goroutine count is back at the baseline nothing is in flight.  No sleeping, no timeouts that decide.
func (w *world) drain(base int) (sent, commits, rics []map[string]interface{}, err error) {
	deadline := time.Now().Add(20 * time.Second)
	for {
		select {
		case ev := <-w.sub.Chan():
			switch d := ev.Data.(type) {
			case ucon.SendMessageEvent:
				var m ucon.BlockHashWithVotes
				if e := rlp.DecodeBytes(d.Payload, &m); e != nil {
					return nil, nil, nil, fmt.Errorf("cannot decode sent payload: %v", e)
				}
				k := "code" + fmt.Sprint(d.Code)
				for n, vt := range kinds {
					if ucon.VoteTypeToMsgCode(vt) == d.Code {
						k = n
					}
				}
				sent = append(sent, map[string]interface{}{"k": k, "r": m.Round.Int64(), "i": m.RoundIndex, "b": w.name(m.BlockHash)})
			case ucon.CommitEvent:
				commits = append(commits, map[string]interface{}{"r": d.Round.Int64(), "i": d.RoundIndex, "b": w.name(d.Block.Hash()), "np": len(d.ChamberPrecommits), "nc": len(d.ChamberCerts)})
			case ucon.RoundIndexChangeEvent:
				rics = append(rics, map[string]interface{}{"r": d.Round.Int64(), "i": d.RoundIndex, "b": w.name(d.BlockHash)})
			}
		default:
			if runtime.NumGoroutine() <= base {
				key := func(m map[string]interface{}) string { return fmt.Sprint(m["k"], m["r"], m["i"], m["b"]) }
				sort.SliceStable(sent, func(a, b int) bool { return key(sent[a]) < key(sent[b]) })
				return
			}
			if time.Now().After(deadline) {
				return nil, nil, nil, fmt.Errorf("event posts did not quiesce (goroutines %d > %d)", runtime.NumGoroutine(), base)
			}
			runtime.Gosched()
		}
	}
}

func (w *world) quorumMsg(k, b string) (*ucon.BlockHashWithVotes, common.Address) {
	// one sender per (kind, block): it never equivocates
	idx := 1
	for n, kn := range kindOrder {
		if kn == k {
			idx = 10*(n+1) + int(b[0]-'A'+1)
		}
	}
	if b == "E" {
		idx = 99
	}
	sender := fixture.Keys("voter-peer", 100)[idx]
	h := w.hash(b)
	round := big.NewInt(w.r)
	buf := make([]byte, 4)
	binary.BigEndian.PutUint32(buf, w.i)
	payload := append(h.Bytes(), append(round.Bytes(), buf...)...)
	sig, err := ucon.Sign(sender.Priv, payload)
	if err != nil {
		panic(err)
	}
	return &ucon.BlockHashWithVotes{Priority: prio(b), BlockHash: h, Round: round, RoundIndex: w.i,
		Vote:      &ucon.SingleVote{VoterIdx: 0, Votes: quorumWeight, Signature: sig, Proof: []byte{1}},
		Timestamp: uint64(time.Now().Unix())}, sender.Addr
}

func (w *world) disk() map[string][2]int64 {
	m := map[string][2]int64{}
	for _, name := range kindOrder {
		for idx := uint8(1); idx <= 2; idx++ {
			if idx == 2 && name != "Next" {
				continue
			}
			key := fmt.Sprintf("%s%d", name, idx)
			if it := ucon.ReadVoteData(w.db, w.key.Addr, kinds[name], idx); it != nil {
				m[key] = [2]int64{it.Round.Int64(), int64(it.RoundIndex)}
			} else {
				m[key] = [2]int64{0, 0}
			}
		}
	}
	return m
}

func (w *world) mem() map[string]interface{} {
	st := w.v.VerifState()
	nm := func(h *common.Hash) string {
		if h == nil {
			return "nil"
		}
		return w.name(*h)
	}
	mark := make([]int, 4)
	for n, kn := range kindOrder {
		mark[n] = int(st.Mark[kinds[kn]])
	}
	return map[string]interface{}{"r": st.Round, "i": st.RoundIndex, "step": st.Step, "cert": st.ShouldCert,
		"pc": st.Precommitted, "cd": st.Certificated, "cm": st.Committed, "sc": st.SentChange,
		"cur": nm(st.CurMarked), "nm": nm(st.NextMarked), "nv": nm(st.NextVoted),
		"dbR": st.DbRound, "dbI": st.DbIndex, "mark": mark}
}

// step performs one abstract action; it returns the trace event.
func (w *world) step(op Op) (map[string]interface{}, error) {
	ev := map[string]interface{}{"ev": op.Op}
	cw, cp := -1, -1
	if op.Cw != nil {
		cw = *op.Cw
	}
	if op.Cp != nil {
		cp = *op.Cp
	}
	var call func()
	switch op.Op {
	case "Start", "Restart":
		if w.v != nil && op.Op == "Restart" {
			return nil, fmt.Errorf("Restart of a running voter")
		}
		ev["r"], ev["c"] = op.R, op.C
		call = func() {
			w.v = w.newVoter()
			w.r, w.i, w.cert = op.R, 1, op.C
			w.v.VerifUpdateContext(ucon.ContextChangeEvent{Round: big.NewInt(op.R), RoundIndex: 1, Step: ucon.UConStepStart, Certificate: op.C})
		}
	case "Ctx":
		ev["r"], ev["i"], ev["st"], ev["best"], ev["c"] = op.R, op.I, op.St, op.Best, op.C
		call = func() {
			w.best = op.Best
			w.r, w.i, w.cert = op.R, op.I, op.C
			w.v.VerifUpdateContext(ucon.ContextChangeEvent{Round: big.NewInt(op.R), RoundIndex: op.I, Step: op.St, Certificate: op.C})
		}
	case "Quorum":
		ev["k"], ev["b"] = op.K, op.B
		msg, sender := w.quorumMsg(op.K, op.B)
		call = func() {
			err, invalid := w.v.VerifProcessVote(msg, kinds[op.K], sender, ucon.VerifMsgSame)
			if err != nil || invalid {
				ev["err"] = fmt.Sprint(err)
			}
		}
	case "Crash":
		w.v = nil
		ev["disk"] = w.disk()
		return ev, nil
	default:
		return nil, fmt.Errorf("unknown op %q", op.Op)
	}
	if w.v == nil && op.Op != "Start" && op.Op != "Restart" {
		return nil, fmt.Errorf("%s on a dead voter", op.Op)
	}
	if cw >= 0 {
		if cp < cw {
			w.db.arm(cw, 0)
		} else {
			w.db.arm(0, cw+1)
		}
	} else {
		w.db.arm(0, 0)
	}
	base := runtime.NumGoroutine()
	crashed := false
	func() {
		defer func() {
			if r := recover(); r != nil {
				if _, ok := r.(crashSentinel); ok {
					crashed = true
				} else {
					ev["panic"] = fmt.Sprint(r)
				}
			}
		}()
		call()
	}()
	sent, commits, rics, err := w.drain(base)
	if err != nil {
		return nil, err
	}
	ev["w"] = w.db.writes
	if crashed {
		// a write that was refused by panicBefore was not performed
		if w.db.panicBefore > 0 {
			ev["w"] = w.db.writes - 1
		}
		ev["crashed"] = true
		w.v = nil
	}
	w.db.arm(0, 0)
	if sent == nil {
		sent = []map[string]interface{}{}
	}
	ev["sent"] = sent
	if len(commits) > 0 {
		ev["commits"] = commits
	}
	if len(rics) > 0 {
		ev["ric"] = rics
	}
	ev["cw"], ev["cp"] = cw, cp
	ev["disk"] = w.disk()
	if w.v != nil {
		ev["mem"] = w.mem()
	}
	return ev, nil
}

func run(env *drive.Env) error {
	logging.Root().SetHandler(logging.DiscardHandler())
	params.InitNetworkId(params.NetworkIdForTestCase)
	var beh []Op
	for env.Next(&beh) {
		w := newWorld()
		for _, op := range beh {
			ev, err := w.step(op)
			if err != nil {
				return fmt.Errorf("behaviour %d: %v", env.T, err)
			}
			env.Emit(ev)
		}
		w.sub.Unsubscribe()
		beh = nil
	}
	return nil
}
