// Package txapply drives behaviours of spec/TxApply.tla through the real core.StateProcessor.ApplyTransaction (C17).
//
// A behaviour is a list of transaction CLASS records; the driver concretises each class against the real state
// (the same table as Conc in TxApply.tla), signs a real transaction with the fixture key, applies it the way
// StateProcessor.Process does ("process") or the way miner.worker.commitTransaction does ("miner": Snapshot before,
// RevertToSnapshot on error) and records balances and nonces of all fixture accounts, the gas pool, the header
// counters, the receipt and the error.  "sig" behaviours exercise types.Sender on single-field mutations of a signed
// transaction.
package txapply

import (
	"bytes"
	"encoding/json"
	"fmt"
	"math/big"

	"github.com/youchainhq/go-youchain/common"
	"github.com/youchainhq/go-youchain/core"
	"github.com/youchainhq/go-youchain/core/state"
	"github.com/youchainhq/go-youchain/core/types"
	"github.com/youchainhq/go-youchain/core/vm"
	"github.com/youchainhq/go-youchain/local"
	"github.com/youchainhq/go-youchain/params"
	"github.com/youchainhq/go-youchain/rlp"
	"github.com/youchainhq/go-youchain/staking"
	"verif/harness/drive"
	"verif/harness/drive/txapply/chainfx"
	"verif/harness/fixture"
)

func init() { drive.Register("txapply", run) }

// TxCls is the class record of TxApply.tla.
type TxCls struct {
	S     int       `json:"s"`
	Nc    string    `json:"nc"`
	Lim   string    `json:"lim"`
	Val   string    `json:"val"`
	Tp    [2]string `json:"tp"`
	Price int64     `json:"price"`
}

// Beh is one behaviour.
type Beh struct {
	Kind string   `json:"kind"` // "apply" | "sig" | "sigseq"
	Mode string   `json:"mode"`
	Pool uint64   `json:"pool"`
	Txs  []TxCls  `json:"txs"`
	Tx   *TxCls   `json:"tx"`
	Muts []string `json:"muts"`
	Ver  int      `json:"ver"` // "apply": protocol version of the chain (default 5)
	Net  uint64   `json:"net"` // "vsweep": network id of the signer
	Vs   []int64  `json:"vs"`  // "vsweep": the V values to present
	Cls  *BigCls  `json:"cls"` // "applybig": the magnitude classes
	Mut  string   `json:"mut"` // "sigseq": the mutation that made the object
	Seq  []string `json:"seq"` // "sigseq": the signers asked, in order
}

const (
	richBal  = 5000000
	poorBal  = 60000
	nonce0   = 5
	ample    = 100000
	someVal  = 7
	dlgValue = 10
	depValue = 20
)

var (
	codeStore  = common.FromHex("36600a576001600155005b600060005500") // no calldata: slot1 := 1 ; calldata: slot0 := 0
	codeRevert = common.FromHex("60006000fd")
	codeBurn   = common.FromHex("fe")
	initOK     = common.FromHex("60016000f3") // deploys the one-byte code 0x00
	initFail   = common.FromHex("fe")
	addrRcpt   = common.HexToAddress("0x00000000000000000000000000000000000a0001")
	addrStore  = common.HexToAddress("0x00000000000000000000000000000000000c0001")
	addrRevert = common.HexToAddress("0x00000000000000000000000000000000000c0002")
	addrBurn   = common.HexToAddress("0x00000000000000000000000000000000000c0003")
)

type world struct {
	*chainfx.World
	ver   int            // protocol version of the chain
	accts []*fixture.Key // 1-based senders
	track []common.Address
}

func newWorld(ver int) (*world, error) {
	accts := fixture.Keys("acct", 2)
	alloc := core.GenesisAlloc{
		accts[1].Addr: {Balance: big.NewInt(richBal), Nonce: nonce0},
		accts[2].Addr: {Balance: big.NewInt(poorBal), Nonce: nonce0},
		addrRcpt:      {Balance: big.NewInt(1000)},
		addrStore:     {Balance: big.NewInt(0), Code: codeStore, Storage: map[common.Hash]common.Hash{{}: common.BigToHash(big.NewInt(1))}},
		addrRevert:    {Balance: big.NewInt(0), Code: codeRevert},
		addrBurn:      {Balance: big.NewInt(0), Code: codeBurn},
	}
	cw, err := chainfx.NewWorld(chainfx.Opts{Alloc: alloc, Operators: map[int]common.Address{1: accts[1].Addr}, Version: params.YouVersion(ver)})
	if err != nil {
		return nil, err
	}
	w := &world{World: cw, accts: accts, ver: ver}
	// base chain, built with real transactions: validator v2 starts accepting delegations (takes effect at the end of the
	// first staking period)
	upd := &staking.TxUpdateValidator{MainAddress: w.Vals[2].Addr, AcceptDelegation: params.AcceptDelegation, CommissionRate: 0xffff, RiskObligation: 0xffff}
	tx, err := w.StakingTx(w.Vals[2], 0, staking.ValidatorUpdate, upd, 300000)
	if err != nil {
		return nil, err
	}
	for n := 1; n <= chainfx.Period; n++ {
		var txs []*types.Transaction
		if n == 1 {
			txs = append(txs, tx)
		}
		if _, err := w.Block(w.Vals[4].Addr, txs...); err != nil {
			return nil, err
		}
	}
	st, err := w.A.BC.State()
	if err != nil {
		return nil, err
	}
	if v := st.GetValidatorByMainAddr(w.Vals[2].Addr); v == nil || v.AcceptDelegation != params.AcceptDelegation {
		return nil, fmt.Errorf("fixture: validator v2 does not accept delegations after the first period (version %d)", ver)
	}
	if hv := w.A.BC.CurrentBlock().Header().CurrVersion; int(hv) != ver {
		return nil, fmt.Errorf("fixture: chain is at protocol version %d, want %d", hv, ver)
	}
	w.track = []common.Address{accts[1].Addr, accts[2].Addr, addrRcpt, addrStore, addrRevert, addrBurn, params.StakingModuleAddress, w.Vals[4].Addr}
	return w, nil
}

type snap struct {
	Bal   []int64  `json:"bal"`
	Nonce []uint64 `json:"nonce"`
}

func (w *world) snap(st *state.StateDB) snap {
	var s snap
	for _, a := range w.track {
		s.Bal = append(s.Bal, fixture.I(st.GetBalance(a)))
		s.Nonce = append(s.Nonce, st.GetNonce(a))
	}
	return s
}

// concrete is what a class record becomes against the real state.
type concrete struct {
	S     int    `json:"s"`
	Nonce uint64 `json:"nonce"`
	Price int64  `json:"price"`
	Limit uint64 `json:"limit"`
	Value int64  `json:"value"`
	To    string `json:"to"`
	Pay   string `json:"pay"`
	NZ    int    `json:"nz"`
	Z     int    `json:"z"`
	Mv    int64  `json:"mv"` // the value the transaction names: msg.Value (EVM) or the payload's value (staking)
	to    *common.Address
	data  []byte
}

func (w *world) payload(c *TxCls) (to *common.Address, data []byte, mv int64, err error) {
	addr := func(a common.Address) *common.Address { return &a }
	switch c.Tp[0] + "/" + c.Tp[1] {
	case "acct/none":
		return addr(addrRcpt), nil, -1, nil
	case "acct/data":
		return addr(addrRcpt), []byte{1, 0, 2, 0}, -1, nil
	case "contract/set":
		return addr(addrStore), nil, -1, nil
	case "contract/clear":
		return addr(addrStore), []byte{1}, -1, nil
	case "contract/revert":
		return addr(addrRevert), nil, -1, nil
	case "contract/burn":
		return addr(addrBurn), nil, -1, nil
	case "create/ok":
		return nil, initOK, -1, nil
	case "create/fail":
		return nil, initFail, -1, nil
	case "staking/delegate":
		data, err = staking.EncodeMessage(staking.DelegationAdd, &staking.TxDelegation{Validator: w.Vals[2].Addr, Value: big.NewInt(dlgValue)})
		return addr(params.StakingModuleAddress), data, dlgValue, err
	case "staking/deposit":
		data, err = staking.EncodeMessage(staking.ValidatorDeposit, &staking.TxValidatorDeposit{MainAddress: w.Vals[1].Addr, Value: big.NewInt(depValue)})
		return addr(params.StakingModuleAddress), data, depValue, err
	case "staking/unauth":
		// a deposit for validator v3, which neither sender operates: the handler refuses it, the transaction is included as failed
		data, err = staking.EncodeMessage(staking.ValidatorDeposit, &staking.TxValidatorDeposit{MainAddress: w.Vals[3].Addr, Value: big.NewInt(depValue)})
		return addr(params.StakingModuleAddress), data, depValue, err
	case "staking/garbage":
		return addr(params.StakingModuleAddress), []byte{0xde, 0xad, 0xbe, 0xef}, 0, nil
	}
	return nil, nil, 0, fmt.Errorf("unknown to/pay class %v", c.Tp)
}

func baseGas(to string) uint64 {
	switch to {
	case "create":
		return 53000
	case "staking":
		return 100000
	}
	return 21000
}

// conc is the Go twin of Conc in TxApply.tla, evaluated on the real state.
func (w *world) conc(c *TxCls, st *state.StateDB, pool uint64) (*concrete, error) {
	to, data, mv, err := w.payload(c)
	if err != nil {
		return nil, err
	}
	k := w.accts[c.S]
	t := &concrete{S: c.S, Price: c.Price, To: c.Tp[0], Pay: c.Tp[1], to: to, data: data}
	for _, b := range data {
		if b != 0 {
			t.NZ++
		} else {
			t.Z++
		}
	}
	intr := baseGas(t.To) + 16*uint64(t.NZ) + 4*uint64(t.Z)
	bal := fixture.I(st.GetBalance(k.Addr))
	switch c.Lim {
	case "below":
		t.Limit = intr - 1
	case "exact":
		t.Limit = intr
	case "ample":
		t.Limit = intr + ample
	case "huge":
		t.Limit = pool + 1
	case "allfunds":
		t.Limit = uint64(bal / c.Price)
	case "over1funds":
		t.Limit = uint64(bal/c.Price) + 1
	default:
		return nil, fmt.Errorf("unknown limit class %q", c.Lim)
	}
	afford := bal - int64(t.Limit)*c.Price
	switch c.Val {
	case "zero":
		t.Value = 0
	case "some":
		t.Value = someVal
	case "edge":
		if afford > 0 {
			t.Value = afford
		}
	case "over1":
		if afford >= 0 {
			t.Value = afford + 1
		} else {
			t.Value = 1
		}
	default:
		return nil, fmt.Errorf("unknown value class %q", c.Val)
	}
	n := st.GetNonce(k.Addr)
	switch c.Nc {
	case "low", "replay":
		t.Nonce = n - 1
	case "eq":
		t.Nonce = n
	case "high":
		t.Nonce = n + 1
	default:
		return nil, fmt.Errorf("unknown nonce class %q", c.Nc)
	}
	if mv < 0 {
		mv = t.Value
	}
	t.Mv = mv
	return t, nil
}

func (w *world) sign(t *concrete) (*types.Transaction, error) { return w.signWith(t, w.Signer) }

func (w *world) signWith(t *concrete, signer types.Signer) (*types.Transaction, error) {
	var tx *types.Transaction
	if t.to == nil {
		tx = types.NewContractCreation(t.Nonce, big.NewInt(t.Value), t.Limit, big.NewInt(t.Price), t.data)
	} else {
		tx = types.NewTransaction(t.Nonce, *t.to, big.NewInt(t.Value), t.Limit, big.NewInt(t.Price), t.data)
	}
	return types.SignTx(tx, signer, w.accts[t.S].Priv)
}

func errClass(err error) string {
	switch {
	case err == nil:
		return ""
	case err == core.ErrNonceTooLow:
		return "nonce_low"
	case err == core.ErrNonceTooHigh:
		return "nonce_high"
	case err == core.ErrGasLimitReached:
		return "gas_pool"
	case err == vm.ErrOutOfGas:
		return "intrinsic"
	case err == vm.ErrInsufficientBalance:
		return "transfer"
	case err.Error() == "insufficient balance to pay for gas":
		return "gas_funds"
	}
	return "other"
}

func (w *world) apply(env *drive.Env, b *Beh) error {
	p, err := w.Begin(w.A, w.Vals[4].Addr)
	if err != nil {
		return err
	}
	p.Hdr.GasLimit = b.Pool
	p.GP = new(core.GasPool).AddGas(b.Pool)
	usedGas, gasRewards := new(uint64), new(big.Int) // process mode: the locals of StateProcessor.Process
	blockHash := common.Hash{0xb1}
	vtag := fmt.Sprint("v", w.ver)
	env.Emit(map[string]interface{}{"ev": "Init", "mode": b.Mode, "pool": b.Pool, "st": w.snap(p.State), "ver": w.ver})
	lastApplied := map[int]*types.Transaction{}
	for i := range b.Txs {
		c := &b.Txs[i]
		t, err := w.conc(c, p.State, p.GP.Gas())
		if err != nil {
			return err
		}
		tx, err := w.sign(t)
		if err != nil {
			return err
		}
		if c.Nc == "replay" && lastApplied[c.S] != nil {
			// the very same signed transaction once more
			tx = lastApplied[c.S]
			t.Nonce, t.Price, t.Limit, t.Value = tx.Nonce(), tx.GasPrice().Int64(), tx.Gas(), tx.Value().Int64()
			t.To, t.Pay, t.NZ, t.Z, t.Mv = "acct", "replayed", 0, 0, t.Value
			for _, x := range tx.Data() {
				if x != 0 {
					t.NZ++
				} else {
					t.Z++
				}
			}
			if tx.To() == nil {
				t.To = "create"
			} else if *tx.To() == params.StakingModuleAddress {
				t.To = "staking"
			}
		}
		ev := map[string]interface{}{"ev": "Apply", "i": i, "mode": b.Mode, "cls": c, "tx": t, "ver": w.ver, "vtag": vtag}
		pre := w.snap(p.State)
		poolPre := p.GP.Gas()
		var guPre, guPost uint64
		var grPre, grPost int64
		var rc *types.Receipt
		var aerr error
		func() {
			defer func() {
				if r := recover(); r != nil {
					ev["panic"] = fmt.Sprint(r)
				}
			}()
			if b.Mode == "miner" {
				guPre, grPre = p.Hdr.GasUsed, fixture.I(p.Hdr.GasRewards)
				p.State.Prepare(tx.Hash(), common.Hash{}, len(p.Txs))
				snapID := p.State.Snapshot()
				rc, _, aerr = w.A.BC.Processor().ApplyTransaction(tx, w.Signer, p.State, w.A.BC, p.Hdr, &p.Hdr.Coinbase, &p.Hdr.GasUsed, p.Hdr.GasRewards, p.GP, p.Cfg, local.FakeRecorder())
				if aerr != nil {
					p.State.RevertToSnapshot(snapID)
				} else {
					p.Txs = append(p.Txs, tx)
				}
				guPost, grPost = p.Hdr.GasUsed, fixture.I(p.Hdr.GasRewards)
			} else {
				guPre, grPre = *usedGas, fixture.I(gasRewards)
				p.State.Prepare(tx.Hash(), blockHash, i)
				rc, _, aerr = w.A.BC.Processor().ApplyTransaction(tx, w.Signer, p.State, w.A.BC, p.Hdr, nil, usedGas, gasRewards, p.GP, p.Cfg, local.FakeRecorder())
				guPost, grPost = *usedGas, fixture.I(gasRewards)
			}
		}()
		ev["pre"], ev["post"] = pre, w.snap(p.State)
		ev["pool"] = []uint64{poolPre, p.GP.Gas()}
		ev["hdr"] = []int64{int64(guPre), int64(guPost), grPre, grPost}
		ev["err"] = errClass(aerr)
		if aerr != nil {
			ev["errmsg"] = aerr.Error()
		}
		if rc != nil {
			ev["rc"] = map[string]interface{}{"status": rc.Status, "gas": rc.GasUsed, "cum": rc.CumulativeGasUsed}
			lastApplied[c.S] = tx
		} else {
			ev["rc"] = map[string]interface{}{"status": -1, "gas": 0, "cum": 0}
		}
		// the sender the code derives from the signature is the holder of the signing key
		if from, serr := types.Sender(w.Signer, tx); serr != nil || from != w.accts[t.S].Addr {
			ev["senderMismatch"] = true
		}
		env.Emit(ev)
		if ev["panic"] != nil || (aerr != nil && b.Mode != "miner") {
			break // Process returns the error: the block is invalid
		}
	}
	return nil
}

// ---------------------------------------------------------------------------------------------------- big-number stage

// BigCls is the magnitude-class record of the big-number stage of TxApply.tla.
type BigCls struct {
	Price  string `json:"price"`
	Lim    string `json:"lim"`
	Afford string `json:"afford"`
	Val    string `json:"val"`
}

const bigPool = 8000000

func pow2(n uint) *big.Int { return new(big.Int).Lsh(big.NewInt(1), n) }

var bigPrices = map[string]*big.Int{"p3": big.NewInt(3), "p2e32": pow2(32), "p1e15": big.NewInt(1000000000000000), "p2e53": pow2(53), "p2e63": pow2(63),
	"p2e64m1": new(big.Int).Sub(pow2(64), big.NewInt(1)), "p2e64": pow2(64), "p2e70": pow2(70)}
var bigLimits = map[string]uint64{"g21000": 21000, "g2e20": 1 << 20, "gblock": bigPool}
var bigValues = map[string]*big.Int{"zero": new(big.Int), "v2e64": pow2(64), "v2e128": pow2(128), "v2e255": pow2(255)}

// applyBig applies one plain transfer whose price, value and sender balance are large.  The sender is a fresh account whose
// balance is put into the block's state the way a genesis allocation is (AddBalance on the empty account); everything that
// does not fit 31 bits is recorded as a decimal string.
func (w *world) applyBig(env *drive.Env, b *Beh) error {
	c := b.Cls
	price, okp := bigPrices[c.Price]
	limit, okl := bigLimits[c.Lim]
	value, okv := bigValues[c.Val]
	if !okp || !okl || !okv {
		return fmt.Errorf("unknown big class %+v", c)
	}
	cost := new(big.Int).Mul(new(big.Int).SetUint64(limit), price)
	bal := new(big.Int)
	switch c.Afford {
	case "below_gas":
		bal.Sub(cost, big.NewInt(1))
	case "exact_gas":
		bal.Set(cost)
	case "below_total":
		bal.Add(cost, value).Sub(bal, big.NewInt(1))
	case "exact_total":
		bal.Add(cost, value)
	case "above":
		bal.Add(cost, value).Add(bal, big.NewInt(12345))
	default:
		return fmt.Errorf("unknown afford class %q", c.Afford)
	}
	p, err := w.Begin(w.A, w.Vals[4].Addr)
	if err != nil {
		return err
	}
	p.Hdr.GasLimit = bigPool
	p.GP = new(core.GasPool).AddGas(bigPool)
	key := fixture.Keys("bigacct", 1)[1]
	p.State.AddBalance(key.Addr, bal)
	p.State.Finalise(true)
	track := []common.Address{key.Addr, addrRcpt}
	snapS := func() map[string]interface{} {
		bs, ns := []string{}, []uint64{}
		for _, a := range track {
			bs = append(bs, p.State.GetBalance(a).String())
			ns = append(ns, p.State.GetNonce(a))
		}
		return map[string]interface{}{"bal": bs, "nonce": ns}
	}
	tx, err := types.SignTx(types.NewTransaction(p.State.GetNonce(key.Addr), addrRcpt, value, limit, price, nil), w.Signer, key.Priv)
	if err != nil {
		return err
	}
	ev := map[string]interface{}{"ev": "ApplyBig", "mode": b.Mode, "cls": c, "ver": w.ver, "vtag": fmt.Sprint("v", w.ver),
		"tx": map[string]interface{}{"s": 1, "nonce": tx.Nonce(), "limit": limit, "priceS": price.String(), "valueS": value.String(), "balS": bal.String(),
			"to": "acct", "pay": "big", "nz": 0, "z": 0}}
	ev["pre"] = snapS()
	poolPre := p.GP.Gas()
	usedGas, gasRewards := new(uint64), new(big.Int)
	var rc *types.Receipt
	var aerr error
	func() {
		defer func() {
			if r := recover(); r != nil {
				ev["panic"] = fmt.Sprint(r)
			}
		}()
		if b.Mode == "miner" {
			p.State.Prepare(tx.Hash(), common.Hash{}, 0)
			snapID := p.State.Snapshot()
			rc, _, aerr = w.A.BC.Processor().ApplyTransaction(tx, w.Signer, p.State, w.A.BC, p.Hdr, &p.Hdr.Coinbase, usedGas, gasRewards, p.GP, p.Cfg, local.FakeRecorder())
			if aerr != nil {
				p.State.RevertToSnapshot(snapID)
			}
		} else {
			p.State.Prepare(tx.Hash(), common.Hash{0xb1}, 0)
			rc, _, aerr = w.A.BC.Processor().ApplyTransaction(tx, w.Signer, p.State, w.A.BC, p.Hdr, nil, usedGas, gasRewards, p.GP, p.Cfg, local.FakeRecorder())
		}
	}()
	ev["post"] = snapS()
	ev["pool"] = []uint64{poolPre, p.GP.Gas()}
	ev["hdr"] = []interface{}{0, *usedGas, "0", gasRewards.String()}
	ev["err"] = errClass(aerr)
	if aerr != nil {
		ev["errmsg"] = aerr.Error()
	}
	if rc != nil {
		ev["rc"] = map[string]interface{}{"status": rc.Status, "gas": rc.GasUsed, "cum": rc.CumulativeGasUsed}
	} else {
		ev["rc"] = map[string]interface{}{"status": -1, "gas": 0, "cum": 0}
	}
	env.Emit(ev)
	return nil
}

// ---------------------------------------------------------------------------------------------------- signatures

type rawTx struct {
	Nonce uint64
	Price *big.Int
	Limit uint64
	To    *common.Address `rlp:"nil"`
	Value *big.Int
	Data  []byte
	V     *big.Int
	R     *big.Int
	S     *big.Int
}

var secpN, _ = new(big.Int).SetString("fffffffffffffffffffffffffffffffebaaedce6af48a03bbfd25e8cd0364141", 16)

// AllMutations lists the single-field mutations of a signed transaction.
var AllMutations = []string{"none", "nonce", "price", "limit", "to", "value", "data", "data_trunc", "netid_v", "netid_signer", "netid_replay", "highs", "highs_flipv",
	"flipv", "unprotected", "r"}

// mutate returns the RLP form of tx with mutation m applied (foreign: the mutation is "ask the signer of another network").
func (w *world) mutate(tx *types.Transaction, t *concrete, m string) (raw rawTx, foreign bool, err error) {
	v, r, s := tx.RawSignatureValues()
	raw = rawTx{Nonce: tx.Nonce(), Price: tx.GasPrice(), Limit: tx.Gas(), To: tx.To(), Value: tx.Value(), Data: tx.Data(),
		V: new(big.Int).Set(v), R: new(big.Int).Set(r), S: new(big.Int).Set(s)}
	flip := func() {
		// V = 35 + 2*net + parity: flip the parity
		par := new(big.Int).Sub(raw.V, big.NewInt(35))
		if par.Bit(0) == 0 {
			raw.V.Add(raw.V, big.NewInt(1))
		} else {
			raw.V.Sub(raw.V, big.NewInt(1))
		}
	}
	switch m {
	case "none":
	case "nonce":
		raw.Nonce++
	case "price":
		raw.Price = new(big.Int).Add(raw.Price, big.NewInt(1))
	case "limit":
		raw.Limit++
	case "to":
		if raw.To == nil {
			a := addrRcpt
			raw.To = &a
		} else if t.Value%2 == 0 {
			raw.To = nil
		} else {
			a := *raw.To
			a[19] ^= 1
			raw.To = &a
		}
	case "value":
		raw.Value = new(big.Int).Add(raw.Value, big.NewInt(1))
	case "data":
		if len(raw.Data) == 0 {
			raw.Data = []byte{0}
		} else {
			raw.Data = append([]byte{}, raw.Data...)
			raw.Data[len(raw.Data)-1] ^= 0x80
		}
	case "data_trunc":
		if len(raw.Data) == 0 {
			raw.Data = []byte{0, 0}
		} else {
			raw.Data = raw.Data[:len(raw.Data)-1]
		}
	case "netid_v":
		// the same signature presented as a transaction of another network (otherNet = this network + 1)
		raw.V.Add(raw.V, big.NewInt(2))
	case "netid_signer":
		foreign = true
	case "netid_replay":
		// the same fields signed by the same key for ANOTHER network, presented here with V rewritten to this network
		os := types.NewYouSigner(otherNet)
		var unsigned *types.Transaction
		if tx.To() == nil {
			unsigned = types.NewContractCreation(tx.Nonce(), tx.Value(), tx.Gas(), tx.GasPrice(), tx.Data())
		} else {
			unsigned = types.NewTransaction(tx.Nonce(), *tx.To(), tx.Value(), tx.Gas(), tx.GasPrice(), tx.Data())
		}
		otx, err := types.SignTx(unsigned, os, w.accts[t.S].Priv)
		if err != nil {
			return raw, false, err
		}
		ov, or, oss := otx.RawSignatureValues()
		raw.R, raw.S = new(big.Int).Set(or), new(big.Int).Set(oss)
		raw.V = new(big.Int).Sub(ov, big.NewInt(2))
	case "highs":
		raw.S = new(big.Int).Sub(secpN, raw.S)
	case "highs_flipv":
		raw.S = new(big.Int).Sub(secpN, raw.S)
		flip()
	case "flipv":
		flip()
	case "unprotected":
		par := new(big.Int).Sub(raw.V, big.NewInt(35))
		raw.V = big.NewInt(27 + int64(par.Bit(0)))
	case "r":
		raw.R = new(big.Int).Add(raw.R, big.NewInt(1))
	default:
		return raw, false, fmt.Errorf("unknown mutation %q", m)
	}
	return raw, foreign, nil
}

const otherNet = uint64(params.NetworkIdForTestCase + 1)

// decode turns the mutated transaction into a fresh object the way a peer's message does: through RLP.
func decode(raw *rawTx) (*types.Transaction, string) {
	enc, err := rlp.EncodeToBytes(raw)
	if err != nil {
		return nil, "unencodable"
	}
	mt := new(types.Transaction)
	if err := rlp.DecodeBytes(enc, mt); err != nil {
		return nil, "decode: " + err.Error()
	}
	return mt, ""
}

// resolve asks signer for the sender of the object mt, through types.Sender and through AsMessage (what ApplyTransaction uses).
func resolve(signer types.Signer, mt *types.Transaction, holder common.Address) (res, errmsg string) {
	from, err := types.Sender(signer, mt)
	switch {
	case err != nil:
		res, errmsg = "err", err.Error()
	case from == holder:
		res = "same"
	default:
		res = "other"
	}
	if msg, err2 := mt.AsMessage(signer); (err2 == nil) != (err == nil) || (err == nil && msg.From() != from) {
		res = "inconsistent"
	}
	return res, errmsg
}

func (w *world) signedCase(c *TxCls) (*types.Transaction, *concrete, error) {
	p, err := w.Begin(w.A, w.Vals[4].Addr)
	if err != nil {
		return nil, nil, err
	}
	t, err := w.conc(c, p.State, 300000)
	if err != nil {
		return nil, nil, err
	}
	tx, err := w.sign(t)
	return tx, t, err
}

func (w *world) sig(env *drive.Env, b *Beh) error {
	tx, t, err := w.signedCase(b.Tx)
	if err != nil {
		return err
	}
	holder := w.accts[t.S].Addr
	muts := b.Muts
	if len(muts) == 0 {
		muts = AllMutations
	}
	for _, m := range muts {
		raw, foreign, err := w.mutate(tx, t, m)
		if err != nil {
			return err
		}
		signer := w.Signer
		if foreign {
			signer = types.NewYouSigner(otherNet)
		}
		ev := map[string]interface{}{"ev": "Sender", "mut": m, "to": t.To, "pay": t.Pay}
		func() {
			defer func() {
				if r := recover(); r != nil {
					ev["panic"] = fmt.Sprint(r)
					ev["res"] = "panic"
				}
			}()
			mt, derr := decode(&raw)
			if mt == nil {
				ev["res"] = "err"
				if derr == "unencodable" {
					ev["res"] = derr
				}
				ev["errmsg"] = derr
				return
			}
			res, msg := resolve(signer, mt, holder)
			ev["res"] = res
			if msg != "" {
				ev["errmsg"] = msg
			}
		}()
		env.Emit(ev)
	}
	return nil
}

// vsweep signs the case for network id b.Net and presents it with every V of b.Vs (R, S and all fields unchanged) to the
// signer of that network: only the V the signature was made with may yield the key holder.
func (w *world) vsweep(env *drive.Env, b *Beh) error {
	p, err := w.Begin(w.A, w.Vals[4].Addr)
	if err != nil {
		return err
	}
	t, err := w.conc(b.Tx, p.State, 300000)
	if err != nil {
		return err
	}
	signer := types.NewYouSigner(b.Net)
	tx, err := w.signWith(t, signer)
	if err != nil {
		return err
	}
	holder := w.accts[t.S].Addr
	base, _, err := w.mutate(tx, t, "none")
	if err != nil {
		return err
	}
	orig := base.V.Int64()
	for _, v := range b.Vs {
		raw := base
		raw.V = big.NewInt(v)
		ev := map[string]interface{}{"ev": "SenderV", "net": b.Net, "v": v, "orig": orig}
		func() {
			defer func() {
				if r := recover(); r != nil {
					ev["panic"] = fmt.Sprint(r)
				}
			}()
			mt, derr := decode(&raw)
			if mt == nil {
				ev["res"], ev["errmsg"] = "err", derr
				return
			}
			res, msg := resolve(signer, mt, holder)
			ev["res"] = res
			if msg != "" {
				ev["errmsg"] = msg
			}
		}()
		env.Emit(ev)
	}
	return nil
}

// sigseq resolves ONE decoded transaction object under a sequence of signers ("home": this network's signer, "foreign": a
// signer for another network id).  The object caches the sender it was resolved to (types.Sender); each event also
// records what a freshly decoded object answers to the same signer.
func (w *world) sigseq(env *drive.Env, b *Beh) error {
	tx, t, err := w.signedCase(b.Tx)
	if err != nil {
		return err
	}
	holder := w.accts[t.S].Addr
	raw, foreign, err := w.mutate(tx, t, b.Mut)
	if err != nil {
		return err
	}
	if foreign {
		return fmt.Errorf("mutation %q does not describe an object", b.Mut)
	}
	signers := map[string]types.Signer{"home": w.Signer, "foreign": types.NewYouSigner(otherNet)}
	obj, derr := decode(&raw)
	for i, sg := range b.Seq {
		signer, ok := signers[sg]
		if !ok {
			return fmt.Errorf("unknown signer %q", sg)
		}
		ev := map[string]interface{}{"ev": "Resolve", "step": i + 1, "signer": sg, "mut": b.Mut, "cls": b.Tx, "before": b.Seq[:i]}
		func() {
			defer func() {
				if r := recover(); r != nil {
					ev["panic"] = fmt.Sprint(r)
				}
			}()
			if obj == nil {
				ev["res"], ev["fresh"], ev["errmsg"] = "err", "err", derr
				return
			}
			res, msg := resolve(signer, obj, holder)
			ev["res"] = res
			if msg != "" {
				ev["errmsg"] = msg
			}
			fresh, _ := decode(&raw)
			ev["fresh"], _ = resolve(signer, fresh, holder)
		}()
		env.Emit(ev)
	}
	return nil
}

// objseq performs a sequence of operations on ONE transaction value: "home" / "foreign" (types.Sender + AsMessage under that
// signer), "hash" (Hash), "apply" (ApplyTransaction on a fresh block state: who is charged), and the decoders "json"
// (UnmarshalJSON), "rlp" (rlp.DecodeBytes into the existing value), "rlpstream" (DecodeRLP on a stream), which decode ANOTHER
// transaction -- B, a plain transfer signed by the second key -- into the same value.  The value starts as the case A,
// decoded from RLP into a fresh value.
func (w *world) objseq(env *drive.Env, b *Beh) error {
	txA, tA, err := w.signedCase(b.Tx)
	if err != nil {
		return err
	}
	txB, _, err := w.signedCase(&TxCls{S: 2, Nc: "eq", Lim: "exact", Val: "zero", Tp: [2]string{"acct", "none"}, Price: 1})
	if err != nil {
		return err
	}
	holders := map[common.Address]string{w.accts[tA.S].Addr: "A", w.accts[2].Addr: "B"}
	hashes := map[common.Hash]string{txA.Hash(): "A", txB.Hash(): "B"}
	encA, err := rlp.EncodeToBytes(txA)
	if err != nil {
		return err
	}
	encB, err := rlp.EncodeToBytes(txB)
	if err != nil {
		return err
	}
	jsonB, err := txB.MarshalJSON()
	if err != nil {
		return err
	}
	var fields map[string]interface{}
	if err := json.Unmarshal(jsonB, &fields); err != nil {
		return err
	}
	fields["r"] = "0x0"
	badJSONB, err := json.Marshal(fields)
	if err != nil {
		return err
	}
	obj := new(types.Transaction)
	if err := rlp.DecodeBytes(encA, obj); err != nil {
		return err
	}
	foreign := types.NewYouSigner(otherNet)
	content, via := "A", "new"
	for i, op := range b.Seq {
		ev := map[string]interface{}{"ev": "Obj", "step": i + 1, "op": op, "cls": b.Tx}
		func() {
			defer func() {
				if r := recover(); r != nil {
					ev["panic"] = fmt.Sprint(r)
				}
			}()
			who := func(signer types.Signer) string {
				from, err := types.Sender(signer, obj)
				res := "other"
				if err != nil {
					res = "err"
				} else if h, ok := holders[from]; ok {
					res = h
				}
				if msg, err2 := obj.AsMessage(signer); (err2 == nil) != (err == nil) || (err == nil && msg.From() != from) {
					res = "inconsistent"
				}
				return res
			}
			switch op {
			case "home":
				ev["res"] = who(w.Signer)
			case "foreign":
				ev["res"] = who(foreign)
			case "hash":
				if h, ok := hashes[obj.Hash()]; ok {
					ev["res"] = h
				} else {
					ev["res"] = "other"
				}
			case "apply":
				p, err := w.Begin(w.A, w.Vals[4].Addr)
				if err != nil {
					panic(err)
				}
				n1, n2 := p.State.GetNonce(w.accts[1].Addr), p.State.GetNonce(w.accts[2].Addr)
				p.State.Prepare(obj.Hash(), common.Hash{}, 0)
				_, _, aerr := w.A.BC.Processor().ApplyTransaction(obj, w.Signer, p.State, w.A.BC, p.Hdr, &p.Hdr.Coinbase, &p.Hdr.GasUsed, p.Hdr.GasRewards, p.GP, p.Cfg, local.FakeRecorder())
				r1, r2 := p.State.GetNonce(w.accts[1].Addr) != n1, p.State.GetNonce(w.accts[2].Addr) != n2
				switch {
				case aerr != nil:
					ev["res"], ev["errmsg"] = "err", aerr.Error()
				case r1 && r2:
					ev["res"] = "both"
				case r1:
					ev["res"] = "A"
				case r2:
					ev["res"] = "B"
				default:
					ev["res"] = "none"
				}
			case "json":
				if err := obj.UnmarshalJSON(jsonB); err != nil {
					panic(err)
				}
				content, via, ev["res"] = "B", op, "ok"
			case "rlp":
				if err := rlp.DecodeBytes(encB, obj); err != nil {
					panic(err)
				}
				content, via, ev["res"] = "B", op, "ok"
			case "rlpstream":
				if err := obj.DecodeRLP(rlp.NewStream(bytes.NewReader(encB), 0)); err != nil {
					panic(err)
				}
				content, via, ev["res"] = "B", op, "ok"
			case "badrlp":
				// a damaged encoding of B (cut short): the decoder reports an error; what the value holds afterwards is judged by
				// the operations that follow
				if err := rlp.DecodeBytes(encB[:len(encB)-3], obj); err != nil {
					ev["res"], ev["errmsg"] = "err", err.Error()
				} else {
					ev["res"] = "ok"
				}
			case "badjson":
				// B's JSON with an out-of-range signature value (r = 0): rejected after the fields were parsed
				if err := obj.UnmarshalJSON(badJSONB); err != nil {
					ev["res"], ev["errmsg"] = "err", err.Error()
				} else {
					ev["res"] = "ok"
				}
			default:
				panic("unknown object operation " + op)
			}
		}()
		ev["content"], ev["via"] = content, via
		env.Emit(ev)
	}
	return nil
}

func run(env *drive.Env) error {
	worlds := map[int]*world{}
	world := func(ver int) (*world, error) {
		if ver == 0 {
			ver = 5
		}
		if w, ok := worlds[ver]; ok {
			return w, nil
		}
		w, err := newWorld(ver)
		if err == nil {
			worlds[ver] = w
		}
		return w, err
	}
	var b Beh
	for env.Next(&b) {
		w, err := world(b.Ver)
		if err != nil {
			return err
		}
		switch b.Kind {
		case "apply":
			if err := w.apply(env, &b); err != nil {
				return err
			}
		case "applybig":
			if err := w.applyBig(env, &b); err != nil {
				return err
			}
		case "vsweep":
			if err := w.vsweep(env, &b); err != nil {
				return err
			}
		case "sig":
			if err := w.sig(env, &b); err != nil {
				return err
			}
		case "sigseq":
			if err := w.sigseq(env, &b); err != nil {
				return err
			}
		case "objseq":
			if err := w.objseq(env, &b); err != nil {
				return err
			}
		default:
			return fmt.Errorf("unknown behaviour kind %q", b.Kind)
		}
		b = Beh{}
	}
	return nil
}
