// Package chainfx is the chain fixture shared by the C17 (txapply) and C05 (slash) drivers: scaled protocol
// parameters, a genesis whose validators are the fixture's deterministic keys, a real core.BlockChain with the solo
// engine and the staking module registered and started, and the block-builder sequence the miner performs
// (ProcessYouVersionState, Snapshot/ApplyTransaction/RevertToSnapshot, EndBlock(seal), FinalizeAndAssemble,
// WriteBlockWithState) plus import into an independent validating chain with InsertChain.
package chainfx

import (
	"fmt"
	"math/big"
	"os"

	"github.com/youchainhq/go-youchain/common"
	"github.com/youchainhq/go-youchain/consensus/solo"
	"github.com/youchainhq/go-youchain/core"
	"github.com/youchainhq/go-youchain/core/state"
	"github.com/youchainhq/go-youchain/core/types"
	"github.com/youchainhq/go-youchain/core/vm"
	"github.com/youchainhq/go-youchain/event"
	"github.com/youchainhq/go-youchain/local"
	"github.com/youchainhq/go-youchain/logging"
	"github.com/youchainhq/go-youchain/params"
	"github.com/youchainhq/go-youchain/staking"
	"github.com/youchainhq/go-youchain/youdb"
	"verif/harness/fixture"
)

// Scaled protocol constants of the fixture (DESIGN.md appendix B).
const (
	StakeUnit     = 10
	Period        = 4 // StakingTrieFrequency
	WithdrawDelay = 6
	StakeLookBack = 4
	GenesisGas    = 8000000
)

// Opts selects the variable part of the parameter table.
type Opts struct {
	PenaltyFraction uint64 // PenaltyFractionForDoubleSign (percent)
	NVals           int
	ValTokens       []int64 // token of genesis validator i (1-based index i-1)
	Alloc           core.GenesisAlloc
	TwoNodes        bool // also create the independent validating chain B
	MaxEvidenceAge  uint64
	Operators       map[int]common.Address // operator of genesis validator i (default: its own address)
	Version         params.YouVersion      // protocol version of the genesis block (default YouV5)
	NotInGenesis    map[int]bool           // identities that are funded but are no genesis validators (created later by a transaction)
}

// Node is one chain with its staking module.
type Node struct {
	DB youdb.Database
	BC *core.BlockChain
	St *staking.Staking
}

// World is the fixture.
type World struct {
	A, B   *Node
	Vals   []*fixture.Key // 1-based
	Signer types.Signer
	YP     params.YouParams
	Opts   Opts
}

var quiet bool

// Scale installs the scaled parameter table.  It is idempotent apart from the fields taken from o.
func Scale(o Opts) params.YouParams {
	if !quiet && os.Getenv("VERIF_LOG") == "" {
		logging.Root().SetHandler(logging.DiscardHandler())
		quiet = true
	}
	params.InitNetworkId(params.NetworkIdForTestCase)
	params.StakeUint.SetInt64(StakeUnit)
	// the same scaled table for every protocol version (what differs between versions is the code path taken, not
	// the magnitudes); master signatures are switched off for all roles so that the fixture's own staking
	// transactions work under YouV1..YouV4 as well
	var out params.YouParams
	for ver := range params.Versions {
		v5 := params.Versions[ver]
		v5.StakingTrieFrequency = Period
		v5.WithdrawDelay = WithdrawDelay
		v5.WithdrawRecordRetention = 4
		v5.StakeLookBack = StakeLookBack
		v5.MinStakes = map[params.ValidatorRole]uint64{1: 1, 2: 1, 3: 1}
		v5.MinSelfStakes = map[params.ValidatorRole]uint64{1: 1, 2: 1, 3: 0}
		v5.MaxStakes = map[params.ValidatorRole]uint64{1: 100000, 2: 100000, 3: 100000}
		v5.SubsidyThreshold = 1000
		v5.MinDelegationTokens = big.NewInt(StakeUnit)
		v5.MaxDelegationForValidator = 3
		v5.MaxDelegationForDelegator = 2
		v5.InactivityPenaltyWaitRounds = 100000 // inactivity slashing is not the subject of these checks
		v5.ExpelledRoundForDoubleSign = 8
		v5.ExpelledRoundForInactive = 4
		if o.PenaltyFraction > 0 {
			v5.PenaltyFractionForDoubleSign = o.PenaltyFraction
		} else {
			v5.PenaltyFractionForDoubleSign = 2
		}
		if o.MaxEvidenceAge > 0 {
			v5.MaxEvidenceExpiredIn = o.MaxEvidenceAge
		} else {
			v5.MaxEvidenceExpiredIn = 3
		}
		v5.SignatureRequired = map[params.ValidatorRole]bool{1: false, 2: false, 3: false}
		params.Versions[ver] = v5
		if ver == params.YouV5 {
			out = v5
		}
	}
	return out
}

func newNode(g *core.Genesis) (*Node, error) {
	db := youdb.NewMemDatabase()
	g.MustCommit(db)
	eng := solo.NewSolo()
	bc, err := core.NewBlockChain(db, eng, new(event.TypeMux), params.ArchiveNode, local.FakeDetailDB())
	if err != nil {
		return nil, err
	}
	// no event mux for the staking module: evidences are injected synchronously (staking/verif_slash.go), the
	// module's intake goroutine is not started
	st := staking.NewStaking(nil)
	st.Register(bc.Processor())
	if err := st.Start(bc, eng); err != nil {
		return nil, err
	}
	return &Node{DB: db, BC: bc, St: st}, nil
}

// Roles of the genesis validators: v1 chancellor, v2 senator, v3 house, v4 chancellor, ...
func RoleOf(i int) params.ValidatorRole {
	switch i % 4 {
	case 1:
		return params.RoleChancellor
	case 2:
		return params.RoleSenator
	case 3:
		return params.RoleHouse
	}
	return params.RoleChancellor
}

// NewWorld builds the genesis and the chain(s).  Validator i is operated by its own address, which is funded.
func NewWorld(o Opts) (*World, error) {
	yp := Scale(o)
	if o.NVals == 0 {
		o.NVals = 4
	}
	w := &World{Vals: fixture.Keys("val", o.NVals), Opts: o, YP: yp}
	vals := core.GenesisValidators{}
	alloc := core.GenesisAlloc{}
	for a, acc := range o.Alloc {
		alloc[a] = acc
	}
	alloc[yp.RewardsPoolAddress] = core.GenesisAccount{Balance: big.NewInt(1000000)}
	for i := 1; i <= o.NVals; i++ {
		k := w.Vals[i]
		tok := int64(1000 * i)
		if i-1 < len(o.ValTokens) {
			tok = o.ValTokens[i-1]
		}
		op := k.Addr
		if a, ok := o.Operators[i]; ok {
			op = a
		}
		if o.NotInGenesis[i] {
			if _, ok := alloc[k.Addr]; !ok {
				alloc[k.Addr] = core.GenesisAccount{Balance: big.NewInt(3000000)}
			}
			continue
		}
		vals[k.Addr] = core.GenesisValidator{Name: fmt.Sprintf("v%d", i), OperatorAddress: op, Coinbase: k.Addr,
			MainPubKey: k.PubComp, BlsPubKey: k.BlsPkB, Token: big.NewInt(tok), Role: RoleOf(i), Status: params.ValidatorOnline}
		if _, ok := alloc[k.Addr]; !ok {
			alloc[k.Addr] = core.GenesisAccount{Balance: big.NewInt(1000000)}
		}
	}
	if o.Version == 0 {
		o.Version = params.YouV5
	}
	g := &core.Genesis{NetworkId: params.NetworkIdForTestCase, GasLimit: GenesisGas, Alloc: alloc, Validators: vals, CurrVersion: o.Version}
	var err error
	if w.A, err = newNode(g); err != nil {
		return nil, err
	}
	if o.TwoNodes {
		if w.B, err = newNode(g); err != nil {
			return nil, err
		}
	}
	w.Signer = types.MakeSigner(big.NewInt(0))
	return w, nil
}

// Pending is a block under construction on node A: the header, the state at the parent and the execution context.
type Pending struct {
	Hdr   *types.Header
	State *state.StateDB
	GP    *core.GasPool
	Cfg   *vm.Config
	Txs   []*types.Transaction
	Rcpts []*types.Receipt
}

// Begin opens the next block on top of n's head, the way miner.worker.commitNewWork does.
func (w *World) Begin(n *Node, coinbase common.Address) (*Pending, error) {
	parent := n.BC.CurrentBlock()
	hdr := &types.Header{ParentHash: parent.Hash(), Number: new(big.Int).Add(parent.Number(), big.NewInt(1)), Time: parent.Time() + 10,
		Coinbase: coinbase, GasLimit: core.CalcGasLimit(parent), GasRewards: big.NewInt(0), Subsidy: big.NewInt(0), Extra: []byte{}}
	if err := core.ProcessYouVersionState(parent.Header(), hdr); err != nil {
		return nil, err
	}
	yp, err := n.BC.VersionForRound(hdr.Number.Uint64())
	if err != nil {
		return nil, err
	}
	sroot := core.StakingRootForNewBlock(yp.StakingTrieFrequency, parent.Header())
	sdb, err := n.BC.StateAt(parent.Root(), parent.ValRoot(), sroot)
	if err != nil {
		return nil, err
	}
	cfg, err := core.PrepareVMConfig(n.BC, hdr.Number.Uint64(), vm.LocalConfig{})
	if err != nil {
		return nil, err
	}
	return &Pending{Hdr: hdr, State: sdb, GP: new(core.GasPool).AddGas(hdr.GasLimit), Cfg: cfg}, nil
}

// Commit applies tx the way miner.worker.commitTransaction does (snapshot, ApplyTransaction, revert on error).
func (w *World) Commit(n *Node, p *Pending, tx *types.Transaction) (*types.Receipt, error) {
	p.State.Prepare(tx.Hash(), common.Hash{}, len(p.Txs))
	snap := p.State.Snapshot()
	r, _, err := n.BC.Processor().ApplyTransaction(tx, w.Signer, p.State, n.BC, p.Hdr, &p.Hdr.Coinbase, &p.Hdr.GasUsed, p.Hdr.GasRewards, p.GP, p.Cfg, local.FakeRecorder())
	if err != nil {
		p.State.RevertToSnapshot(snap)
		return nil, err
	}
	p.Txs = append(p.Txs, tx)
	p.Rcpts = append(p.Rcpts, r)
	return r, nil
}

// Seal runs EndBlock(isSeal=true), assembles the block and writes it to node A's chain.
func (w *World) Seal(n *Node, p *Pending) (*types.Block, error) {
	res, _, _ := n.BC.Processor().EndBlock(n.BC, p.Hdr, p.Txs, p.State, true, local.FakeRecorder())
	rc := append([]*types.Receipt{}, p.Rcpts...)
	for _, r := range res {
		if r != nil {
			rc = append(rc, r)
		}
	}
	blk, err := n.BC.Engine().FinalizeAndAssemble(n.BC, p.Hdr, p.State, p.Txs, rc)
	if err != nil {
		return nil, err
	}
	if err := n.BC.WriteBlockWithState(blk, p.State, rc); err != nil {
		return nil, err
	}
	return blk, nil
}

// Block builds one block with txs on A (refused transactions are an error here: the fixture's own transactions must
// be applied) and imports it into B if there is one.
func (w *World) Block(coinbase common.Address, txs ...*types.Transaction) (*types.Block, error) {
	p, err := w.Begin(w.A, coinbase)
	if err != nil {
		return nil, err
	}
	for i, tx := range txs {
		r, err := w.Commit(w.A, p, tx)
		if err != nil {
			return nil, fmt.Errorf("fixture tx %d of block %v refused: %v", i, p.Hdr.Number, err)
		}
		if r.Status != types.ReceiptStatusSuccessful {
			return nil, fmt.Errorf("fixture tx %d of block %v failed", i, p.Hdr.Number)
		}
	}
	blk, err := w.Seal(w.A, p)
	if err != nil {
		return nil, err
	}
	if w.B != nil {
		if err := w.B.BC.InsertChain(types.Blocks{blk}); err != nil {
			return nil, fmt.Errorf("import of fixture block %v into B: %v", blk.Number(), err)
		}
	}
	return blk, nil
}

// StakingTx signs a staking-module transaction.
func (w *World) StakingTx(k *fixture.Key, nonce uint64, action staking.ActionType, payload staking.Msg, gas uint64) (*types.Transaction, error) {
	data, err := staking.EncodeMessage(action, payload)
	if err != nil {
		return nil, err
	}
	return types.SignTx(types.NewTransaction(nonce, params.StakingModuleAddress, big.NewInt(0), gas, big.NewInt(1), data), w.Signer, k.Priv)
}

// Clone opens an independent node on a copy of n's database (all keys copied; the archive node keeps every state on
// disk), with its own staking module.  Stop the clone's chain when done.
func (n *Node) Clone() (*Node, error) {
	src, ok := n.DB.(*youdb.MemDatabase)
	if !ok {
		return nil, fmt.Errorf("clone needs a memory database")
	}
	db := youdb.NewMemDatabase()
	for _, k := range src.Keys() {
		v, err := src.Get(k)
		if err != nil {
			return nil, err
		}
		if err := db.Put(k, v); err != nil {
			return nil, err
		}
	}
	eng := solo.NewSolo()
	bc, err := core.NewBlockChain(db, eng, new(event.TypeMux), params.ArchiveNode, local.FakeDetailDB())
	if err != nil {
		return nil, err
	}
	st := staking.NewStaking(nil)
	st.Register(bc.Processor())
	if err := st.Start(bc, eng); err != nil {
		return nil, err
	}
	return &Node{DB: db, BC: bc, St: st}, nil
}
