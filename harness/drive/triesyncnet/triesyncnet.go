// Package triesyncnet runs the REAL network loop of you/downloader/triesync.go (runTrieSync, trieSync.loop, assignTasks,
// fillTasks, process, request timers, peer-drop handling) of a partially constructed Downloader against scripted fake
// peers (C19, stage "net").  The sources are the real tries/states of drive/triesync.
//
// The loop's goroutines and timers cannot be scheduled from outside, so the recorded trace is judged only on
// order-robust observables (spec/TrieSyncNet_Mon.tla); there is no conformance run for this stage.  Fake peers never
// sleep: a "late" peer answers an old request when it is asked again or when it has been dropped; a stalled request
// ends through the loop's own timer (request TTL scaled to 3 x rtt).  The only wall-clock judgement is the watchdog
// that declares a sync stuck after a long period without any peer activity.
package triesyncnet

import (
	"fmt"
	"sort"
	"sync"
	"time"

	"github.com/youchainhq/go-youchain/common"
	"github.com/youchainhq/go-youchain/core/state"
	"github.com/youchainhq/go-youchain/core/types"
	"github.com/youchainhq/go-youchain/crypto/sha3"
	"github.com/youchainhq/go-youchain/trie"
	"github.com/youchainhq/go-youchain/you/downloader"
	"github.com/youchainhq/go-youchain/youdb"
	"math/big"
	"verif/harness/drive"
	"verif/harness/drive/triesync"
)

func init() { drive.Register("triesyncnet", run) }

// PeerScript is one fake peer: what it does with its 1st, 2nd, ... request (cycled).
type PeerScript struct {
	Id     string   `json:"id"`
	Script []string `json:"script"`
}

// Beh is one scenario.
type Beh struct {
	Shape    string       `json:"shape"`
	Dag      int          `json:"dag"`
	Peers    []PeerScript `json:"peers"`
	CancelAt int          `json:"cancelAt"` // cancel the sync when the k-th request reaches a peer (0 = never)
	RttMs    int          `json:"rttMs"`
}

func keccak(b []byte) []byte {
	h := sha3.NewKeccak256()
	h.Write(b)
	return h.Sum(nil)
}

// recDB is the destination: a memory database that reports the set of source node ids it holds after every write
// (a batch write is atomic, so these are exactly the states a crash or an interruption can leave behind).
type recDB struct {
	*youdb.MemDatabase
	w *world
}

type recBatch struct {
	youdb.Batch
	db *recDB
}

func (d *recDB) Put(k, v []byte) error {
	err := d.MemDatabase.Put(k, v)
	d.w.note(map[string]interface{}{"ev": "DbWrite", "dest": d.w.destIds()})
	return err
}
func (d *recDB) NewBatch() youdb.Batch { return &recBatch{d.MemDatabase.NewBatch(), d} }
func (b *recBatch) Write() error {
	err := b.Batch.Write()
	b.db.w.note(map[string]interface{}{"ev": "DbWrite", "dest": b.db.w.destIds()})
	return err
}

type world struct {
	src    *triesync.Source
	dest   *recDB
	loop   *downloader.VerifTrieLoop
	run    *downloader.VerifTrieRun
	mu     sync.Mutex
	events []map[string]interface{}
	last   time.Time
	reqs   int
	cancel int
	limit  int  // more requests than this in one sync: the loop is going round in circles
	spin   bool // the limit was hit
	peers  map[string]*fakePeer
}

func (w *world) note(ev map[string]interface{}) {
	w.mu.Lock()
	w.events = append(w.events, ev)
	w.last = time.Now()
	w.mu.Unlock()
}

// destIds lists the source node ids present in the destination; keys that are not hashes (the downloader's progress
// counter) are not trie data and are left out; a 32-byte key that is not a node of the source is reported as 0.
func (w *world) destIds() []int {
	out := []int{}
	for _, k := range w.dest.MemDatabase.Keys() {
		if len(k) == common.HashLength {
			out = append(out, w.src.IdOf(common.BytesToHash(k)))
		}
	}
	sort.Ints(out)
	return out
}

type fakePeer struct {
	w      *world
	id     string
	script []string
	n      int
	held   [][]byte // the answer a "late" peer still owes
	gone   bool
}

func (p *fakePeer) Head() (common.Hash, *big.Int) { return common.Hash{}, new(big.Int) }
func (p *fakePeer) Origin() *big.Int              { return new(big.Int) }
func (p *fakePeer) RequestHeadersByHash(common.Hash, int, int, bool, bool) error {
	return nil
}
func (p *fakePeer) RequestHeadersByNumber(uint64, int, int, bool, bool) error { return nil }
func (p *fakePeer) RequestBodies([]common.Hash) error                         { return nil }
func (p *fakePeer) RequestReceipts([]common.Hash) error                       { return nil }

func flip(b []byte) []byte {
	c := common.CopyBytes(b)
	c[len(c)/2] ^= 0x40
	return c
}

// RequestNodeData is called by peerConnection.FetchNodeData in its own goroutine.
func (p *fakePeer) RequestNodeData(kind types.TrieKind, hashes []common.Hash) error {
	w := p.w
	w.mu.Lock()
	what := p.script[p.n%len(p.script)]
	p.n++
	w.reqs++
	doCancel := w.cancel > 0 && w.reqs == w.cancel
	if w.reqs > w.limit {
		// livelock guard: the sync keeps asking without ever finishing; end it and report it as stuck
		first := !w.spin
		w.spin = true
		w.mu.Unlock()
		if first {
			go w.run.Cancel()
		}
		return nil
	}
	ids := []int{}
	var genuine [][]byte
	for _, h := range hashes {
		id := w.src.IdOf(h)
		ids = append(ids, id)
		if id > 0 {
			genuine = append(genuine, w.src.Blob(id))
		}
	}
	w.events = append(w.events, map[string]interface{}{"ev": "Req", "peer": p.id, "items": ids, "what": what})
	w.last = time.Now()
	var resp [][]byte
	answer := true
	switch what {
	case "honest":
		resp = genuine
	case "rev":
		for i := len(genuine) - 1; i >= 0; i-- {
			resp = append(resp, genuine[i])
		}
	case "partial":
		resp = genuine[:(len(genuine)+1)/2]
	case "empty":
		resp = [][]byte{}
	case "nil":
		resp = nil
	case "junk":
		for _, b := range genuine {
			resp = append(resp, flip(b))
		}
	case "unreq": // genuine blobs of the source that were not asked for
		asked := map[int]bool{}
		for _, id := range ids {
			asked[id] = true
		}
		for id := 1; id <= w.src.Size() && len(resp) < 3; id++ {
			if !asked[id] {
				resp = append(resp, w.src.Blob(id))
			}
		}
		if resp == nil {
			resp = [][]byte{}
		}
	case "dup":
		for _, b := range genuine {
			resp = append(resp, b, b)
		}
	case "mixed":
		if len(genuine) > 0 {
			resp = append(resp, flip(genuine[0]), genuine[0])
		}
		resp = append(resp, w.src.Blob(1))
	case "late": // answer the PREVIOUS unanswered request now (a stale response), keep this one
		resp, p.held = p.held, genuine
		answer = resp != nil
	case "emptygone": // the peer leaves and its (empty) answer is still on the wire
		resp = [][]byte{}
		p.gone = true
	case "stall":
		answer = false
	case "vanish":
		answer = false
		p.gone = true
	default:
		w.mu.Unlock()
		panic("unknown peer behaviour " + what)
	}
	if answer {
		w.events = append(w.events, map[string]interface{}{"ev": "Resp", "peer": p.id, "what": what, "count": len(resp)})
	}
	vanish := what == "vanish"
	w.mu.Unlock()
	if doCancel {
		go w.run.Cancel()
	}
	if vanish {
		w.note(map[string]interface{}{"ev": "Gone", "peer": p.id})
		w.loop.UnregisterPeer(p.id)
		return nil
	}
	if what == "emptygone" {
		w.note(map[string]interface{}{"ev": "Gone", "peer": p.id})
		w.loop.UnregisterPeer(p.id)
	}
	if answer {
		w.loop.DeliverNodeData(p.id, resp)
	}
	return nil
}

// dropped is told when the loop dropped the peer: a late peer sends what it still owes (into the void).
func (w *world) dropped(id string) {
	w.mu.Lock()
	p := w.peers[id]
	var resp [][]byte
	if p != nil {
		resp, p.held = p.held, nil
	}
	w.events = append(w.events, map[string]interface{}{"ev": "Drop", "peer": id})
	w.last = time.Now()
	w.mu.Unlock()
	if resp != nil {
		go w.loop.DeliverNodeData(id, resp)
	}
}

func isHonest(s []string) bool {
	for _, x := range s {
		if x != "honest" && x != "rev" {
			return false
		}
	}
	return true
}

func scenario(env *drive.Env, src *triesync.Source, beh *Beh) {
	rtt := time.Duration(beh.RttMs) * time.Millisecond
	if rtt == 0 {
		rtt = 15 * time.Millisecond
	}
	w := &world{src: src, cancel: beh.CancelAt, peers: map[string]*fakePeer{}, last: time.Now(), limit: 100*src.Size() + 500}
	w.dest = &recDB{youdb.NewMemDatabase(), w}
	w.loop = downloader.NewVerifTrieLoop(rtt, w.dropped)
	honest := false
	for _, ps := range beh.Peers {
		p := &fakePeer{w: w, id: ps.Id, script: ps.Script}
		w.peers[ps.Id] = p
		honest = honest || isHonest(ps.Script)
		if err := w.loop.RegisterPeer(ps.Id, p); err != nil {
			panic(err)
		}
	}
	var sched *trie.Sync
	kind := types.KindCht
	if src.IsState() {
		sched, kind = state.NewStateSync(src.Root(), w.dest), types.KindState
	} else {
		sched = trie.NewSync(src.Root(), w.dest, nil)
	}
	start := time.Now()
	w.run = w.loop.Prepare(kind, w.dest, sched)
	w.loop.Start(w.run)
	stuck := false
	tick := time.NewTicker(20 * time.Millisecond)
wait:
	for {
		select {
		case <-w.run.Done():
			break wait
		case <-tick.C:
			w.mu.Lock()
			idle := time.Since(w.last)
			w.mu.Unlock()
			// nothing has reached or left any peer and no timer-driven drop happened for 50 request TTLs
			if idle > 150*rtt && !stuck {
				stuck = true
				go w.run.Cancel()
			}
		}
	}
	tick.Stop()
	w.loop.Close()
	end := map[string]interface{}{"ev": "End", "err": w.run.Err(), "pending": w.run.Pending(), "dest": w.destIds(), "stuck": stuck || w.spin, "spin": w.spin,
		"honest": honest, "cancel": beh.CancelAt > 0, "dropped": w.loop.Dropped(), "ms": int(time.Since(start) / time.Millisecond)}
	dg, walk := triesync.DigestOf(w.dest.MemDatabase, src.Root(), src.IsState())
	end["walk"], end["dig"], end["srcdig"] = walk, dg, src.Digest()
	w.mu.Lock()
	evs := w.events
	w.events = nil
	w.mu.Unlock()
	for _, ev := range evs {
		env.Emit(ev)
	}
	env.Emit(end)
}

func run(env *drive.Env) error {
	cache := map[string]*triesync.Source{}
	var beh Beh
	for env.Next(&beh) {
		src, ok := cache[beh.Shape]
		if !ok {
			src = triesync.BuildSource(beh.Shape, env.Seed)
			cache[beh.Shape] = src
		}
		env.Emit(map[string]interface{}{"ev": "Begin", "dag": beh.Dag, "shape": src.Shape(), "size": src.Size(), "kids": src.Kids(),
			"raw": src.RawIds(), "state": src.IsState(), "peers": len(beh.Peers)})
		func() {
			defer func() {
				if r := recover(); r != nil {
					env.Emit(map[string]interface{}{"ev": "End", "panic": fmt.Sprint(r)})
				}
			}()
			scenario(env, src, &beh)
		}()
		beh = Beh{}
	}
	return nil
}
