package votecert

// BLS world of the votecert driver (Cfg with "bls": true): the real ucon.Voter with BLS signing ON, two REAL
// look-back validator sets held in two state.StateDBs -- the stake look-back set and the certificate look-back
// set, same members and stakes (2,2,2: weight = stake) but different token residues, so that the two sets are
// ORDERED differently -- real VRF sortition proofs (threshold = total stake: everybody selected with weight =
// stake), real BLS vote signatures carrying the sender's index in the set its vote kind is verified against.
// Observed in addition to the plain world: whether a PEER voter (a second real Voter, same look-back sets)
// accepts every vote the node emits, and whether the vote sets packed at a commit (Voter.PackVotes) pass the
// header verifier's vote check (Server.verifyVotes of an independent engine instance) for the precommits and,
// in a certificate round, for the certificate votes.

import (
	"crypto/ecdsa"
	"encoding/binary"
	"fmt"
	"math/big"

	"github.com/youchainhq/go-youchain/common"
	"github.com/youchainhq/go-youchain/common/hexutil"
	"github.com/youchainhq/go-youchain/consensus/ucon"
	"github.com/youchainhq/go-youchain/core/state"
	"github.com/youchainhq/go-youchain/core/types"
	"github.com/youchainhq/go-youchain/crypto"
	"github.com/youchainhq/go-youchain/crypto/vrf"
	secp256k1VRF "github.com/youchainhq/go-youchain/crypto/vrf/secp256k1"
	"github.com/youchainhq/go-youchain/event"
	"github.com/youchainhq/go-youchain/params"
	"github.com/youchainhq/go-youchain/youdb"
	"verif/harness/fixture"
)

type blsPM struct {
	stake, cert *state.StateDB
}

func (f *blsPM) CurrentCaravelParams() *params.CaravelParams {
	yp := params.Versions[params.YouCurrentVersion]
	yp.EnableBls = true
	return &yp.CaravelParams
}
func (f *blsPM) CertificateParams(round *big.Int) (*params.CaravelParams, error) {
	return f.CurrentCaravelParams(), nil
}
func (f *blsPM) CurrentYouParams() *params.YouParams {
	yp := params.Versions[params.YouCurrentVersion]
	yp.EnableBls = true
	return &yp
}
func (f *blsPM) set(lb params.LookBackType) *state.StateDB {
	if lb == params.LookBackCert || lb == params.LookBackCertStake || lb == params.LookBackCertSeed {
		return f.cert
	}
	return f.stake
}
func (f *blsPM) GetLookBackVldReader(cp *params.CaravelParams, num *big.Int, lbType params.LookBackType) (state.ValidatorReader, error) {
	return f.set(lbType), nil
}

type blsExtra struct {
	pm    *blsPM
	vrfs  []vrf.PrivateKey
	seed  common.Hash
	peer  *ucon.Voter
	pmux  *event.TypeMux
	eng   *ucon.Server
	total *big.Int
	sh    *blsShared
}

func mkSet(keys []*fixture.Key, ws []int64, reverse bool) (*state.StateDB, error) {
	st, _ := fixture.NewMemState()
	for n, k := range keys {
		res := int64(n + 1)
		if reverse {
			res = int64(len(keys) - n)
		}
		// equal stakes are ordered by token: the residue decides the order of the set
		token := new(big.Int).Add(new(big.Int).Mul(big.NewInt(ws[n]), big.NewInt(1000)), big.NewInt(res))
		v := st.CreateValidator(fmt.Sprint("v", n), k.Addr, k.Addr, params.RoleSenator, hexutil.Bytes(k.PubComp), hexutil.Bytes(k.BlsPkB),
			token, big.NewInt(ws[n]), params.AcceptDelegation, 0, 0, params.ValidatorOnline)
		if v == nil {
			return nil, fmt.Errorf("cannot create validator %d", n)
		}
	}
	return st, nil
}

func (w *world) stakeOf(addr common.Address, lb params.LookBackType) *big.Int {
	if v := w.bls.pm.set(lb).GetValidatorByMainAddr(addr); v != nil {
		return v.Stake
	}
	return big.NewInt(0)
}

// newVoterBLS builds a real Voter for member `me` over the two look-back sets.
func (w *world) newVoterBLS(me int, mux *event.TypeMux, best func() string) *ucon.Voter {
	th := uint64(w.total)
	k := w.keys[me]
	v := ucon.NewVoter(youdb.NewMemDatabase(), k.Priv, k.BlsSk, mux,
		func(pubKey *ecdsa.PublicKey, data *ucon.SortitionData, lb params.LookBackType) error {
			pk, err := secp256k1VRF.NewVRFVerifier(pubKey)
			if err != nil {
				return err
			}
			ok, err := ucon.VrfVerifySortition(pk, w.bls.seed, data.RoundIndex, data.Step, data.Proof, data.Votes, th,
				w.stakeOf(crypto.PubkeyToAddress(*pubKey), lb), w.bls.total)
			if err != nil || !ok {
				return fmt.Errorf("invalid credential: %v", err)
			}
			return nil
		},
		func(round *big.Int, ri uint32, step uint32, lb params.LookBackType) (bool, *ucon.StepView) {
			key := fmt.Sprint(me, ri, step, lb)
			sv := w.bls.sh.views[key]
			if sv == nil {
				_, proof, j := ucon.VrfSortition(w.bls.vrfs[me], w.bls.seed, ri, step, th, w.stakeOf(k.Addr, lb), w.bls.total)
				sv = &ucon.StepView{SortitionProof: proof, SubUsers: j, ValidatorType: params.KindChamber, Threshold: th}
				w.bls.sh.views[key] = sv
			}
			c := *sv
			return c.SubUsers > 0, &c
		},
		func(round *big.Int, ri uint32) (common.Hash, common.Hash, bool) {
			b, ok := w.blocks[best()]
			if !ok {
				return common.Hash{}, common.Hash{}, false
			}
			return common.BytesToHash([]byte("prio-" + best())), b.Hash(), true
		},
		func(h, pr common.Hash) *types.Block {
			if n, ok := w.names[h]; ok {
				return w.blocks[n]
			}
			return nil
		},
		func(round *big.Int, addr common.Address, isP bool, lb params.LookBackType) (*big.Int, *big.Int, uint64, params.ValidatorKind, uint8, error) {
			return w.stakeOf(addr, lb), w.bls.total, th, params.KindChamber, params.ValidatorOnline, nil
		},
		func(round *big.Int, kind params.ValidatorKind, lb params.LookBackType) uint64 { return uint64(len(w.w)) }, w.bls.pm)
	v.SetLookBackMgr(w.bls.pm)
	return v
}

// blsShared holds what is only read after construction and therefore shared by all behaviours of a run: the two
// look-back sets, the VRF keys, the verifier engine and the caches of peer messages and sortition results.
type blsShared struct {
	pm    *blsPM
	vrfs  []vrf.PrivateKey
	eng   *ucon.Server
	msgs  map[string]*ucon.BlockHashWithVotes
	views map[string]*ucon.StepView
}

var shared = map[string]*blsShared{}

func (w *world) initBLS(table string) error {
	sh := shared[table]
	if sh == nil {
		stake, err := mkSet(w.keys, w.w, false)
		if err != nil {
			return err
		}
		cert, err := mkSet(w.keys, w.w, true)
		if err != nil {
			return err
		}
		sh = &blsShared{pm: &blsPM{stake: stake, cert: cert}, msgs: map[string]*ucon.BlockHashWithVotes{}, views: map[string]*ucon.StepView{}}
		for _, k := range w.keys {
			s, err := secp256k1VRF.NewVRFSigner(k.Priv)
			if err != nil {
				return err
			}
			sh.vrfs = append(sh.vrfs, s)
		}
		sh.eng, _ = ucon.NewVRFServer(youdb.NewMemDatabase())
		shared[table] = sh
	}
	w.bls = &blsExtra{pm: sh.pm, vrfs: sh.vrfs, eng: sh.eng, seed: common.Hash{0x5d, 0x03}, pmux: new(event.TypeMux), total: big.NewInt(w.total), sh: sh}
	stake, cert := sh.pm.stake, sh.pm.cert
	// the two sets must really be ordered differently for the node, or the stage shows nothing
	i1, _ := stake.GetValidators().GetIndex(w.keys[0].Addr)
	i2, _ := cert.GetValidators().GetIndex(w.keys[0].Addr)
	if i1 == i2 {
		return fmt.Errorf("fixture: the node has the same index (%d) in both look-back sets", i1)
	}
	w.v = w.newVoterBLS(0, w.mux, func() string { return w.best })
	w.bls.peer = w.newVoterBLS(1, w.bls.pmux, func() string { return "" })
	return nil
}

// voteMsgBLS: a peer's real vote (BLS signature, VRF proof, its index in the set the kind is verified against).
func (w *world) voteMsgBLS(s int, k, b string, idx uint32, cred string) *ucon.BlockHashWithVotes {
	key := fmt.Sprint(w.round, s, k, b, idx, cred)
	if m, ok := w.bls.sh.msgs[key]; ok {
		c := *m
		v := *m.Vote
		c.Vote = &v
		return &c
	}
	vt := kinds[k]
	lb := params.LookBackPos
	if vt == ucon.Certificate {
		lb = params.LookBackCert
	}
	step := uint32(vt)
	if cred == "bad" {
		step = uint32(ucon.NextIndex) // a real proof of the sender for another step
	}
	_, proof, j := ucon.VrfSortition(w.bls.vrfs[s], w.bls.seed, idx, step, uint64(w.total), w.stakeOf(w.keys[s].Addr, lb), w.bls.total)
	h := w.blocks[b].Hash()
	round := big.NewInt(w.round)
	buf := make([]byte, 4)
	binary.BigEndian.PutUint32(buf, idx)
	payload := append(h.Bytes(), append(round.Bytes(), buf...)...)
	vi, _ := w.bls.pm.set(lb).GetValidators().GetIndex(w.keys[s].Addr)
	m := &ucon.BlockHashWithVotes{Priority: common.BytesToHash([]byte("prio-" + b)), BlockHash: h, Round: round, RoundIndex: idx,
		Vote:      &ucon.SingleVote{VoterIdx: uint32(vi), Votes: j, Signature: w.keys[s].BlsSk.Sign(payload).Compress().Bytes(), Proof: proof},
		Timestamp: 1}
	w.bls.sh.msgs[key] = m
	c := *m
	v := *m.Vote
	c.Vote = &v
	return &c
}

// peerAccepts: does the peer voter accept a vote the node emitted (processVoteMsg: signer recovery through the
// look-back set of the kind, BLS signature, address, credential)?
func (w *world) peerAccepts(m *ucon.BlockHashWithVotes, vt ucon.VoteType) (bool, string) {
	err, invalid := w.bls.peer.VerifProcessVote(m, vt, w.keys[0].Addr, ucon.VerifMsgSame)
	if err != nil || invalid {
		return false, fmt.Sprint(err)
	}
	return true, ""
}

// verifyCommit: the verifier's vote check on the sets packed for a CommitEvent, as Server.commit packs them.
func (w *world) verifyCommit(ev ucon.CommitEvent) (bool, bool, string) {
	cp := w.bls.pm.CurrentCaravelParams()
	uv, err := w.v.PackVotes(ev, params.LookBackPos)
	if err != nil {
		return false, false, "PackVotes: " + err.Error()
	}
	th := uint64(w.total)
	h := ev.Block.Hash()
	if err := w.bls.eng.VerifVerifyVotes(cp, w.bls.pm.stake, h, w.bls.seed, ev.Round, ev.RoundIndex, th, uv.ChamberCommitters, uv.SCAggrSig,
		uint32(ucon.Precommit), true); err != nil {
		return true, false, "precommits: " + err.Error()
	}
	if w.cert {
		uc, err := w.v.PackVotes(ev, params.LookBackCert)
		if err != nil {
			return false, false, "PackVotes(cert): " + err.Error()
		}
		if err := w.bls.eng.VerifVerifyVotes(cp, w.bls.pm.cert, h, w.bls.seed, ev.Round, ev.RoundIndex, th, uc.ChamberCerts, uc.CCAggrSig,
			uint32(ucon.Certificate), false); err != nil {
			return true, false, "certificate: " + err.Error()
		}
	}
	return true, true, ""
}
