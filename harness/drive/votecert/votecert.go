// Package votecert drives behaviours of spec/VoteCount.tla through the real ucon.Voter in a CERTIFICATE round
// (second stage of C03).  The engine fixture of drive/votecount cannot reach a certificate round
// (params.ACoCHTFrequency is the constant 32768), a voter-level fixture can: the real Voter is built with the
// exported constructor at round 32768 with a stubbed environment (the node and its peers are always selected,
// with the weights of a table; signing without BLS), votes of the peers are real signed BlockHashWithVotes
// injected through VerifProcessVote with the status the message handler would give them -- or, for the skew
// cases, labelled msgSame although their index is not the voter's.  There is no message handler here, so
// correctly labelled future votes are not generated.  Observed: the votes leaving the node and its CommitEvents
// with their packed precommit and certificate sets.
package votecert

import (
	"crypto/ecdsa"
	"encoding/binary"
	"fmt"
	"math/big"
	"runtime"
	"sort"
	"time"

	"github.com/youchainhq/go-youchain/common"
	"github.com/youchainhq/go-youchain/consensus/ucon"
	"github.com/youchainhq/go-youchain/core/state"
	"github.com/youchainhq/go-youchain/core/types"
	"github.com/youchainhq/go-youchain/event"
	"github.com/youchainhq/go-youchain/logging"
	"github.com/youchainhq/go-youchain/params"
	"github.com/youchainhq/go-youchain/rlp"
	"github.com/youchainhq/go-youchain/youdb"
	"verif/harness/drive"
	"verif/harness/fixture"
)

func init() { drive.Register("votecert", run) }

// Op is one abstract action of a behaviour of VoteCount.tla.
type Op struct {
	Op   string `json:"op"`
	Cert bool   `json:"cert"`
	W    string `json:"w"`
	Bls  bool   `json:"bls"`
	St   uint32 `json:"st"`
	Best string `json:"best"`
	S    int    `json:"s"`
	K    string `json:"k"`
	B    string `json:"b"`
	I    uint32 `json:"i"`
	Cred string `json:"cred"`
	As   string `json:"as"`
}

var tables = map[string][]int64{"a": {2, 3, 4, 5, 6}, "b": {1, 2, 2, 3, 3}, "c": {4, 1, 1, 1, 1}, "g": {2, 2, 2}}
var kinds = map[string]ucon.VoteType{"Prevote": ucon.Prevote, "Precommit": ucon.Precommit, "Next": ucon.NextIndex, "Cert": ucon.Certificate}
var kindOrder = []string{"Prevote", "Precommit", "Cert"}

type pm struct{ st *state.StateDB }

func (f *pm) CurrentCaravelParams() *params.CaravelParams {
	yp := params.Versions[params.YouCurrentVersion]
	yp.EnableBls = false
	return &yp.CaravelParams
}
func (f *pm) CertificateParams(round *big.Int) (*params.CaravelParams, error) {
	return f.CurrentCaravelParams(), nil
}
func (f *pm) CurrentYouParams() *params.YouParams {
	yp := params.Versions[params.YouCurrentVersion]
	yp.EnableBls = false
	return &yp
}
func (f *pm) GetLookBackVldReader(cp *params.CaravelParams, num *big.Int, lbType params.LookBackType) (state.ValidatorReader, error) {
	return f.st, nil
}

type world struct {
	keys   []*fixture.Key
	idx    map[common.Address]int
	w      []int64
	total  int64
	round  int64
	cert   bool
	cur    uint32
	best   string
	v      *ucon.Voter
	mux    *event.TypeMux
	sub    *event.TypeMuxSubscription
	blocks map[string]*types.Block
	names  map[common.Hash]string
	msgs   map[string]*ucon.BlockHashWithVotes
	bls    *blsExtra // nil: plain world (no BLS, stubbed credentials)
}

func newWorld(table string, cert bool, bls bool) (*world, error) {
	ws, ok := tables[table]
	if !ok {
		return nil, fmt.Errorf("unknown weight table %q", table)
	}
	w := &world{w: ws, cert: cert, round: 1, idx: map[common.Address]int{}, mux: new(event.TypeMux), blocks: map[string]*types.Block{},
		names: map[common.Hash]string{{}: "E"}, msgs: map[string]*ucon.BlockHashWithVotes{}, cur: 1}
	if cert {
		w.round = int64(params.ACoCHTFrequency) // round % ACoCHTFrequency == 0: a certificate round
	}
	for n, k := range fixture.Keys("c03cert", len(ws))[1:] {
		w.keys = append(w.keys, k)
		w.idx[k.Addr] = n
		w.total += ws[n]
	}
	for _, n := range []string{"A", "B"} {
		b := types.NewBlockWithHeader(&types.Header{Number: big.NewInt(w.round), Extra: []byte("verif-block-" + n), GasRewards: big.NewInt(0), Subsidy: big.NewInt(0)})
		w.blocks[n] = b
		w.names[b.Hash()] = n
	}
	w.sub = w.mux.Subscribe(ucon.SendMessageEvent{}, ucon.CommitEvent{}, ucon.RoundIndexChangeEvent{}, ucon.UpdateExistedHeaderEvent{})
	if bls {
		if err := w.initBLS(table); err != nil {
			return nil, err
		}
		return w, nil
	}
	st, _ := fixture.NewMemState()
	p := &pm{st: st}
	th := uint64(w.total)
	me := w.keys[0]
	w.v = ucon.NewVoter(youdb.NewMemDatabase(), me.Priv, me.BlsSk, w.mux,
		func(pubKey *ecdsa.PublicKey, data *ucon.SortitionData, lb params.LookBackType) error {
			if len(data.Proof) == 0 || data.Proof[0] == 0 {
				return fmt.Errorf("invalid credential")
			}
			return nil
		},
		func(round *big.Int, ri uint32, step uint32, lb params.LookBackType) (bool, *ucon.StepView) {
			return true, &ucon.StepView{SortitionProof: []byte{1}, SubUsers: uint32(w.w[0]), ValidatorType: params.KindChamber, Threshold: th}
		},
		func(round *big.Int, ri uint32) (common.Hash, common.Hash, bool) {
			b, ok := w.blocks[w.best]
			if !ok {
				return common.Hash{}, common.Hash{}, false
			}
			return common.BytesToHash([]byte("prio-" + w.best)), b.Hash(), true
		},
		func(h, pr common.Hash) *types.Block {
			if n, ok := w.names[h]; ok {
				return w.blocks[n]
			}
			return nil
		},
		func(round *big.Int, addr common.Address, isP bool, lb params.LookBackType) (*big.Int, *big.Int, uint64, params.ValidatorKind, uint8, error) {
			return big.NewInt(1), big.NewInt(w.total), th, params.KindChamber, params.ValidatorOnline, nil
		},
		func(round *big.Int, kind params.ValidatorKind, lb params.LookBackType) uint64 { return uint64(len(w.w)) }, p)
	w.v.SetLookBackMgr(p)
	return w, nil
}

func (w *world) ctx(step uint32) {
	w.v.VerifUpdateContext(ucon.ContextChangeEvent{Round: big.NewInt(w.round), RoundIndex: w.cur, Step: step, Certificate: w.cert})
	if w.bls != nil && step == ucon.UConStepStart {
		// the peer follows the node's (round, index) and never votes itself (it only sees step 0)
		w.bls.peer.VerifUpdateContext(ucon.ContextChangeEvent{Round: big.NewInt(w.round), RoundIndex: w.cur, Step: step, Certificate: w.cert})
	}
}

func (w *world) voteMsg(s int, k, b string, idx uint32, cred string) *ucon.BlockHashWithVotes {
	if w.bls != nil {
		return w.voteMsgBLS(s, k, b, idx, cred)
	}
	key := fmt.Sprint(s, k, b, idx, cred)
	if m, ok := w.msgs[key]; ok {
		return m
	}
	h := w.blocks[b].Hash()
	round := big.NewInt(w.round)
	buf := make([]byte, 4)
	binary.BigEndian.PutUint32(buf, idx)
	payload := append(h.Bytes(), append(round.Bytes(), buf...)...)
	sig, err := ucon.Sign(w.keys[s].Priv, payload)
	if err != nil {
		panic(err)
	}
	proof := []byte{1}
	if cred == "bad" {
		proof = []byte{0}
	}
	m := &ucon.BlockHashWithVotes{Priority: common.BytesToHash([]byte("prio-" + b)), BlockHash: h, Round: round, RoundIndex: idx,
		Vote:      &ucon.SingleVote{VoterIdx: uint32(s), Votes: uint32(w.w[s]), Signature: sig, Proof: proof},
		Timestamp: uint64(time.Now().Unix())}
	w.msgs[key] = m
	return m
}

func (w *world) senders(vs ucon.VotesInfoForBlockHash) []int {
	out := []int{}
	for a := range vs {
		if n, ok := w.idx[a]; ok {
			out = append(out, n)
		} else {
			out = append(out, -1)
		}
	}
	sort.Ints(out)
	return out
}

// drain: see drive/voter (goroutine-count quiescence, no sleeping).
func (w *world) drain(base int, ev map[string]interface{}) error {
	deadline := time.Now().Add(20 * time.Second)
	sent := []map[string]interface{}{}
	commits := []map[string]interface{}{}
	for {
		select {
		case e := <-w.sub.Chan():
			switch d := e.Data.(type) {
			case ucon.SendMessageEvent:
				var m ucon.BlockHashWithVotes
				if err := rlp.DecodeBytes(d.Payload, &m); err != nil {
					continue
				}
				k := "?"
				for n, vt := range kinds {
					if ucon.VoteTypeToMsgCode(vt) == d.Code {
						k = n
					}
				}
				rec := map[string]interface{}{"k": k, "r": m.Round.Int64(), "i": m.RoundIndex, "b": w.names[m.BlockHash], "w": m.Vote.Votes}
				if w.bls != nil {
					ok, why := w.peerAccepts(&m, kinds[k])
					rec["peer"] = ok
					if !ok {
						rec["peererr"] = why
					}
				}
				sent = append(sent, rec)
			case ucon.CommitEvent:
				c := map[string]interface{}{"r": d.Round.Int64(), "i": d.RoundIndex, "b": w.names[d.Block.Hash()],
					"pre": w.senders(d.ChamberPrecommits), "cert": w.senders(d.ChamberCerts)}
				if w.bls != nil {
					sealed, ok, why := w.verifyCommit(d)
					c["sealed"], c["verifies"] = sealed, ok
					if !ok {
						c["err"] = why
					}
				}
				commits = append(commits, c)
			}
		default:
			if runtime.NumGoroutine() <= base {
				key := func(m map[string]interface{}) string { return fmt.Sprint(m["k"], m["r"], m["i"], m["b"]) }
				sort.SliceStable(sent, func(a, b int) bool { return key(sent[a]) < key(sent[b]) })
				ev["sent"], ev["commits"] = sent, commits
				return nil
			}
			if time.Now().After(deadline) {
				return fmt.Errorf("event posts did not quiesce (goroutines %d > %d)", runtime.NumGoroutine(), base)
			}
			runtime.Gosched()
		}
	}
}

func (w *world) obs() map[string]interface{} {
	st := w.v.VerifState()
	cnt := map[string][]uint32{}
	for _, k := range kindOrder {
		row := []uint32{}
		for _, b := range []string{"A", "B"} {
			n, _ := w.v.VerifTally(w.round, w.cur, kinds[k], w.blocks[b].Hash())
			row = append(row, n)
		}
		cnt[k] = row
	}
	return map[string]interface{}{"i": st.RoundIndex, "step": st.Step, "pc": st.Precommitted, "cd": st.Certificated, "cm": st.Committed, "cnt": cnt}
}

func (w *world) step(op Op) (map[string]interface{}, error) {
	ev := map[string]interface{}{"ev": op.Op}
	base := runtime.NumGoroutine()
	func() {
		defer func() {
			if r := recover(); r != nil {
				ev["panic"] = fmt.Sprint(r)
			}
		}()
		switch op.Op {
		case "Step":
			ev["st"], ev["best"] = op.St, op.Best
			w.best = op.Best
			w.ctx(op.St)
		case "NextIdx":
			w.cur++
			w.ctx(ucon.UConStepStart)
		case "Recv":
			as := op.As
			if as == "" {
				as = "judged"
			}
			ev["s"], ev["k"], ev["b"], ev["i"], ev["cred"], ev["as"] = op.S, op.K, op.B, op.I, op.Cred, as
			status := ucon.VerifMsgSame
			if as == "judged" {
				if op.I < w.cur {
					status = ucon.VerifMsgOldRoundIndex
				} else if op.I > w.cur {
					status = ucon.VerifMsgFuture
				}
			}
			err, invalid := w.v.VerifProcessVote(w.voteMsg(op.S, op.K, op.B, op.I, op.Cred), kinds[op.K], w.keys[op.S].Addr, status)
			if err != nil || invalid {
				ev["rej"] = fmt.Sprint(err)
			}
		default:
			panic("unknown op " + op.Op)
		}
	}()
	if err := w.drain(base, ev); err != nil {
		return nil, err
	}
	ev["obs"] = w.obs()
	return ev, nil
}

func run(env *drive.Env) error {
	logging.Root().SetHandler(logging.DiscardHandler())
	params.InitNetworkId(params.NetworkIdForTestCase)
	var beh []Op
	for env.Next(&beh) {
		if len(beh) == 0 || beh[0].Op != "Cfg" {
			return fmt.Errorf("behaviour %d does not start with Cfg", env.T)
		}
		table := beh[0].W
		if table == "" {
			table = "g"
		}
		w, err := newWorld(table, beh[0].Cert, beh[0].Bls)
		if err != nil {
			return err
		}
		first := map[string]interface{}{"ev": "Cfg", "cert": beh[0].Cert, "T": w.total, "w": w.w, "round": w.round, "bls": beh[0].Bls}
		base := runtime.NumGoroutine()
		w.ctx(ucon.UConStepStart)
		if err := w.drain(base, first); err != nil {
			return err
		}
		first["obs"] = w.obs()
		env.Emit(first)
		for _, op := range beh[1:] {
			ev, err := w.step(op)
			if err != nil {
				return fmt.Errorf("behaviour %d: %v", env.T, err)
			}
			env.Emit(ev)
		}
		w.sub.Unsubscribe()
		beh = nil
	}
	return nil
}
