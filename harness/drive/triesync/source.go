package triesync

import (
	"bytes"
	"encoding/hex"
	"fmt"
	"math/big"
	"math/rand"

	"github.com/youchainhq/go-youchain/common"
	"github.com/youchainhq/go-youchain/core/state"
	"github.com/youchainhq/go-youchain/crypto/sha3"
	"github.com/youchainhq/go-youchain/params"
	"github.com/youchainhq/go-youchain/rlp"
	"github.com/youchainhq/go-youchain/trie"
	"github.com/youchainhq/go-youchain/youdb"
	"verif/harness/fixture"
)

// A source is a real trie or a real state, fully committed to a memory database, together with the DAG of its
// database entries (hashed trie nodes, code blobs, delegation blobs) extracted by walking it with the node
// iterator -- independently of trie.Sync.  Node ids are assigned in order of first visit; id 1 is the root.
type source struct {
	shape   string
	isState bool
	disk    *youdb.MemDatabase
	root    common.Hash
	hashes  []common.Hash // id-1 -> hash
	blobs   [][]byte      // id-1 -> database value
	kids    [][]int       // id-1 -> sorted child ids
	raw     []bool        // id-1 -> raw entry (code / delegations), stored as is
	idOf    map[common.Hash]int
	digest  string // digest of the full content (every leaf, code and delegation blob)
}

var (
	emptyRoot = common.HexToHash("56e81f171bcc55a6ff8345e692c0f86e5b48e01b996cadc001622fb5e363b421")
	emptyCode = keccak(nil)
)

func keccak(b []byte) []byte {
	h := sha3.NewKeccak256()
	h.Write(b)
	return h.Sum(nil)
}

// Shapes lists the source shapes built for every seed, small ones first.
var Shapes = []string{"t_tiny", "t_chain", "t_shared", "t_embed", "s_store", "s_small", "s_shared", "s_deleg", "v_trie", "t_rand", "s_rand"}

func big40(tag byte, r *rand.Rand) []byte {
	b := make([]byte, 40)
	r.Read(b)
	b[0] = tag
	return b
}

func buildPlain(shape string, r *rand.Rand) (*youdb.MemDatabase, common.Hash) {
	disk := youdb.NewMemDatabase()
	db := trie.NewDatabase(disk)
	t, _ := trie.New(common.Hash{}, db)
	switch shape {
	case "t_tiny": // a branch with two hashed leaves
		t.Update([]byte{0x10, byte(r.Intn(256))}, big40(1, r))
		t.Update([]byte{0x20, byte(r.Intn(256))}, big40(2, r))
	case "t_chain": // extension -> branch -> leaves, one key a nibble prefix of another
		p := byte(r.Intn(256))
		t.Update([]byte{p, 0x12}, big40(1, r))
		t.Update([]byte{p, 0x12, 0x34}, big40(2, r))
		t.Update([]byte{p, 0x13}, big40(3, r))
	case "t_shared": // two identical sub-tries (the same child hash twice in one branch) plus a third child
		v1, v2 := big40(1, r), big40(2, r)
		for _, top := range []byte{0x10, 0x20} {
			t.Update([]byte{top, 0xaa, 0x01}, v1)
			t.Update([]byte{top, 0xaa, 0x02}, v2)
		}
		t.Update([]byte{0x30, 0x01}, v1)
	case "t_embed": // small values embedded in their parents next to hashed nodes
		t.Update([]byte{0x11}, []byte{1})
		t.Update([]byte{0x12}, []byte{2})
		t.Update([]byte{0x21, 0x01}, big40(1, r))
		t.Update([]byte{0x21, 0x02}, []byte{3})
		t.Update([]byte{0x31}, big40(2, r))
	case "t_rand":
		n := 8 + r.Intn(10)
		for i := 0; i < n; i++ {
			k := make([]byte, 1+r.Intn(3))
			r.Read(k)
			k[0] &= 0x33
			if r.Intn(3) == 0 {
				t.Update(k, []byte{byte(i + 1)})
			} else {
				t.Update(k, big40(byte(i), r))
			}
		}
	default:
		panic("unknown plain shape " + shape)
	}
	root, err := t.Commit(nil)
	if err != nil {
		panic(err)
	}
	if err := db.Commit(root, false); err != nil {
		panic(err)
	}
	return disk, root
}

func addr(i int) common.Address { return common.BytesToAddress([]byte{0xac, byte(i)}) }

func buildState(shape string, r *rand.Rand) (*youdb.MemDatabase, common.Hash, common.Hash) {
	disk := youdb.NewMemDatabase()
	sdb := state.NewDatabase(disk)
	st, err := state.New(common.Hash{}, common.Hash{}, common.Hash{}, sdb)
	if err != nil {
		panic(err)
	}
	slot := func(i int) common.Hash { return common.BigToHash(big.NewInt(int64(i))) }
	word := func(r *rand.Rand) common.Hash { var h common.Hash; r.Read(h[:]); h[0] |= 1; return h }
	mkVal := func(i int) *state.Validator {
		k := fixture.Keys("sync-val", 2)[i]
		tok := new(big.Int).Mul(big.NewInt(3), fixture.ScaleStakeUnit())
		v := st.CreateValidator(fmt.Sprintf("v%d", i), k.Addr, k.Addr, params.RoleChancellor, k.PubComp, k.BlsPkB, tok, params.YOUToStake(tok),
			params.AcceptDelegation, 1000, 1000, params.ValidatorOffline)
		if v == nil {
			panic("validator refused")
		}
		return v
	}
	switch shape {
	case "s_store": // one plain account; one account with storage but NO code
		st.AddBalance(addr(1), big.NewInt(int64(1+r.Intn(1000))))
		st.AddBalance(addr(2), big.NewInt(5))
		st.SetState(addr(2), slot(1), word(r))
	case "s_small": // one plain account; one contract with code and one storage slot
		st.AddBalance(addr(1), big.NewInt(int64(1+r.Intn(1000))))
		st.AddBalance(addr(2), big.NewInt(7))
		st.SetCode(addr(2), []byte{0x60, byte(r.Intn(256)), 0x00})
		st.SetState(addr(2), slot(1), word(r))
	case "s_shared": // two contracts with the same code and the same storage (shared storage trie and shared code blob)
		code := []byte{0x60, byte(r.Intn(256)), 0x01}
		w1, w2 := word(r), word(r)
		for _, a := range []int{1, 2} {
			st.AddBalance(addr(a), big.NewInt(int64(a)))
			st.SetCode(addr(a), code)
			st.SetState(addr(a), slot(1), w1)
			st.SetState(addr(a), slot(2), w2)
		}
		st.AddBalance(addr(3), big.NewInt(3))
	case "s_deleg", "v_trie": // a validator, two delegators with the same delegation list (shared blob), a contract
		v := mkVal(1)
		unit := fixture.ScaleStakeUnit()
		for _, a := range []int{1, 2} {
			st.AddBalance(addr(a), big.NewInt(1000))
			v, _, _, _ = st.UpdateDelegation(addr(a), v, new(big.Int).Mul(big.NewInt(int64(a)), unit))
		}
		st.AddBalance(addr(3), big.NewInt(int64(1+r.Intn(100))))
		st.SetCode(addr(3), []byte{0x60, byte(r.Intn(256)), 0x02})
		st.SetState(addr(3), slot(1), word(r))
	case "s_rand":
		n := 6 + r.Intn(8)
		var v *state.Validator
		if r.Intn(2) == 0 {
			v = mkVal(1)
		}
		codes := [][]byte{{0x60, 0x01, byte(r.Intn(256))}, {0x60, 0x02, byte(r.Intn(256))}}
		for a := 1; a <= n; a++ {
			st.AddBalance(addr(a), big.NewInt(int64(1000+r.Intn(1000))))
			if r.Intn(3) == 0 {
				st.SetCode(addr(a), codes[r.Intn(2)])
			}
			for s := 0; s < r.Intn(4); s++ {
				st.SetState(addr(a), slot(1+r.Intn(3)), slot(1+r.Intn(2)*1000000))
			}
			if v != nil && r.Intn(3) == 0 {
				v, _, _, _ = st.UpdateDelegation(addr(a), v, fixture.ScaleStakeUnit())
			}
		}
	default:
		panic("unknown state shape " + shape)
	}
	root, valRoot, _, err := st.Commit(true)
	if err != nil {
		panic(err)
	}
	if err := sdb.TrieDB().Commit(root, false); err != nil {
		panic(err)
	}
	if err := sdb.TrieDB().Commit(valRoot, false); err != nil {
		panic(err)
	}
	return disk, root, valRoot
}

// walk visits the whole trie (and, for a state, every storage trie, code blob and delegation blob) stored in db.
// visit(hash, parent, raw) is called for every database entry; leaf(kind, key, value) for every piece of content.
func walk(db *youdb.MemDatabase, root common.Hash, isState bool, visit func(h, parent common.Hash, raw bool), leaf func(kind byte, k1, k2, v []byte)) (err error) {
	defer func() {
		if p := recover(); p != nil {
			err = fmt.Errorf("panic: %v", p)
		}
	}()
	tdb := trie.NewDatabase(db)
	var walkTrie func(root, extParent common.Hash, account bool, owner []byte) error
	walkTrie = func(root, extParent common.Hash, account bool, owner []byte) error {
		if root == emptyRoot || root == (common.Hash{}) {
			return nil
		}
		t, err := trie.New(root, tdb)
		if err != nil {
			return err
		}
		it := t.NodeIterator(nil)
		for it.Next(true) {
			if h := it.Hash(); h != (common.Hash{}) {
				p := it.Parent()
				if p == (common.Hash{}) {
					p = extParent
				}
				visit(h, p, false)
			}
			if !it.Leaf() {
				continue
			}
			if !account {
				leaf('S', owner, it.LeafKey(), it.LeafBlob())
				continue
			}
			leaf('A', nil, it.LeafKey(), it.LeafBlob())
			var acc state.Account
			if err := rlp.DecodeBytes(it.LeafBlob(), &acc); err != nil {
				return fmt.Errorf("account %x: %v", it.LeafKey(), err)
			}
			parent := it.Parent()
			if err := walkTrie(acc.Root, parent, false, common.CopyBytes(it.LeafKey())); err != nil {
				return err
			}
			for _, ref := range [][]byte{acc.CodeHash, acc.DelegationsHash} {
				if len(ref) == 0 || bytes.Equal(ref, emptyCode) {
					continue
				}
				blob, err := db.Get(ref)
				if err != nil {
					return fmt.Errorf("blob %x of account %x: %v", ref, it.LeafKey(), err)
				}
				if !bytes.Equal(keccak(blob), ref) {
					return fmt.Errorf("blob %x of account %x does not hash to its key", ref, it.LeafKey())
				}
				visit(common.BytesToHash(ref), parent, true)
				leaf('B', it.LeafKey(), ref, blob)
			}
		}
		return it.Error()
	}
	return walkTrie(root, common.Hash{}, isState, nil)
}

// digestOf walks db and returns (digest of the content, error text of the integrity walk).
func digestOf(db *youdb.MemDatabase, root common.Hash, isState bool) (string, string) {
	h := sha3.NewKeccak256()
	err := walk(db, root, isState, func(common.Hash, common.Hash, bool) {}, func(kind byte, k1, k2, v []byte) {
		h.Write([]byte{kind})
		for _, b := range [][]byte{k1, k2, v} {
			h.Write([]byte{byte(len(b) >> 8), byte(len(b))})
			h.Write(b)
		}
	})
	if err != nil {
		return "", err.Error()
	}
	return hex.EncodeToString(h.Sum(nil)[:12]), "ok"
}

func buildSource(shape string, seed int64) *source {
	r := rand.New(rand.NewSource(seed*1000003 + int64(len(shape))*7919 + int64(shape[len(shape)-1])))
	s := &source{shape: shape, idOf: map[common.Hash]int{}}
	switch {
	case shape == "v_trie":
		disk, _, valRoot := buildState(shape, r)
		s.disk, s.root = disk, valRoot
	case shape[0] == 's':
		disk, root, _ := buildState(shape, r)
		s.disk, s.root, s.isState = disk, root, true
	default:
		s.disk, s.root = buildPlain(shape, r)
	}
	kidset := map[int]map[int]bool{}
	id := func(h common.Hash, raw bool) int {
		if i, ok := s.idOf[h]; ok {
			return i
		}
		blob, err := s.disk.Get(h[:])
		if err != nil {
			panic(fmt.Sprintf("source %s misses %x", shape, h))
		}
		s.hashes = append(s.hashes, h)
		s.blobs = append(s.blobs, blob)
		s.raw = append(s.raw, raw)
		s.idOf[h] = len(s.hashes)
		kidset[len(s.hashes)] = map[int]bool{}
		return len(s.hashes)
	}
	err := walk(s.disk, s.root, s.isState, func(h, parent common.Hash, raw bool) {
		// the iterator visits a parent before its children, so the parent already has an id
		c := id(h, raw)
		if parent != (common.Hash{}) {
			kidset[s.idOf[parent]][c] = true
		}
	}, func(byte, []byte, []byte, []byte) {})
	if err != nil {
		panic(fmt.Sprintf("source %s: %v", shape, err))
	}
	for i := 1; i <= len(s.hashes); i++ {
		ks := []int{}
		for c := 1; c <= len(s.hashes); c++ {
			if kidset[i][c] {
				ks = append(ks, c)
			}
		}
		s.kids = append(s.kids, ks)
	}
	s.digest, _ = digestOf(s.disk, s.root, s.isState)
	return s
}

// ---------------------------------------------------------------- exported view (used by drive/triesyncnet)

// Source is the exported name of a built source.
type Source = source

// BuildSource builds the source of a shape for a seed.
func BuildSource(shape string, seed int64) *Source { return buildSource(shape, seed) }

// DigestOf walks db and returns (content digest, "ok" or the error of the integrity walk).
func DigestOf(db *youdb.MemDatabase, root common.Hash, isState bool) (string, string) {
	return digestOf(db, root, isState)
}

func (s *source) Shape() string          { return s.shape }
func (s *source) IsState() bool          { return s.isState }
func (s *source) Root() common.Hash      { return s.root }
func (s *source) Size() int              { return len(s.hashes) }
func (s *source) Kids() [][]int          { return s.kids }
func (s *source) Blob(id int) []byte     { return s.blobs[id-1] }
func (s *source) IdOf(h common.Hash) int { return s.idOf[h] }
func (s *source) Digest() string         { return s.digest }
func (s *source) RawIds() []int {
	raw := []int{}
	for id, r := range s.raw {
		if r {
			raw = append(raw, id+1)
		}
	}
	return raw
}
