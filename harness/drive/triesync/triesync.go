// Package triesync drives schedules of spec/TrieSync.tla through the real trie.Sync / state.NewStateSync (C19).
//
// mode=extract : build the real sources of this seed and write their node DAGs (one "Dag" event per shape).
// default      : replay behaviours {"shape", "ops"} against a fresh destination database; node ids of the behaviour
//                are mapped back to the real hashes and blobs of the source.  Deliveries are hashed by the driver
//                exactly as you/downloader trieSync.processNodeData does (hash := keccak256(blob)).
package triesync

import (
	"fmt"
	"sort"

	"github.com/youchainhq/go-youchain/common"
	"github.com/youchainhq/go-youchain/core/state"
	"github.com/youchainhq/go-youchain/trie"
	"github.com/youchainhq/go-youchain/youdb"
	"verif/harness/drive"
)

func init() { drive.Register("triesync", Run) }

// Item is one delivered blob: node id and corruption code (0 = the genuine blob).
type Item struct {
	N int `json:"n"`
	C int `json:"c"`
}

// Op is one abstract action of a schedule.
type Op struct {
	Op    string `json:"op"`
	Max   int    `json:"max"`
	Batch []Item `json:"batch,omitempty"`
	J     int    `json:"j"`
}

// Beh is one schedule for one source shape.
type Beh struct {
	Shape string `json:"shape"`
	Dag   int    `json:"dag"`
	Ops   []Op   `json:"ops"`
}

// Deliverer abstracts how a blob reaches the scheduler; the default hashes like processNodeData and calls Process.
type Deliverer func(sched *trie.Sync, blobs [][]byte) (committed bool, idx int, err error)

// NewDeliverer may be replaced by a driver variant that goes through you/downloader (see cmd/triesyncdl).
var NewDeliverer = func() Deliverer {
	return func(sched *trie.Sync, blobs [][]byte) (bool, int, error) {
		res := make([]trie.SyncResult, len(blobs))
		for i, b := range blobs {
			res[i] = trie.SyncResult{Hash: common.BytesToHash(keccak(b)), Data: b}
		}
		return sched.Process(res)
	}
}

// Committer flushes the scheduler's membatch into the destination.  The default calls Sync.Commit on the database itself;
// cmd/triesyncdl replaces it by you/downloader trieSync.commit (batch + the written count it consumes).  It returns the count
// when the path exposes one (-1 otherwise).
var Committer = func(sched *trie.Sync, dest *youdb.MemDatabase) (int, error) { return sched.Commit(dest) }

// OnNewSync is told the destination whenever a Sync object is created (used by cmd/triesyncdl).
var OnNewSync = func(dest *youdb.MemDatabase) {}

// PerItem makes the driver deliver every item of a batch in its own call (the downloader's processNodeData does).
var PerItem = false

type world struct {
	src     *source
	dest    *youdb.MemDatabase
	sched   *trie.Sync
	deliver Deliverer
	flight  map[common.Hash]bool // handed out by Missing and not answered yet (the caller's bookkeeping, as in triesync.go)
}

func (w *world) newSync() {
	if w.src.isState {
		w.sched = state.NewStateSync(w.src.root, w.dest)
	} else {
		w.sched = trie.NewSync(w.src.root, w.dest, nil)
	}
	OnNewSync(w.dest)
	w.deliver = NewDeliverer()
	w.flight = map[common.Hash]bool{}
}

func corrupt(blob []byte, c int) []byte {
	b := common.CopyBytes(blob)
	switch c {
	case 0:
	case 1:
		b[0] ^= 0x01
	case 2:
		b[len(b)-1] ^= 0x80
	case 3:
		b = b[:len(b)-1]
	case 4:
		b = append(b, 0x00)
	default:
		b = []byte{}
	}
	return b
}

func (w *world) ids(hs []common.Hash) []int {
	out := []int{}
	for _, h := range hs {
		out = append(out, w.src.idOf[h]) // 0 for a hash that is not a node of the source
	}
	sort.Ints(out)
	return out
}

// destIds lists the source node ids whose key is present in the destination database (0 for a foreign key).
func (w *world) destIds() []int {
	out := []int{}
	for _, k := range w.dest.Keys() {
		out = append(out, w.src.idOf[common.BytesToHash(k)])
	}
	sort.Ints(out)
	return out
}

func errClass(err error) string {
	switch err {
	case nil:
		return ""
	case trie.ErrNotRequested:
		return "notreq"
	case trie.ErrAlreadyProcessed:
		return "already"
	}
	return "other: " + err.Error()
}

// failingPutter applies writes to the destination one at a time and fails after `left` of them (a crash mid-commit).
type failingPutter struct {
	db   *youdb.MemDatabase
	left int
}

func (p *failingPutter) Put(k, v []byte) error {
	if p.left == 0 {
		return fmt.Errorf("crash")
	}
	p.left--
	return p.db.Put(k, v)
}

// verify adds the completion checks: integrity walk of the destination, content digest, source digest.
func (w *world) verify(ev map[string]interface{}) {
	dg, walkres := digestOf(w.dest, w.src.root, w.src.isState)
	ev["walk"] = walkres
	ev["dig"] = dg
	ev["srcdig"] = w.src.digest
	// root equality: the destination holds a decodable node under the source root
	if _, err := trie.New(w.src.root, trie.NewDatabase(w.dest)); err != nil {
		ev["rooterr"] = err.Error()
	}
}

func (w *world) apply(op *Op, emit func(map[string]interface{})) {
	ev := map[string]interface{}{"ev": op.Op, "args": op}
	defer func() {
		if r := recover(); r != nil {
			ev["panic"] = fmt.Sprint(r)
			emit(ev)
		}
	}()
	observeDest := false
	switch op.Op {
	case "Missing":
		hs := w.sched.Missing(op.Max)
		for _, h := range hs {
			w.flight[h] = true
		}
		ev["res"] = w.ids(hs)
	case "Process":
		batches := [][]Item{op.Batch}
		if PerItem {
			batches = nil
			for _, it := range op.Batch {
				batches = append(batches, []Item{it})
			}
		}
		for bi, batch := range batches {
			if bi > 0 {
				ev["pending"] = w.sched.Pending()
				emit(ev)
				ev = map[string]interface{}{"ev": op.Op}
			}
			ev["args"] = Op{Op: "Process", Batch: batch}
			var blobs [][]byte
			for _, it := range batch {
				blobs = append(blobs, corrupt(w.src.blobs[it.N-1], it.C))
			}
			committed, idx, err := w.deliver(w.sched, blobs)
			// the caller's bookkeeping: items up to and including the failing one were consumed; a corrupted answer
			// leaves the request open (triesync.go re-queues unfulfilled tasks)
			for i, it := range batch {
				if (err == nil || i <= idx) && it.C == 0 {
					delete(w.flight, w.src.hashes[it.N-1])
				}
			}
			ev["committed"] = committed
			ev["err"] = errClass(err)
			ev["errIdx"] = -1
			if err != nil {
				ev["errIdx"] = idx
			}
		}
	case "Commit":
		n, err := Committer(w.sched, w.dest)
		if n >= 0 {
			ev["written"] = n
		}
		if err != nil {
			ev["err"] = err.Error()
		}
		observeDest = true
	case "CommitFail":
		// the Putter fails at write j+1; the Sync object lives on and the caller retries later
		n, err := w.sched.Commit(&failingPutter{w.dest, op.J})
		ev["written"] = n
		if err == nil {
			ev["err"] = "the failing putter was not reached"
		}
		observeDest = true
	case "CommitCrash":
		n, _ := w.sched.Commit(&failingPutter{w.dest, op.J})
		ev["written"] = n
		w.newSync() // the sync object is abandoned; a new one starts on the same destination
		observeDest = true
	case "Interrupt":
		w.newSync()
		observeDest = true
	case "Finish":
		// an honest responder answers everything that is asked until nothing is pending
		rounds := 0
		for w.sched.Pending() > 0 && rounds < 10000 {
			rounds++
			for _, h := range w.sched.Missing(0) {
				w.flight[h] = true
			}
			var asked []common.Hash
			for h := range w.flight {
				asked = append(asked, h)
			}
			sort.Slice(asked, func(i, j int) bool { return w.src.idOf[asked[i]] < w.src.idOf[asked[j]] })
			for _, h := range asked {
				delete(w.flight, h)
				id := w.src.idOf[h]
				if id == 0 {
					ev["err"] = fmt.Sprintf("asked for %x which the source does not have", h)
					rounds = 10000
					break
				}
				w.deliver(w.sched, [][]byte{w.src.blobs[id-1]})
			}
			Committer(w.sched, w.dest)
		}
		Committer(w.sched, w.dest)
		ev["rounds"] = rounds
		observeDest = true
	default:
		panic("unknown op " + op.Op)
	}
	ev["pending"] = w.sched.Pending()
	if observeDest {
		ev["dest"] = w.destIds()
		if w.sched.Pending() == 0 {
			w.verify(ev)
		}
	}
	emit(ev)
}

// Run is the driver entry point (also registered as "triesyncdl" by cmd/triesyncdl).
func Run(env *drive.Env) error {
	cache := map[string]*source{}
	get := func(shape string) *source {
		if s, ok := cache[shape]; ok {
			return s
		}
		s := buildSource(shape, env.Seed)
		cache[shape] = s
		return s
	}
	dagEvent := func(s *source, i int) map[string]interface{} {
		raw := []int{}
		for id, r := range s.raw {
			if r {
				raw = append(raw, id+1)
			}
		}
		return map[string]interface{}{"ev": "Dag", "dag": i, "shape": s.shape, "size": len(s.hashes), "kids": s.kids, "raw": raw,
			"state": s.isState, "root": s.root.Hex()}
	}
	if env.Opt("mode", "") == "extract" {
		env.Begin(0)
		for i, shape := range Shapes {
			env.Emit(dagEvent(get(shape), i+1))
		}
		return nil
	}
	var beh Beh
	for env.Next(&beh) {
		src := get(beh.Shape)
		w := &world{src: src, dest: youdb.NewMemDatabase()}
		w.newSync()
		// the DAG the schedule was generated for must be the DAG of the source rebuilt here (binding check)
		ev := dagEvent(src, beh.Dag)
		ev["ev"] = "Begin"
		ev["pending"] = w.sched.Pending()
		env.Emit(ev)
		for i := range beh.Ops {
			w.apply(&beh.Ops[i], env.Emit)
		}
		beh = Beh{}
	}
	return nil
}
