package chainimport

import (
	"errors"
	"math/big"
	"time"

	"github.com/youchainhq/go-youchain/consensus"
	"github.com/youchainhq/go-youchain/consensus/solo"
	"github.com/youchainhq/go-youchain/core/state"
	"github.com/youchainhq/go-youchain/core/types"
	"github.com/youchainhq/go-youchain/params"
)

// uconLike is the solo engine with the HEADER DISPATCH of ucon's Server.verifyHeader / verifyCascadingFields
// (consensus/ucon/consensus.go): ErrFutureBlock for a timestamp in the future, ErrUnknownAncestor when the parent header is
// neither in the batch nor in the database, ErrOlderBlockTime, ErrExistCanonical when another block is canonical at the
// header's height -- and no seal rules.  It implements consensus.Ucon, so that core.BlockChain takes the paths it takes
// with the real engine: insertSidechain, verifyAllSideChainBlocks (which executes every side-chain block), the re-import
// of a longer side chain.  Look-back distances are 2 blocks, so that verifyAllSideChainBlocks uses both its "look-back
// block is canonical" and its "look-back block is in the side chain" branches.
type uconLike struct {
	*solo.Solo
}

func newUconLike() *uconLike { return &uconLike{solo.NewSolo()} }

const allowedFuture = 10 * time.Second

func (u *uconLike) verifyHeader(chain consensus.ChainReader, header *types.Header, parents []*types.Header) error {
	if header.Number == nil {
		return errors.New("unknown block")
	}
	if header.Time > uint64(time.Now().Add(allowedFuture).Unix()) {
		return consensus.ErrFutureBlock
	}
	number := header.Number.Uint64()
	if number == 0 {
		return nil
	}
	var parent *types.Header
	if len(parents) > 0 {
		parent = parents[len(parents)-1]
	} else {
		parent = chain.GetHeader(header.ParentHash, number-1)
	}
	if parent == nil || parent.Number.Uint64() != number-1 || parent.Hash() != header.ParentHash {
		return consensus.ErrUnknownAncestor
	}
	if header.Time <= parent.Time {
		return consensus.ErrOlderBlockTime
	}
	if local := chain.GetHeaderByNumber(number); local != nil && header.Hash() != local.Hash() {
		return consensus.ErrExistCanonical
	}
	return nil
}

func (u *uconLike) VerifyHeader(chain consensus.ChainReader, header *types.Header, seal bool) error {
	return u.verifyHeader(chain, header, nil)
}

func (u *uconLike) VerifyHeaders(chain consensus.ChainReader, headers []*types.Header, seals []bool) (chan<- struct{}, <-chan error) {
	abort := make(chan struct{}, 1)
	results := make(chan error, len(headers))
	go func() {
		for i, header := range headers {
			err := u.verifyHeader(chain, header, headers[:i])
			select {
			case <-abort:
				return
			case results <- err:
			}
		}
	}()
	return abort, results
}

func (u *uconLike) VerifySeal(chain consensus.ChainReader, header *types.Header) error { return nil }

// ---- consensus.Ucon

func (u *uconLike) HandleMsg(data []byte, receivedAt time.Time) error { return nil }
func (u *uconLike) NewChainHead(block *types.Block)                   {}

func (u *uconLike) GetLookBackBlockNumber(cp *params.CaravelParams, num *big.Int, lbType params.LookBackType) *big.Int {
	lb := new(big.Int).Sub(num, big.NewInt(2))
	if lb.Sign() < 0 {
		lb.SetInt64(0)
	}
	return lb
}

func (u *uconLike) VerifySideChainHeader(cp *params.CaravelParams, seedHeader *types.Header, vldReader state.ValidatorReader,
	certHeader *types.Header, certVldReader state.ValidatorReader, block *types.Block, parents []*types.Block) error {
	if len(parents) == 0 {
		return errors.New("no parents")
	}
	p := parents[len(parents)-1].Header()
	h := block.Header()
	if h.Number == nil || h.Number.Uint64() != p.Number.Uint64()+1 || h.ParentHash != p.Hash() {
		return consensus.ErrUnknownAncestor
	}
	return nil
}

func (u *uconLike) VerifyAcHeader(chain consensus.ChainReader, acHeader *types.Header, verifiedAcParents []*types.Header) error {
	return errors.New("not supported")
}

var _ consensus.Ucon = (*uconLike)(nil)
