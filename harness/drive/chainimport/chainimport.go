// Package chainimport drives spec/ChainImport.tla through the real core.BlockChain (C11).
//
// A behaviour is a sequence of InsertChain calls, each a list of block names of the fixture's tree
// (G - A1(t1) - A2(t2) - A3, G - B1(t1) - B2 - B3(t3), X = invalid child of A1), e.g. [["A1","A2"],["B1"],["X"]].
// The blocks are REAL blocks built with the solo engine.  The chain under test runs on a recording youdb.Database that
// snapshots the key/value map after every Put / Delete / Batch.Write.  For every call the driver
//   - records the writes (classified by key family) and the observation of the chain after the call ("import");
//   - builds the reference: a node that never crashed imports the same calls and then one further valid block F(head) ("ref");
//   - for EVERY snapshot taken during the call (= every point where the process can die) opens core.NewBlockChain on a frozen
//     copy ("restart": must succeed; observation of the restarted chain), imports the interrupted call again and then the
//     further block, and records the observation ("recovered").
// Observation = head, canonical block per height, transaction lookups, availability of the head state -- read through
// CurrentBlock, GetHeaderByNumber, State(), rawdb.ReadTxLookupEntry -- with hashes translated to block names.
package chainimport

import (
	"bytes"
	"encoding/json"
	"fmt"
	"math/big"
	"sort"
	"strings"
	"sync"

	"github.com/youchainhq/go-youchain/common"
	"github.com/youchainhq/go-youchain/consensus"
	"github.com/youchainhq/go-youchain/consensus/solo"
	"github.com/youchainhq/go-youchain/core"
	"github.com/youchainhq/go-youchain/core/rawdb"
	"github.com/youchainhq/go-youchain/core/types"
	"github.com/youchainhq/go-youchain/core/vm"
	"github.com/youchainhq/go-youchain/crypto"
	"github.com/youchainhq/go-youchain/event"
	"github.com/youchainhq/go-youchain/local"
	"github.com/youchainhq/go-youchain/logging"
	"github.com/youchainhq/go-youchain/params"
	"github.com/youchainhq/go-youchain/youdb"
	"verif/harness/drive"
)

func init() { drive.Register("chainimport", run) }

// ---------------------------------------------------------------- recording database

type write struct {
	kind string                 // classified write, as a label
	rec  map[string]interface{} // the same, structured for the conformance spec
	snap map[string][]byte      // database content after the write
}

type recDB struct {
	mu     sync.Mutex
	m      map[string][]byte
	rec    bool
	writes []write
	fx     *fixtureT
}

type notFound struct{}

func (notFound) Error() string { return "not found" }

func newRec(fx *fixtureT) *recDB { return &recDB{m: map[string][]byte{}, fx: fx} }

func fromSnap(fx *fixtureT, s map[string][]byte) *recDB {
	d := newRec(fx)
	for k, v := range s {
		d.m[k] = v
	}
	return d
}

func (d *recDB) copyMap() map[string][]byte {
	c := make(map[string][]byte, len(d.m))
	for k, v := range d.m {
		c[k] = v
	}
	return c
}

func (d *recDB) note(kind string, rec map[string]interface{}) {
	if d.rec {
		d.writes = append(d.writes, write{kind, rec, d.copyMap()})
	}
}

// single classifies a Put/Delete outside a batch.
func (d *recDB) single(k, v []byte, del bool) {
	kind := d.fx.classify(k, v, del)
	rec := map[string]interface{}{"k": kind, "b": "", "t": "", "txs": []string{}}
	if i := strings.IndexByte(kind, ':'); i > 0 {
		rec["k"] = kind[:i]
		rest := kind[i+1:]
		if kind[:i] == "txl" {
			j := strings.IndexByte(rest, ':')
			rec["t"], rec["b"] = rest[:j], rest[j+1:]
		} else if kind[:i] == "deltx" {
			rec["txs"] = []string{rest}
		} else {
			rec["b"] = rest
		}
	}
	d.note(kind, rec)
}

func (d *recDB) Put(k, v []byte) error {
	d.mu.Lock()
	defer d.mu.Unlock()
	d.m[string(k)] = common.CopyBytes(v)
	d.single(k, v, false)
	return nil
}

func (d *recDB) Delete(k []byte) error {
	d.mu.Lock()
	defer d.mu.Unlock()
	delete(d.m, string(k))
	d.single(k, nil, true)
	return nil
}

func (d *recDB) Get(k []byte) ([]byte, error) {
	d.mu.Lock()
	defer d.mu.Unlock()
	if v, ok := d.m[string(k)]; ok {
		return common.CopyBytes(v), nil
	}
	return nil, notFound{}
}

func (d *recDB) Has(k []byte) (bool, error) {
	d.mu.Lock()
	defer d.mu.Unlock()
	_, ok := d.m[string(k)]
	return ok, nil
}

func (d *recDB) Close() {}

func (d *recDB) NewBatch() youdb.Batch { return &recBatch{d: d} }

type kv struct {
	k   string
	v   []byte
	del bool
}

type recBatch struct {
	d    *recDB
	ops  []kv
	size int
}

func (b *recBatch) Put(k, v []byte) error {
	b.ops = append(b.ops, kv{string(k), common.CopyBytes(v), false})
	b.size += len(v)
	return nil
}

func (b *recBatch) Delete(k []byte) error {
	b.ops = append(b.ops, kv{string(k), nil, true})
	b.size++
	return nil
}

func (b *recBatch) ValueSize() int { return b.size }

func (b *recBatch) Write() error {
	b.d.mu.Lock()
	defer b.d.mu.Unlock()
	if len(b.ops) == 0 {
		return nil // an empty batch does not touch the database: no crash point
	}
	kinds := map[string]bool{}
	for _, o := range b.ops {
		if o.del {
			delete(b.d.m, o.k)
		} else {
			b.d.m[o.k] = o.v
		}
		kinds[b.d.fx.classify([]byte(o.k), o.v, o.del)] = true
	}
	var ks []string
	for k := range kinds {
		ks = append(ks, k)
	}
	sort.Strings(ks)
	kind := "batch["
	for i, k := range ks {
		if i > 0 {
			kind += ","
		}
		kind += k
	}
	// structured: a batch of trie nodes ("trie"), of lookup deletions ("deltx"), or receipts + lookups of one block ("batch")
	rec := map[string]interface{}{"k": "other", "b": "", "t": "", "txs": []string{}}
	txs := []string{}
	blk, dels, puts, tries := "", 0, 0, 0
	for _, k := range ks {
		switch {
		case strings.HasPrefix(k, "deltx:"):
			dels++
			txs = append(txs, k[6:])
		case strings.HasPrefix(k, "txl:"):
			puts++
			rest := k[4:]
			j := strings.IndexByte(rest, ':')
			txs = append(txs, rest[:j])
			blk = rest[j+1:]
		case strings.HasPrefix(k, "rcpt:"):
			puts++
			blk = k[5:]
		case k == "trie" || k == "other":
			tries++
		}
	}
	switch {
	case dels > 0 && puts == 0 && tries == 0:
		rec["k"], rec["txs"] = "deltx", txs
	case puts > 0 && dels == 0 && tries == 0:
		rec["k"], rec["b"], rec["txs"] = "batch", blk, txs
	case tries > 0 && puts == 0 && dels == 0:
		rec["k"] = "trie"
	}
	b.d.note(kind+"]", rec)
	return nil
}

func (b *recBatch) Reset() { b.ops = nil; b.size = 0 }

// ---------------------------------------------------------------- fixture: real blocks

type fixtureT struct {
	genesis  *core.Genesis
	blocks   map[string]*types.Block // name -> block
	names    map[common.Hash]string  // block hash -> name
	txNames  map[common.Hash]string  // tx hash -> name
	txs      map[string]*types.Transaction
	parent   map[string]string
	order    []string
	invalid  []string
	builder  *core.BlockChain
	userKeys []interface{}
}

const maxHeights = 6

func (fx *fixtureT) name(h common.Hash) string {
	if h == (common.Hash{}) {
		return "-"
	}
	if n, ok := fx.names[h]; ok {
		return n
	}
	return "?"
}

// classify names the key family of one write (core/rawdb/schema.go).
func (fx *fixtureT) classify(k, v []byte, del bool) string {
	pre := ""
	if del {
		pre = "del-"
	}
	switch {
	case bytes.Equal(k, []byte("LastHeader")):
		return pre + "headH:" + fx.name(common.BytesToHash(v))
	case bytes.Equal(k, []byte("LastBlock")):
		return pre + "headB:" + fx.name(common.BytesToHash(v))
	case len(k) == 1+8+1 && k[0] == 'h' && k[9] == 'n':
		return pre + "canon:" + fx.name(common.BytesToHash(v))
	case len(k) == 1+8+32 && k[0] == 'h':
		return pre + "hdr:" + fx.name(common.BytesToHash(k[9:]))
	case len(k) == 1+32 && k[0] == 'H':
		return pre + "hnum:" + fx.name(common.BytesToHash(k[1:]))
	case len(k) == 1+8+32 && k[0] == 'b':
		return pre + "body:" + fx.name(common.BytesToHash(k[9:]))
	case len(k) == 1+8+32 && k[0] == 'r':
		return pre + "rcpt:" + fx.name(common.BytesToHash(k[9:]))
	case len(k) == 1+32 && k[0] == 'l':
		tn := fx.txNames[common.BytesToHash(k[1:])]
		if tn == "" {
			tn = "?"
		}
		if del {
			return "deltx:" + tn
		}
		bh, _, _ := decodeLookup(v)
		return "txl:" + tn + ":" + fx.name(bh)
	case len(k) == 32:
		return pre + "trie"
	}
	return pre + "other"
}

func decodeLookup(v []byte) (common.Hash, uint64, uint64) {
	tmp := youdb.NewMemDatabase()
	key := append([]byte("l"), make([]byte, 32)...)
	tmp.Put(key, v)
	return rawdb.ReadTxLookupEntry(tmp, common.Hash{})
}

// engineName selects the engine of the chains under test: "solo" or "ucon" (solo with ucon's header dispatch, uconlike.go).
var engineName = "solo"

func newChain(db youdb.Database) (*core.BlockChain, error) {
	var eng consensus.Engine = solo.NewSolo()
	if engineName == "ucon" {
		eng = newUconLike()
	}
	return core.NewBlockChain(db, eng, new(event.TypeMux), params.ArchiveNode, local.FakeDetailDB())
}

func buildFixture() (*fixtureT, error) {
	fx := &fixtureT{blocks: map[string]*types.Block{}, names: map[common.Hash]string{}, txNames: map[common.Hash]string{},
		txs: map[string]*types.Transaction{}, parent: map[string]string{}}
	signer := types.MakeSigner(big.NewInt(0))
	// three independent senders, so that t1, t2, t3 are valid on every branch in any combination
	keys := []string{"b71c71a67e1177ad4e901695e1b4b9ee17ae16c6668d313eac2f96dbcda3f291",
		"8a1f9a8f95be41cd7ccb6168179afb4504aefe388d1e14474d32c45c72ce7b7a", "49a7b37aa6f6645917e7b807e9d1c00d4fa71f18343b0d4122a4d2df64dd6fee",
		"c5ed5d9b9c957be2baa01c16310aa4d1f8bf8e6dea7f0ff7a0d9ac8a4c4d1c2a"}
	alloc := core.GenesisAlloc{}
	for i, hk := range keys {
		k, err := crypto.HexToECDSA(hk)
		if err != nil {
			return nil, err
		}
		addr := crypto.PubkeyToAddress(k.PublicKey)
		alloc[addr] = core.GenesisAccount{Balance: big.NewInt(100000000)}
		tx, err := types.SignTx(types.NewTransaction(0, common.Address{9, byte(i)}, big.NewInt(5), params.TxGas, big.NewInt(1), nil), signer, k)
		if err != nil {
			return nil, err
		}
		tn := fmt.Sprintf("t%d", i+1)
		fx.txs[tn] = tx
		fx.txNames[tx.Hash()] = tn
	}
	fx.genesis = &core.Genesis{NetworkId: params.NetworkIdForTestCase, GasLimit: 8000000, Alloc: alloc, CurrVersion: params.YouV5}
	bdb := youdb.NewMemDatabase()
	fx.genesis.MustCommit(bdb)
	builder, err := newChain(bdb)
	if err != nil {
		return nil, err
	}
	fx.builder = builder
	gen := builder.Genesis()
	fx.add("G", "", gen)

	build := func(name, parentName string, extra byte, txn string) error {
		parent := fx.blocks[parentName]
		hdr := &types.Header{ParentHash: parent.Hash(), Number: new(big.Int).Add(parent.Number(), big.NewInt(1)), Time: parent.Time() + 10,
			Coinbase: common.Address{0xc0}, GasLimit: core.CalcGasLimit(parent), GasRewards: big.NewInt(0), Subsidy: big.NewInt(0), Extra: []byte{extra}}
		if err := core.ProcessYouVersionState(parent.Header(), hdr); err != nil {
			return err
		}
		sdb, err := builder.StateAt(parent.Root(), parent.ValRoot(), parent.StakingRoot())
		if err != nil {
			return fmt.Errorf("state of %s: %v", parentName, err)
		}
		gp := new(core.GasPool).AddGas(hdr.GasLimit)
		cfg, err := core.PrepareVMConfig(builder, hdr.Number.Uint64(), vm.LocalConfig{})
		if err != nil {
			return err
		}
		var txs []*types.Transaction
		var rcpts []*types.Receipt
		if txn != "" {
			tx := fx.txs[txn]
			sdb.Prepare(tx.Hash(), common.Hash{}, 0)
			r, _, err := builder.Processor().ApplyTransaction(tx, signer, sdb, builder, hdr, &hdr.Coinbase, &hdr.GasUsed, hdr.GasRewards, gp, cfg, local.FakeRecorder())
			if err != nil {
				return fmt.Errorf("apply %s in %s: %v", txn, name, err)
			}
			txs, rcpts = append(txs, tx), append(rcpts, r)
		}
		blk, err := builder.Engine().FinalizeAndAssemble(builder, hdr, sdb, txs, rcpts)
		if err != nil {
			return err
		}
		// keep the state on the builder's database so that children can be built
		r1, r2, r3, err := sdb.Commit(true)
		if err != nil {
			return err
		}
		for _, r := range []common.Hash{r1, r2, r3} {
			sdb.Database().TrieDB().Commit(r, false)
		}
		rawdb.WriteBlock(bdb, blk)
		fx.add(name, parentName, blk)
		return nil
	}
	type spec struct {
		name, parent string
		extra        byte
		tx           string
	}
	// t1 is shared by A1 and B1 (same height), t4 by B2 and A3 (different heights: A3 lies above a head B2)
	for _, s := range []spec{{"A1", "G", 0xa1, "t1"}, {"A2", "A1", 0xa2, "t2"}, {"A3", "A2", 0xa3, "t4"}, {"A4", "A3", 0xa4, ""},
		{"B1", "G", 0xb1, "t1"}, {"B2", "B1", 0xb2, "t4"}, {"B3", "B2", 0xb3, "t3"}, {"B4", "B3", 0xb4, ""}} {
		if err := build(s.name, s.parent, s.extra, s.tx); err != nil {
			return nil, err
		}
	}
	// further blocks: one valid child without transactions for every valid block
	for i, p := range []string{"G", "A1", "A2", "A3", "A4", "B1", "B2", "B3", "B4"} {
		if err := build("F_"+p, p, byte(0xf0+i), ""); err != nil {
			return nil, err
		}
	}
	// invalid blocks: a valid block is built, then ONE header field is falsified (the block hash changes with it)
	forge := func(name, parentName string, extra byte, mutate func(h *types.Header)) error {
		if err := build("tmp", parentName, extra, ""); err != nil {
			return err
		}
		v := fx.blocks["tmp"]
		delete(fx.names, v.Hash())
		delete(fx.blocks, "tmp")
		delete(fx.parent, "tmp")
		fx.order = fx.order[:len(fx.order)-1]
		h := v.Header()
		mutate(h)
		b := types.NewBlockWithHeader(h).WithBody(v.Body())
		rawdb.WriteBlock(bdb, b) // children (T3) are built on it
		fx.add(name, parentName, b)
		return nil
	}
	bad := common.Hash{0xba, 0xd0}
	for _, f := range []struct {
		name, parent string
		extra        byte
		mutate       func(h *types.Header)
	}{
		{"X", "A1", 0xe1, func(h *types.Header) { h.Root = bad }},         // state root that execution does not produce
		{"S2", "B1", 0xe2, func(h *types.Header) { h.Root = bad }},        // the same on the B fork, at a height below A's head
		{"R3", "B2", 0xe3, func(h *types.Header) { h.ReceiptHash = bad }}, // receipt root
		{"U4", "B3", 0xe4, func(h *types.Header) { h.GasUsed = 21000 }},   // gas used
		{"T2", "B1", 0xe5, func(h *types.Header) { h.TxHash = bad }},      // header.TxHash does not match the (empty) body
		{"V4", "B3", 0xe6, func(h *types.Header) { h.TxHash = bad }},      // the same above A's head
	} {
		if err := forge(f.name, f.parent, f.extra, f.mutate); err != nil {
			return nil, err
		}
	}
	// T2 executes fine (only its transaction root is wrong): valid-looking descendants make that fork the longest
	if err := build("T3", "T2", 0xe7, ""); err != nil {
		return nil, err
	}
	if err := build("T4", "T3", 0xe8, ""); err != nil {
		return nil, err
	}
	fx.invalid = []string{"X", "S2", "R3", "U4", "T2", "T3", "T4", "V4"}
	return fx, nil
}

func (fx *fixtureT) add(name, parent string, b *types.Block) {
	fx.blocks[name] = b
	fx.names[b.Hash()] = name
	fx.parent[name] = parent
	fx.order = append(fx.order, name)
}

// treeEvent describes the real tree to the monitor: parents and heights read off the real blocks.
func (fx *fixtureT) treeEvent() map[string]interface{} {
	par, num, root, txs := map[string]string{}, map[string]uint64{}, map[string]string{}, map[string][]string{}
	for _, n := range fx.order {
		b := fx.blocks[n]
		if n == "G" {
			par[n] = "-"
		} else {
			par[n] = fx.name(b.ParentHash())
		}
		num[n] = b.NumberU64()
		root[n] = fmt.Sprintf("%x", b.Root().Bytes()[:4])
		txs[n] = []string{}
		for _, tx := range b.Transactions() {
			txs[n] = append(txs[n], fx.txNames[tx.Hash()])
		}
	}
	return map[string]interface{}{"ev": "tree", "engine": engineName, "par": par, "num": num, "inv": fx.invalid, "root": root, "txs": txs}
}

// ---------------------------------------------------------------- observation

func (fx *fixtureT) observe(bc *core.BlockChain, db youdb.Database) map[string]interface{} {
	head := bc.CurrentBlock()
	canon := make([]string, maxHeights)
	for n := 0; n < maxHeights; n++ {
		if h := bc.GetHeaderByNumber(uint64(n)); h != nil {
			canon[n] = fx.name(h.Hash())
		} else {
			canon[n] = "-"
		}
	}
	txl := map[string]string{}
	for tn, tx := range fx.txs {
		bh, _, _ := rawdb.ReadTxLookupEntry(db, tx.Hash())
		txl[tn] = fx.name(bh)
	}
	_, err := bc.State()
	return map[string]interface{}{"head": fx.name(head.Hash()), "hn": head.NumberU64(), "canon": canon, "txl": txl, "st": err == nil,
		"hh": fx.name(bc.CurrentHeader().Hash()), "root": fmt.Sprintf("%x", head.Root().Bytes()[:4])}
}

func (fx *fixtureT) segment(names []string) (types.Blocks, error) {
	var bs types.Blocks
	for _, n := range names {
		b, ok := fx.blocks[n]
		if !ok {
			return nil, fmt.Errorf("unknown block %q", n)
		}
		bs = append(bs, b)
	}
	return bs, nil
}

func errClass(err error) string {
	if err == nil {
		return ""
	}
	s := err.Error()
	if len(s) > 60 {
		s = s[:60]
	}
	return s
}

func kindsOf(ws []write) []map[string]interface{} {
	ks := make([]map[string]interface{}, len(ws))
	for i, w := range ws {
		ks[i] = w.rec
	}
	return ks
}

// modeOf: how the first block written by the call relates to the head before the call.
func (fx *fixtureT) modeOf(seg []string, ws []write, headBefore common.Hash) string {
	// the first block whose body the call stores -- not necessarily a block of the segment: the re-import of a side chain
	// starts with blocks stored by earlier calls
	for _, w := range ws {
		if strings.HasPrefix(w.kind, "body:") {
			if b, ok := fx.blocks[w.kind[5:]]; ok {
				if b.ParentHash() == headBefore {
					return "extend"
				}
				return "reorg"
			}
		}
	}
	return "none"
}

// whereOf says WHERE a crash after write j of the call fell: the kind of the last completed write that is not a state (trie)
// write, and its position with respect to the head moves (head-header marker, number->hash entry, head-block marker) of the call.
func whereOf(ws []write, j int) []string {
	last, moves, inmove := "-", 0, false
	for i := 0; i <= j && i < len(ws); i++ {
		k, _ := ws[i].rec["k"].(string)
		switch k {
		case "trie", "other":
			continue
		case "txl":
			last = "lookup"
		case "batch":
			last = "lookupbatch"
		case "deltx":
			last = "delbatch"
		default:
			last = k
		}
		if k == "headH" {
			inmove = true
		} else if k == "headB" {
			inmove = false
			moves++
		}
	}
	pos := "before_moves"
	if inmove {
		pos = "inside_move"
	} else if moves > 0 {
		pos = "after_complete_move"
	}
	return []string{"last_" + last, pos}
}

// ---------------------------------------------------------------- the driver

func run(env *drive.Env) error {
	logging.Root().SetHandler(logging.DiscardHandler())
	params.InitNetworkId(params.NetworkIdForTestCase)
	fx, err := buildFixture()
	if err != nil {
		return fmt.Errorf("fixture: %v", err)
	}
	maxPoints := env.OptInt("maxpoints", 0) // 0: every crash point
	// a behaviour is [[names]...] (solo engine) or {"engine":"ucon","offers":[[names]...]}
	var raw json.RawMessage
	for env.Next(&raw) {
		var beh struct {
			Engine string     `json:"engine"`
			Offers [][]string `json:"offers"`
		}
		if len(raw) > 0 && raw[0] == '[' {
			beh.Engine = "solo"
			if err := json.Unmarshal(raw, &beh.Offers); err != nil {
				return err
			}
		} else if err := json.Unmarshal(raw, &beh); err != nil {
			return err
		}
		engineName = beh.Engine
		if err := fx.behaviour(env, beh.Offers, maxPoints); err != nil {
			return err
		}
		raw = nil
	}
	return nil
}

func (fx *fixtureT) behaviour(env *drive.Env, offers [][]string, maxPoints int) error {
	env.Emit(fx.treeEvent())
	db := newRec(fx)
	fx.genesis.MustCommit(db)
	bc, err := newChain(db)
	if err != nil {
		return fmt.Errorf("fresh chain: %v", err)
	}
	defer bc.Stop()
	for k, seg := range offers {
		blocks, err := fx.segment(seg)
		if err != nil {
			return err
		}
		headBefore := bc.CurrentBlock().Hash()
		db.mu.Lock()
		db.rec, db.writes = true, nil
		db.mu.Unlock()
		ierr := bc.InsertChain(blocks)
		db.mu.Lock()
		db.rec = false
		ws := db.writes
		db.mu.Unlock()
		mode := fx.modeOf(seg, ws, headBefore)
		env.Emit(map[string]interface{}{"ev": "import", "k": k, "seg": seg, "err": errClass(ierr), "mode": mode,
			"writes": kindsOf(ws), "obs": fx.observe(bc, db)})

		// reference: a node that never crashed imports calls 0..k and then the further block on its head
		further, refObs, err := fx.reference(offers[:k+1])
		if err != nil {
			return err
		}
		env.Emit(map[string]interface{}{"ev": "ref", "k": k, "further": further, "obs": refObs})

		// every crash point of this call
		step := 1
		if maxPoints > 0 && len(ws) > maxPoints {
			step = (len(ws) + maxPoints - 1) / maxPoints
		}
		for j := 0; j < len(ws); j++ {
			if step > 1 && j%step != int(env.Seed)%step && j != len(ws)-1 {
				continue
			}
			w := ws[j]
			where := whereOf(ws, j)
			d2 := fromSnap(fx, w.snap)
			// marker: if the process dies from here on, it died while restarting / recovering
			env.Emit(map[string]interface{}{"ev": "restarting", "k": k, "j": j, "after": w.kind, "mode": mode})
			bc2, rerr := newChain(d2)
			if rerr != nil {
				env.Emit(map[string]interface{}{"ev": "restart", "k": k, "j": j, "after": w.kind, "mode": mode, "where": where, "ok": false, "err": errClass(rerr)})
				continue
			}
			env.Emit(map[string]interface{}{"ev": "restart", "k": k, "j": j, "after": w.kind, "mode": mode, "where": where, "ok": true, "obs": fx.observe(bc2, d2)})
			// "once the interrupted blocks and any one further valid block are imported again": a Go panic of the code under
			// test while doing so is recorded (the process would die); logging.Crit still ends the driver (see "recovering")
			env.Emit(map[string]interface{}{"ev": "recovering", "k": k, "j": j, "after": w.kind, "mode": mode})
			rec := map[string]interface{}{"ev": "recovered", "k": k, "j": j, "after": w.kind, "mode": mode, "where": where, "further": further, "ref": refObs}
			func() {
				defer func() {
					if r := recover(); r != nil {
						rec["panic"] = fmt.Sprint(r)
					}
				}()
				e1 := bc2.InsertChain(blocks)
				var e2 error
				if further != "" {
					e2 = bc2.InsertChain(types.Blocks{fx.blocks[further]})
				}
				rec["err1"], rec["err2"] = errClass(e1), errClass(e2)
				rec["obs"] = fx.observe(bc2, d2)
			}()
			env.Emit(rec)
			if rec["panic"] == nil {
				bc2.Stop() // after a panic inside InsertChain its wait group is never released: the chain is abandoned
			}
		}
	}
	return nil
}

// reference runs a fresh node that never crashes over the calls and then imports F(head).
func (fx *fixtureT) reference(offers [][]string) (string, map[string]interface{}, error) {
	db := newRec(fx)
	fx.genesis.MustCommit(db)
	bc, err := newChain(db)
	if err != nil {
		return "", nil, err
	}
	defer bc.Stop()
	for _, seg := range offers {
		blocks, err := fx.segment(seg)
		if err != nil {
			return "", nil, err
		}
		bc.InsertChain(blocks)
	}
	further := "F_" + fx.name(bc.CurrentBlock().Hash())
	fb, ok := fx.blocks[further]
	if !ok {
		// the head is not a valid block of the tree (the monitor reports that at the import): no further block
		return "", fx.observe(bc, db), nil
	}
	if err := bc.InsertChain(types.Blocks{fb}); err != nil {
		// judged by the monitor on the observation (the head is not the further block)
		return further, fx.observe(bc, db), nil
	}
	return further, fx.observe(bc, db), nil
}
