package rlpdrv

import (
	"fmt"
	"math/big"
	"time"

	"github.com/youchainhq/go-youchain/common"
	"github.com/youchainhq/go-youchain/consensus/ucon"
	"github.com/youchainhq/go-youchain/core"
	"github.com/youchainhq/go-youchain/core/rawdb"
	"github.com/youchainhq/go-youchain/core/state"
	"github.com/youchainhq/go-youchain/core/types"
	"github.com/youchainhq/go-youchain/core/vm"
	"github.com/youchainhq/go-youchain/params"
	"github.com/youchainhq/go-youchain/staking"
	"github.com/youchainhq/go-youchain/youdb"
	"verif/harness/fixture"
)

// entryRes is what one synchronous entry point did with a byte string.
type entryRes struct {
	Pt  string `json:"pt"`
	Err bool   `json:"err"` // the entry point rejected (returned an error / marked the transaction failed / returned nothing)
	Pan string `json:"pan"`
	// When the entry point was handed an OUTER message built around the case (a signed consensus message, a staking
	// message, a log-data record) followed by junk: the outer type and the whole outer input, so that the monitor judges
	// what the entry point accepted on the whole input.  Empty otherwise (the outer bytes are then the real encoder's).
	Oty string `json:"oty"`
	Ob  []int  `json:"ob"`
}

// world holds the real objects behind the entry points.
type world struct {
	keys    []*fixture.Key
	handler *ucon.VerifRlpHandler
	yp      params.YouParams
	sdb     state.Database
	roots   [3]common.Hash
	valAddr common.Address
	opKey   *fixture.Key
	db      youdb.Database
}

// nKeys fixture identities: 1 chamber validator (signs the envelopes by default), 2 operator of the staking fixture,
// 3 validator of the staking fixture, 4..7 the other senders below.
const nKeys = 7

// sender is one kind of envelope signer: the SENDER dimension of the consensus entry point.
type sender struct {
	name       string
	key        int
	registered bool
	role       params.ValidatorRole
	status     uint8
	stake      int64
}

var senders = []sender{
	{"chamber", 1, true, params.RoleChancellor, params.ValidatorOnline, 10},
	{"house", 4, true, params.RoleHouse, params.ValidatorOnline, 10},
	{"offline", 5, true, params.RoleChancellor, params.ValidatorOffline, 10},
	{"zerostake", 6, true, params.RoleSenator, params.ValidatorOnline, 0},
	{"stranger", 7, false, 0, 0, 0}, // a key that is not a validator at all
}

const (
	ctxRound = 100
	ctxIndex = uint32(1)
)

func newWorld() *world {
	w := &world{keys: fixture.Keys("rlp", nKeys), db: youdb.NewMemDatabase()}
	w.yp = params.Versions[params.YouCurrentVersion]
	w.yp.EnableBls = false // votes carry ECDSA signatures: the whole vote path is reachable with fixture keys only
	// the look-back validator query, answered as Server.GetLookBackValidator answers it: nothing for round nil / 0,
	// the registered record for a registered key (chamber, house, offline, zero stake), nothing for any other key
	getVal := func(round *big.Int, addr common.Address, lbType params.LookBackType) (*state.Validator, bool) {
		if round == nil || round.Uint64() == 0 {
			return nil, false
		}
		for _, sd := range senders {
			k := w.keys[sd.key]
			if k.Addr == addr && sd.registered {
				return state.NewValidator("v", addr, addr, sd.role, k.PubComp, k.BlsPkB, big.NewInt(100), big.NewInt(sd.stake), 1, 0, 0, sd.status), false
			}
		}
		return nil, false
	}
	w.handler = ucon.VerifRlpNewHandler(w.keys[1].Priv, w.keys[1].BlsSk, getVal, &w.yp)
	// staking: a state with one validator operated by key 2
	st, sdb := fixture.NewMemState()
	w.opKey = w.keys[2]
	vk := w.keys[3]
	tok := new(big.Int).Mul(big.NewInt(1000), params.StakeUint)
	st.AddBalance(w.opKey.Addr, new(big.Int).Mul(big.NewInt(100000), params.StakeUint))
	v := st.CreateValidator("val", w.opKey.Addr, w.opKey.Addr, params.RoleHouse, vk.PubComp, vk.BlsPkB, tok, params.YOUToStake(tok), 1, 100, 100, params.ValidatorOnline)
	if v == nil {
		panic("fixture: validator not created")
	}
	w.valAddr = v.MainAddress()
	r1, r2, r3, err := st.Commit(true)
	if err != nil {
		panic(err)
	}
	w.sdb, w.roots = sdb, [3]common.Hash{r1, r2, r3}
	vld, err := state.New(r1, r2, r3, sdb)
	if err != nil {
		panic(err)
	}
	w.handler.VerifRlpSetContext(big.NewInt(ctxRound), ctxIndex, vld, &w.yp)
	return w
}

// junk is appended to outer messages: a valid message followed by bytes that are not part of it.
var junk = []byte{0x00}

func withJunk(r entryRes, oty string, outer []byte) entryRes {
	r.Oty, r.Ob = oty, ints(outer)
	return r
}

func guard(pt string, f func() bool) (res entryRes) {
	res.Pt, res.Ob = pt, []int{}
	defer func() {
		if r := recover(); r != nil {
			res.Pan = fmt.Sprint(r)
		}
	}()
	res.Err = f()
	return res
}

func (w *world) handleMsg(pt string, data []byte) entryRes {
	return guard(pt, func() bool { return w.handler.MH.HandleMsg(data, time.Now()) != nil })
}

// wrapped builds a properly signed consensus message around a (possibly hostile) payload, as a validator would.
func (w *world) wrapped(codeName string, payload []byte) []byte {
	return w.wrappedBy(1, codeName, payload)
}

func (w *world) wrappedBy(key int, codeName string, payload []byte) []byte {
	code := ucon.StringToMessageCode(codeName)
	sig, err := ucon.Sign(w.keys[key].Priv, append(append([]byte{}, payload...), byte(code)))
	if err != nil {
		panic(err)
	}
	m := &ucon.Message{Code: code, Payload: payload, Signature: sig}
	b, err := m.Encode()
	if err != nil {
		panic(err)
	}
	return b
}

func (w *world) applyStaking(pt string, data []byte) entryRes {
	return guard(pt, func() bool {
		// every call starts from the committed fixture state (one validator operated by the sender)
		st, err := state.New(w.roots[0], w.roots[1], w.roots[2], w.sdb)
		if err != nil {
			panic("fixture: " + err.Error())
		}
		to := params.StakingModuleAddress
		msg := types.NewMessage(w.opKey.Addr, &to, st.GetNonce(w.opKey.Addr), new(big.Int), 10000000, big.NewInt(1), data, true)
		hdr := &types.Header{Number: big.NewInt(ctxRound), Time: 1, GasLimit: 100000000, CurrVersion: w.yp.Version}
		yp := w.yp
		mc := core.NewMsgContext(msg, st, nil, hdr, hdr.Coinbase, new(core.GasPool).AddGas(hdr.GasLimit), &vm.Config{RuntimeConfig: vm.RuntimeConfig{CurrYouParams: &yp}}, nil)
		mc.InitialGas, mc.AvailableGas = 10000000, 10000000
		_, _, failed, err := (&staking.TxConverter{}).ApplyMessage(mc)
		return failed || err != nil
	})
}

func (w *world) stakingWrapped(action staking.ActionType, payload []byte) []byte {
	return mustEnc(&staking.Message{Action: action, Payload: payload})
}

func (w *world) logData(pt string, data []byte) entryRes {
	return guard(pt, func() bool { _, _, _, err := staking.DecodeLogDataFromBytes(data); return err != nil })
}

var stakingActions = map[string]staking.ActionType{
	"TxCreateValidator": staking.ValidatorCreate, "TxUpdateValidator": staking.ValidatorUpdate, "TxValidatorDeposit": staking.ValidatorDeposit,
	"TxValidatorWithdraw": staking.ValidatorWithDraw, "TxValidatorChangeStatus": staking.ValidatorChangeStatus, "TxValidatorSettle": staking.ValidatorSettle,
	"TxDelegationSettle": staking.DelegationSettle,
}

// entries drives every synchronous entry point that decodes bytes of this type.  When the case itself is a value of the
// type (acc), the entry points that take an outer message are also handed that message FOLLOWED BY JUNK: what they accept
// is judged on the whole input.
func (w *world) entries(ty string, b []byte, acc bool) []entryRes {
	out := []entryRes{}
	cons := func(pt, code string) {
		outer := w.wrapped(code, b)
		out = append(out, w.handleMsg(pt, outer))
		if acc {
			oj := append(append([]byte{}, outer...), junk...)
			out = append(out, withJunk(w.handleMsg(pt+"+junk", oj), "UconMessage", oj))
			// the sender dimension: the same payload in a correctly signed envelope of every other kind of sender
			for _, sd := range senders[1:] {
				out = append(out, w.handleMsg(pt+"@"+sd.name, w.wrappedBy(sd.key, code, b)))
			}
		}
	}
	stk := func(pt string, a staking.ActionType) {
		outer := w.stakingWrapped(a, b)
		out = append(out, w.applyStaking(pt, outer))
		if acc {
			oj := append(append([]byte{}, outer...), junk...)
			out = append(out, withJunk(w.applyStaking(pt+"+junk", oj), "StakingMessage", oj))
		}
	}
	logd := func(pt, topic string) {
		outer := (staking.LogData{Topic: topic, Data: b}).EncodeToBytes()
		out = append(out, w.logData(pt, outer))
		if acc {
			oj := append(append([]byte{}, outer...), junk...)
			out = append(out, withJunk(w.logData(pt+"+junk", oj), "LogData", oj))
		}
	}
	switch ty {
	case "UconMessage":
		// the decode helper of the consensus wire format, and the handler built on it
		out = append(out, guard("ucon.Decode", func() bool { _, err := ucon.Decode(b); return err != nil }))
		out = append(out, w.handleMsg("HandleMsg", b))
	case "ConsensusCommon":
		cons("HandleMsg:priority", ucon.MsgNamePriority)
	case "Block":
		cons("HandleMsg:block", ucon.MsgNameBlock)
	case "BlockHashWithVotes":
		for _, c := range []string{ucon.MsgNamePrevote, ucon.MsgNamePrecommit, ucon.MsgNameNext, ucon.MsgNameCert} {
			cons("HandleMsg:"+c, c)
		}
	case "StakingMessage":
		out = append(out, w.applyStaking("ApplyMessage", b))
	case "TxDelegation":
		stk("ApplyMessage:DelegationAdd", staking.DelegationAdd)
		stk("ApplyMessage:DelegationSub", staking.DelegationSub)
	case "LogData":
		out = append(out, w.logData("DecodeLogData", b))
	case "Validator":
		logd("DecodeLogData:create", staking.LogTopicCreate)
	case "WithdrawRecord":
		logd("DecodeLogData:withdraw", staking.LogTopicWithdraw)
	case "SlashData":
		logd("DecodeLogData:slashing", staking.LogTopicSlashing)
	case "BlockConsensusData":
		out = append(out, guard("ExtractConsensusData", func() bool {
			_, err := ucon.ExtractConsensusData(&types.Header{Consensus: b})
			return err != nil
		}))
	case "UconValidators":
		out = append(out, guard("ExtractUconValidators", func() bool {
			_, err := ucon.ExtractUconValidators(&types.Header{Validator: b}, params.LookBackStake)
			return err != nil
		}))
		out = append(out, guard("ExtractUconValidators:cert", func() bool {
			_, err := ucon.ExtractUconValidators(&types.Header{Certificate: b}, params.LookBackCert)
			return err != nil
		}))
	case "VoteItem":
		out = append(out, guard("ReadVoteData", func() bool {
			a := w.keys[1].Addr
			w.db.Put(ucon.AddrTypeKey(a, ucon.Prevote, 0), b)
			return ucon.ReadVoteData(w.db, a, ucon.Prevote, 0) == nil
		}))
	case "Body":
		out = append(out, guard("rawdb.ReadBody", func() bool {
			rawdb.WriteBodyRLP(w.db, common.Hash{1}, 1, b)
			return rawdb.ReadBody(w.db, common.Hash{1}, 1) == nil
		}))
	default:
		if a, ok := stakingActions[ty]; ok {
			stk("ApplyMessage:"+ty, a)
		}
	}
	return out
}
