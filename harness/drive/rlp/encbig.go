package rlpdrv

import (
	"bytes"
	"reflect"

	"github.com/youchainhq/go-youchain/rlp"
	"verif/harness/drive"
)

// ---------------------------------------------------------------------------- the ENCODE side at the header-class boundaries
//
// For a real object of a type, its j-th variable-length byte field (a []byte, hexutil.Bytes or string reached through
// exported and unexported fields, pointers, first elements of slices and entries of maps) is set to L copies of a fill
// byte, once with L = 3 (b0, recorded in full: it identifies the field) and once with the length under test.  The big
// encoding is recorded in compressed form: the run of L fill bytes is replaced by the pair (-1, L).  spec/Rlp.tla (EncC)
// predicts that compressed encoding from b0 and L; the monitor compares.

// byteFields enumerates setters for the variable-length byte fields of v in encoding order.
func byteFields(v reflect.Value, out *[]func([]byte), depth int) {
	if depth > 8 {
		return
	}
	switch v.Type() {
	case bigType, atomicType, timeType, syncMapTyp:
		return
	}
	switch v.Kind() {
	case reflect.Ptr, reflect.Interface:
		if !v.IsNil() {
			byteFields(v.Elem(), out, depth+1)
		}
	case reflect.Struct:
		for i := 0; i < v.NumField(); i++ {
			f := v.Type().Field(i)
			if f.Tag.Get("rlp") == "-" || skipField[f.Name] {
				continue
			}
			byteFields(access(v.Field(i)), out, depth+1)
		}
	case reflect.String:
		if v.CanSet() {
			vv := v
			*out = append(*out, func(b []byte) { vv.SetString(string(b)) })
		}
	case reflect.Slice:
		if v.Type().Elem().Kind() == reflect.Uint8 {
			if v.CanSet() {
				vv := v
				*out = append(*out, func(b []byte) { vv.SetBytes(append([]byte{}, b...)) })
			}
			return
		}
		if v.Len() > 0 {
			byteFields(v.Index(0), out, depth+1)
		}
	case reflect.Map:
		if v.Type().Elem().Kind() == reflect.Slice && v.Type().Elem().Elem().Kind() == reflect.Uint8 && v.Len() > 0 {
			keys := v.MapKeys()
			k, vv := keys[0], v
			for _, x := range keys { // a deterministic choice
				if bytes.Compare(x.Bytes(), k.Bytes()) < 0 {
					k = x
				}
			}
			*out = append(*out, func(b []byte) {
				vv.SetMapIndex(k, reflect.ValueOf(append([]byte{}, b...)).Convert(vv.Type().Elem()))
			})
		}
	}
}

func leaves(b []byte, marker []byte) int {
	k, content, _, err := rlp.Split(b)
	if err != nil {
		return 0
	}
	if k != rlp.List {
		if bytes.Equal(content, marker) {
			return 1
		}
		return 0
	}
	n := 0
	for len(content) > 0 {
		_, _, rest, err := rlp.Split(content)
		if err != nil {
			break
		}
		n += leaves(content[:len(content)-len(rest)], marker)
		content = rest
	}
	return n
}

type encBigSpec struct {
	Ty string `json:"ty"`
	K  int    `json:"k"`
	Ls []int  `json:"ls"`
}

// withField builds object k of the type with its j-th byte field set to n fill bytes; ok=false when there is no such field.
func withField(c *codec, seed int64, k, j int, fill byte, n int) (obj interface{}, ok bool) {
	obj = c.gen(newGen(seed, c.name, k))
	var fs []func([]byte)
	byteFields(reflect.ValueOf(obj), &fs, 0)
	if j >= len(fs) {
		return nil, false
	}
	fs[j](bytes.Repeat([]byte{fill}, n))
	return obj, true
}

func runEncBig(env *drive.Env, seed int64, sp *encBigSpec) {
	c := byName[sp.Ty]
	if c == nil || c.gen == nil {
		return
	}
	// pick the field and the fill byte: the object with the 3-byte marker must be a value of the type (it round-trips)
	// and the marker must be the content of exactly one item of its encoding
	var b0 []byte
	j, fill, found := 0, byte(0), false
	pan := catch(func() {
		for cand := 0; cand < 12 && !found; cand++ {
			for _, f := range []byte{0xA5, 0x5A, 0xC3, 0x3C, 0x96, 0x69, 0xE1, 0x1E} {
				obj, ok := withField(c, seed, sp.K, cand, f, 3)
				if !ok {
					return
				}
				enc, err := encode(obj)
				m := []byte{f, f, f}
				at := bytes.Index(enc, m)
				if err != nil || leaves(enc, m) != 1 || bytes.Count(enc, m) != 1 || at < 1 || enc[at-1] == f ||
					(at+3 < len(enc) && enc[at+3] == f) {
					continue
				}
				back := c.fresh()
				if decode(enc, back) != nil {
					continue
				}
				if re, err := encode(back); err != nil || !bytes.Equal(re, enc) {
					continue
				}
				b0, fill, j, found = enc, f, cand, true
				break
			}
		}
	})
	if pan != "" || !found {
		env.Emit(map[string]interface{}{"ev": "encskip", "ty": sp.Ty, "k": sp.K, "pan": pan})
		return
	}
	for _, L := range sp.Ls {
		ev := map[string]interface{}{"ev": "encbig", "ty": sp.Ty, "k": sp.K, "field": j, "fill": int(fill), "L": L, "b0": ints(b0)}
		var enc []byte
		var obj interface{}
		p := catch(func() {
			var err error
			obj, _ = withField(c, seed, sp.K, j, fill, L)
			if enc, err = encode(obj); err != nil {
				panic("encode error: " + err.Error())
			}
		})
		if p != "" {
			ev["bc"], ev["len"], ev["acc"], ev["same"], ev["deq"], ev["pan"] = []int{}, 0, false, false, "na", "encode: "+p
			env.Emit(ev)
			continue
		}
		// compressed form: the first run of L fill bytes -> (-1, L)
		run := bytes.Index(enc, bytes.Repeat([]byte{fill}, L))
		bc := []int{}
		if run >= 0 {
			bc = append(ints(enc[:run]), -1, L)
			bc = append(bc, ints(enc[run+L:])...)
		}
		acc, same, _, _, _, target, dp := decodeCase(c, enc)
		deq := "na"
		if acc && dp == "" {
			deq = "no"
			if catch(func() {
				if deepEq(obj, target) {
					deq = "yes"
				}
			}) != "" {
				deq = "na"
			}
		}
		ev["bc"], ev["len"], ev["acc"], ev["same"], ev["deq"], ev["pan"] = bc, len(enc), acc, same, deq, dp
		env.Emit(ev)
	}
}
