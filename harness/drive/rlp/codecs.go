package rlpdrv

import (
	"fmt"
	"math/big"
	"math/rand"
	"sort"

	"github.com/youchainhq/go-youchain/common"
	"github.com/youchainhq/go-youchain/common/hexutil"
	"github.com/youchainhq/go-youchain/consensus/ucon"
	"github.com/youchainhq/go-youchain/core/state"
	"github.com/youchainhq/go-youchain/core/types"
	"github.com/youchainhq/go-youchain/crypto"
	"github.com/youchainhq/go-youchain/params"
	"github.com/youchainhq/go-youchain/staking"
	"verif/harness/fixture"
)

// codec binds a type name of spec/Rlp.tla (Schema) to the real Go type.
type codec struct {
	name  string
	fresh func() interface{}       // decode target, built the way the production decode site builds it
	gen   func(g *gen) interface{} // a real value of the type (pointer, same type as fresh), nil when there is none
	nre   int                      // how often an accepted value is re-encoded (128 for the map-backed type: Go starts a map
	// iteration at a random slot, two entries swap with probability 1/8 per iteration)
}

// gen is the seeded source of real objects.
type gen struct {
	r    *rand.Rand
	keys []*fixture.Key
	k    int // number of the object within its type
}

// The handler-state dimension of the consensus entry point: object number k < 5 of a consensus payload type is built
// for this (round, index) relative to the handler's current (ctxRound, ctxIndex) -- current, next index, next round,
// previous round, far future, round 0 -- with a timestamp that is not in the future and valid signatures of the registered
// validator, so that the envelope around it (and around each of its mutations) passes the handler's admission checks
// and reaches the round-dependent code.
var liveStates = [][2]uint64{{ctxRound, uint64(ctxIndex)}, {ctxRound, uint64(ctxIndex) + 1}, {ctxRound + 1, 1}, {ctxRound - 1, 1}, {ctxRound + 10000, 1},
	{0, 1}} // ... and round 0, for which there is no look-back state at all

// liveTypes get at least len(liveStates) seed objects.
var liveTypes = map[string]bool{"BlockHashWithVotes": true, "ConsensusCommon": true, "Block": true, "UconMessage": true}

// live picks the handler state of this object: fixed by k for the first objects, random (or none) afterwards.
func (g *gen) live() (round *big.Int, index uint32, ok bool) {
	i := g.k
	if i >= len(liveStates) {
		if g.n(2) == 0 {
			return nil, 0, false
		}
		i = g.n(len(liveStates))
	}
	return new(big.Int).SetUint64(liveStates[i][0]), uint32(liveStates[i][1]), true
}

func newGen(seed int64, ty string, k int) *gen {
	h := crypto.Keccak256([]byte(fmt.Sprintf("c14/%d/%s/%d", seed, ty, k)))
	s := int64(0)
	for i := 0; i < 8; i++ {
		s = s<<8 | int64(h[i])
	}
	return &gen{r: rand.New(rand.NewSource(s)), keys: fixture.Keys("rlp", nKeys), k: k}
}

func (g *gen) n(n int) int { return g.r.Intn(n) }
func (g *gen) bytes(n int) []byte {
	b := make([]byte, n)
	g.r.Read(b)
	return b
}

// boundary-heavy lengths for variable byte strings
func (g *gen) blob() []byte {
	switch g.n(8) {
	case 0:
		return []byte{}
	case 1:
		return []byte{byte(g.n(128))} // single byte below 0x80
	case 2:
		return []byte{byte(128 + g.n(128))}
	case 3:
		return g.bytes(55)
	case 4:
		return g.bytes(56)
	case 5:
		return g.bytes(1 + g.n(40))
	case 6:
		return g.bytes(250 + g.n(20))
	}
	return g.bytes(65)
}
func (g *gen) u64() uint64 {
	switch g.n(6) {
	case 0:
		return 0
	case 1:
		return uint64(g.n(128))
	case 2:
		return 128 + uint64(g.n(128))
	case 3:
		return ^uint64(0)
	case 4:
		return uint64(g.r.Uint32())
	}
	return g.r.Uint64()
}
func (g *gen) u32() uint32 { return uint32(g.u64()) }
func (g *gen) u16() uint16 { return uint16(g.u64()) }
func (g *gen) u8() uint8   { return uint8(g.u64()) }
func (g *gen) big() *big.Int {
	switch g.n(6) {
	case 0:
		return new(big.Int)
	case 1:
		return big.NewInt(int64(g.n(128)))
	case 2:
		return big.NewInt(128 + int64(g.n(1000)))
	case 3:
		return new(big.Int).Lsh(big.NewInt(1), 64)
	case 4:
		return new(big.Int).SetBytes(g.bytes(32))
	}
	return new(big.Int).SetUint64(g.r.Uint64())
}
func (g *gen) hash() (h common.Hash) {
	if g.n(8) == 0 {
		return h // the zero hash
	}
	g.r.Read(h[:])
	return h
}
func (g *gen) addr() (a common.Address) {
	if g.n(10) == 0 {
		return a
	}
	g.r.Read(a[:])
	return a
}
func (g *gen) key() *fixture.Key { return g.keys[1+g.n(len(g.keys)-1)] }
func (g *gen) str() string       { return string(g.blob()) }

// ---------------------------------------------------------------------------- core/types
func (g *gen) tx() *types.Transaction {
	var tx *types.Transaction
	if g.n(3) == 0 {
		tx = types.NewContractCreation(g.u64(), g.big(), g.u64(), g.big(), g.blob())
	} else {
		tx = types.NewTransaction(g.u64(), g.addr(), g.big(), g.u64(), g.big(), g.blob())
	}
	signed, err := types.SignTx(tx, types.NewYouSigner(uint64(1+g.n(3))), g.key().Priv)
	if err != nil {
		panic(err)
	}
	return signed
}
func (g *gen) txs() []*types.Transaction {
	out := []*types.Transaction{}
	for i := g.n(3); i > 0; i-- {
		out = append(out, g.tx())
	}
	return out
}
func (g *gen) bloom() (b types.Bloom) {
	if g.n(3) > 0 {
		g.r.Read(b[:])
	}
	return b
}
func (g *gen) singleVote() ucon.SingleVote {
	k := g.key()
	sig := k.BlsSk.Sign(g.bytes(44)).Compress()
	return ucon.SingleVote{VoterIdx: g.u32(), Votes: g.u32(), Signature: sig.Bytes(), Proof: g.bytes(81)}
}
func (g *gen) consensusData() *ucon.BlockConsensusData {
	d := &ucon.BlockConsensusData{Round: g.big(), RoundIndex: g.u32(), Seed: g.hash(), SortitionProof: g.bytes(81), Priority: g.hash(),
		SubUsers: g.u32(), ProposerThreshold: g.u64(), ValidatorThreshold: g.u64(), CertValThreshold: g.u64()}
	if err := d.SetSignature(g.key().Priv); err != nil {
		panic(err)
	}
	return d
}
func (g *gen) uconValidators() *ucon.UconValidators {
	u := &ucon.UconValidators{RoundIndex: g.u32(), ChamberCommitters: []ucon.SingleVote{}, HouseCommitters: []ucon.SingleVote{}, ChamberCerts: []ucon.SingleVote{},
		SCAggrSig: g.blob(), MCAggrSig: g.blob(), CCAggrSig: g.blob()}
	for i := g.n(3); i > 0; i-- {
		u.ChamberCommitters = append(u.ChamberCommitters, g.singleVote())
	}
	for i := g.n(2); i > 0; i-- {
		u.HouseCommitters = append(u.HouseCommitters, g.singleVote())
	}
	for i := g.n(2); i > 0; i-- {
		u.ChamberCerts = append(u.ChamberCerts, g.singleVote())
	}
	return u
}
func (g *gen) header() *types.Header {
	h := &types.Header{ParentHash: g.hash(), Coinbase: g.addr(), Root: g.hash(), ValRoot: g.hash(), StakingRoot: g.hash(), TxHash: g.hash(),
		ReceiptHash: g.hash(), Bloom: g.bloom(), Number: g.big(), Subsidy: g.big(), GasRewards: g.big(), GasLimit: g.u64(), GasUsed: g.u64(),
		Time: g.u64(), CurrVersion: params.YouVersion(g.u64()), NextVersion: params.YouVersion(g.u64()), NextApprovals: g.u64(),
		NextVoteBefore: g.u64(), NextSwitchOn: g.u64(), MixDigest: types.UConMixHash, Extra: g.blob(), SlashData: g.blob(), Consensus: g.blob(),
		ChtRoot: g.blob(), BltRoot: g.blob(), Validator: g.blob(), Signature: g.blob(), Certificate: g.blob()}
	if g.n(2) == 0 { // real ucon fields
		h.Consensus = mustEnc(g.consensusData())
		h.Validator = mustEnc(g.uconValidators())
		sig, _ := crypto.Sign(crypto.Keccak256(h.Consensus), g.key().Priv)
		h.Signature = sig
		if g.n(2) == 0 {
			h.SlashData = mustEnc(g.evidences())
		}
	}
	return h
}
func (g *gen) log() *types.Log {
	l := &types.Log{Address: g.addr(), Topics: []common.Hash{}, Data: g.blob()}
	for i := g.n(4); i > 0; i-- {
		l.Topics = append(l.Topics, g.hash())
	}
	return l
}
func (g *gen) receipt() *types.Receipt {
	r := &types.Receipt{CumulativeGasUsed: g.u64(), Bloom: g.bloom(), Logs: []*types.Log{}}
	switch g.n(3) {
	case 0:
		r.PostState = g.bytes(32)
	case 1:
		r.Status = types.ReceiptStatusSuccessful
	}
	for i := g.n(3); i > 0; i-- {
		r.Logs = append(r.Logs, g.log())
	}
	return r
}
func (g *gen) storedReceipt() *types.ReceiptForStorage {
	r := g.receipt()
	r.TxHash, r.ContractAddress, r.GasUsed = g.hash(), g.addr(), g.u64()
	for _, l := range r.Logs {
		l.BlockNumber, l.TxHash, l.TxIndex, l.BlockHash, l.Index = g.u64(), g.hash(), uint(g.u32()), g.hash(), uint(g.u32())
	}
	return (*types.ReceiptForStorage)(r)
}
func (g *gen) block() *types.Block {
	h := g.header()
	if round, index, ok := g.live(); ok { // a proposal the handler admits: consensus data for that round, not from the future
		d := g.consensusData()
		d.Round, d.RoundIndex, d.Signature = round, index, nil
		if err := d.SetSignature(g.keys[1].Priv); err != nil {
			panic(err)
		}
		h.Consensus, h.Time = mustEnc(d), 1
	}
	return types.NewBlockWithHeader(h).WithBody(&types.Body{Transactions: g.txs()})
}

// ---------------------------------------------------------------------------- core/state
func (g *gen) validator() *state.Validator {
	k := g.key()
	tok := g.big()
	v := state.NewValidator(g.str(), g.addr(), g.addr(), params.ValidatorRole(1+g.n(3)), k.PubComp, k.BlsPkB, tok, g.big(),
		uint16(g.n(2)), g.u16(), g.u16(), uint8(g.n(2)))
	v.Expelled = g.n(2) == 0
	v.ExpelExpired, v.LastInactive, v.RewardsLastSettled = g.u64(), g.u64(), g.u64()
	v.SelfToken, v.SelfStake, v.RewardsDistributable, v.RewardsTotal = g.big(), g.big(), g.big(), g.big()
	var ds state.DelegationFroms
	for i := g.n(4); i > 0; i-- {
		ds = append(ds, &state.DelegationFrom{Delegator: g.addr(), Stake: g.big(), Token: g.big()})
	}
	sort.Sort(ds)
	if ds != nil {
		v.Delegations = ds
	}
	if g.n(3) > 0 {
		// the extension: every version around the known one, data shorter and longer than the 8 bytes version 1 holds
		v.Ext = state.Extension{Version: []uint8{0, 1, 1, 2, 255}[g.n(5)], Data: hexutil.Bytes(g.bytes([]int{0, 1, 8, 9, 32}[g.n(5)]))}
	}
	return v
}
func (g *gen) valKindStat() *state.ValKindStat {
	s := state.NewValKindStat()
	for i := g.n(4); i > 0; i-- {
		s.AddVal(g.validator())
	}
	s.AddRewards(g.big())
	s.SetRewardsResidue(g.big())
	return s
}
func (g *gen) withdrawRecord() *state.WithdrawRecord {
	return &state.WithdrawRecord{Operator: g.addr(), Delegator: g.addr(), Validator: g.addr(), Recipient: g.addr(), Nonce: g.u64(),
		CreationHeight: g.u64(), CompletionHeight: g.u64(), InitialBalance: g.big(), FinalBalance: g.big(), Finished: g.u8(), TxHash: g.hash()}
}

// ---------------------------------------------------------------------------- staking
func (g *gen) evidence() staking.Evidence {
	switch g.n(3) {
	case 0:
		return staking.NewEvidence(*g.doubleSignV5())
	case 1:
		return staking.NewEvidence(staking.EvidenceInactive{Round: g.u64(), Validators: []common.Address{g.addr(), g.addr()}})
	}
	return staking.NewEvidence(*g.doubleSign(1))
}
func (g *gen) evidences() *[]staking.Evidence {
	out := []staking.Evidence{}
	for i := g.n(3); i > 0; i-- {
		out = append(out, g.evidence())
	}
	return &out
}
func (g *gen) blsSig(k *fixture.Key, h common.Hash, round uint64, idx uint32) []byte {
	payload := append(h.Bytes(), append(new(big.Int).SetUint64(round).Bytes(), byte(idx>>24), byte(idx>>16), byte(idx>>8), byte(idx))...)
	return k.BlsSk.Sign(payload).Compress().Bytes()
}
func (g *gen) doubleSignV5() *staking.EvidenceDoubleSignV5 {
	k := g.key()
	e := &staking.EvidenceDoubleSignV5{Round: g.u64(), RoundIndex: g.u32(), SignerIdx: g.u32(), VoteType: uint8(1 + g.n(5)), Signs: []*staking.SignInfo{}}
	for i := g.n(3); i > 0; i-- {
		h := g.hash()
		e.Signs = append(e.Signs, &staking.SignInfo{Hash: h, Sign: g.blsSig(k, h, e.Round, e.RoundIndex)})
	}
	return e
}

// doubleSign builds the deprecated evidence; max bounds the number of map entries.
func (g *gen) doubleSign(max int) *staking.EvidenceDoubleSign {
	k := g.key()
	e := &staking.EvidenceDoubleSign{Round: g.big(), RoundIndex: g.u32(), Signs: map[common.Hash][]byte{}}
	for i := g.n(max + 1); i > 0; i-- {
		h := g.hash()
		sig, _ := crypto.Sign(crypto.Keccak256(h[:]), k.Priv)
		e.Signs[h] = sig
	}
	return e
}
func (g *gen) slashRecords() []*staking.SlashWithdrawRecord {
	out := []*staking.SlashWithdrawRecord{}
	for i := g.n(3); i > 0; i-- {
		out = append(out, &staking.SlashWithdrawRecord{Token: g.big(), Record: g.withdrawRecord()})
	}
	return out
}
func (g *gen) sign(msg staking.Msg) []byte {
	s, err := staking.MakeSign(msg, g.key().Priv)
	if err != nil {
		panic(err)
	}
	return s
}

func mustEnc(v interface{}) []byte {
	b, err := encode(v)
	if err != nil {
		panic(err)
	}
	return b
}

var registry []*codec
var byName = map[string]*codec{}

func reg(name string, fresh func() interface{}, gen func(g *gen) interface{}) *codec {
	c := &codec{name: name, fresh: fresh, gen: gen, nre: 2}
	registry = append(registry, c)
	byName[name] = c
	return c
}

func init() {
	params.InitNetworkId(params.NetworkIdForTestCase)
	// ---- core/types
	reg("Header", func() interface{} { return new(types.Header) }, func(g *gen) interface{} { return g.header() })
	reg("Transaction", func() interface{} { return new(types.Transaction) }, func(g *gen) interface{} { return g.tx() })
	reg("Block", func() interface{} { return new(types.Block) }, func(g *gen) interface{} { return g.block() })
	reg("Body", func() interface{} { return new(types.Body) }, func(g *gen) interface{} { return &types.Body{Transactions: g.txs()} })
	reg("Log", func() interface{} { return new(types.Log) }, func(g *gen) interface{} { return g.log() })
	reg("Receipt", func() interface{} { return new(types.Receipt) }, func(g *gen) interface{} { return g.receipt() })
	reg("LogForStorage", func() interface{} { return new(types.LogForStorage) }, func(g *gen) interface{} {
		r := g.storedReceipt()
		if len(r.Logs) == 0 {
			l := g.log()
			l.BlockNumber, l.TxHash, l.TxIndex, l.BlockHash, l.Index = g.u64(), g.hash(), uint(g.u32()), g.hash(), uint(g.u32())
			return (*types.LogForStorage)(l)
		}
		return (*types.LogForStorage)(r.Logs[0])
	})
	reg("ReceiptForStorage", func() interface{} { return new(types.ReceiptForStorage) }, func(g *gen) interface{} { return g.storedReceipt() })
	// ---- core/state
	reg("Validator", func() interface{} { return new(state.Validator) }, func(g *gen) interface{} { return g.validator() })
	reg("ValKindStat", func() interface{} { return new(state.ValKindStat) }, func(g *gen) interface{} { return g.valKindStat() })
	reg("ValidatorsStat", func() interface{} { return state.NewValidatorsStat() }, func(g *gen) interface{} {
		s := state.NewValidatorsStat()
		for _, k := range []params.ValidatorKind{params.KindValidator, params.KindChamber, params.KindHouse} {
			s.Kinds[k] = g.valKindStat()
		}
		for _, r := range []params.ValidatorRole{params.RoleChancellor, params.RoleSenator, params.RoleHouse} {
			s.Roles[r] = g.valKindStat()
		}
		return s
	})
	reg("Validators", func() interface{} { return new(state.Validators) }, func(g *gen) interface{} {
		vs := []*state.Validator{}
		for i := g.n(3); i > 0; i-- {
			vs = append(vs, g.validator())
		}
		return state.NewValidators(vs) // (its derived index is not rebuilt by DecodeRLP and is not compared: deq.go)
	})
	reg("ValidatorIndex", func() interface{} { return state.NewValidatorIndex() }, func(g *gen) interface{} {
		ix := state.NewValidatorIndex()
		for i := g.n(5); i > 0; i-- {
			ix.Add(g.addr())
		}
		return ix
	})
	reg("WithdrawRecord", func() interface{} { return state.NewWithdrawRecord() }, func(g *gen) interface{} { return g.withdrawRecord() })
	reg("WithdrawQueue", func() interface{} { return state.NewWithdrawQueue() }, func(g *gen) interface{} {
		q := state.NewWithdrawQueue()
		for i := g.n(4); i > 0; i-- {
			q.Add(g.withdrawRecord())
		}
		return q
	})
	reg("Record", func() interface{} { return new(state.Record) }, func(g *gen) interface{} {
		r := &state.Record{FinalValue: g.big(), TxHashes: []common.Hash{}}
		for i := g.n(4); i > 0; i-- {
			r.TxHashes = append(r.TxHashes, g.hash())
		}
		return r
	})
	reg("PendingRelationship", state.VerifRlpNewPendingRelationship, func(g *gen) interface{} {
		var pairs [][2]common.Address
		for i := g.n(5); i > 0; i-- {
			pairs = append(pairs, [2]common.Address{g.addr(), g.addr()})
		}
		if len(pairs) > 1 && g.n(2) == 0 {
			pairs[1][0] = pairs[0][0] // same delegator twice
		}
		return state.VerifRlpPendingRelationship(pairs)
	})
	reg("Account", func() interface{} { return new(state.Account) }, func(g *gen) interface{} {
		return &state.Account{Nonce: g.u64(), Balance: g.big(), Root: g.hash(), CodeHash: g.bytes(32), DelegationBalance: g.big(), DelegationsHash: g.blob()}
	})
	reg("SortedAddresses", func() interface{} { return new(common.SortedAddresses) }, func(g *gen) interface{} {
		s := common.SortedAddresses{}
		for i := g.n(5); i > 0; i-- {
			s = append(s, g.addr())
		}
		sort.Sort(s)
		return &s
	})
	// ---- staking
	reg("StakingMessage", func() interface{} { return new(staking.Message) }, func(g *gen) interface{} {
		acts := []staking.ActionType{staking.ValidatorCreate, staking.ValidatorDeposit, staking.DelegationAdd, staking.DelegationSettle, 0x7f, 0x80}
		if g.n(2) == 0 {
			return &staking.Message{Action: staking.ValidatorDeposit, Payload: mustEnc(&staking.TxValidatorDeposit{MainAddress: g.fixtureValidator(), Value: g.smallValue(), Nonce: g.u64()})}
		}
		return &staking.Message{Action: acts[g.n(len(acts))], Payload: g.blob()}
	})
	reg("TxCreateValidator", func() interface{} { return new(staking.TxCreateValidator) }, func(g *gen) interface{} {
		k := g.key()
		m := &staking.TxCreateValidator{Name: g.str(), OperatorAddress: g.addr(), Coinbase: g.addr(), MainPubKey: k.PubComp, BlsPubKey: k.BlsPkB,
			Value: g.big(), Nonce: g.u64(), CommissionRate: g.u16(), RiskObligation: g.u16(), AcceptDelegation: uint16(g.n(2)), Role: params.ValidatorRole(1 + g.n(3))}
		m.Sign = g.sign(m)
		return m
	})
	reg("TxUpdateValidator", func() interface{} { return new(staking.TxUpdateValidator) }, func(g *gen) interface{} {
		m := &staking.TxUpdateValidator{Nonce: g.u64(), Name: g.str(), MainAddress: g.mainAddr(), OperatorAddress: g.addr(), Coinbase: g.addr(),
			CommissionRate: g.u16(), RiskObligation: g.u16(), AcceptDelegation: g.u16()}
		m.Sign = g.sign(m)
		return m
	})
	reg("TxValidatorDeposit", func() interface{} { return new(staking.TxValidatorDeposit) }, func(g *gen) interface{} {
		m := &staking.TxValidatorDeposit{MainAddress: g.mainAddr(), Value: g.smallValue(), Nonce: g.u64()}
		m.Sign = g.sign(m)
		return m
	})
	reg("TxValidatorWithdraw", func() interface{} { return new(staking.TxValidatorWithdraw) }, func(g *gen) interface{} {
		m := &staking.TxValidatorWithdraw{MainAddress: g.mainAddr(), Recipient: g.addr(), Value: g.smallValue(), Nonce: g.u64()}
		m.Sign = g.sign(m)
		return m
	})
	reg("TxValidatorChangeStatus", func() interface{} { return new(staking.TxValidatorChangeStatus) }, func(g *gen) interface{} {
		m := &staking.TxValidatorChangeStatus{MainAddress: g.mainAddr(), Status: uint8(g.n(2)), Nonce: g.u64()}
		m.Sign = g.sign(m)
		return m
	})
	reg("TxValidatorSettle", func() interface{} { return new(staking.TxValidatorSettle) }, func(g *gen) interface{} {
		return &staking.TxValidatorSettle{MainAddress: g.mainAddr()}
	})
	reg("TxDelegation", func() interface{} { return new(staking.TxDelegation) }, func(g *gen) interface{} {
		return &staking.TxDelegation{Validator: g.mainAddr(), Value: g.smallValue()}
	})
	reg("TxDelegationSettle", func() interface{} { return new(staking.TxDelegationSettle) }, func(g *gen) interface{} {
		return &staking.TxDelegationSettle{Validator: g.mainAddr()}
	})
	reg("Evidence", func() interface{} { return new(staking.Evidence) }, func(g *gen) interface{} { e := g.evidence(); return &e })
	reg("Evidences", func() interface{} { return new([]staking.Evidence) }, func(g *gen) interface{} { return g.evidences() })
	reg("EvidenceDoubleSign", func() interface{} { return new(staking.EvidenceDoubleSign) }, func(g *gen) interface{} { return g.doubleSign(3) }).nre = 128
	reg("EvidenceInactive", func() interface{} { return new(staking.EvidenceInactive) }, func(g *gen) interface{} {
		e := &staking.EvidenceInactive{Round: g.u64(), Validators: []common.Address{}}
		for i := g.n(4); i > 0; i-- {
			e.Validators = append(e.Validators, g.addr())
		}
		return e
	})
	reg("EvidenceDoubleSignV5", func() interface{} { return new(staking.EvidenceDoubleSignV5) }, func(g *gen) interface{} { return g.doubleSignV5() })
	reg("LogData", func() interface{} { return new(staking.LogData) }, func(g *gen) interface{} {
		l := &staking.LogData{Topic: g.str(), Tags: []string{}, Data: g.blob()}
		for i := g.n(3); i > 0; i-- {
			l.Tags = append(l.Tags, g.str())
		}
		if g.n(2) == 0 {
			l.Topic, l.Data = staking.LogTopicCreate, mustEnc(g.validator())
		}
		return l
	})
	reg("SlashData", func() interface{} { return new(staking.SlashData) }, func(g *gen) interface{} {
		e := g.evidence()
		return &staking.SlashData{Type: g.u8(), MainAddress: g.addr(), Total: g.big(), Records: g.slashRecords(), Evidence: &e}
	})
	reg("SlashDataV5", func() interface{} { return new(staking.SlashDataV5) }, func(g *gen) interface{} {
		s := &staking.SlashDataV5{Type: g.u8(), MainAddress: g.addr(), Total: g.big(), FromWithdraw: g.slashRecords(), FromDeposit: []*staking.PenaltyRecord{}}
		for i := g.n(3); i > 0; i-- {
			s.FromDeposit = append(s.FromDeposit, &staking.PenaltyRecord{Address: g.addr(), Amount: g.big()})
		}
		return s
	})
	// ---- consensus/ucon
	reg("UconMessage", func() interface{} { return new(ucon.Message) }, func(g *gen) interface{} {
		codes := []string{ucon.MsgNamePriority, ucon.MsgNameBlock, ucon.MsgNamePrevote, ucon.MsgNamePrecommit, ucon.MsgNameNext, ucon.MsgNameCert}
		code := ucon.StringToMessageCode(codes[g.n(len(codes))])
		var payload []byte
		key := g.key()
		sel := g.n(4)
		if g.k < len(liveStates) {
			sel = 2
		}
		switch sel {
		case 0:
			payload = mustEnc(g.votes())
		case 1:
			payload = mustEnc(g.consensusCommon())
		case 2:
			// a message the entry-point fixture accepts: a vote for its current round, signed by its validator key
			for {
				v := g.votes()
				if v.Timestamp == 1 {
					payload = mustEnc(v)
					break
				}
			}
			code, key = ucon.StringToMessageCode(codes[2+g.n(3)]), g.keys[1]
		default:
			payload = g.blob()
		}
		sig, err := ucon.Sign(key.Priv, append(append([]byte{}, payload...), byte(code)))
		if err != nil {
			panic(err)
		}
		return &ucon.Message{Code: code, Payload: payload, Signature: sig}
	})
	reg("ConsensusCommon", func() interface{} { return new(ucon.ConsensusCommon) }, func(g *gen) interface{} { return g.consensusCommon() })
	reg("SingleVote", func() interface{} { return new(ucon.SingleVote) }, func(g *gen) interface{} { v := g.singleVote(); return &v })
	reg("BlockHashWithVotes", func() interface{} { return new(ucon.BlockHashWithVotes) }, func(g *gen) interface{} { return g.votes() })
	reg("BlockConsensusData", func() interface{} { return new(ucon.BlockConsensusData) }, func(g *gen) interface{} { return g.consensusData() })
	reg("UconValidators", func() interface{} { return new(ucon.UconValidators) }, func(g *gen) interface{} { return g.uconValidators() })
	reg("VoteItem", func() interface{} { return new(ucon.VoteItem) }, func(g *gen) interface{} {
		return &ucon.VoteItem{VoteType: ucon.VoteType(1 + g.n(5)), Round: g.big(), RoundIndex: g.u32(), Addr: g.addr(), Signature: g.bytes(65)}
	})
	// ---- you (network packets).  Package you cannot be linked into the harness (its p2p dependency quic-go panics in
	// init() under this toolchain), so the packet types of you/protocol.go -- plain structs without custom codecs --
	// are mirrored field by field in youmirror.go; checks/C14.py compares the mirror with the source text.
	reg("StatusData", func() interface{} { return new(statusData) }, func(g *gen) interface{} {
		return &statusData{ProtocolVersion: g.u32(), NetworkId: g.u64(), Origin: g.u64(), Height: g.u64(), CurrentBlock: g.hash(), GenesisBlock: g.hash()}
	})
	reg("NewBlockHashesData", func() interface{} { return new(NewBlockHashesData) }, func(g *gen) interface{} {
		d := NewBlockHashesData{}
		for i := g.n(4); i > 0; i-- {
			d = append(d, struct {
				Hash   common.Hash
				Number uint64
			}{g.hash(), g.u64()})
		}
		return &d
	})
	reg("HashOrNumber", func() interface{} { return new(HashOrNumber) }, func(g *gen) interface{} {
		return &HashOrNumber{Hash: g.hash(), Number: g.u64()}
	})
	reg("BlocksData", func() interface{} { return new(BlocksData) }, func(g *gen) interface{} {
		d := BlocksData{}
		for i := g.n(3); i > 0; i-- {
			d = append(d, struct {
				Block  *types.Block
				Number *big.Int
			}{g.block(), g.big()})
		}
		return &d
	})
	reg("GetBlockHeadersData", func() interface{} { return new(getBlockHeadersData) }, func(g *gen) interface{} {
		return &getBlockHeadersData{Origin: HashOrNumber{Hash: g.hash(), Number: g.u64()}, Amount: g.u64(), Skip: g.u64(), Reverse: g.n(2) == 0, Light: g.n(2) == 0}
	})
	reg("GetNodeDataMsgData", func() interface{} { return new(GetNodeDataMsgData) }, func(g *gen) interface{} {
		d := &GetNodeDataMsgData{Kind: types.TrieKind(g.n(5)), Hashes: []common.Hash{}}
		for i := g.n(4); i > 0; i-- {
			d.Hashes = append(d.Hashes, g.hash())
		}
		return d
	})
	reg("Transactions", func() interface{} { return new([]*types.Transaction) }, func(g *gen) interface{} { t := g.txs(); return &t })
	reg("Headers", func() interface{} { return new([]*types.Header) }, func(g *gen) interface{} {
		hs := []*types.Header{}
		for i := g.n(3); i > 0; i-- {
			hs = append(hs, g.header())
		}
		return &hs
	})
	reg("Bodies", func() interface{} { return new([]*types.Body) }, func(g *gen) interface{} {
		bs := []*types.Body{}
		for i := g.n(3); i > 0; i-- {
			bs = append(bs, &types.Body{Transactions: g.txs()})
		}
		return &bs
	})
	reg("ReceiptsMsg", func() interface{} { return new([][]*types.Receipt) }, func(g *gen) interface{} {
		rs := [][]*types.Receipt{}
		for i := g.n(3); i > 0; i-- {
			blk := []*types.Receipt{}
			for j := g.n(3); j > 0; j-- {
				blk = append(blk, g.receipt())
			}
			rs = append(rs, blk)
		}
		return &rs
	})
	reg("NodeData", func() interface{} { return new([][]byte) }, func(g *gen) interface{} {
		d := [][]byte{}
		for i := g.n(4); i > 0; i-- {
			d = append(d, g.blob())
		}
		return &d
	})
	reg("Hash", func() interface{} { return new(common.Hash) }, func(g *gen) interface{} { h := g.hash(); return &h })
	reg("Hashes", func() interface{} { return new([]common.Hash) }, func(g *gen) interface{} {
		d := []common.Hash{}
		for i := g.n(4); i > 0; i-- {
			d = append(d, g.hash())
		}
		return &d
	})
}

func (g *gen) consensusCommon() *ucon.ConsensusCommon {
	c := &ucon.ConsensusCommon{Round: g.big(), RoundIndex: g.u32(), Step: g.u32(), Priority: g.hash(), SortitionProof: g.bytes(81), SubUsers: g.u32(),
		BlockHash: g.hash(), ParentHash: g.hash(), Timestamp: g.u64()}
	if round, index, ok := g.live(); ok { // not from the future
		c.Round, c.RoundIndex, c.Timestamp = round, index, 1
	}
	return c
}

// fixtureValidator is the main address of the validator of the staking entry-point fixture (entry.go: key 3, operated
// by key 2, which is also the sender of every staking message).
func (g *gen) fixtureValidator() common.Address { return state.PubToAddress(g.keys[3].PubComp) }
func (g *gen) mainAddr() common.Address {
	if g.n(2) == 0 {
		return g.fixtureValidator()
	}
	return g.addr()
}
func (g *gen) smallValue() *big.Int {
	if g.n(2) == 0 {
		return new(big.Int).Mul(big.NewInt(int64(1+g.n(20))), params.StakeUint)
	}
	return g.big()
}
func (g *gen) votes() *ucon.BlockHashWithVotes {
	v := g.singleVote()
	m := &ucon.BlockHashWithVotes{Priority: g.hash(), BlockHash: g.hash(), Round: g.big(), RoundIndex: g.u32(), Vote: &v, Timestamp: g.u64()}
	if round, index, ok := g.live(); ok {
		// a vote the entry-point fixture processes all the way: signed (ECDSA, the fixture runs with EnableBls=false) by the
		// validator key that also signs the enclosing message, not from the future
		m.Round, m.RoundIndex, m.Timestamp = round, index, 1
		payload := append(m.BlockHash.Bytes(), append(m.Round.Bytes(), byte(index>>24), byte(index>>16), byte(index>>8), byte(index))...)
		sig, err := ucon.Sign(g.keys[1].Priv, payload)
		if err != nil {
			panic(err)
		}
		v.Signature = sig
		v.Votes = uint32(1 + g.n(30))
	}
	return m
}
