package rlpdrv

import (
	"math/big"

	"github.com/youchainhq/go-youchain/common"
	"github.com/youchainhq/go-youchain/core/types"
)

// Mirror of the network packet types of /repo/you/protocol.go (see the note in codecs.go).  The text between the
// MIRROR markers is compared with the source by checks/C14.py (comments and blank lines removed).

// MIRROR-BEGIN
type statusData struct {
	ProtocolVersion uint32
	NetworkId       uint64
	Origin          uint64 //chain origin height
	Height          uint64 //latest height
	CurrentBlock    common.Hash
	GenesisBlock    common.Hash
}

type NewBlockHashesData []struct {
	Hash   common.Hash // Hash of one particular block being announced
	Number uint64      // Number of one particular block being announced
}

type HashOrNumber struct {
	Hash   common.Hash // Block hash from which to retrieve headers (excludes Number)
	Number uint64      // Block hash from which to retrieve headers (excludes Hash)
}

type BlocksData []struct {
	Block  *types.Block
	Number *big.Int
}

type getBlockHeadersData struct {
	Origin  HashOrNumber // Block from which to retrieve headers
	Amount  uint64       // Maximum number of headers to retrieve
	Skip    uint64       // Blocks to skip between consecutive headers
	Reverse bool         // Query direction (false = rising towards latest, true = falling towards genesis)
	Light   bool         // If true, the returned headers should not contain the Validator field. Use for a light store.
}

type GetNodeDataMsgData struct {
	Kind   types.TrieKind
	Hashes []common.Hash
}

// MIRROR-END
