package rlpdrv

import (
	"math/big"
	"reflect"
	"sync"
	"sync/atomic"
	"time"
	"unsafe"
)

// Structural equality of two values of the node's types, used for the "decoding its encoding yields an equal value"
// half of RoundTrip.  It is a projection, not an oracle: it reads every field (unexported ones through unsafe),
// ignores caches (atomic.Value, time.Time, the fields listed in skipField) and identifies nil with empty for slices
// and nil with zero for *big.Int (the generators never produce those, so this only matters for zero-length lists).

var (
	bigType    = reflect.TypeOf(big.Int{})
	atomicType = reflect.TypeOf(atomic.Value{})
	timeType   = reflect.TypeOf(time.Time{})
	syncMapTyp = reflect.TypeOf(sync.Map{})
)

// caches and bookkeeping that are not part of the value
// (Validators.index is derived from the list by NewValidators and is not rebuilt by Validators.DecodeRLP, which no
// production path calls)
var skipField = map[string]bool{"extV1": true, "deleted": true, "ReceivedFrom": true, "index": true}

func access(f reflect.Value) reflect.Value {
	if f.CanInterface() || !f.CanAddr() {
		return f
	}
	return reflect.NewAt(f.Type(), unsafe.Pointer(f.UnsafeAddr())).Elem()
}

func deepEq(a, b interface{}) bool {
	va, vb := reflect.ValueOf(a), reflect.ValueOf(b)
	if va.Type() != vb.Type() {
		return false
	}
	return eqv(va, vb)
}

func syncMapKeys(v reflect.Value) map[interface{}]bool {
	m := (*sync.Map)(unsafe.Pointer(v.UnsafeAddr()))
	out := map[interface{}]bool{}
	m.Range(func(k, _ interface{}) bool { out[k] = true; return true })
	return out
}

func eqv(a, b reflect.Value) bool {
	if a.Type() != b.Type() {
		return false
	}
	switch a.Type() {
	case bigType:
		x, y := access(a), access(b)
		return x.Addr().Interface().(*big.Int).Cmp(y.Addr().Interface().(*big.Int)) == 0
	case atomicType, timeType:
		return true
	case syncMapTyp:
		ka, kb := syncMapKeys(a), syncMapKeys(b)
		if len(ka) != len(kb) {
			return false
		}
		for k := range ka {
			if !kb[k] {
				return false
			}
		}
		return true
	}
	switch a.Kind() {
	case reflect.Ptr:
		if a.IsNil() || b.IsNil() {
			if a.Type().Elem() == bigType { // nil *big.Int is encoded as zero
				z := func(v reflect.Value) bool { return v.IsNil() || access(v).Interface().(*big.Int).Sign() == 0 }
				return z(a) && z(b)
			}
			return a.IsNil() && b.IsNil()
		}
		return eqv(a.Elem(), b.Elem())
	case reflect.Interface:
		if a.IsNil() || b.IsNil() {
			return a.IsNil() && b.IsNil()
		}
		return eqv(a.Elem(), b.Elem())
	case reflect.Struct:
		for i := 0; i < a.NumField(); i++ {
			if skipField[a.Type().Field(i).Name] {
				continue
			}
			if !eqv(access(a.Field(i)), access(b.Field(i))) {
				return false
			}
		}
		return true
	case reflect.Slice:
		if a.Len() != b.Len() {
			return false
		}
		for i := 0; i < a.Len(); i++ {
			if !eqv(a.Index(i), b.Index(i)) {
				return false
			}
		}
		return true
	case reflect.Array:
		for i := 0; i < a.Len(); i++ {
			if !eqv(a.Index(i), b.Index(i)) {
				return false
			}
		}
		return true
	case reflect.Map:
		if a.Len() != b.Len() {
			return false
		}
		for _, k := range a.MapKeys() {
			x, y := a.MapIndex(k), b.MapIndex(k)
			if !y.IsValid() || !eqv(x, y) {
				return false
			}
		}
		return true
	case reflect.String:
		return a.String() == b.String()
	case reflect.Bool:
		return a.Bool() == b.Bool()
	case reflect.Uint, reflect.Uint8, reflect.Uint16, reflect.Uint32, reflect.Uint64, reflect.Uintptr:
		return a.Uint() == b.Uint()
	case reflect.Int, reflect.Int8, reflect.Int16, reflect.Int32, reflect.Int64:
		return a.Int() == b.Int()
	}
	return true
}
