package rlpdrv

import (
	"bytes"
	"math/big"
	"sort"

	"github.com/youchainhq/go-youchain/common"
	"github.com/youchainhq/go-youchain/core/state"
	"github.com/youchainhq/go-youchain/params"
	"github.com/youchainhq/go-youchain/staking"
	"verif/harness/drive"
	"verif/harness/fixture"
)

// ---------------------------------------------------------------------------- stateful sequences on mutable containers
//
// spec/Rlp.tla (scope "seq") generates short sequences over {add x, del x, enc, copy, redecode} for every mutable
// container type that has an encoder, together with the content after each step.  The driver applies them to ONE real
// object and, at every "enc" (and at the end), records the object's encoding and List-style view next to those of a
// FRESH object built from the model's content.  "Equal objects have one encoding": the monitor requires them equal.

type seqOp struct {
	Op   string `json:"op"`
	X    int    `json:"x"`
	Cont []int  `json:"cont"` // the model's content after the step
}
type seqSpec struct {
	Ty   string  `json:"ty"`
	Init []int   `json:"init"`
	Ops  []seqOp `json:"ops"`
}

type container interface {
	add(x int)
	del(x int)
	clone() container
	value() interface{} // what is encoded
	fresh() interface{} // decode target
	adopt(v interface{}) container
	view() []int // element numbers in the order of the object's List-style view (nil: the type has none)
}

func addrOf(x int) common.Address { return common.BytesToAddress(bytes.Repeat([]byte{byte(x)}, 20)) }
func idOf(a common.Address) int   { return int(a[19]) }

// --- ValidatorIndex
type cIndex struct{ ix *state.ValidatorIndex }

func (c cIndex) add(x int)                     { c.ix.Add(addrOf(x)) }
func (c cIndex) del(x int)                     { c.ix.Delete(addrOf(x)) }
func (c cIndex) clone() container              { return cIndex{c.ix.DeepCopy()} }
func (c cIndex) value() interface{}            { return c.ix }
func (c cIndex) fresh() interface{}            { return state.NewValidatorIndex() }
func (c cIndex) adopt(v interface{}) container { return cIndex{v.(*state.ValidatorIndex)} }
func (c cIndex) view() []int {
	out := []int{}
	for _, a := range c.ix.List() {
		out = append(out, idOf(a))
	}
	return out
}

// --- WithdrawQueue
type cQueue struct{ q *state.WithdrawQueue }

func wrec(x int) *state.WithdrawRecord {
	return &state.WithdrawRecord{Operator: addrOf(x), Nonce: uint64(x), InitialBalance: big.NewInt(int64(x)), FinalBalance: big.NewInt(1)}
}
func (c cQueue) add(x int)                     { c.q.Add(wrec(x)) }
func (c cQueue) del(x int)                     { c.q.Delete(wrec(x)) }
func (c cQueue) clone() container              { return cQueue{c.q.DeepCopy()} }
func (c cQueue) value() interface{}            { return c.q }
func (c cQueue) fresh() interface{}            { return state.NewWithdrawQueue() }
func (c cQueue) adopt(v interface{}) container { return cQueue{v.(*state.WithdrawQueue)} }
func (c cQueue) view() []int {
	out := []int{}
	for _, r := range c.q.Records {
		out = append(out, int(r.Nonce))
	}
	return out
}

// --- EvidenceDoubleSign (its map)
type cDSign struct{ e *staking.EvidenceDoubleSign }

func (c cDSign) add(x int) {
	c.e.Signs[common.BytesToHash(bytes.Repeat([]byte{byte(x)}, 32))] = []byte{byte(x), 0xee}
}
func (c cDSign) del(x int) { delete(c.e.Signs, common.BytesToHash(bytes.Repeat([]byte{byte(x)}, 32))) }
func (c cDSign) clone() container {
	n := &staking.EvidenceDoubleSign{Round: new(big.Int).Set(c.e.Round), RoundIndex: c.e.RoundIndex, Signs: map[common.Hash][]byte{}}
	for k, v := range c.e.Signs {
		n.Signs[k] = append([]byte{}, v...)
	}
	return cDSign{n}
}
func (c cDSign) value() interface{}            { return c.e }
func (c cDSign) fresh() interface{}            { return new(staking.EvidenceDoubleSign) }
func (c cDSign) adopt(v interface{}) container { return cDSign{v.(*staking.EvidenceDoubleSign)} }
func (c cDSign) view() []int {
	out := []int{}
	for h := range c.e.Signs {
		out = append(out, int(h[31]))
	}
	sort.Ints(out)
	return out
}

// --- pendingRelationship
type cPending struct{ p interface{} }

func (c cPending) add(x int)                     { state.VerifRlpPendingAdd(c.p, addrOf(x), addrOf(9)) }
func (c cPending) del(x int)                     {}
func (c cPending) clone() container              { return cPending{state.VerifRlpPendingCopy(c.p)} }
func (c cPending) value() interface{}            { return c.p }
func (c cPending) fresh() interface{}            { return state.VerifRlpNewPendingRelationship() }
func (c cPending) adopt(v interface{}) container { return cPending{v} }
func (c cPending) view() []int {
	out := []int{}
	for _, dv := range state.VerifRlpPendingList(c.p) {
		out = append(out, idOf(dv[0]))
	}
	return out
}

// --- ValidatorsStat
type cStat struct{ s *state.ValidatorsStat }

func sval(x int) *state.Validator {
	k := fixture.Keys("rlp", nKeys)[x]
	status := uint8(params.ValidatorOnline)
	if x%2 == 0 {
		status = params.ValidatorOffline
	}
	return state.NewValidator("v", k.Addr, k.Addr, params.RoleChancellor, k.PubComp, k.BlsPkB, big.NewInt(int64(100*x)), big.NewInt(int64(10*x)), 1, 0, 0, status)
}
func (c cStat) add(x int) {
	c.s.GetByKind(params.KindChamber).AddVal(sval(x))
	c.s.GetByRole(params.RoleChancellor).AddVal(sval(x))
}
func (c cStat) del(x int) {
	c.s.GetByKind(params.KindChamber).SubVal(sval(x))
	c.s.GetByRole(params.RoleChancellor).SubVal(sval(x))
}
func (c cStat) clone() container              { return cStat{c.s.DeepCopy()} }
func (c cStat) value() interface{}            { return c.s }
func (c cStat) fresh() interface{}            { return state.NewValidatorsStat() }
func (c cStat) adopt(v interface{}) container { return cStat{v.(*state.ValidatorsStat)} }
func (c cStat) view() []int                   { return nil }

// --- Validators (only Remove mutates it)
type cVals struct{ v *state.Validators }

func (c cVals) add(x int) {}
func (c cVals) del(x int) { c.v.Remove(sval(x).MainAddress()) }
func (c cVals) clone() container {
	return cVals{state.NewValidators(append([]*state.Validator{}, c.v.List()...))}
}
func (c cVals) value() interface{}            { return c.v }
func (c cVals) fresh() interface{}            { return new(state.Validators) }
func (c cVals) adopt(v interface{}) container { return cVals{v.(*state.Validators)} }
func (c cVals) view() []int {
	out := []int{}
	for _, v := range c.v.List() {
		for x := 1; x <= 3; x++ {
			if v.MainAddress() == sval(x).MainAddress() {
				out = append(out, x)
			}
		}
	}
	return out
}

// build makes a FRESH container with the given content.
func build(ty string, cont []int) container {
	var c container
	switch ty {
	case "ValidatorIndex":
		c = cIndex{state.NewValidatorIndex()}
	case "WithdrawQueue":
		c = cQueue{state.NewWithdrawQueue()}
	case "EvidenceDoubleSign":
		c = cDSign{&staking.EvidenceDoubleSign{Round: big.NewInt(7), RoundIndex: 1, Signs: map[common.Hash][]byte{}}}
	case "PendingRelationship":
		c = cPending{state.VerifRlpNewPendingRelationship()}
	case "ValidatorsStat":
		c = cStat{state.NewValidatorsStat()}
	case "Validators":
		var vs []*state.Validator
		for _, x := range cont {
			vs = append(vs, sval(x))
		}
		return cVals{state.NewValidators(vs)}
	default:
		return nil
	}
	for _, x := range cont {
		c.add(x)
	}
	return c
}

func runSeq(env *drive.Env, sp *seqSpec) {
	obj := build(sp.Ty, sp.Init)
	if obj == nil {
		return
	}
	env.Emit(map[string]interface{}{"ev": "seqinit", "ty": sp.Ty, "init": sp.Init})
	check := func(op string, x int, cont []int) {
		ev := map[string]interface{}{"ev": "seq", "ty": sp.Ty, "op": op, "x": x, "chk": true, "hasview": false}
		var enc, fenc []byte
		view, fview := []int{}, []int{}
		pan := catch(func() {
			fresh := build(sp.Ty, cont)
			if v := obj.view(); v != nil {
				view, fview = v, fresh.view()
				ev["hasview"] = true
			}
			enc, fenc = mustEnc(obj.value()), mustEnc(fresh.value())
		})
		ev["enc"], ev["fenc"], ev["view"], ev["fview"], ev["pan"] = ints(enc), ints(fenc), view, fview, pan
		env.Emit(ev)
	}
	cont := sp.Init
	for _, o := range sp.Ops {
		cont = o.Cont
		if o.Op == "enc" {
			check("enc", 0, cont)
			continue
		}
		pan := catch(func() {
			switch o.Op {
			case "add":
				obj.add(o.X)
			case "del":
				obj.del(o.X)
			case "copy":
				obj = obj.clone()
			case "redecode":
				t := obj.fresh()
				if err := decode(mustEnc(obj.value()), t); err != nil {
					panic("own encoding rejected: " + err.Error())
				}
				obj = obj.adopt(t)
			}
		})
		env.Emit(map[string]interface{}{"ev": "seq", "ty": sp.Ty, "op": o.Op, "x": o.X, "chk": false, "hasview": false,
			"enc": []int{}, "fenc": []int{}, "view": []int{}, "fview": []int{}, "pan": pan})
	}
	check("end", 0, cont)
}
