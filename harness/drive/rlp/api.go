package rlpdrv

import (
	"bytes"
	"io"

	"github.com/youchainhq/go-youchain/rlp"
	"verif/harness/drive"
)

// ---------------------------------------------------------------------------- the encoder API is stateless
//
// spec/Rlp.tla (scope "api") enumerates sequences of calls of the public encoder entry points, which share a buffer pool:
// open v (rlp.EncodeToReader), imm v (rlp.EncodeToBytes for value 1, rlp.Encode to a writer for value 2), chunk s (read
// two bytes of reader s), drain s (read it to EOF), again s (read at EOF).  The driver performs the calls on the real
// package in one goroutine and records what each returned; the monitor requires every reader to yield the encoding of
// its own value whatever was interleaved.

type apiItem struct {
	K string    `json:"k"`
	V []int     `json:"v"`
	E []apiItem `json:"e"`
}
type apiOp struct {
	Op string `json:"op"`
	V  int    `json:"v"`
	S  int    `json:"s"`
}
type apiSpec struct {
	Ops  []apiOp   `json:"ops"`
	Vals []apiItem `json:"vals"` // the item trees of values 1, 2 as the spec defines them
}

// goValue turns an item tree of the spec into the Go value with that encoding: byte strings and []interface{}.
func goValue(it apiItem) interface{} {
	if it.K == "s" {
		return toBytes(it.V)
	}
	out := make([]interface{}, 0, len(it.E))
	for _, e := range it.E {
		out = append(out, goValue(e))
	}
	return out
}

func runAPI(env *drive.Env, sp *apiSpec) {
	vals := map[int]interface{}{}
	for i, it := range sp.Vals {
		vals[i+1] = goValue(it)
	}
	readers := map[int]io.Reader{}
	for _, o := range sp.Ops {
		var out []byte
		size, eof := 0, false
		pan := catch(func() {
			read := func(r io.Reader, n int) {
				buf := make([]byte, n)
				got, err := io.ReadFull(r, buf)
				out = append(out, buf[:got]...)
				if err == io.EOF || err == io.ErrUnexpectedEOF {
					eof = true
				} else if err != nil {
					panic("read error: " + err.Error())
				}
			}
			switch o.Op {
			case "open":
				n, r, err := rlp.EncodeToReader(vals[o.V])
				if err != nil {
					panic("encode error: " + err.Error())
				}
				size, readers[o.S] = n, r
			case "imm":
				var err error
				if o.V == 1 {
					out, err = rlp.EncodeToBytes(vals[o.V])
				} else {
					var w bytes.Buffer
					err = rlp.Encode(&w, vals[o.V])
					out = w.Bytes()
				}
				if err != nil {
					panic("encode error: " + err.Error())
				}
			case "chunk":
				read(readers[o.S], 2)
			case "drain":
				for !eof {
					read(readers[o.S], 16)
				}
			case "again":
				read(readers[o.S], 4)
			}
		})
		env.Emit(map[string]interface{}{"ev": "api", "ty": "api", "op": o.Op, "v": o.V, "s": o.S, "out": ints(out), "size": size, "eof": eof, "pan": pan})
	}
}
