package rlpdrv

import (
	"bytes"
	"encoding/hex"
	"fmt"

	"github.com/youchainhq/go-youchain/core/types"
	"github.com/youchainhq/go-youchain/crypto"
	"github.com/youchainhq/go-youchain/rlp"
	"github.com/youchainhq/go-youchain/staking"
	"verif/harness/drive"
)

// ---------------------------------------------------------------------------- large inputs from compact descriptors
//
// spec/Rlp.tla (Expand) defines the shapes; the descriptor travels instead of the megabytes, the driver expands it and
// the monitor judges the outcome by the descriptor.  For small descriptors the expansion is echoed so that the
// conformance spec compares it with its own Expand.

type bigDesc struct {
	Ty      string `json:"ty"`
	Kind    string `json:"kind"` // "repeat": cnt copies of elem; "junk": cnt bytes elem[0]; "announce": size field of cnt copies, only `present` of them there
	Cnt     int    `json:"cnt"`
	Present int    `json:"present"`
	Elem    []int  `json:"elem"`
	Pre     []int  `json:"pre"`  // j > 0: the list is field j of a struct; encodings of the fields before ...
	Post    []int  `json:"post"` // ... and after it
	J       int    `json:"j"`
	Echo    bool   `json:"echo"`
}

func header(n int, off byte) []byte {
	if n < 56 {
		return []byte{off + byte(n)}
	}
	var be []byte
	for x := n; x > 0; x >>= 8 {
		be = append([]byte{byte(x)}, be...)
	}
	return append([]byte{off + 55 + byte(len(be))}, be...)
}

func expand(d *bigDesc) []byte {
	elem := toBytes(d.Elem)
	var payload []byte
	size := 0
	switch d.Kind {
	case "repeat":
		payload = bytes.Repeat(elem, d.Cnt)
		size = len(payload)
	case "junk":
		payload = bytes.Repeat(elem[:1], d.Cnt)
		size = len(payload)
	case "announce":
		payload = bytes.Repeat(elem, d.Present)
		size = len(elem) * d.Cnt
	}
	big := append(header(size, 0xc0), payload...)
	if d.J == 0 {
		return big
	}
	pre, post := toBytes(d.Pre), toBytes(d.Post)
	out := header(len(pre)+len(big)+len(post), 0xc0)
	out = append(out, pre...)
	out = append(out, big...)
	return append(out, post...)
}

// unlimited hides the length of the input from rlp.NewStream(r, 0): no input limit, as for a network or file stream.
type unlimited struct{ r *bytes.Reader }

func (u unlimited) Read(p []byte) (int, error) { return u.r.Read(p) }
func (u unlimited) ReadByte() (byte, error)    { return u.r.ReadByte() }

type formRes struct {
	Acc   bool   `json:"acc"`
	Alloc uint64 `json:"alloc"`
	Cons  int    `json:"cons"` // bytes the decoder took from the reader before it returned
}

// streamForm decodes the first value of b into target through a Stream with (limit = len(b)) or without input limit.
func streamForm(b []byte, target interface{}, limited bool) (res formRes, pan string) {
	r := bytes.NewReader(b)
	var err error
	pan = catch(func() {
		res.Alloc = measure(func() {
			if limited {
				err = rlp.NewStream(r, uint64(len(b))).Decode(target)
			} else {
				err = rlp.NewStream(unlimited{r}, 0).Decode(target)
			}
		})
	})
	res.Acc = pan == "" && err == nil
	res.Cons = len(b) - r.Len()
	return res, pan
}

func runBig(env *drive.Env, d *bigDesc) {
	c := byName[d.Ty]
	if c == nil {
		return
	}
	b := expand(d)
	ev := map[string]interface{}{"ev": "big", "ty": d.Ty, "kind": d.Kind, "cnt": d.Cnt, "present": d.Present, "elem": d.Elem, "pre": d.Pre,
		"post": d.Post, "j": d.J, "len": len(b), "b": []int{}}
	if d.Echo {
		ev["b"] = ints(b)
	}
	pan := ""
	note := func(p string) {
		if pan == "" && p != "" {
			pan = p
		}
	}
	// d: rlp.DecodeBytes into the type (consumption from an identical limited stream run)
	var dres formRes
	{
		target := c.fresh()
		var err error
		note(catch(func() { dres.Alloc = measure(func() { err = decode(b, target) }) }))
		dres.Acc = pan == "" && err == nil
		s, p := streamForm(b, c.fresh(), true)
		note(p)
		dres.Cons = s.Cons
	}
	// u: a stream without input limit
	ures, p := streamForm(b, c.fresh(), false)
	note(p)
	// g: the generic decoder
	var gres formRes
	{
		var v interface{}
		var err error
		note(catch(func() { gres.Alloc = measure(func() { err = decode(b, &v) }) }))
		gres.Acc = err == nil
		var v2 interface{}
		s, p := streamForm(b, &v2, true)
		note(p)
		gres.Cons = s.Cons
	}
	ev["d"], ev["u"], ev["g"], ev["pan"] = dres, ures, gres, pan
	env.Emit(ev)
}

// ---------------------------------------------------------------------------- OneHash
// digest collects Hash() and Size() of every object with such caches inside a decoded value ("" when there is none).
func digest(v interface{}) (out string) {
	var parts []string
	tx := func(t *types.Transaction) {
		if t != nil {
			parts = append(parts, t.Hash().Hex(), fmt.Sprint(float64(t.Size())))
		}
	}
	txs := func(l []*types.Transaction) {
		for _, t := range l {
			tx(t)
		}
	}
	hdr := func(h *types.Header) {
		if h != nil {
			parts = append(parts, h.Hash().Hex(), fmt.Sprint(float64(h.Size())))
		}
	}
	blk := func(b *types.Block) {
		if b != nil {
			parts = append(parts, b.Hash().Hex(), fmt.Sprint(float64(b.Size())))
			txs(b.Transactions())
		}
	}
	switch x := v.(type) {
	case *types.Transaction:
		tx(x)
	case *[]*types.Transaction:
		txs(*x)
	case *types.Body:
		txs(x.Transactions)
	case *[]*types.Body:
		for _, b := range *x {
			if b != nil {
				txs(b.Transactions)
			}
		}
	case *types.Block:
		blk(x)
	case *BlocksData:
		for _, e := range *x {
			blk(e.Block)
		}
	case *types.Header:
		hdr(x)
	case *[]*types.Header:
		for _, h := range *x {
			hdr(h)
		}
	case *staking.SlashData:
		parts = append(parts, x.Hash().Hex())
	default:
		return ""
	}
	if len(parts) == 0 {
		return "none"
	}
	var buf []byte
	for _, p := range parts {
		buf = append(buf, p...)
		buf = append(buf, '|')
	}
	return hex.EncodeToString(crypto.Keccak256(buf)[:8])
}

// oneHash returns the digest of the decoded object and of a fresh object decoded from its re-encoding.
func oneHash(c *codec, target interface{}, reenc []byte) (h1, h2, pan string) {
	pan = catch(func() {
		h1 = digest(target)
		if h1 == "" {
			return
		}
		fresh := c.fresh()
		if err := decode(reenc, fresh); err != nil {
			h2 = "re-encoding rejected: " + err.Error()
			return
		}
		h2 = digest(fresh)
	})
	return h1, h2, pan
}
