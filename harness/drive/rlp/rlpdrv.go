// Package rlpdrv feeds byte strings and real objects to the real RLP codecs of go-youchain and records what they
// did (C14, spec/Rlp.tla).
//
// Modes (option mode=):
//
//	seeds : for every registered type, K seeded real objects are built from fixture keys (signed transactions, headers
//	        with ucon fields, validators with delegations, evidences with BLS signatures ...) and written as
//	        {ty, k, b, nodes} lines: the encodings that spec/Rlp.tla mutates (scope "seeds").
//	run   : (default) one behaviour = {ty, gen:{k}|null, cases:[{b, mut, cex}]}.  With gen, the same object is rebuilt
//	        and a round trip ("rt") and a determinism ("det") event are recorded; then every case is decoded into the
//	        real type ("dec": accepted, re-encoding, generic decoder's verdict, allocation, panic) and, where the type has
//	        a synchronous entry point (consensus message handler, staking transaction converter, log data decoder, header
//	        field extractors, disk readers), the same bytes are driven through it.  Large inputs arrive as descriptors
//	        (big.go) and are decoded by DecodeBytes, by a stream without input limit and by the generic decoder ("big").
//	        Every decode records its allocation together with the bytes the decoder consumed; accepted objects of the
//	        hashable types record a digest of their Hash()/Size() and that of a fresh object built from the re-encoding.
package rlpdrv

import (
	"bytes"
	"fmt"
	"runtime"
	"sort"
	"syscall"

	"github.com/youchainhq/go-youchain/logging"
	"github.com/youchainhq/go-youchain/rlp"
	"verif/harness/drive"
)

func init() { drive.Register("rlp", run) }

func encode(v interface{}) ([]byte, error) { return rlp.EncodeToBytes(v) }
func decode(b []byte, v interface{}) error { return rlp.DecodeBytes(b, v) }

type kase struct {
	B   []int  `json:"b"`
	Mut string `json:"mut"`
	Cex bool   `json:"cex"`
}
type genSpec struct {
	K int `json:"k"`
}
type behaviour struct {
	Ty    string       `json:"ty"`
	Gen   *genSpec     `json:"gen"`
	Seed  *int64       `json:"seed"` // seed the object was generated with (defaults to the run's seed)
	Rnd   int          `json:"rnd"`  // number of driver-side random mutations of the object's encoding
	Cases []kase       `json:"cases"`
	Big   []bigDesc    `json:"big"` // large inputs as descriptors (big.go)
	Enc   []encBigSpec `json:"enc"` // encode side at the header-class boundaries (encbig.go)
	Seq   *seqSpec     `json:"seq"` // a stateful sequence on a mutable container (seq.go)
	Api   *apiSpec     `json:"api"` // a sequence of calls of the encoder entry points (api.go)
}

func ints(b []byte) []int {
	out := make([]int, len(b))
	for i, x := range b {
		out[i] = int(x)
	}
	return out
}
func toBytes(v []int) []byte {
	out := make([]byte, len(v))
	for i, x := range v {
		out[i] = byte(x)
	}
	return out
}

func catch(f func()) (pan string) {
	defer func() {
		if r := recover(); r != nil {
			pan = fmt.Sprint(r)
			if len(pan) > 200 {
				pan = pan[:200]
			}
			if pan == "" {
				pan = "panic"
			}
		}
	}()
	f()
	return ""
}

// countNodes counts the items of an encoding (the nodes of the item tree, in the order of PathSeq of the spec).
func countNodes(b []byte) int {
	k, content, _, err := rlp.Split(b)
	if err != nil {
		return 1
	}
	n := 1
	if k == rlp.List {
		for len(content) > 0 {
			_, _, rest, err := rlp.Split(content)
			if err != nil {
				break
			}
			n += countNodes(content[:len(content)-len(rest)])
			content = rest
		}
	}
	return n
}

// memLimit bounds the address space of the driver process: a decoder that trusts a hostile size field dies with
// "fatal error: out of memory" (recorded by the orchestrator as an abort of the behaviour) instead of zeroing gigabytes
// per case until the run times out.
const memLimit = 3 << 30

func run(env *drive.Env) error {
	logging.Verbosity(logging.LvlCrit)
	syscall.Setrlimit(syscall.RLIMIT_AS, &syscall.Rlimit{Cur: memLimit, Max: memLimit})
	if env.Opt("mode", "run") == "seeds" {
		return seeds(env)
	}
	w := newWorld()
	warmUp()
	var beh behaviour
	for {
		beh = behaviour{}
		if !env.Next(&beh) {
			break
		}
		runBehaviour(env, w, &beh)
	}
	return nil
}

// warmUp runs every codec once so that the one-time costs (rlp's type cache, lazily built tables) are not charged to
// the first measured decode of a type.
func warmUp() {
	for _, c := range registry {
		catch(func() {
			b := mustEnc(c.gen(newGen(0, c.name, 0)))
			decode(b, c.fresh())
			streamForm(b, c.fresh(), true)
			streamForm(b[:len(b)/2], c.fresh(), false)
			var v interface{}
			decode(b, &v)
		})
	}
}

// seeds writes the encodings of K real objects per type together with the nodes to mutate.
func seeds(env *drive.Env) error {
	k := env.OptInt("k", 3)
	nodeCap := env.OptInt("nodes", 10)
	env.Begin(0)
	for _, c := range registry {
		if c.gen == nil {
			continue
		}
		kk := k
		if liveTypes[c.name] && kk < len(liveStates) {
			kk = len(liveStates)
		}
		for i := 0; i < kk; i++ {
			g := newGen(env.Seed, c.name, i)
			var b []byte
			var err error
			if pan := catch(func() { b, err = encode(c.gen(g)) }); pan != "" || err != nil {
				// reported by the run mode (rt event); nothing to mutate
				continue
			}
			n := countNodes(b)
			pick := map[int]bool{1: true}
			for len(pick) < nodeCap && len(pick) < n {
				pick[1+g.n(n)] = true
			}
			nodes := []int{}
			for x := range pick {
				nodes = append(nodes, x)
			}
			sort.Ints(nodes)
			env.Emit(map[string]interface{}{"ev": "seed", "ty": c.name, "k": i, "b": ints(b), "nodes": nodes})
		}
	}
	return nil
}

func measure(f func()) (alloc uint64) {
	var m0, m1 runtime.MemStats
	runtime.ReadMemStats(&m0)
	f()
	runtime.ReadMemStats(&m1)
	a := m1.TotalAlloc - m0.TotalAlloc
	if a > 2000000000 {
		a = 2000000000
	}
	return a
}

// decodeCase decodes b into the real type and re-encodes the result nre times.
func decodeCase(c *codec, b []byte) (acc bool, same bool, re []byte, nre int, alloc uint64, target interface{}, pan string) {
	target = c.fresh()
	var err error
	pan = catch(func() {
		alloc = measure(func() { err = decode(b, target) })
	})
	if pan != "" {
		return false, false, nil, 0, alloc, target, "decode: " + pan
	}
	if err != nil {
		return false, false, nil, 0, alloc, target, ""
	}
	acc, same = true, true
	seen := map[string]bool{}
	for i := 0; i < c.nre; i++ {
		var out []byte
		if p := catch(func() { out, err = encode(target) }); p != "" {
			return acc, false, nil, len(seen), alloc, target, "re-encode: " + p
		}
		if err != nil {
			return acc, false, nil, len(seen), alloc, target, "re-encode error: " + err.Error()
		}
		seen[string(out)] = true
		if !bytes.Equal(out, b) {
			same = false
			if re == nil {
				re = out
			}
		}
	}
	return acc, same, re, len(seen), alloc, target, ""
}

// streamCase decodes the FIRST value of b the way p2p.Msg.Decode and the database readers do (rlp.NewStream(r, len).Decode:
// no check for bytes after the value) and re-encodes it: accepted, bytes consumed, re-encoding == consumed prefix.
func streamCase(c *codec, b []byte) (acc bool, cons int, same bool, pan string) {
	target := c.fresh()
	r := bytes.NewReader(b)
	var err error
	pan = catch(func() { err = rlp.NewStream(r, uint64(len(b))).Decode(target) })
	cons = len(b) - r.Len() // also when the input was rejected: the prefix the decoder looked at
	if pan != "" {
		return false, cons, false, "stream decode: " + pan
	}
	if err != nil {
		return false, cons, false, ""
	}
	same = true
	for i := 0; i < c.nre; i++ {
		var out []byte
		if p := catch(func() { out, err = encode(target) }); p != "" || err != nil {
			return true, cons, false, "stream re-encode: " + p
		}
		if !bytes.Equal(out, b[:cons]) {
			same = false
		}
	}
	return true, cons, same, ""
}

func genericAccepts(b []byte) (ok bool, pan string) {
	pan = catch(func() {
		var v interface{}
		ok = decode(b, &v) == nil
	})
	return ok, pan
}

func runBehaviour(env *drive.Env, w *world, beh *behaviour) {
	for i := range beh.Big {
		runBig(env, &beh.Big[i])
	}
	for i := range beh.Enc {
		sd := env.Seed
		if beh.Seed != nil {
			sd = *beh.Seed
		}
		runEncBig(env, sd, &beh.Enc[i])
	}
	if beh.Seq != nil {
		runSeq(env, beh.Seq)
		return
	}
	if beh.Api != nil {
		runAPI(env, beh.Api)
		return
	}
	if beh.Ty == "generic" {
		for _, k := range beh.Cases {
			b := toBytes(k.B)
			var ok bool
			var pan string
			alloc := measure(func() { ok, pan = genericAccepts(b) })
			var v interface{}
			s, _ := streamForm(b, &v, true)
			env.Emit(map[string]interface{}{"ev": "gen", "ty": "generic", "b": k.B, "gacc": ok, "alloc": alloc, "cons": s.Cons, "pan": pan, "mut": k.Mut})
		}
		return
	}
	c := byName[beh.Ty]
	if c == nil {
		env.Emit(map[string]interface{}{"ev": "skip", "ty": beh.Ty})
		return
	}
	seed := env.Seed
	if beh.Seed != nil {
		seed = *beh.Seed
	}
	var enc1 []byte
	if beh.Gen != nil && c.gen != nil {
		enc1 = roundTrip(env, c, seed, beh.Gen.K)
	}
	emitDec := func(b []byte, mut string, cex bool) {
		acc, same, re, nre, alloc, target, pan := decodeCase(c, b)
		var gacc bool
		var gpan string
		galloc := measure(func() { gacc, gpan = genericAccepts(b) })
		if pan == "" && gpan != "" {
			pan = "generic: " + gpan
		}
		var gv interface{}
		gs, _ := streamForm(b, &gv, true)
		sacc, scons, ssame, span := streamCase(c, b)
		if pan == "" && span != "" {
			pan = span
		}
		oh1, oh2 := "", ""
		if acc && pan == "" {
			reenc := b
			if re != nil {
				reenc = re
			}
			var hp string
			oh1, oh2, hp = oneHash(c, target, reenc)
			if hp != "" {
				pan = "hash: " + hp
			}
		}
		ev := map[string]interface{}{"ev": "dec", "ty": c.name, "b": ints(b), "mut": mut, "acc": acc, "same": same, "re": ints(re), "nre": nre,
			"sacc": sacc, "scons": scons, "ssame": ssame, "oh1": oh1, "oh2": oh2,
			"gacc": gacc, "galloc": galloc, "gcons": gs.Cons, "alloc": alloc, "pan": pan, "cex": cex, "ent": w.entries(c.name, b, acc && pan == "")}
		env.Emit(ev)
	}
	for _, k := range beh.Cases {
		emitDec(toBytes(k.B), k.Mut, k.Cex)
	}
	// driver-side random mutations of the real encoding (bit flips, byte splices, random truncation)
	if enc1 != nil {
		g := newGen(seed, c.name+"/rnd", beh.Gen.K)
		for i := 0; i < beh.Rnd; i++ {
			m := append([]byte{}, enc1...)
			var lab string
			switch g.n(5) {
			case 4: // random bytes behind a plausible first byte
				m = g.bytes(1 + g.n(80))
				m[0] = []byte{0xc0, 0xc1, 0xd5, 0xf7, 0xf8, 0xf9, 0x80, 0xa0, 0xb8, 0x7f}[g.n(10)] + byte(g.n(3))
				lab = "rndbytes"
			case 0, 1:
				p := g.n(len(m))
				m[p] ^= 1 << uint(g.n(8))
				lab = fmt.Sprintf("rndflip@%d", p)
			case 2:
				p := g.n(len(m))
				m[p] = byte(g.n(256))
				lab = fmt.Sprintf("rndbyte@%d", p)
			default:
				p := 1 + g.n(len(m))
				m = m[:p]
				lab = fmt.Sprintf("rndtrunc@%d", p)
			}
			emitDec(m, lab, false)
		}
	}
}

// roundTrip records RoundTrip and EncodeDeterministic for real object k of the type and returns its encoding.
func roundTrip(env *drive.Env, c *codec, seed int64, k int) []byte {
	var v interface{}
	var enc1 []byte
	var err error
	pan := catch(func() {
		v = c.gen(newGen(seed, c.name, k))
		enc1, err = encode(v)
	})
	if pan != "" || err != nil {
		if err != nil {
			pan = "encode error: " + err.Error()
		}
		env.Emit(map[string]interface{}{"ev": "rt", "ty": c.name, "k": k, "b": []int{}, "acc": false, "same": false, "nre": 0, "deq": "na", "pan": "encode: " + pan})
		return nil
	}
	acc, same, _, nre, _, target, dpan := decodeCase(c, enc1)
	deq := "na"
	if acc && dpan == "" {
		deq = "no"
		if p := catch(func() {
			if deepEq(v, target) {
				deq = "yes"
			}
		}); p != "" {
			deq = "na"
		}
	}
	env.Emit(map[string]interface{}{"ev": "rt", "ty": c.name, "k": k, "b": ints(enc1), "acc": acc, "same": same, "nre": nre, "deq": deq, "pan": dpan})
	// the same value built and encoded in 20 (map-backed type: 128) fresh runs of the generator
	encs := map[string]bool{}
	dp := catch(func() {
		runs := 20
		if c.nre > runs {
			runs = c.nre
		}
		for i := 0; i < runs; i++ {
			out, err := encode(c.gen(newGen(seed, c.name, k)))
			if err != nil {
				panic(err)
			}
			encs[string(out)] = true
		}
	})
	env.Emit(map[string]interface{}{"ev": "det", "ty": c.name, "k": k, "b": ints(enc1), "nenc": len(encs), "pan": dp})
	return enc1
}
