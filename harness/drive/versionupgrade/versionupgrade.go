// Package versionupgrade drives spec/VersionUpgrade.tla through the real core.VerifyYouVersionState (verifier) and
// core.ProcessYouVersionState (honest builder) of /repo (C12).
//
// A behaviour is one of
//
//	{"P":{"vr","th","minw","maxw"}, "chain":[[cv,nv,ap,vb,so],...], "F":8}    (from TLC: a witness chain to a reachable header)
//	{"P":{...}, "walk":N, "wseed":k}                                           (a random walk over headers the real verifier accepts)
//
// For a chain the driver installs the scaled parameter table in params.Versions, checks every step with the REAL verifier
// (so the last header is reachable on the real code, whatever the model says), then enumerates every candidate successor
// with fields in 0..F, records the ones the real verifier ACCEPTS, and runs the real builder for every table a live node
// can have (known versions, approved upgrade on/off, UpgradeWaitRounds) recording its header and the verifier's verdicts.
// One "explore" event per behaviour.  A walk emits one "step" event per accepted header.
package versionupgrade

import (
	"encoding/json"
	"fmt"
	"math/big"
	"math/rand"

	"github.com/youchainhq/go-youchain/core"
	"github.com/youchainhq/go-youchain/core/types"
	"github.com/youchainhq/go-youchain/logging"
	"github.com/youchainhq/go-youchain/params"
	"verif/harness/drive"
)

func init() { drive.Register("versionupgrade", run) }

// P4 = the four upgrade parameters of one version.
type P4 struct {
	Vr   uint64 `json:"vr"`
	Th   uint64 `json:"th"`
	Minw uint64 `json:"minw"`
	Maxw uint64 `json:"maxw"`
}

// PS is a parameter set: either the same four numbers for every version ({"vr",...}) or one P4 per version of the
// fixture ({"p1":{...},"p2":{...},"p9":{...}}).  It is echoed into the trace exactly as it came in (Raw).
type PS struct {
	P4
	P1  *P4 `json:"p1"`
	P2  *P4 `json:"p2"`
	P9  *P4 `json:"p9"`
	Raw json.RawMessage `json:"-"`
}

// UnmarshalJSON keeps the raw form for the trace.
func (p *PS) UnmarshalJSON(b []byte) error {
	type plain PS
	var q plain
	if err := json.Unmarshal(b, &q); err != nil {
		return err
	}
	*p = PS(q)
	p.Raw = append(json.RawMessage{}, b...)
	return nil
}

// MarshalJSON echoes the raw form.
func (p PS) MarshalJSON() ([]byte, error) {
	if len(p.Raw) > 0 {
		return p.Raw, nil
	}
	return json.Marshal(p.P4)
}

// of returns the parameters of version v.
func (p PS) of(v params.YouVersion) P4 {
	switch {
	case v == 1 && p.P1 != nil:
		return *p.P1
	case v == 2 && p.P2 != nil:
		return *p.P2
	case v == 9 && p.P9 != nil:
		return *p.P9
	}
	return p.P4
}

func (p PS) maxw() uint64 {
	m := uint64(0)
	for _, v := range versions {
		if q := p.of(v); q.Maxw > m {
			m = q.Maxw
		}
	}
	return m
}

func (p PS) span() uint64 {
	m := uint64(0)
	for _, v := range versions {
		if q := p.of(v); q.Vr+q.Maxw > m {
			m = q.Vr + q.Maxw
		}
	}
	return m
}

// Beh is one behaviour.
type Beh struct {
	P     PS      `json:"P"`
	Chain [][]int `json:"chain"`
	F     int     `json:"F"`
	Walk  int     `json:"walk"`
	Wseed int64   `json:"wseed"`
}

var versions = []params.YouVersion{1, 2, 9}

func approved(v params.YouVersion) params.YouVersion {
	switch v {
	case 1:
		return 2
	case 2:
		return 9
	}
	return 0
}

// table builds a params.Versions table holding the versions in `known`.
func table(p PS, known []params.YouVersion, appr bool, wait uint64) params.VersionsMap {
	m := params.VersionsMap{}
	for _, v := range known {
		yp := params.YouParams{Version: v}
		q := p.of(v)
		yp.UpgradeVoteRounds = q.Vr
		yp.UpgradeThreshold = q.Th
		yp.MinUpgradeWaitRounds = q.Minw
		yp.MaxUpgradeWaitRounds = q.Maxw
		yp.UpgradeWaitRounds = wait
		if appr {
			yp.ApprovedUpgradeVersion = approved(v)
		}
		m[v] = yp
	}
	return m
}

// hdr is the abstract header [n, cv, nv, ap, vb, so].
type hdr struct{ n, cv, nv, ap, vb, so uint64 }

func (h hdr) tuple() []uint64 { return []uint64{h.cv, h.nv, h.ap, h.vb, h.so} }

func fromTuple(n uint64, t []int) hdr {
	return hdr{n, uint64(t[0]), uint64(t[1]), uint64(t[2]), uint64(t[3]), uint64(t[4])}
}

func (h hdr) real() *types.Header {
	return &types.Header{Number: new(big.Int).SetUint64(h.n), CurrVersion: params.YouVersion(h.cv), NextVersion: params.YouVersion(h.nv),
		NextApprovals: h.ap, NextVoteBefore: h.vb, NextSwitchOn: h.so}
}

func abstract(h *types.Header) hdr {
	return hdr{h.Number.Uint64(), uint64(h.CurrVersion), uint64(h.NextVersion), h.NextApprovals, h.NextVoteBefore, h.NextSwitchOn}
}

type critSignal struct{ msg string }

// verify calls the real verifier: "ok" (nil), "reject" (error), "crit" (logging.Crit, i.e. the node would halt).
// The log handler installed by run() turns a Crit record into a panic before logging.Crit reaches os.Exit.
func verify(prev, curr *types.Header) (verdict string) {
	defer func() {
		if r := recover(); r != nil {
			if _, ok := r.(critSignal); ok {
				verdict = "crit"
				return
			}
			panic(r)
		}
	}()
	if err := core.VerifyYouVersionState(prev, curr); err != nil {
		return "reject"
	}
	return "ok"
}

func subsetsWith(seen map[uint64]bool) [][]params.YouVersion {
	var out [][]params.YouVersion
	for mask := 0; mask < 1<<uint(len(versions)); mask++ {
		var k []params.YouVersion
		ok := true
		for i, v := range versions {
			in := mask&(1<<uint(i)) != 0
			if in {
				k = append(k, v)
			}
			if seen[uint64(v)] && !in {
				ok = false
			}
		}
		if ok {
			out = append(out, k)
		}
	}
	return out
}

func run(env *drive.Env) error {
	saved := params.Versions
	defer func() { params.Versions = saved }()
	logging.Root().SetHandler(logging.FuncHandler(func(r *logging.Record) error {
		if r.Lvl == logging.LvlCrit {
			panic(critSignal{r.Msg})
		}
		return nil
	}))
	fullEvery := env.OptInt("fullevery", 10)
	var beh Beh
	for k := 0; env.Next(&beh); k++ {
		if beh.Walk > 0 {
			walk(env, &beh)
		} else {
			// full = 1: the conformance spec re-enumerates the whole candidate domain for this event
			full := 0
			if fullEvery > 0 && env.T%fullEvery == 0 {
				full = 1
			}
			explore(env, &beh, full)
		}
		beh = Beh{}
	}
	return nil
}

func explore(env *drive.Env, beh *Beh, fullFlag int) {
	p := beh.P
	full := table(p, versions, true, 0)
	params.Versions = full
	prev := hdr{0, 1, 0, 0, 0, 0}
	seen := map[uint64]bool{1: true}
	okn := 0
	for _, t := range beh.Chain {
		c := fromTuple(prev.n+1, t)
		if verify(prev.real(), c.real()) != "ok" {
			break // the model thought this chain is acceptable, the real verifier does not: drift, judged by the conformance spec
		}
		okn++
		prev = c
		seen[c.cv] = true
	}
	ev := map[string]interface{}{"ev": "explore", "P": p, "chain": beh.Chain, "okn": okn, "F": beh.F, "full": fullFlag}
	if okn < len(beh.Chain) {
		env.Emit(ev)
		return
	}
	// every candidate successor with fields in 0..F, judged by the real verifier (full table)
	F := uint64(beh.F)
	acc := [][]uint64{}
	ncand, ncrit := 0, 0
	pr := prev.real()
	cr := &types.Header{Number: new(big.Int).SetUint64(prev.n + 1)}
	for _, cv := range versions {
		for _, nv := range append([]params.YouVersion{0}, versions...) {
			for ap := uint64(0); ap <= F; ap++ {
				for vb := uint64(0); vb <= F; vb++ {
					for so := uint64(0); so <= F; so++ {
						cr.CurrVersion, cr.NextVersion, cr.NextApprovals, cr.NextVoteBefore, cr.NextSwitchOn = cv, nv, ap, vb, so
						ncand++
						switch verify(pr, cr) {
						case "ok":
							acc = append(acc, []uint64{uint64(cv), uint64(nv), ap, vb, so})
						case "crit":
							ncrit++
						}
					}
				}
			}
		}
	}
	ev["acc"], ev["ncand"], ev["ncrit"] = acc, ncand, ncrit
	// the honest builder under every table a live node can have; distinct outcomes are recorded with one representative table
	type outcome struct {
		K    []params.YouVersion `json:"K"`
		Appr int                 `json:"appr"`
		Wait uint64              `json:"wait"`
		Out  []uint64            `json:"out"` // empty: the builder returned an error
		Own  string              `json:"own"` // verdict of the verifier with the builder's own table
		Full string              `json:"full"`
		N    int                 `json:"cnt"`
	}
	var blds []*outcome
	idx := map[string]*outcome{}
	nb := 0
	for _, K := range subsetsWith(seen) {
		for appr := 0; appr <= 1; appr++ {
			for wait := uint64(0); wait <= p.maxw()+1; wait++ {
				params.Versions = table(p, K, appr == 1, wait)
				curr := &types.Header{Number: new(big.Int).SetUint64(prev.n + 1)}
				o := &outcome{K: K, Appr: appr, Wait: wait, Out: []uint64{}, Own: "-", Full: "-", N: 1}
				nb++
				if err := core.ProcessYouVersionState(prev.real(), curr); err == nil {
					out := abstract(curr)
					o.Out = out.tuple()
					o.Own = verify(prev.real(), curr)
					params.Versions = full
					o.Full = verify(prev.real(), curr)
				}
				key := fmt.Sprint(o.Out, o.Own, o.Full)
				if e, ok := idx[key]; ok {
					e.N++
				} else {
					idx[key] = o
					blds = append(blds, o)
				}
			}
		}
	}
	params.Versions = full
	ev["blds"], ev["nbuild"] = blds, nb
	env.Emit(ev)
}

// walk extends a chain from genesis by headers the REAL verifier accepts, chosen at random among the accepted candidates in
// a window of field values around the current round.
func walk(env *drive.Env, beh *Beh) {
	p := beh.P
	params.Versions = table(p, versions, true, 0)
	rng := rand.New(rand.NewSource(env.Seed*7919 + beh.Wseed))
	prev := hdr{0, 1, 0, 0, 0, 0}
	span := p.span() + 2
	for i := 0; i < beh.Walk; i++ {
		n := prev.n + 1
		rounds := []uint64{0}
		lo := uint64(0)
		if n > 2 {
			lo = n - 2
		}
		for r := lo; r <= n+span; r++ {
			if r != 0 {
				rounds = append(rounds, r)
			}
		}
		aps := []uint64{0, 1, 2, prev.ap, prev.ap + 1, prev.ap + 2}
		if prev.ap > 0 {
			aps = append(aps, prev.ap-1)
		}
		var acc []hdr
		pr := prev.real()
		cr := &types.Header{Number: new(big.Int).SetUint64(n)}
		seenAp := map[uint64]bool{}
		for _, ap := range aps {
			if seenAp[ap] {
				continue
			}
			seenAp[ap] = true
			for _, cv := range versions {
				for _, nv := range append([]params.YouVersion{0}, versions...) {
					for _, vb := range rounds {
						for _, so := range rounds {
							cr.CurrVersion, cr.NextVersion, cr.NextApprovals, cr.NextVoteBefore, cr.NextSwitchOn = cv, nv, ap, vb, so
							if verify(pr, cr) == "ok" {
								acc = append(acc, hdr{n, uint64(cv), uint64(nv), ap, vb, so})
							}
						}
					}
				}
			}
		}
		if len(acc) == 0 {
			env.Emit(map[string]interface{}{"ev": "stuck", "P": p, "p": prev.tuple(), "pn": prev.n})
			return
		}
		// prefer headers that keep NextVoteBefore (so that windows complete) two times out of three
		c := acc[rng.Intn(len(acc))]
		if prev.nv != 0 && rng.Intn(3) != 0 {
			var keep []hdr
			for _, a := range acc {
				if a.nv == 0 || a.vb == prev.vb {
					keep = append(keep, a)
				}
			}
			if len(keep) > 0 {
				c = keep[rng.Intn(len(keep))]
			}
		}
		env.Emit(map[string]interface{}{"ev": "step", "P": p, "pn": prev.n, "p": prev.tuple(), "c": c.tuple(), "nacc": len(acc)})
		prev = c
	}
}
