// Package drive is the common protocol between the orchestrator (bin/check) and the
// Go-side drivers that step specification behaviours through the real go-youchain code.
//
// Protocol: `vdrive <module> -in behaviours.ndjson -out trace.ndjson [-from K] [-seed S] [-tier T] [k=v ...]`.
// The input holds one JSON value per line (one behaviour).  Before a behaviour is executed the
// driver appends {"ev":"reset","b":<index>} to the output, so that when the process dies
// (logging.Crit is os.Exit(1)) the orchestrator knows which behaviour aborted, appends an
// "abort" event and restarts the driver with -from <index+1>.
package drive

import (
	"bufio"
	"encoding/json"
	"flag"
	"fmt"
	"os"
	"sort"
	"strings"
)

// Env is what a driver gets.
type Env struct {
	Seed  int64
	Tier  string
	From  int
	Opts  map[string]string
	in    *bufio.Scanner
	out   *bufio.Writer
	outF  *os.File
	index int // index of the behaviour most recently returned by Next
	T     int // trace id of the current behaviour (== index)
	N     int // per-trace event sequence number
}

// Driver is one subsystem driver.
type Driver func(env *Env) error

var registry = map[string]Driver{}

// Register is called from init() of the driver packages.
func Register(name string, d Driver) { registry[name] = d }

// Names lists the registered drivers.
func Names() []string {
	var ns []string
	for n := range registry {
		ns = append(ns, n)
	}
	sort.Strings(ns)
	return ns
}

// Opt returns option k or def.
func (e *Env) Opt(k, def string) string {
	if v, ok := e.Opts[k]; ok {
		return v
	}
	return def
}

// OptInt returns integer option k or def.
func (e *Env) OptInt(k string, def int) int {
	if v, ok := e.Opts[k]; ok {
		var n int
		if _, err := fmt.Sscanf(v, "%d", &n); err == nil {
			return n
		}
	}
	return def
}

// Next decodes the next behaviour into v, emitting the reset marker first.  It returns false at
// the end of the input.  Behaviours with index < From are skipped.
func (e *Env) Next(v interface{}) bool {
	for e.in != nil && e.in.Scan() {
		line := e.in.Bytes()
		if len(strings.TrimSpace(string(line))) == 0 {
			continue
		}
		idx := e.index
		e.index++
		if idx < e.From {
			continue
		}
		if err := json.Unmarshal(line, v); err != nil {
			fmt.Fprintf(os.Stderr, "vdrive: bad behaviour line %d: %v\n", idx, err)
			os.Exit(3)
		}
		e.Begin(idx)
		return true
	}
	return false
}

// Begin starts trace id t explicitly (for drivers that generate their own behaviours).
func (e *Env) Begin(t int) {
	e.T = t
	e.N = 0
	e.Emit(map[string]interface{}{"ev": "reset", "b": t})
}

// Emit appends one event to the trace; "t" and "n" are filled in.
func (e *Env) Emit(ev map[string]interface{}) {
	ev["t"] = e.T
	ev["n"] = e.N
	e.N++
	b, err := json.Marshal(ev)
	if err != nil {
		fmt.Fprintf(os.Stderr, "vdrive: cannot marshal event: %v\n", err)
		os.Exit(3)
	}
	e.out.Write(b)
	e.out.WriteByte('\n')
	// flushed per event so that an os.Exit inside the code under test loses nothing
	e.out.Flush()
}

// Main is the entry point of cmd/vdrive.
func Main() {
	if len(os.Args) < 2 {
		fmt.Fprintf(os.Stderr, "usage: vdrive <module> [flags] [k=v ...]\nmodules: %v\n", Names())
		os.Exit(3)
	}
	name := os.Args[1]
	d, ok := registry[name]
	if !ok {
		fmt.Fprintf(os.Stderr, "vdrive: unknown module %q (have %v)\n", name, Names())
		os.Exit(3)
	}
	fs := flag.NewFlagSet(name, flag.ExitOnError)
	in := fs.String("in", "", "behaviours ndjson (optional)")
	out := fs.String("out", "", "trace ndjson (appended)")
	from := fs.Int("from", 0, "skip behaviours with index < from")
	seed := fs.Int64("seed", 1, "seed")
	tier := fs.String("tier", "quick", "tier")
	fs.Parse(os.Args[2:])
	env := &Env{Seed: *seed, Tier: *tier, From: *from, Opts: map[string]string{}}
	for _, a := range fs.Args() {
		if i := strings.IndexByte(a, '='); i > 0 {
			env.Opts[a[:i]] = a[i+1:]
		}
	}
	if *in != "" {
		f, err := os.Open(*in)
		if err != nil {
			fmt.Fprintln(os.Stderr, "vdrive:", err)
			os.Exit(3)
		}
		defer f.Close()
		env.in = bufio.NewScanner(f)
		env.in.Buffer(make([]byte, 1<<20), 1<<28)
	}
	if *out == "" {
		env.out = bufio.NewWriter(os.Stdout)
	} else {
		f, err := os.OpenFile(*out, os.O_CREATE|os.O_WRONLY|os.O_APPEND, 0644)
		if err != nil {
			fmt.Fprintln(os.Stderr, "vdrive:", err)
			os.Exit(3)
		}
		env.outF = f
		env.out = bufio.NewWriter(f)
	}
	err := d(env)
	env.out.Flush()
	if env.outF != nil {
		env.outF.Close()
	}
	if err != nil {
		fmt.Fprintln(os.Stderr, "vdrive: driver error:", err)
		os.Exit(4)
	}
	// explicit end marker: the orchestrator distinguishes a clean end from a death
	fmt.Fprintln(os.Stderr, "VDRIVE-DONE")
}
