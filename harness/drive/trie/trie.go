// Package trie drives behaviours of spec/Trie.tla through the real trie.Trie / trie.SecureTrie / trie.Database (C13).
//
// After every action it records, from a private copy of the open trie (so that observing does not change the
// cache/hash state of the handle under test): Get of every key of the key table, the full iteration, the root hash,
// and the root computed by an independent reference calculator (refroot.go).  Prove records the proof, the answer of
// trie.VerifyProof and the set of answers over all tampered variants.  Garbage-collection-like actions record what
// can be read from every root committed so far.
package trie

import (
	"bytes"
	"encoding/hex"
	"fmt"
	"sort"

	"math/big"

	"github.com/youchainhq/go-youchain/common"
	"github.com/youchainhq/go-youchain/core/state"
	"github.com/youchainhq/go-youchain/core/types"
	"github.com/youchainhq/go-youchain/crypto/sha3"
	"github.com/youchainhq/go-youchain/rlp"
	rtrie "github.com/youchainhq/go-youchain/trie"
	"github.com/youchainhq/go-youchain/youdb"
	"verif/harness/drive"
)

func init() { drive.Register("trie", run) }

// Op is one abstract action.
type Op struct {
	Op string `json:"op"`
	K  int    `json:"k,omitempty"`
	V  int    `json:"v"`
	R  int    `json:"r,omitempty"`
}

// Beh is one behaviour: a variant of the trie under test plus the action sequence, or a fixed-vector run.
type Beh struct {
	Kind       string `json:"kind"`    // "ops" | "vectors"
	Variant    string `json:"variant"` // "plain" | "secure"
	CacheLimit int    `json:"cachelimit"`
	Tamper     int    `json:"tamper"` // number of xor masks applied to every proof byte (0 = no tampering)
	Ops        []Op   `json:"ops"`
}

// ---------------------------------------------------------------- key / value tables (mirror of Trie.tla)
var keyNibs = [][]int{
	{1, 2},
	{1, 2, 3, 4},
	{1, 2, 3, 5},
	append([]int{1, 2, 3, 4}, rep(7, 60)...),
	{1, 15},
	append(append([]int{10}, rep(0, 62)...), 1),
	append(append([]int{10}, rep(0, 62)...), 2),
	{},
}
var valLen = []int{1, 31, 32, 33, 60}

func rep(x, n int) []int {
	r := make([]int, n)
	for i := range r {
		r[i] = x
	}
	return r
}

func keyBytes(id int) []byte {
	nb := keyNibs[id-1]
	b := make([]byte, len(nb)/2)
	for i := range b {
		b[i] = byte(nb[2*i]<<4 | nb[2*i+1])
	}
	return b
}

func valBytes(id int) []byte {
	if id == 0 {
		return nil
	}
	if id == 1 {
		return []byte{0x01}
	}
	if id == 5 { // shares its first 31 bytes with value 2
		return append(bytes.Repeat([]byte{0x22}, 31), bytes.Repeat([]byte{0x55}, valLen[4]-31)...)
	}
	return bytes.Repeat([]byte{byte(0x11 * id)}, valLen[id-1])
}

func valID(b []byte) int {
	if len(b) == 0 {
		return 0
	}
	for id := 1; id <= len(valLen); id++ {
		if bytes.Equal(b, valBytes(id)) {
			return id
		}
	}
	return 99
}

func keccak(b []byte) []byte {
	h := sha3.NewKeccak256()
	h.Write(b)
	return h.Sum(nil)
}

// ---------------------------------------------------------------- the world
type handle interface {
	TryGet(key []byte) ([]byte, error)
	TryUpdate(key, value []byte) error
	TryDelete(key []byte) error
	Hash() common.Hash
	Commit(onleaf rtrie.LeafCallback) (common.Hash, error)
	NodeIterator(start []byte) rtrie.NodeIterator
	Prove(key []byte, fromLevel uint, proofDb youdb.Putter) error
}

type world struct {
	secure bool
	limit  uint16
	disk   *youdb.MemDatabase
	db     *rtrie.Database
	h      handle
	roots  []common.Hash
	kept   [][]byte       // slices returned by Get at the previous step, retained as returned ...
	keptCp [][]byte       // ... and copies of their content at that time
	tkeys  [][]byte       // key id-1 -> key as stored in the trie (hashed for the secure variant)
	byTKey map[string]int // stored key -> key id
}

func newWorld(variant string, limit int) *world {
	w := &world{secure: variant == "secure", limit: uint16(limit), disk: youdb.NewMemDatabase(), byTKey: map[string]int{}}
	w.db = rtrie.NewDatabase(w.disk)
	for id := 1; id <= len(keyNibs); id++ {
		k := keyBytes(id)
		if w.secure {
			k = keccak(k)
		}
		w.tkeys = append(w.tkeys, k)
		w.byTKey[string(k)] = id
	}
	w.h = w.open(common.Hash{})
	return w
}

func (w *world) open(root common.Hash) handle {
	if w.secure {
		t, err := rtrie.NewSecure(root, w.db, w.limit)
		if err != nil {
			panic(err)
		}
		return t
	}
	t, err := rtrie.New(root, w.db)
	if err != nil {
		panic(err)
	}
	return t
}

// view returns a private copy of the open trie: hashing, reading and iterating the copy leave the handle untouched.
func (w *world) view() handle {
	switch t := w.h.(type) {
	case *rtrie.Trie:
		c := *t
		return &c
	case *rtrie.SecureTrie:
		return t.Copy()
	}
	panic("unknown handle")
}

func readAll(h handle) ([]int, string) {
	out, _, errs := readAllRaw(h)
	return out, errs
}

func readAllRaw(h handle) ([]int, [][]byte, string) {
	out := make([]int, len(keyNibs))
	var raw [][]byte
	for id := 1; id <= len(keyNibs); id++ {
		v, err := h.TryGet(keyBytes(id))
		if err != nil {
			return nil, nil, err.Error()
		}
		out[id-1] = valID(v)
		if len(v) > 0 {
			raw = append(raw, v)
		}
	}
	return out, raw, ""
}

func (w *world) observe() map[string]interface{} {
	obs := map[string]interface{}{}
	// values returned by Get one step ago (retained as returned, the trie shares them with its nodes): they must still read
	// what they read then, whatever the action in between did
	if len(w.kept) > 0 {
		changed := 0
		for i := range w.kept {
			if !bytes.Equal(w.kept[i], w.keptCp[i]) {
				changed++
			}
		}
		obs["alias"] = []int{len(w.kept), changed}
	}
	v := w.view()
	get, raw, errs := readAllRaw(v)
	if errs != "" {
		obs["geterr"] = errs
		get = []int{}
	}
	obs["get"] = get
	w.kept, w.keptCp = raw, nil
	for _, b := range raw {
		w.keptCp = append(w.keptCp, common.CopyBytes(b))
	}
	it := rtrie.NewIterator(w.view().NodeIterator(nil))
	iter := [][]int{}
	var pairs []pair
	for it.Next() {
		kid := w.byTKey[string(it.Key)] // 0 when the key is not in the table
		iter = append(iter, []int{kid, valID(it.Value)})
		pairs = append(pairs, pair{bytesToNibs(it.Key), common.CopyBytes(it.Value)})
	}
	if it.Err != nil {
		obs["itererr"] = it.Err.Error()
	}
	obs["iter"] = iter
	// roots travel as their first 10 bytes (80 bits) to keep the trace small; vectors and Hash events carry all 32
	obs["root"] = hex.EncodeToString(w.view().Hash().Bytes()[:10])
	// auxiliary oracle (outside the specification): the standard root of the content the trie itself reports
	obs["ref"] = hex.EncodeToString(refRoot(pairs)[:10])
	return obs
}

// readRoots opens every root committed so far on a fresh handle and reads the whole key table.
func (w *world) readRoots() [][]int {
	out := [][]int{}
	for _, r := range w.roots {
		out = append(out, w.readRoot(r))
	}
	return out
}

func (w *world) readRoot(r common.Hash) (res []int) {
	defer func() {
		if p := recover(); p != nil {
			res = []int{-1}
		}
	}()
	var h handle
	var err error
	if w.secure {
		h, err = rtrie.NewSecure(r, w.db, w.limit)
	} else {
		h, err = rtrie.New(r, w.db)
	}
	if err != nil {
		return []int{-1}
	}
	get, errs := readAll(h)
	if errs != "" {
		return []int{-1}
	}
	return get
}

// orderedPutter records proof nodes in the order Prove emits them.
type orderedPutter struct{ blobs [][]byte }

func (p *orderedPutter) Put(key, value []byte) error {
	p.blobs = append(p.blobs, common.CopyBytes(value))
	return nil
}

// retainingPutter keeps the slices it is handed WITHOUT copying them, exactly like core/state.proofList (the sink of
// StateDB.GetProof / GetStorageProof): a producer that reuses a scratch buffer corrupts what such a sink holds.
type retainingPutter struct{ blobs [][]byte }

func (p *retainingPutter) Put(key, value []byte) error {
	p.blobs = append(p.blobs, value)
	return nil
}

// proofSet is the verifier's lookup table, built by hashing the blobs (as a light client does).
type proofSet map[string][]byte

func (p proofSet) Get(key []byte) ([]byte, error) {
	if v, ok := p[string(key)]; ok {
		return v, nil
	}
	return nil, fmt.Errorf("not found")
}
func (p proofSet) Has(key []byte) (bool, error) { _, ok := p[string(key)]; return ok, nil }

func mkSet(blobs [][]byte) proofSet {
	s := proofSet{}
	for _, b := range blobs {
		s[string(keccak(b))] = b
	}
	return s
}

// verify returns the answer code of VerifyProof: -1 error, 0 absent, value id otherwise; -2 panic.
func verify(root common.Hash, key []byte, blobs [][]byte) (code int) {
	defer func() {
		if p := recover(); p != nil {
			code = -2
		}
	}()
	val, _, err := rtrie.VerifyProof(root, key, mkSet(blobs))
	if err != nil {
		return -1
	}
	return valID(val)
}

func (w *world) prove(k int, masks int, ev map[string]interface{}) {
	tkey := w.tkeys[k-1]
	root := w.view().Hash()
	p := &orderedPutter{}
	// SecureTrie.Prove, like VerifyProof, takes the key as stored in the trie (callers hash it first)
	if err := w.h.Prove(tkey, 0, p); err != nil {
		ev["err"] = err.Error()
		return
	}
	lens := []int{}
	for _, b := range p.blobs {
		lens = append(lens, len(b))
	}
	ev["plen"] = lens
	// VerifyProof takes the key as stored in the trie
	ev["res"] = verify(root, tkey, p.blobs)
	// the same proof into a sink that retains the slices: verified after Prove returned, and again after a second Prove on
	// the same trie (for the next key of the table) -- which is verified from its own retaining sink as well
	r1, r2 := &retainingPutter{}, &retainingPutter{}
	k2 := k%len(keyNibs) + 1
	ret := map[string]interface{}{"k2": k2}
	if err := w.h.Prove(tkey, 0, r1); err != nil {
		ret["err"] = err.Error()
	}
	ret["res"] = verify(root, tkey, r1.blobs)
	if err := w.h.Prove(w.tkeys[k2-1], 0, r2); err != nil {
		ret["err"] = err.Error()
	}
	ret["again"] = verify(root, tkey, r1.blobs)
	ret["res2"] = verify(root, w.tkeys[k2-1], r2.blobs)
	ev["ret"] = ret
	if masks == 0 {
		return
	}
	// all hashed nodes of the trie = union of the proofs of every table key
	all := map[string][]byte{}
	for id := 1; id <= len(keyNibs); id++ {
		q := &orderedPutter{}
		if err := w.h.Prove(w.tkeys[id-1], 0, q); err == nil {
			for _, b := range q.blobs {
				all[string(b)] = b
			}
		}
	}
	outs := map[int]bool{}
	n := 0
	xors := []byte{0x01, 0xff, 0x80, 0x10}[:masks]
	for i, blob := range p.blobs {
		for j := range blob {
			for _, x := range xors {
				mut := common.CopyBytes(blob)
				mut[j] ^= x
				variant := make([][]byte, len(p.blobs))
				copy(variant, p.blobs)
				variant[i] = mut
				outs[verify(root, tkey, variant)] = true
				n++
			}
		}
		for _, other := range all {
			if bytes.Equal(other, blob) {
				continue
			}
			variant := make([][]byte, len(p.blobs))
			copy(variant, p.blobs)
			variant[i] = other
			outs[verify(root, tkey, variant)] = true
			n++
		}
	}
	set := []int{}
	for c := range outs {
		set = append(set, c)
	}
	sort.Ints(set)
	ev["tamper"] = map[string]interface{}{"n": n, "outs": set}
}

func (w *world) apply(op *Op, tamper int) (ev map[string]interface{}) {
	ev = map[string]interface{}{"ev": op.Op, "args": op}
	defer func() {
		if r := recover(); r != nil {
			ev["panic"] = fmt.Sprint(r)
		}
	}()
	seterr := func(err error) {
		if err != nil {
			ev["err"] = err.Error()
		}
	}
	gc := false
	switch op.Op {
	case "Update":
		seterr(w.h.TryUpdate(keyBytes(op.K), valBytes(op.V)))
	case "Delete":
		seterr(w.h.TryDelete(keyBytes(op.K)))
	case "Get":
		v, err := w.h.TryGet(keyBytes(op.K))
		seterr(err)
		ev["res"] = valID(v)
	case "Hash":
		ev["res"] = hex.EncodeToString(w.h.Hash().Bytes()[:10])
	case "Iterate":
		it := rtrie.NewIterator(w.h.NodeIterator(nil))
		n := 0
		for it.Next() {
			n++
		}
		seterr(it.Err)
		ev["res"] = n
	case "Prove":
		w.prove(op.K, tamper, ev)
	case "Commit":
		root, err := w.h.Commit(nil)
		seterr(err)
		w.roots = append(w.roots, root)
	case "Reference":
		w.db.Reference(w.roots[op.R-1], common.Hash{})
	case "Dereference":
		w.db.Dereference(w.roots[op.R-1])
		gc = true
	case "Cap0":
		seterr(w.db.Cap(0))
		gc = true
	case "CapHalf":
		size, _ := w.db.Size()
		seterr(w.db.Cap(size / 2))
		gc = true
	case "DbCommit":
		seterr(w.db.Commit(w.roots[op.R-1], false))
		gc = true
	case "Reopen", "Restart":
		if op.Op == "Restart" {
			w.db = rtrie.NewDatabase(w.disk)
			gc = true
		}
		var h handle
		var err error
		if w.secure {
			h, err = rtrie.NewSecure(w.roots[op.R-1], w.db, w.limit)
		} else {
			h, err = rtrie.New(w.roots[op.R-1], w.db)
		}
		if err != nil {
			ev["err"] = err.Error()
			// keep a usable handle so that the rest of the behaviour can be recorded
			w.h = w.open(common.Hash{})
		} else {
			w.h = h
		}
	default:
		panic("unknown op " + op.Op)
	}
	ev["obs"] = w.observe()
	if gc {
		ev["roots"] = w.readRoots()
	}
	return ev
}

// ---------------------------------------------------------------- published vectors and DeriveSha
type vec struct {
	name string
	kv   [][2]string
	want string
}

var vectors = []vec{
	{"empty", nil, "56e81f171bcc55a6ff8345e692c0f86e5b48e01b996cadc001622fb5e363b421"},
	{"dogs", [][2]string{{"doe", "reindeer"}, {"dog", "puppy"}, {"dogglesworth", "cat"}}, "8aad789dff2f538bca5d8ea56e8abe10f4c7ba3a5dea95fea4cd6e7c3a1168d3"},
	{"puppy", [][2]string{{"do", "verb"}, {"horse", "stallion"}, {"doge", "coin"}, {"dog", "puppy"}}, "5991bb8c6514148a29db676a14ac506cd2cd5775ace63c30a4fe457715e9ac84"},
	{"singleItem", [][2]string{{"A", "aaaaaaaaaaaaaaaaaaaaaaaaaaaaaaaaaaaaaaaaaaaaaaaaaa"}}, "d23786fb4a010da3ce639d66d5e904a11dbc02746d1ce25029e53290cabf28ab"},
	{"insert-middle-leaf", [][2]string{{"key1aa", "0123456789012345678901234567890123456789xxx"}, {"key1", "0123456789012345678901234567890123456789Very_Long"},
		{"key2bb", "aval3"}, {"key2", "short"}, {"key3cc", "aval3"}, {"key3", "1234567890123456789012345678901"}}, "cb65032e2f76c48b82b5c24b3db8f670ce73982869d38cd39a624f23d62a9e89"},
	{"branch-value-update", [][2]string{{"abc", "123"}, {"abcd", "abcd"}, {"abc", "abc"}}, "7a320748f780ad9ad5b0837302075ce0eeba6c26e3d8562c67ccc0f1b273298a"},
}

type rlpList [][]byte

func (l rlpList) Len() int            { return len(l) }
func (l rlpList) GetRlp(i int) []byte { return l[i] }

func runVectors(env *drive.Env) {
	for _, v := range vectors {
		t, _ := rtrie.New(common.Hash{}, rtrie.NewDatabase(youdb.NewMemDatabase()))
		m := map[string][]byte{}
		for _, kv := range v.kv {
			t.Update([]byte(kv[0]), []byte(kv[1]))
			m[kv[0]] = []byte(kv[1])
		}
		var pairs []pair
		for k, val := range m {
			pairs = append(pairs, pair{bytesToNibs([]byte(k)), val})
		}
		env.Emit(map[string]interface{}{"ev": "Vector", "name": v.name, "root": hex.EncodeToString(t.Hash().Bytes()),
			"want": v.want, "ref": hex.EncodeToString(refRoot(pairs))})
	}
	for _, n := range []int{0, 1, 2, 16, 127, 128, 129, 300} {
		var items rlpList
		var pairs []pair
		for i := 0; i < n; i++ {
			item := bytes.Repeat([]byte{byte(i)}, 1+(i*7)%70)
			items = append(items, item)
			pairs = append(pairs, pair{bytesToNibs(refRlpUint(uint64(i))), item})
		}
		env.Emit(map[string]interface{}{"ev": "DeriveSha", "len": n, "root": hex.EncodeToString(types.DeriveSha(items).Bytes()),
			"ref": hex.EncodeToString(refRoot(pairs))})
	}
}

// runStateProofs goes the production route of proofs: StateDB.GetProof / GetStorageProof, whose sink (proofList) retains the
// slices Prove hands it.  A light client's flow: verify the account proof against the state root, take the storage root
// out of the proven account, verify the storage proof against it.  Every proof is verified after the call returned and
// again after the NEXT proof was produced from the same state.
func runStateProofs(env *drive.Env) {
	sdb := state.NewDatabase(youdb.NewMemDatabase())
	st, err := state.New(common.Hash{}, common.Hash{}, common.Hash{}, sdb)
	if err != nil {
		panic(err)
	}
	addr := func(i int) common.Address { return common.BytesToAddress([]byte{0xd0, byte(i)}) }
	slot := func(i int) common.Hash { return common.BigToHash(big.NewInt(int64(i))) }
	word := func(i int) common.Hash { return common.BytesToHash(bytes.Repeat([]byte{byte(0x30 + i)}, 32)) }
	for a := 1; a <= 5; a++ {
		st.AddBalance(addr(a), big.NewInt(int64(100+a)))
	}
	for s := 1; s <= 4; s++ {
		st.SetState(addr(2), slot(s), word(s))
	}
	root, vr, sr, err := st.Commit(true)
	if err != nil {
		panic(err)
	}
	st, err = state.New(root, vr, sr, sdb)
	if err != nil {
		panic(err)
	}
	// account proofs: addresses 1..5 exist, 6..7 do not
	acct := func(a int) (int, common.Hash, [][]byte) {
		proof, err := st.GetProof(addr(a))
		if err != nil {
			return -1, common.Hash{}, proof
		}
		return acctCode(root, addr(a), proof, int64(100+a)), acctRoot(root, addr(a), proof), proof
	}
	type pending struct {
		kind     string
		id, want int
		res, n   int
		reverify func() int
	}
	var last *pending
	flush := func() {
		if last != nil {
			ev := map[string]interface{}{"ev": "StateProof", "kind": last.kind, "id": last.id, "want": last.want, "res": last.res,
				"again": last.reverify(), "nodes": last.n}
			env.Emit(ev)
			last = nil
		}
	}
	var storageRoot common.Hash
	for a := 1; a <= 7; a++ {
		want := 0
		if a <= 5 {
			want = 1
		}
		res, sroot, proof := acct(a)
		flush() // the previous proof is verified again now that another one has been produced
		aa, pp := a, proof
		last = &pending{"account", a, want, res, len(proof), func() int { return acctCode(root, addr(aa), pp, int64(100+aa)) }}
		if a == 2 {
			storageRoot = sroot
		}
	}
	for s := 1; s <= 6; s++ {
		want := 0
		if s <= 4 {
			want = 1
		}
		proof, err := st.GetStorageProof(addr(2), slot(s))
		res := -1
		if err == nil {
			res = slotCode(storageRoot, slot(s), proof, word(s))
		}
		flush()
		ss, pp := s, proof
		last = &pending{"storage", s, want, res, len(proof), func() int { return slotCode(storageRoot, slot(ss), pp, word(ss)) }}
	}
	// one more proof so that the last storage proof is re-verified after it
	st.GetProof(addr(1))
	flush()
}

func proofValue(root common.Hash, key []byte, proof [][]byte) (val []byte, code int) {
	defer func() {
		if p := recover(); p != nil {
			val, code = nil, -2
		}
	}()
	v, _, err := rtrie.VerifyProof(root, keccak(key), mkSet(proof))
	if err != nil {
		return nil, -1
	}
	if len(v) == 0 {
		return nil, 0
	}
	return v, 1
}

// acctCode: 1 the proof verifies to the account with the expected balance, 0 to absence, 2 to something else, -1 error.
func acctCode(root common.Hash, a common.Address, proof [][]byte, balance int64) int {
	v, code := proofValue(root, a.Bytes(), proof)
	if code != 1 {
		return code
	}
	var acc state.Account
	if err := rlp.DecodeBytes(v, &acc); err != nil || acc.Balance == nil || acc.Balance.Int64() != balance {
		return 2
	}
	return 1
}

func acctRoot(root common.Hash, a common.Address, proof [][]byte) common.Hash {
	v, code := proofValue(root, a.Bytes(), proof)
	var acc state.Account
	if code == 1 && rlp.DecodeBytes(v, &acc) == nil {
		return acc.Root
	}
	return common.Hash{}
}

func slotCode(sroot common.Hash, s common.Hash, proof [][]byte, want common.Hash) int {
	v, code := proofValue(sroot, s.Bytes(), proof)
	if code != 1 {
		return code
	}
	enc, _ := rlp.EncodeToBytes(bytes.TrimLeft(want.Bytes(), "\x00"))
	if !bytes.Equal(v, enc) {
		return 2
	}
	return 1
}

func run(env *drive.Env) error {
	var beh Beh
	first := true
	for env.Next(&beh) {
		if first {
			env.Emit(map[string]interface{}{"ev": "Table", "keys": keyNibs, "vlens": valLen})
			first = false
		}
		if beh.Kind == "vectors" {
			for name, f := range map[string]func(*drive.Env){"Vector": runVectors, "StateProof": runStateProofs} {
				func() {
					defer func() {
						if r := recover(); r != nil {
							env.Emit(map[string]interface{}{"ev": name, "panic": fmt.Sprint(r)})
						}
					}()
					f(env)
				}()
			}
			beh = Beh{}
			continue
		}
		w := newWorld(beh.Variant, beh.CacheLimit)
		rank := make([]int, len(w.tkeys))
		for i, a := range w.tkeys {
			for _, b := range w.tkeys {
				if bytes.Compare(b, a) < 0 {
					rank[i]++
				}
			}
		}
		env.Emit(map[string]interface{}{"ev": "Begin", "variant": beh.Variant, "rank": rank})
		for i := range beh.Ops {
			ev := w.apply(&beh.Ops[i], beh.Tamper)
			env.Emit(ev)
			if ev["panic"] != nil {
				break
			}
		}
		beh = Beh{}
	}
	return nil
}
