package trie

import "sort"

// Independent reference calculator of the standard Merkle-Patricia root of a set of (key, value) pairs, written
// from the Ethereum yellow paper (appendix D) with its own RLP encoder.  It shares nothing with /repo/trie or
// /repo/rlp; only the Keccak-256 primitive is taken from the repository.  It is an AUXILIARY oracle for the clause
// "the root hash is the standard root, identical across implementations", which TLA+ cannot express (no hash
// function); the evidence declares it as outside the specification.

type pair struct {
	nibs []byte // key as nibbles, no terminator
	val  []byte
}

func bytesToNibs(b []byte) []byte {
	n := make([]byte, 0, 2*len(b))
	for _, x := range b {
		n = append(n, x>>4, x&15)
	}
	return n
}

func refLen(n int, short, long byte) []byte {
	if n < 56 {
		return []byte{short + byte(n)}
	}
	var be []byte
	for x := n; x > 0; x >>= 8 {
		be = append([]byte{byte(x)}, be...)
	}
	return append([]byte{long + byte(len(be))}, be...)
}

func refRlpStr(b []byte) []byte {
	if len(b) == 1 && b[0] < 0x80 {
		return []byte{b[0]}
	}
	return append(refLen(len(b), 0x80, 0xb7), b...)
}

func refRlpList(items ...[]byte) []byte {
	var payload []byte
	for _, it := range items {
		payload = append(payload, it...)
	}
	return append(refLen(len(payload), 0xc0, 0xf7), payload...)
}

func refRlpUint(x uint64) []byte {
	var be []byte
	for ; x > 0; x >>= 8 {
		be = append([]byte{byte(x)}, be...)
	}
	return refRlpStr(be)
}

// hexPrefix is the yellow paper's HP(nibbles, t).
func hexPrefix(nibs []byte, leaf bool) []byte {
	f := byte(0)
	if leaf {
		f = 2
	}
	var out []byte
	if len(nibs)%2 == 1 {
		out = append(out, (f+1)<<4|nibs[0])
		nibs = nibs[1:]
	} else {
		out = append(out, f<<4)
	}
	for i := 0; i < len(nibs); i += 2 {
		out = append(out, nibs[i]<<4|nibs[i+1])
	}
	return out
}

// refNode returns the RLP of the node c(J, d) for pairs that agree on their first d nibbles.
func refNode(ps []pair, d int) []byte {
	if len(ps) == 1 {
		return refRlpList(refRlpStr(hexPrefix(ps[0].nibs[d:], true)), refRlpStr(ps[0].val))
	}
	// longest common prefix beyond d
	cp := len(ps[0].nibs) - d
	for _, p := range ps[1:] {
		n := 0
		for n < cp && d+n < len(p.nibs) && p.nibs[d+n] == ps[0].nibs[d+n] {
			n++
		}
		cp = n
	}
	if cp > 0 {
		return refRlpList(refRlpStr(hexPrefix(ps[0].nibs[d:d+cp], false)), refRef(refNode(ps, d+cp)))
	}
	items := make([][]byte, 17)
	for i := range items {
		items[i] = []byte{0x80}
	}
	for nib := 0; nib < 16; nib++ {
		var sub []pair
		for _, p := range ps {
			if len(p.nibs) > d && int(p.nibs[d]) == nib {
				sub = append(sub, p)
			}
		}
		if len(sub) > 0 {
			items[nib] = refRef(refNode(sub, d+1))
		}
	}
	for _, p := range ps {
		if len(p.nibs) == d {
			items[16] = refRlpStr(p.val)
		}
	}
	return refRlpList(items...)
}

// refRef is n(J, d): the node itself when shorter than 32 bytes, its hash otherwise.
func refRef(enc []byte) []byte {
	if len(enc) < 32 {
		return enc
	}
	return refRlpStr(keccak(enc))
}

// refRoot is TRIE(J).
func refRoot(ps []pair) []byte {
	if len(ps) == 0 {
		return keccak([]byte{0x80})
	}
	sort.Slice(ps, func(i, j int) bool { return string(ps[i].nibs) < string(ps[j].nibs) })
	return keccak(refNode(ps, 0))
}
