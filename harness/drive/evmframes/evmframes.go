// Package evmframes compiles abstract multi-contract programs of spec/EvmFrames.tla into EVM bytecode, runs them on a
// real StateDB with the real EVM (core/vm through core/vm/runtime.Call, core.CanTransfer/Transfer) and records what
// happened for spec/EvmFrames_Mon.tla (C16): the world projection before / after the transaction and around every
// call or create site (balances, storage slots, code, existence, self-destruct marks, logs), the gas each site's
// caller held before and after, the gas the callee started with, self-destructs, errors and panics.
package evmframes

import (
	"encoding/json"
	"fmt"
	"math/big"
	"sort"
	"time"

	"github.com/youchainhq/go-youchain/common"
	"github.com/youchainhq/go-youchain/core/state"
	"github.com/youchainhq/go-youchain/core/vm"
	"github.com/youchainhq/go-youchain/core/vm/runtime"
	"github.com/youchainhq/go-youchain/crypto"
	"github.com/youchainhq/go-youchain/params"
	"verif/harness/drive"
	"verif/harness/fixture"
)

func init() {
	params.InitNetworkId(params.NetworkIdForTestCase) // selects the protocol table, as the repository's own vm tests do
	drive.Register("evmframes", run)
}

// Tok is one token of a program (see EvmFrames.tla).
type Tok struct {
	T    string `json:"t"`
	Kind string `json:"kind,omitempty"`
	To   string `json:"to,omitempty"`
	Gas  string `json:"gas,omitempty"`
	How  string `json:"how,omitempty"`
	Ben  string `json:"ben,omitempty"`
	Val  int    `json:"val"`
	Slot int    `json:"slot,omitempty"`
	V    string `json:"v,omitempty"`   // driver-level variant of an ending (same abstract meaning)
	Inp  string `json:"inp,omitempty"` // PRE: "good" | "bad" input
	Of   string `json:"of,omitempty"`  // BALOP: "SELF" or an account name
	Ar   string `json:"ar,omitempty"`  // BALOP: what is done with the balance on the stack
	Ref  int    `json:"ref,omitempty"` // RECREATE: token index of the CREATE2 whose salt and init code are used again
}

// preInput is the input the driver hands to a precompiled contract.  "good": accepted (every one needs more than one
// unit of gas for it); "bad" (bn256 operations only): rejected.
func preInput(to, inp string) []byte {
	pad := func(n int, last byte) []byte { b := make([]byte, n); b[n-1] = last; return b }
	switch to {
	case "P1":
		return pad(128, 27) // not a valid signature: ecrecover returns nothing, without an error
	case "P2", "P3", "P4":
		return pad(32, 7)
	case "P5": // modexp, 32-byte base / exponent / modulus, a large exponent (13056 gas)
		b := append(append(pad(32, 32), pad(32, 32)...), pad(32, 32)...)
		b = append(b, pad(32, 3)...)
		for i := 0; i < 32; i++ {
			b = append(b, 0xff)
		}
		return append(b, pad(32, 101)...)
	case "P6":
		if inp == "bad" {
			return append(pad(32, 1), pad(32, 1)...) // (1, 1) is not on the curve
		}
		return make([]byte, 128) // infinity + infinity
	case "P7":
		if inp == "bad" {
			return append(append(pad(32, 1), pad(32, 1)...), pad(32, 2)...)
		}
		return make([]byte, 96)
	case "P8":
		if inp == "bad" {
			return pad(191, 1) // not a multiple of 192 bytes
		}
		return []byte{} // the empty product
	}
	return nil
}

// Beh is one behaviour: the program, the model's prediction (passed through to the trace) and the set-up.
type Beh struct {
	Prog  []Tok           `json:"prog"`
	Exp   json.RawMessage `json:"exp"`
	Setup string          `json:"setup"` // "fresh": first transaction on a reopened state; "second": after another transaction and Finalise
	Sweep int             `json:"sweep"` // > 0: after the ample-gas run, re-run with boundary gas allotments at up to this many sites
}

// override replaces the gas forwarded at one call site (or the transaction's gas limit) by an explicit amount.
type override struct {
	site int    // token index of the CALL-kind site; 1 = the transaction's own call (gas limit)
	gas  uint64 // gas argument of the call / gas limit
}

// ---------------------------------------------------------------------------------------------- program tree

type node struct {
	tok   Tok
	site  int // 1-based token index
	frame *frame
}

type frame struct {
	open Tok
	site int
	ops  []node
	end  Tok
}

func parseFrame(p []Tok, i int) (*frame, int, error) {
	if i >= len(p) || (p[i].T != "CALL" && p[i].T != "CREATE") {
		return nil, 0, fmt.Errorf("token %d does not open a frame", i+1)
	}
	f := &frame{open: p[i], site: i + 1}
	i++
	for i < len(p) {
		switch p[i].T {
		case "END":
			f.end = p[i]
			return f, i + 1, nil
		case "CALL", "CREATE":
			sub, nx, err := parseFrame(p, i)
			if err != nil {
				return nil, 0, err
			}
			f.ops = append(f.ops, node{tok: p[i], site: i + 1, frame: sub})
			i = nx
		default:
			f.ops = append(f.ops, node{tok: p[i], site: i + 1})
			i++
		}
	}
	return nil, 0, fmt.Errorf("frame opened at token %d is not closed", f.site)
}

// ---------------------------------------------------------------------------------------------- assembler

type unit struct {
	code   []byte
	fix    map[int]string // position of a 2-byte operand -> label
	labels map[string]int
	sites  map[int]int // pc of a CALL*/CREATE* opcode -> site
	blobs  [][]byte
	isInit bool
}

func newUnit() *unit {
	return &unit{fix: map[int]string{}, labels: map[string]int{}, sites: map[int]int{}}
}

func (u *unit) op(b ...byte)    { u.code = append(u.code, b...) }
func (u *unit) opc(o vm.OpCode) { u.code = append(u.code, byte(o)) }
func (u *unit) push(n uint64) {
	b := new(big.Int).SetUint64(n).Bytes()
	if len(b) == 0 {
		b = []byte{0}
	}
	u.op(byte(int(vm.PUSH1) + len(b) - 1))
	u.op(b...)
}
func (u *unit) pushBytes(b []byte) {
	u.op(byte(int(vm.PUSH1) + len(b) - 1))
	u.op(b...)
}
func (u *unit) pushLabel(l string) {
	u.opc(vm.PUSH2)
	u.fix[len(u.code)] = l
	u.op(0, 0)
}
func (u *unit) label(l string) { u.labels[l] = len(u.code) }
func (u *unit) resolve() error {
	for pos, l := range u.fix {
		t, ok := u.labels[l]
		if !ok {
			return fmt.Errorf("unresolved label %s", l)
		}
		u.code[pos], u.code[pos+1] = byte(t>>8), byte(t)
	}
	return nil
}

// ---------------------------------------------------------------------------------------------- compiler

type compiler struct {
	addr   map[string]common.Address
	sels   map[string][]*frame         // contract name -> the sub-programs that run its code, by selector
	selOf  map[*frame]int              // frame -> its selector at the contract whose code it runs
	sites  map[common.Hash]map[int]int // code hash -> pc -> site
	gasAt  map[int]uint64              // site -> explicit gas argument (gas sweeps)
	bySite map[int]*frame              // site of a CREATE token -> its init frame (RECREATE)
}

var allGas = []byte{0xff, 0xff, 0xff, 0xff, 0xff, 0xff, 0xff, 0xff} // more than there is: all but 1/64

// gasArg pushes an 8-byte gas argument (always the same instruction length, so that code and costs do not depend on it).
func gasArg(u *unit, v uint64) {
	var b [8]byte
	for i := 0; i < 8; i++ {
		b[7-i] = byte(v >> (8 * uint(i)))
	}
	u.pushBytes(b[:])
}

// assign gives every message-call frame a selector at the contract whose code it executes.
func (c *compiler) assign(f *frame) error {
	if f.open.T == "CREATE" {
		c.bySite[f.site] = f
	}
	if f.open.T == "CALL" {
		n := f.open.To
		if _, ok := c.sels[n]; !ok {
			return fmt.Errorf("call target %q has no code", n)
		}
		c.selOf[f] = len(c.sels[n])
		c.sels[n] = append(c.sels[n], f)
	}
	for _, n := range f.ops {
		if n.frame != nil {
			if err := c.assign(n.frame); err != nil {
				return err
			}
		}
	}
	return nil
}

func (c *compiler) body(u *unit, f *frame) error {
	for _, n := range f.ops {
		switch n.tok.T {
		case "SSTORE":
			u.push(uint64(n.tok.Val))
			u.push(uint64(n.tok.Slot))
			u.opc(vm.SSTORE)
		case "LOG":
			u.push(uint64(n.site)) // topic = site
			u.push(0)
			u.push(0)
			u.opc(vm.LOG1)
		case "XFER":
			to, ok := c.addr[n.tok.To]
			if !ok {
				return fmt.Errorf("unknown account %q", n.tok.To)
			}
			u.push(0)
			u.push(0)
			u.push(0)
			u.push(0)
			u.push(uint64(n.tok.Val))
			u.pushBytes(to.Bytes())
			u.pushBytes(allGas)
			u.sites[len(u.code)] = n.site
			u.opc(vm.CALL)
			u.opc(vm.POP)
		case "DEEP":
			for i := 0; i < 5; i++ {
				u.push(0)
			}
			u.pushBytes(c.addr["R"].Bytes())
			u.pushBytes(allGas)
			u.sites[len(u.code)] = n.site
			u.opc(vm.CALL)
			u.opc(vm.POP)
		case "RECREATE":
			rf := c.bySite[n.tok.Ref]
			if rf == nil || rf.open.Kind != "CREATE2" {
				return fmt.Errorf("RECREATE at %d does not refer to a CREATE2", n.site)
			}
			iu := newUnit()
			iu.isInit = true
			if err := c.body(iu, rf); err != nil {
				return err
			}
			blob, err := c.finish(iu)
			if err != nil {
				return err
			}
			l := fmt.Sprintf("blob%d", len(u.blobs))
			u.blobs = append(u.blobs, blob)
			u.push(uint64(len(blob)))
			u.pushLabel(l)
			u.push(0)
			u.opc(vm.CODECOPY)
			u.push(uint64(n.tok.Ref)) // the same salt
			u.push(uint64(len(blob)))
			u.push(0)
			u.push(uint64(n.tok.Val))
			u.sites[len(u.code)] = n.site
			u.opc(vm.CREATE2)
			u.opc(vm.POP)
		case "BALOP":
			if n.tok.Of == "SELF" {
				u.opc(vm.SELFBALANCE)
			} else {
				a, ok := c.addr[n.tok.Of]
				if !ok {
					return fmt.Errorf("unknown account %q", n.tok.Of)
				}
				u.pushBytes(a.Bytes())
				u.opc(vm.BALANCE)
			}
			switch n.tok.Ar { // compute with the balance on the stack, then let the integer pool recycle what it gets
			case "ADD":
				u.push(3)
				u.opc(vm.ADD)
				u.opc(vm.POP)
			case "MUL":
				u.push(3)
				u.opc(vm.MUL)
				u.opc(vm.POP)
			default:
				u.opc(vm.POP)
			}
			u.push(7)
			u.push(9)
			u.opc(vm.ADD)
			u.opc(vm.POP)
		case "PRE":
			to, ok := c.addr[n.tok.To]
			if !ok {
				return fmt.Errorf("unknown precompile %q", n.tok.To)
			}
			in := preInput(n.tok.To, n.tok.Inp)
			if len(in) > 0 {
				l := fmt.Sprintf("blob%d", len(u.blobs))
				u.blobs = append(u.blobs, in)
				u.push(uint64(len(in)))
				u.pushLabel(l)
				u.push(0)
				u.opc(vm.CODECOPY)
			}
			u.push(0)
			u.push(0)
			u.push(uint64(len(in)))
			u.push(0)
			var o vm.OpCode
			switch n.tok.Kind {
			case "CALL":
				u.push(uint64(n.tok.Val))
				o = vm.CALL
			case "CALLCODE":
				u.push(uint64(n.tok.Val))
				o = vm.CALLCODE
			case "DELEGATECALL":
				o = vm.DELEGATECALL
			case "STATICCALL":
				o = vm.STATICCALL
			default:
				return fmt.Errorf("unknown call kind %q", n.tok.Kind)
			}
			u.pushBytes(to.Bytes())
			if g, ok := c.gasAt[n.site]; ok {
				gasArg(u, g)
			} else if n.tok.Gas == "one" {
				gasArg(u, 1)
			} else {
				u.pushBytes(allGas)
			}
			u.sites[len(u.code)] = n.site
			u.opc(o)
			u.opc(vm.POP)
		case "CALL":
			to := c.addr[n.tok.To]
			sel, ok := c.selOf[n.frame]
			if !ok {
				return fmt.Errorf("call target %q has no code", n.tok.To)
			}
			u.push(uint64(sel))
			u.push(0)
			u.opc(vm.MSTORE8)
			u.push(0) // retSize
			u.push(0) // retOffset
			u.push(1) // inSize
			u.push(0) // inOffset
			var o vm.OpCode
			switch n.tok.Kind {
			case "CALL":
				u.push(uint64(n.tok.Val))
				o = vm.CALL
			case "CALLCODE":
				u.push(uint64(n.tok.Val))
				o = vm.CALLCODE
			case "DELEGATECALL":
				o = vm.DELEGATECALL
			case "STATICCALL":
				o = vm.STATICCALL
			default:
				return fmt.Errorf("unknown call kind %q", n.tok.Kind)
			}
			u.pushBytes(to.Bytes())
			if g, ok := c.gasAt[n.site]; ok {
				gasArg(u, g)
			} else if n.tok.Gas == "one" {
				gasArg(u, 1)
			} else {
				u.pushBytes(allGas)
			}
			u.sites[len(u.code)] = n.site
			u.opc(o)
			u.opc(vm.POP)
		case "CREATE":
			iu := newUnit()
			iu.isInit = true
			if err := c.body(iu, n.frame); err != nil {
				return err
			}
			blob, err := c.finish(iu)
			if err != nil {
				return err
			}
			l := fmt.Sprintf("blob%d", len(u.blobs))
			u.blobs = append(u.blobs, blob)
			u.push(uint64(len(blob)))
			u.pushLabel(l)
			u.push(0)
			u.opc(vm.CODECOPY)
			if n.tok.Kind == "CREATE2" {
				u.push(uint64(n.site)) // salt
			}
			u.push(uint64(len(blob)))
			u.push(0)
			u.push(uint64(n.tok.Val))
			u.sites[len(u.code)] = n.site
			if n.tok.Kind == "CREATE2" {
				u.opc(vm.CREATE2)
			} else {
				u.opc(vm.CREATE)
			}
			u.opc(vm.POP)
		default:
			return fmt.Errorf("unknown token %q", n.tok.T)
		}
	}
	// the ending
	e := f.end
	how := e.How
	if e.V != "" {
		how = e.V
	}
	switch how {
	case "STOP":
		u.opc(vm.STOP)
	case "RETURN":
		if u.isInit { // deploy the one-byte runtime code 0x00
			u.push(0)
			u.push(0)
			u.opc(vm.MSTORE8)
			u.push(1)
			u.push(0)
			u.opc(vm.RETURN)
		} else {
			u.push(0)
			u.push(0)
			u.opc(vm.RETURN)
		}
	case "RETMAX": // exactly params.MaxCodeSize bytes of (mostly zero) memory
		u.push(uint64(params.MaxCodeSize))
		u.push(0)
		u.opc(vm.RETURN)
	case "RETOVER":
		u.push(uint64(params.MaxCodeSize) + 1)
		u.push(0)
		u.opc(vm.RETURN)
	case "RETHUGE":
		u.push(40000)
		u.push(0)
		u.opc(vm.RETURN)
	case "REVERT":
		u.push(0)
		u.push(0)
		u.opc(vm.REVERT)
	case "INVALID":
		u.op(0xfe)
	case "UNDEFINED": // an opcode the jump table does not define
		u.op(0x0c)
	case "UNDERFLOW":
		u.opc(vm.POP)
	case "BADJUMP":
		u.push(1)
		u.opc(vm.JUMP)
	case "OOG": // a memory size whose gas does not fit 64 bits: out of gas
		u.push(0)
		u.opc(vm.NOT)
		u.opc(vm.MLOAD)
	case "OOGCOPY":
		u.push(0)
		u.opc(vm.NOT)
		u.push(0)
		u.push(0)
		u.opc(vm.CODECOPY)
	case "SELFDESTRUCT":
		if e.Ben == "SELF" {
			u.opc(vm.ADDRESS)
		} else {
			b, ok := c.addr[e.Ben]
			if !ok {
				return fmt.Errorf("unknown beneficiary %q", e.Ben)
			}
			u.pushBytes(b.Bytes())
		}
		u.opc(vm.SELFDESTRUCT)
	default:
		return fmt.Errorf("unknown ending %q", how)
	}
	return nil
}

// finish appends the init-code blobs, resolves labels and registers the unit's call sites under its code hash.
func (c *compiler) finish(u *unit) ([]byte, error) {
	for i, b := range u.blobs {
		u.label(fmt.Sprintf("blob%d", i))
		u.op(b...)
	}
	if err := u.resolve(); err != nil {
		return nil, err
	}
	h := crypto.Keccak256Hash(u.code)
	m := c.sites[h]
	if m == nil {
		m = map[int]int{}
		c.sites[h] = m
	}
	for pc, s := range u.sites {
		m[pc] = s
	}
	return u.code, nil
}

// contract assembles the code of a deployed contract: a dispatcher on the first calldata byte, then its sub-programs.
func (c *compiler) contract(name string) ([]byte, error) {
	u := newUnit()
	u.push(0)
	u.opc(vm.CALLDATALOAD)
	u.push(248)
	u.opc(vm.SHR)
	for i := range c.sels[name] {
		u.opc(vm.DUP1)
		u.push(uint64(i))
		u.opc(vm.EQ)
		u.pushLabel(fmt.Sprintf("sel%d", i))
		u.opc(vm.JUMPI)
	}
	u.opc(vm.STOP)
	for i, f := range c.sels[name] {
		u.label(fmt.Sprintf("sel%d", i))
		u.opc(vm.JUMPDEST)
		u.opc(vm.POP)
		if err := c.body(u, f); err != nil {
			return nil, err
		}
	}
	return c.finish(u)
}

// ---------------------------------------------------------------------------------------------- world

// World is the projection compared by the monitor (same shape as the model's prediction).
type World struct {
	Bal  map[string]int64    `json:"bal"`
	Sto  map[string][2]int64 `json:"sto"`
	Code map[string]string   `json:"code"`
	Ex   map[string]bool     `json:"ex"`
	Dead map[string]bool     `json:"dead"`
	Logs [][]interface{}     `json:"logs"`
}

type env struct {
	st     *state.StateDB
	names  []string // universe, fixed order
	addr   map[string]common.Address
	bound  map[string]bool           // created names bound to an address
	byAddr map[common.Address]string // address -> name
	own    map[string][]byte         // deployed code of the contracts
	thash  common.Hash
}

var (
	slot1 = common.BigToHash(big.NewInt(1))
	slot2 = common.BigToHash(big.NewInt(2))
)

func small(b *big.Int) int64 {
	if b.IsInt64() && b.Int64() < 1<<30 && b.Int64() > -(1<<30) {
		return b.Int64()
	}
	return -1 // does not fit the projection: never equal to a model value
}

func (e *env) nameOf(a common.Address) string {
	if n, ok := e.byAddr[a]; ok {
		return n
	}
	return "?" + a.Hex()[2:10]
}

func (e *env) bind(name string, a common.Address) {
	if old, ok := e.byAddr[a]; ok && old != name {
		// the address of a creation that was reverted is used again by another site
		e.bound[old] = false
	}
	e.byAddr[a] = name
	e.addr[name] = a
	e.bound[name] = true
}

func (e *env) proj() *World {
	w := &World{Bal: map[string]int64{}, Sto: map[string][2]int64{}, Code: map[string]string{}, Ex: map[string]bool{},
		Dead: map[string]bool{}, Logs: [][]interface{}{}}
	for _, n := range e.names {
		a, ok := e.addr[n]
		if !ok || (len(n) > 0 && n[0] == 'K' && !e.bound[n]) {
			w.Bal[n], w.Sto[n], w.Code[n], w.Ex[n], w.Dead[n] = 0, [2]int64{0, 0}, "", false, false
			continue
		}
		w.Bal[n] = small(e.st.GetBalance(a))
		w.Sto[n] = [2]int64{small(e.st.GetState(a, slot1).Big()), small(e.st.GetState(a, slot2).Big())}
		code := e.st.GetCode(a)
		switch {
		case len(code) == 0:
			w.Code[n] = ""
		case e.own[n] != nil && string(code) == string(e.own[n]):
			w.Code[n] = "own"
			if n == "R" {
				w.Code[n] = "rec"
			}
		case len(code) == params.MaxCodeSize:
			w.Code[n] = "big"
		case len(code) == 1 && code[0] == 0:
			w.Code[n] = "rt"
		default:
			w.Code[n] = "other"
		}
		w.Ex[n] = e.st.Exist(a)
		w.Dead[n] = e.st.HasSuicided(a)
	}
	for _, l := range e.st.GetLogs(e.thash) {
		tag := int64(-1)
		if len(l.Topics) == 1 {
			tag = small(l.Topics[0].Big())
		}
		w.Logs = append(w.Logs, []interface{}{e.nameOf(l.Address), tag})
	}
	return w
}

// ---------------------------------------------------------------------------------------------- tracer

// CallRec is what was observed around one call / create site.
type CallRec struct {
	Site    int    `json:"site"`
	Op      string `json:"op"`
	Parent  int    `json:"parent"` // index of the enclosing site's record (0 = the transaction's call), -1 for the root
	Static  bool   `json:"static"` // executed beneath a STATICCALL
	Ok      bool   `json:"ok"`
	Entered bool   `json:"entered"` // the callee executed at least one instruction
	Closed  bool   `json:"closed"`
	Ctx     string `json:"ctx"`
	From    string `json:"from"` // the account in whose context the instruction executed
	G0      string `json:"g0"`   // caller's gas after paying for the instruction (CALL*: forwarded gas already deducted)
	G1      string `json:"g1"`   // caller's gas when it continued
	Gin     string `json:"gin"`  // callee's gas at its first instruction ("" when not entered)
	light   bool   // a site outside the program's code (inside the recursive helper): tracked, not projected, not emitted
	Coll    bool   `json:"coll"` // a creation that was refused although the creator could pay the endowment: the address is taken
	Rev     bool   `json:"rev"`  // the callee's last instruction was a REVERT that executed (a failed frame that keeps its gas)
	Pre     *World `json:"pre"`
	Post    *World `json:"post"`
	depth   int
	g0, g1  uint64
	gin     uint64
	lastOp  vm.OpCode // last instruction seen in the callee's own frame, and whether it raised an error
	lastErr bool
}

// SdRec is one executed SELFDESTRUCT.
type SdRec struct {
	Frame int    `json:"frame"` // record of the site whose callee executed it
	Self  string `json:"self"`
	Ben   string `json:"ben"`
	Amt   int64  `json:"amt"`
}

type tracer struct {
	maxDepth int // deepest frame that executed an instruction
	lightN   int // call sites outside the program's code
	e        *env
	sites    map[common.Hash]map[int]int
	recs     []*CallRec
	open     []int // indexes into recs: sites waiting for their callee to return, outermost first
	sds      []SdRec
	notes    []string
}

func isCallLike(op vm.OpCode) bool {
	switch op {
	case vm.CALL, vm.CALLCODE, vm.DELEGATECALL, vm.STATICCALL, vm.CREATE, vm.CREATE2:
		return true
	}
	return false
}

func (t *tracer) CaptureStart(from common.Address, to common.Address, call bool, input []byte, gas uint64, value *big.Int) error {
	return nil
}

func (t *tracer) CaptureState(evm *vm.EVM, pc uint64, op vm.OpCode, gas, cost uint64, memory *vm.Memory, stack *vm.Stack, contract *vm.Contract, depth int, err error) error {
	if depth > t.maxDepth {
		t.maxDepth = depth
	}
	// 1. sites whose callee has returned: the first capture back at the caller's depth closes them
	for len(t.open) > 0 {
		r := t.recs[t.open[len(t.open)-1]]
		if r.depth < depth {
			break
		}
		if r.depth == depth {
			r.Closed = true
			r.G1, r.g1 = fmt.Sprint(gas), gas
			d := stack.Data()
			r.Ok = len(d) > 0 && d[len(d)-1].Sign() != 0
			r.Rev = !r.Ok && r.Entered && r.lastOp == vm.REVERT && !r.lastErr
			if !r.light {
				r.Post = t.e.proj()
			}
		} else {
			t.notes = append(t.notes, fmt.Sprintf("site %d was never resumed", r.Site))
		}
		t.open = t.open[:len(t.open)-1]
	}
	// 2. first instruction of a callee
	if len(t.open) > 0 {
		r := t.recs[t.open[len(t.open)-1]]
		if r.depth == depth-1 && !r.Entered {
			r.Entered = true
			r.Gin, r.gin = fmt.Sprint(gas), gas
			if r.Op == "CREATE" || r.Op == "CREATE2" {
				t.e.bind(fmt.Sprintf("K%d", r.Site), contract.Address())
			}
			r.Ctx = t.e.nameOf(contract.Address())
		}
	}
	if len(t.open) > 0 {
		if r := t.recs[t.open[len(t.open)-1]]; r.depth == depth-1 {
			r.lastOp, r.lastErr = op, err != nil
		}
	}
	if err != nil {
		return nil // the instruction is not executed
	}
	// 3. a call / create site about to execute
	if isCallLike(op) {
		site := -1
		if m := t.sites[contract.CodeHash]; m != nil {
			if s, ok := m[int(pc)]; ok {
				site = s
			}
		}
		parent := -1
		under := false
		if len(t.open) > 0 {
			parent = t.open[len(t.open)-1]
		}
		for _, i := range t.open {
			if t.recs[i].Op == "STATICCALL" {
				under = true
			}
		}
		r := &CallRec{Site: site, Op: op.String(), Parent: parent, Static: under, From: t.e.nameOf(contract.Address()),
			G0: fmt.Sprint(contract.Gas), g0: contract.Gas, depth: depth, light: site < 0}
		if r.light {
			t.lightN++
		} else {
			r.Pre = t.e.proj()
		}
		t.recs = append(t.recs, r)
		t.open = append(t.open, len(t.recs)-1)
	}
	if op == vm.SELFDESTRUCT {
		d := stack.Data()
		fr := -1
		if len(t.open) > 0 {
			fr = t.open[len(t.open)-1]
		}
		self := contract.Address()
		ben := common.BigToAddress(d[len(d)-1])
		t.sds = append(t.sds, SdRec{Frame: fr, Self: t.e.nameOf(self), Ben: t.e.nameOf(ben), Amt: small(evm.StateDB.GetBalance(self))})
	}
	return nil
}

func (t *tracer) CaptureFault(evm *vm.EVM, pc uint64, op vm.OpCode, gas, cost uint64, memory *vm.Memory, stack *vm.Stack, contract *vm.Contract, depth int, err error) error {
	// an instruction that was shown by CaptureState and then failed; the interpreter also reports an executed REVERT
	// here (with the "execution reverted" error), which is not a failure of the instruction
	if op == vm.REVERT && err != nil && err.Error() == "evm: execution reverted" {
		return nil
	}
	if len(t.open) > 0 {
		if r := t.recs[t.open[len(t.open)-1]]; r.depth == depth-1 {
			r.lastOp, r.lastErr = op, true
		}
	}
	return nil
}

func (t *tracer) CaptureEnd(output []byte, gasUsed uint64, d time.Duration, err error) error {
	return nil
}

// ---------------------------------------------------------------------------------------------- fixture

func fixedAddr(b byte) common.Address {
	var a common.Address
	a[0], a[19] = 0xc1, b
	return a
}

const gasLimit = uint64(1) << 63

func vmConfig(t vm.Tracer) *vm.Config {
	yp := params.Versions[params.YouCurrentVersion]
	cfg := &vm.Config{RuntimeConfig: vm.RuntimeConfig{CurrYouParams: &yp, JumpTable: vm.GetJumpTable(yp.EVMVersion)}}
	if t != nil {
		cfg.LocalConfig = vm.LocalConfig{Debug: true, Tracer: t}
	}
	return cfg
}

// result of one execution, kept for choosing gas sweeps
type result struct {
	ev    map[string]interface{}
	recs  []*CallRec
	codeK map[int]int // create site -> length of the code the created account ended up with
}

func runOne(b *Beh, ov *override) (*result, error) {
	ev := map[string]interface{}{"ev": "Run", "exp": b.Exp, "setup": b.Setup, "panic": "", "err": ""}
	root, nx, err := parseFrame(b.Prog, 0)
	if err != nil || nx != len(b.Prog) || root.open.T != "CALL" {
		return nil, fmt.Errorf("malformed program: %v", err)
	}
	e := &env{addr: map[string]common.Address{}, bound: map[string]bool{}, byAddr: map[common.Address]string{}, own: map[string][]byte{}}
	fixed := []string{"O", "A", "B", "C", "E", "N"}
	for i, n := range fixed {
		e.addr[n] = fixedAddr(byte(0x10 + i))
		e.byAddr[e.addr[n]] = n
	}
	e.names = append(e.names, fixed...)
	for i, t := range b.Prog {
		if t.T == "CREATE" {
			e.names = append(e.names, fmt.Sprintf("K%d", i+1))
		}
		if t.T == "DEEP" {
			if _, ok := e.addr["R"]; !ok {
				e.addr["R"] = fixedAddr(0x40)
				e.byAddr[e.addr["R"]] = "R"
				e.names = append(e.names, "R")
			}
		}
		if t.T == "PRE" && len(t.To) == 2 && t.To[0] == 'P' && t.To[1] >= '1' && t.To[1] <= '8' {
			if _, ok := e.addr[t.To]; !ok {
				e.addr[t.To] = common.BytesToAddress([]byte{t.To[1] - '0'})
				e.byAddr[e.addr[t.To]] = t.To
				e.names = append(e.names, t.To)
			}
		}
	}
	c := &compiler{addr: e.addr, sels: map[string][]*frame{"A": nil, "B": nil, "C": nil}, selOf: map[*frame]int{},
		sites: map[common.Hash]map[int]int{}, gasAt: map[int]uint64{}, bySite: map[int]*frame{}}
	limit := gasLimit
	if ov != nil {
		if ov.site == root.site {
			limit = ov.gas
		} else {
			c.gasAt[ov.site] = ov.gas
		}
	}
	if err := c.assign(root); err != nil {
		return nil, err
	}
	codes := map[string][]byte{}
	for _, n := range []string{"A", "B", "C"} {
		code, err := c.contract(n)
		if err != nil {
			return nil, err
		}
		codes[n] = code
	}
	res := &result{ev: ev, codeK: map[int]int{}}
	return res, execute(b, e, c, codes, root, res, limit)
}

func execute(b *Beh, e *env, c *compiler, codes map[string][]byte, root *frame, res *result, limit uint64) error {
	ev := res.ev
	st, _ := fixture.NewMemState()
	helper, helper2 := fixedAddr(0x30), fixedAddr(0x31)
	st.AddBalance(e.addr["O"], big.NewInt(5))
	st.AddBalance(e.addr["E"], big.NewInt(1))
	for _, n := range []string{"A", "B", "C"} {
		st.AddBalance(e.addr[n], big.NewInt(2))
		st.SetNonce(e.addr[n], 1)
		st.SetCode(e.addr[n], codes[n])
		e.own[n] = codes[n]
	}
	if ra, ok := e.addr["R"]; ok {
		// R: call yourself with everything; if that call was refused (depth limit) record it in slot 1; return
		r := newUnit()
		for i := 0; i < 5; i++ {
			r.push(0)
		}
		r.opc(vm.ADDRESS)
		r.pushBytes(allGas)
		r.opc(vm.CALL)
		r.opc(vm.ISZERO)
		r.pushLabel("rec")
		r.opc(vm.JUMPI)
		r.opc(vm.STOP)
		r.label("rec")
		r.opc(vm.JUMPDEST)
		r.push(1)
		r.push(1)
		r.opc(vm.SSTORE)
		r.opc(vm.STOP)
		if err := r.resolve(); err != nil {
			return err
		}
		st.SetNonce(ra, 1)
		st.SetCode(ra, r.code)
		e.own["R"] = r.code
	}
	// storage from earlier transactions (EvmFrames.tla InitSto): A.1 = 3, B.2 = 3, C.1 = C.2 = 3.  Set-up "fresh": all
	// of it is committed; set-up "second": the slot-1 values are committed, the slot-2 values are written by the warm-up
	// transaction and only finalised.
	three := common.BigToHash(big.NewInt(3))
	st.SetState(e.addr["A"], slot1, three)
	st.SetState(e.addr["C"], slot1, three)
	if b.Setup != "second" {
		st.SetState(e.addr["B"], slot2, three)
		st.SetState(e.addr["C"], slot2, three)
	}
	// helper: SSTORE(1,1); CALL helper2 (which is INVALID) ; STOP   -- a first transaction with a nested failing frame
	h := newUnit()
	h.push(1)
	h.push(1)
	h.opc(vm.SSTORE)
	for i := 0; i < 5; i++ {
		h.push(0)
	}
	h.pushBytes(helper2.Bytes())
	h.pushBytes([]byte{0xff, 0xff, 0xff, 0xff})
	h.opc(vm.CALL)
	h.opc(vm.POP)
	h.opc(vm.STOP)
	st.SetNonce(helper, 1)
	st.SetCode(helper, h.code)
	st.SetNonce(helper2, 1)
	st.SetCode(helper2, []byte{0x60, 0x01, 0x60, 0x01, 0x55, 0xfe}) // SSTORE(1,1); INVALID
	r1, r2, r3, err := st.Commit(true)
	if err != nil {
		return err
	}
	st, err = state.New(r1, r2, r3, st.Database())
	if err != nil {
		return err
	}
	e.st = st
	txn := 0
	if b.Setup == "second" {
		st.Prepare(common.BytesToHash([]byte("tx-warmup")), common.Hash{}, txn)
		_, _, werr := runtime.Call(helper, nil, &runtime.Config{Origin: e.addr["O"], GasLimit: 1000000, Time: big.NewInt(1),
			BlockNumber: big.NewInt(1), State: st, EVMConfig: vmConfig(nil)})
		if werr != nil {
			return fmt.Errorf("warm-up transaction failed: %v", werr)
		}
		st.SetState(e.addr["B"], slot2, three) // what an SSTORE of the earlier transaction does
		st.SetState(e.addr["C"], slot2, three)
		st.Finalise(true)
		txn++
	}
	e.thash = common.BytesToHash([]byte("tx-program"))
	st.Prepare(e.thash, common.Hash{}, txn)

	t := &tracer{e: e, sites: c.sites}
	rootRec := &CallRec{Site: root.site, Op: "CALL", Parent: -1, G0: "0", Pre: e.proj(), depth: 0}
	t.recs = append(t.recs, rootRec)
	t.open = append(t.open, 0)
	cfg := &runtime.Config{Origin: e.addr["O"], GasLimit: limit, Time: big.NewInt(1), BlockNumber: big.NewInt(1),
		Value: big.NewInt(int64(root.open.Val)), State: st, EVMConfig: vmConfig(t)}
	var left uint64
	var xerr error
	func() {
		defer func() {
			if r := recover(); r != nil {
				ev["panic"] = fmt.Sprint(r)
			}
		}()
		_, left, xerr = runtime.Call(e.addr[root.open.To], []byte{0}, cfg)
	}()
	if ev["panic"] != "" {
		ev["calls"], ev["sds"] = []*CallRec{}, []SdRec{}
		return nil
	}
	rootRec.Closed, rootRec.Ok, rootRec.G1, rootRec.g1 = true, xerr == nil, fmt.Sprint(left), left
	rootRec.Rev = xerr != nil && rootRec.Entered && rootRec.lastOp == vm.REVERT && !rootRec.lastErr
	if xerr != nil {
		ev["err"] = xerr.Error()
	}
	rootRec.Post = e.proj()
	for _, r := range t.recs {
		if (r.Op == "CREATE" || r.Op == "CREATE2") && r.Ok {
			if a, ok := e.addr[fmt.Sprintf("K%d", r.Site)]; ok {
				res.codeK[r.Site] = len(st.GetCode(a))
			}
		}
	}
	res.recs = t.recs
	for _, i := range t.open[1:] {
		t.notes = append(t.notes, fmt.Sprintf("site %d still open at the end", t.recs[i].Site))
	}
	func() {
		defer func() {
			if r := recover(); r != nil {
				ev["panic"] = "Finalise: " + fmt.Sprint(r)
			}
		}()
		st.Finalise(true)
	}()
	ev["fin"] = e.proj()
	for _, r := range t.recs {
		if r.Pre == nil {
			r.Pre = rootRec.Pre
		}
		if r.Post == nil {
			r.Post = r.Pre
		}
	}
	// the records of the program's own sites, with parent / frame indexes renumbered
	idx := map[int]int{-1: -1}
	emit := []*CallRec{}
	for i, r := range t.recs {
		if !r.light {
			idx[i] = len(emit)
			emit = append(emit, r)
		}
	}
	for _, r := range emit {
		if p, ok := idx[r.Parent]; ok {
			r.Parent = p
		} else {
			r.Parent = 0
		}
	}
	sds := []SdRec{}
	for _, sd := range t.sds {
		if f, ok := idx[sd.Frame]; ok {
			sd.Frame = f
			sds = append(sds, sd)
		}
	}
	for _, r := range emit {
		if (r.Op == "CREATE" || r.Op == "CREATE2") && r.Closed && !r.Ok && !r.Entered && r.Site > 0 && r.Pre != nil {
			r.Coll = int64(b.Prog[r.Site-1].Val) <= r.Pre.Bal[r.From]
		}
	}
	res.recs = emit
	ev["calls"] = emit
	ev["sds"] = sds
	if t.lightN > 0 {
		ev["deep"] = map[string]int{"sites": t.lightN, "maxdepth": t.maxDepth}
	}
	if len(t.notes) > 0 {
		ev["notes"] = t.notes
	}
	return nil
}

// ---------------------------------------------------------------------------------------------- gas sweeps

// rnd is a small deterministic generator (the in-between points of a sweep depend only on the program).
type rnd uint64

func (r *rnd) next() uint64 {
	*r = *r*6364136223846793005 + 1442695040888963407
	return uint64(*r >> 17)
}

// points is the boundary set for a frame that consumed `used` gas in the ample run (for creations: init + deposit).
func points(used, init uint64, r *rnd) []uint64 {
	set := map[uint64]bool{}
	add := func(v uint64, ok bool) {
		if ok {
			set[v] = true
		}
	}
	add(used-1, used >= 1)
	add(used, true)
	add(used+1, true)
	add(init-1, init >= 1)
	add(init, true)
	add(init+1, true)
	if used > init { // inside the window in which only the code deposit cannot be paid
		add(used-(used-init)/2, true)
	}
	for _, v := range []uint64{0, 1, 2, 2300, 2301, 5000} {
		add(v, true)
	}
	for i := 0; i < 4 && used > 2; i++ {
		add(1+r.next()%used, true)
	}
	out := make([]uint64, 0, len(set))
	for v := range set {
		out = append(out, v)
	}
	sort.Slice(out, func(i, j int) bool { return out[i] < out[j] })
	return out
}

func carriesValue(b *Beh, site int) bool {
	t := b.Prog[site-1]
	return (t.T == "CALL" || t.T == "PRE") && (t.Kind == "CALL" || t.Kind == "CALLCODE") && t.Val != 0
}

// sweeps chooses, from what the ample-gas run measured, the overrides that put the gas a frame starts with on the
// boundary values: around what it consumed, and for creations around the cost of the init code alone and of the init
// code plus the code deposit (reached through the gas of the enclosing message call, because CREATE / CREATE2 forward
// what the creator has).
func sweeps(b *Beh, res *result) (out []map[string]interface{}, ovs []override) {
	seed := rnd(len(b.Prog)*7919 + 1)
	for _, t := range b.Prog {
		seed = seed*31 + rnd(len(t.T)+len(t.Kind)*3+len(t.How)*5+t.Val*7+t.Slot*11)
	}
	recs := res.recs
	var creates, calls []int
	n := 0
	// calls of precompiled contracts: no instruction of the callee is seen, so the required gas is measured by a
	// calibration run with an explicit, ample gas argument; then the boundary amounts around it are tried
	for _, r := range recs {
		if !r.Closed || r.Site <= 0 || b.Prog[r.Site-1].T != "PRE" || n >= b.Sweep {
			continue
		}
		n++
		const cal = uint64(1000000000)
		stip := uint64(0)
		if carriesValue(b, r.Site) {
			stip = 2300
		}
		req := uint64(0)
		if c2, err := runOne(b, &override{site: r.Site, gas: cal}); err == nil {
			for _, q := range c2.recs {
				if q.Site == r.Site && q.Closed && q.Ok && q.g1 >= q.g0 && cal+stip >= q.g1-q.g0 {
					req = cal + stip - (q.g1 - q.g0)
				}
			}
		}
		for _, t := range points(req, req, &seed) {
			arg := t
			if stip > 0 {
				if t < stip {
					continue
				}
				arg = t - stip
			}
			ovs = append(ovs, override{site: r.Site, gas: arg})
			out = append(out, map[string]interface{}{"site": r.Site, "via": r.Site, "gas": fmt.Sprint(arg), "target": fmt.Sprint(t),
				"used": fmt.Sprint(req), "init": fmt.Sprint(req), "pre": true})
		}
	}
	for i, r := range recs {
		if !r.Closed || !r.Entered || r.Site <= 0 {
			continue
		}
		if r.Op == "CREATE" || r.Op == "CREATE2" {
			creates = append(creates, i)
		} else if b.Prog[r.Site-1].T == "CALL" {
			calls = append(calls, i)
		}
	}
	// creations first, then message calls from the innermost outwards
	sort.SliceStable(calls, func(i, j int) bool { return recs[calls[i]].depth > recs[calls[j]].depth })
	for _, i := range append(creates, calls...) {
		if n >= b.Sweep {
			break
		}
		r := recs[i]
		create := r.Op == "CREATE" || r.Op == "CREATE2"
		var used uint64 // gas the frame consumed: what it started with minus what came back
		if create {
			used = r.g0 - r.g1 // g1 = g0 - gin + returned
		} else {
			used = r.gin - (r.g1 - r.g0)
		}
		init := used
		if create {
			dep := uint64(200 * res.codeK[r.Site])
			if dep <= used {
				init = used - dep
			}
		}
		// the site whose gas argument is changed: the site itself for a message call, the enclosing message call for a creation
		via := i
		if create {
			via = r.Parent
			for via >= 0 && (recs[via].Op == "CREATE" || recs[via].Op == "CREATE2") {
				via = -1 // a creation inside init code: not swept
			}
			if via < 0 {
				continue
			}
		}
		p := recs[via]
		n++
		for _, t := range points(used, init, &seed) {
			want := t // gas the swept frame should start with
			if create {
				// the creator has g0 after paying for the instruction; it forwards all of it (CREATE) or all but 1/64 (CREATE2)
				rem := t
				if r.Op == "CREATE2" {
					rem = t + t/63
					for rem-rem/64 < t {
						rem++
					}
				}
				want = rem + (p.gin - r.g0) // plus what the enclosing frame spends before
			}
			arg := want
			if via != 0 && carriesValue(b, p.Site) {
				if want < 2300 {
					continue
				}
				arg = want - 2300 // the stipend comes on top
			}
			if via == 0 && arg == 0 {
				continue // a zero gas limit means "default" to runtime.Call
			}
			ovs = append(ovs, override{site: p.Site, gas: arg})
			out = append(out, map[string]interface{}{"site": r.Site, "via": p.Site, "gas": fmt.Sprint(arg), "target": fmt.Sprint(t),
				"used": fmt.Sprint(used), "init": fmt.Sprint(init)})
		}
	}
	return out, ovs
}

func run(env *drive.Env) error {
	var b Beh
	for env.Next(&b) {
		res, err := runOne(&b, nil)
		if err != nil {
			return fmt.Errorf("behaviour %d: %v", env.T, err)
		}
		env.Emit(res.ev)
		if b.Sweep > 0 && res.ev["panic"] == "" {
			infos, ovs := sweeps(&b, res)
			for i := range ovs {
				r2, err := runOne(&b, &ovs[i])
				if err != nil {
					return fmt.Errorf("behaviour %d sweep %v: %v", env.T, infos[i], err)
				}
				r2.ev["sweep"] = infos[i]
				if infos[i]["pre"] == true {
					// the gas a precompile is called with is known here (explicit argument plus stipend): record it as the
					// gas the callee started with, unless the call was refused for lack of balance
					for _, q := range r2.recs {
						if q.Site != ovs[i].site || !q.Closed || q.Entered {
							continue
						}
						tok := b.Prog[q.Site-1]
						if carriesValue(&b, q.Site) && q.Pre != nil && int64(tok.Val) > q.Pre.Bal[q.From] {
							continue
						}
						g := ovs[i].gas
						if g == 0 {
							g = 2300 // this code base turns a zero gas argument into the stipend amount
						}
						if carriesValue(&b, q.Site) {
							g += 2300
						}
						q.Entered, q.Gin = true, fmt.Sprint(g)
					}
				}
				env.Emit(r2.ev)
			}
		}
		b = Beh{}
	}
	return nil
}
