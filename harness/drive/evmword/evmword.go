// Package evmword runs generated straight-line EVM programs through the real interpreter
// (core/vm via core/vm/runtime.Call on a committed, reopened state) and records every executed instruction for spec/EvmWord_Mon.tla (C15).
//
// A behaviour is one program: {"id":..,"kind":..,"code":[[op, arg], ...]} with abstract opcodes
//
//	PUSH <decimal word> | PUSH32 <decimal word> | DUP <n> | SWAP <n> | POP | <computational opcode> |
//	MSTORE | MLOAD | MSTORE8 | SSTORE | SLOAD
//
// The driver compiles it to bytecode (PUSH uses the shortest PUSHn), appends STOP, executes it with a tracer
// that copies the operand stack before every instruction, and emits one "Step" event per completed instruction
// and one "End" event with the final stack, the error, the final memory and the storage slots read back
// through StateDB.GetState.
package evmword

import (
	"fmt"
	"math/big"
	"strconv"
	"time"

	"github.com/youchainhq/go-youchain/common"
	"github.com/youchainhq/go-youchain/core/state"
	"github.com/youchainhq/go-youchain/core/vm"
	"github.com/youchainhq/go-youchain/core/vm/runtime"
	"github.com/youchainhq/go-youchain/crypto"
	"github.com/youchainhq/go-youchain/params"
	"github.com/youchainhq/go-youchain/youdb"
	"verif/harness/drive"
)

func init() {
	params.InitNetworkId(params.NetworkIdForTestCase) // selects the protocol table, as the repository's own vm tests do
	drive.Register("evmword", run)
}

// Program is one behaviour.
type Program struct {
	Id   int        `json:"id"`
	Kind string     `json:"kind"`
	Code [][]string `json:"code"`
	Sto0 [][]string `json:"sto0"` // storage committed before the transaction: [[key, value], ...] (decimal words)
	Fill int        `json:"fill"` // the program starts on a stack pre-filled with this many distinct items (a loop prefix the trace omits)
}

// fillPrefix is code that leaves exactly n distinct items on the stack without ever holding more than max(n, 2):
// a countdown loop for all but the last four (m-1, ..., 1, 0; the loop needs two spare slots) and four plain pushes.
func fillPrefix(n int) []byte {
	var code []byte
	push2 := func(v int) { code = append(code, byte(vm.PUSH2), byte(v>>8), byte(v)) }
	m := 0
	if n > 8 {
		m = n - 4
		push2(m - 1)                           // 0: counter
		code = append(code, byte(vm.JUMPDEST)) // 3: loop
		code = append(code, byte(vm.DUP1), byte(vm.ISZERO))
		push2(19)
		code = append(code, byte(vm.JUMPI))
		code = append(code, byte(vm.DUP1), byte(vm.PUSH1), 1, byte(vm.SWAP1), byte(vm.SUB)) // [.., c] -> [.., c, c-1]
		push2(3)
		code = append(code, byte(vm.JUMP))
		code = append(code, byte(vm.JUMPDEST)) // 19: done
	}
	for i := m; i < n; i++ {
		push2(2001 + i)
	}
	return code
}

type capture struct {
	op    vm.OpCode
	pc    uint64
	cost  uint64
	stack []string
	mem   []byte
	err   error
}

// tracer implements vm.Tracer; it only copies what the interpreter shows it.
type tracer struct {
	skipBelow uint64     // instructions of the stack-filling prefix are not recorded
	bal0      [][]string // balances of the known accounts when the first instruction is reached
	caps      []capture
	keys      []common.Hash // storage keys touched by SSTORE / SLOAD, in order of first use
	seen      map[common.Hash]bool
}

func (t *tracer) CaptureStart(from common.Address, to common.Address, call bool, input []byte, gas uint64, value *big.Int) error {
	return nil
}

func (t *tracer) CaptureState(env *vm.EVM, pc uint64, op vm.OpCode, gas, cost uint64, memory *vm.Memory, stack *vm.Stack, contract *vm.Contract, depth int, err error) error {
	if t.bal0 == nil {
		t.bal0 = balances(env.StateDB)
	}
	if pc < t.skipBelow && err == nil {
		return nil
	}
	c := capture{op: op, pc: pc, cost: cost, err: err}
	for _, v := range stack.Data() {
		c.stack = append(c.stack, v.String())
	}
	c.mem = append([]byte(nil), memory.Data()...)
	if (op == vm.SSTORE || op == vm.SLOAD) && len(stack.Data()) > 0 {
		k := common.BigToHash(stack.Data()[len(stack.Data())-1])
		if !t.seen[k] {
			t.seen[k] = true
			t.keys = append(t.keys, k)
		}
	}
	t.caps = append(t.caps, c)
	return nil
}

func (t *tracer) CaptureFault(env *vm.EVM, pc uint64, op vm.OpCode, gas, cost uint64, memory *vm.Memory, stack *vm.Stack, contract *vm.Contract, depth int, err error) error {
	// the faulting instruction was already captured by CaptureState; remember the error on it
	if n := len(t.caps); n > 0 && t.caps[n-1].pc == pc {
		t.caps[n-1].err = err
	}
	return nil
}

func (t *tracer) CaptureEnd(output []byte, gasUsed uint64, d time.Duration, err error) error {
	return nil
}

type instr struct {
	op  string // abstract opcode
	v   string // PUSH constant
	k   int    // DUP / SWAP index
	pc  int
	raw vm.OpCode
}

func compile(p *Program) ([]byte, []instr, error) {
	if p.Fill < 0 || p.Fill > 1024 {
		return nil, nil, fmt.Errorf("bad fill %d", p.Fill)
	}
	code := fillPrefix(p.Fill)
	var ins []instr
	for _, c := range p.Code {
		if len(c) == 0 {
			return nil, nil, fmt.Errorf("empty instruction")
		}
		in := instr{op: c[0], pc: len(code)}
		switch c[0] {
		case "PUSH", "PUSH32":
			if len(c) < 2 {
				return nil, nil, fmt.Errorf("PUSH without constant")
			}
			v, ok := new(big.Int).SetString(c[1], 10)
			if !ok || v.Sign() < 0 || v.BitLen() > 256 {
				return nil, nil, fmt.Errorf("bad PUSH constant %q", c[1])
			}
			b := v.Bytes()
			if len(b) == 0 {
				b = []byte{0}
			}
			if c[0] == "PUSH32" {
				b = common.LeftPadBytes(b, 32)
			}
			in.op, in.v = "PUSH", v.String()
			in.raw = vm.OpCode(int(vm.PUSH1) + len(b) - 1)
			code = append(code, byte(in.raw))
			code = append(code, b...)
		case "DUP", "SWAP":
			k, err := strconv.Atoi(c[1])
			if err != nil || k < 1 || k > 16 {
				return nil, nil, fmt.Errorf("bad %s index %q", c[0], c[1])
			}
			in.k = k
			if c[0] == "DUP" {
				in.raw = vm.OpCode(int(vm.DUP1) + k - 1)
			} else {
				in.raw = vm.OpCode(int(vm.SWAP1) + k - 1)
			}
			code = append(code, byte(in.raw))
		default:
			name := c[0]
			op, isEnv := envOps[name]
			if !isEnv {
				op = vm.StringToOp(name)
			}
			if op == 0 && name != "STOP" {
				return nil, nil, fmt.Errorf("unknown opcode %q", name)
			}
			in.raw = op
			code = append(code, byte(op))
		}
		ins = append(ins, in)
	}
	ins = append(ins, instr{op: "STOP", pc: len(code), raw: vm.STOP})
	code = append(code, byte(vm.STOP))
	return code, ins, nil
}

var contractAddr = common.BytesToAddress([]byte("contract"))

// the environment of every program: who calls, with what value, and a few other accounts
var (
	originAddr   = common.BytesToAddress([]byte("origin-account"))
	coinbaseAddr = common.BytesToAddress([]byte("coinbase-account"))
	eoaAddr      = common.BytesToAddress([]byte("funded-account"))  // funded, no code
	otherAddr    = common.BytesToAddress([]byte("other-contract"))  // funded, code 0x00
	noneAddr     = common.BytesToAddress([]byte("no-such-account")) // does not exist
	callValue    = int64(5)
	gasPrice     = int64(7)
	selfFunds    = int64(1000)
	originFunds  = int64(1000000)
)

// state-reading opcodes the programs may use (some have no name in the repository's opcode tables)
var envOps = map[string]vm.OpCode{
	"ADDRESS": vm.ADDRESS, "ORIGIN": vm.ORIGIN, "CALLER": vm.CALLER, "CALLVALUE": vm.CALLVALUE, "GASPRICE": vm.GASPRICE,
	"SELFBALANCE": vm.SELFBALANCE, "NETWORKID": vm.NETWORKID, "CODESIZE": vm.CODESIZE, "CALLDATASIZE": vm.CALLDATASIZE,
	"COINBASE": vm.COINBASE, "TIMESTAMP": vm.TIMESTAMP, "NUMBER": vm.NUMBER, "DIFFICULTY": vm.DIFFICULTY, "GASLIMIT": vm.GASLIMIT,
	"BALANCE": vm.BALANCE, "EXTCODESIZE": vm.EXTCODESIZE, "EXTCODEHASH": vm.EXTCODEHASH,
}

func dec(a common.Address) string { return new(big.Int).SetBytes(a.Bytes()).String() }

// environment is what the environment opcodes are specified to return for this set-up (computed from the set-up, not
// read from the EVM): the nullary ones by name, and balance / code size / code hash per known account.
func environment(code []byte) (map[string]string, [][]string) {
	hash := func(b []byte) string { return new(big.Int).SetBytes(crypto.Keccak256(b)).String() }
	env := map[string]string{
		"ADDRESS": dec(contractAddr), "ORIGIN": dec(originAddr), "CALLER": dec(originAddr), "CALLVALUE": fmt.Sprint(callValue),
		"GASPRICE": fmt.Sprint(gasPrice), "SELFBALANCE": fmt.Sprint(selfFunds + callValue), "NETWORKID": fmt.Sprint(params.NetworkId()),
		"CODESIZE": fmt.Sprint(len(code)), "CALLDATASIZE": "0", "COINBASE": dec(coinbaseAddr), "TIMESTAMP": "1", "NUMBER": "1",
		"DIFFICULTY": "0", "GASLIMIT": fmt.Sprint(gasLimit),
	}
	accts := [][]string{ // address, balance, code size, code hash (0 for an account that does not exist)
		{dec(contractAddr), fmt.Sprint(selfFunds + callValue), fmt.Sprint(len(code)), hash(code)},
		{dec(originAddr), fmt.Sprint(originFunds - callValue), "0", hash(nil)},
		{dec(eoaAddr), "12345", "0", hash(nil)},
		{dec(otherAddr), "77", "1", hash([]byte{0})},
		{dec(noneAddr), "0", "0", "0"},
	}
	return env, accts
}

var known = []common.Address{contractAddr, originAddr, eoaAddr, otherAddr, noneAddr, coinbaseAddr}

func balances(db vm.StateDB) [][]string {
	out := [][]string{}
	for _, a := range known {
		out = append(out, []string{dec(a), db.GetBalance(a).String()})
	}
	return out
}

const gasLimit = uint64(10000000)

// execute deploys the code with the given committed storage (a state that was committed and reopened, so that the
// slots have an "original" value in the sense of net gas metering) and calls it.
func execute(code []byte, sto0 [][]string, skip int) (t *tracer, st *state.StateDB, err error, panicked string) {
	t = &tracer{seen: map[common.Hash]bool{}, skipBelow: uint64(skip)}
	yp := params.Versions[params.YouCurrentVersion]
	st0, _ := state.New(common.Hash{}, common.Hash{}, common.Hash{}, state.NewDatabase(youdb.NewMemDatabase()))
	st0.CreateAccount(contractAddr)
	st0.SetNonce(contractAddr, 1)
	st0.SetCode(contractAddr, code)
	st0.AddBalance(contractAddr, big.NewInt(selfFunds))
	st0.AddBalance(originAddr, big.NewInt(originFunds))
	st0.AddBalance(eoaAddr, big.NewInt(12345))
	st0.AddBalance(otherAddr, big.NewInt(77))
	st0.SetNonce(otherAddr, 1)
	st0.SetCode(otherAddr, []byte{0})
	for _, kv := range sto0 {
		k, ok1 := new(big.Int).SetString(kv[0], 10)
		v, ok2 := new(big.Int).SetString(kv[1], 10)
		if !ok1 || !ok2 {
			return t, nil, fmt.Errorf("bad sto0 entry %v", kv), ""
		}
		st0.SetState(contractAddr, common.BigToHash(k), common.BigToHash(v))
	}
	r1, r2, r3, cerr := st0.Commit(true)
	if cerr != nil {
		return t, nil, cerr, ""
	}
	st, cerr = state.New(r1, r2, r3, st0.Database())
	if cerr != nil {
		return t, nil, cerr, ""
	}
	cfg := &runtime.Config{
		GasLimit:    gasLimit,
		Time:        big.NewInt(1),
		BlockNumber: big.NewInt(1),
		Origin:      originAddr,
		Coinbase:    coinbaseAddr,
		Value:       big.NewInt(callValue),
		GasPrice:    big.NewInt(gasPrice),
		State:       st,
		EVMConfig: &vm.Config{
			RuntimeConfig: vm.RuntimeConfig{CurrYouParams: &yp, JumpTable: vm.GetJumpTable(yp.EVMVersion)},
			LocalConfig:   vm.LocalConfig{Debug: true, Tracer: t},
		},
	}
	defer func() {
		if r := recover(); r != nil {
			panicked = fmt.Sprint(r)
		}
	}()
	_, _, err = runtime.Call(contractAddr, nil, cfg)
	return
}

func bytesToInts(b []byte) []int {
	out := make([]int, len(b))
	for i, x := range b {
		out[i] = int(x)
	}
	return out
}

func run(env *drive.Env) error {
	var p Program
	for env.Next(&p) {
		code, ins, err := compile(&p)
		if err != nil {
			return fmt.Errorf("behaviour %d: %v", env.T, err)
		}
		t, st, xerr, panicked := execute(code, p.Sto0, len(fillPrefix(p.Fill)))
		if st == nil {
			return fmt.Errorf("behaviour %d: set-up failed: %v", env.T, xerr)
		}
		sto0 := p.Sto0
		if sto0 == nil {
			sto0 = [][]string{}
		}
		envv, accts := environment(code)
		env.Emit(map[string]interface{}{"ev": "Begin", "sto0": sto0, "env": envv, "accts": accts})
		caps := t.caps
		if len(caps) > 0 && int(caps[0].pc) < len(fillPrefix(p.Fill)) {
			// the stack-filling prefix itself was stopped (it never needs more than the items it leaves): report it as the
			// pseudo instruction FILL, which is valid on every stack
			msg := "halted while filling the stack"
			if caps[0].err != nil {
				msg = caps[0].err.Error()
			}
			env.Emit(map[string]interface{}{"ev": "End", "op": "FILL", "b": strs(caps[0].stack), "err": msg, "panic": panicked != "",
				"mem": []int{}, "sto": [][]string{}, "bal0": [][]string{}, "bal1": [][]string{}, "id": p.Id})
			p = Program{}
			continue
		}
		// one capture per instruction of a straight-line program; they must be the instructions we compiled
		for i, c := range caps {
			if i >= len(ins) || c.op != ins[i].raw || int(c.pc) != ins[i].pc {
				return fmt.Errorf("behaviour %d: capture %d (%v at pc %d) does not match the compiled program", env.T, i, c.op, c.pc)
			}
		}
		last := len(caps) - 1
		for i := 0; i < last; i++ {
			ev := map[string]interface{}{"ev": "Step", "op": ins[i].op, "b": strs(caps[i].stack), "cost": caps[i].cost}
			if ins[i].op == "PUSH" {
				ev["v"] = ins[i].v
			}
			if ins[i].k != 0 {
				ev["k"] = ins[i].k
			}
			env.Emit(ev)
		}
		end := map[string]interface{}{"ev": "End", "op": "NONE", "b": []string{}, "err": "", "mem": []int{}, "sto": [][]string{}, "id": p.Id}
		if last >= 0 {
			end["op"] = ins[last].op
			if ins[last].k != 0 {
				end["k"] = ins[last].k
			}
			end["b"] = strs(caps[last].stack)
			end["mem"] = bytesToInts(caps[last].mem)
			if caps[last].err != nil {
				end["err"] = caps[last].err.Error()
			} else if ins[last].op != "STOP" {
				end["err"] = "execution stopped before the end of the program"
			}
		} else {
			end["err"] = "no instruction executed"
		}
		if xerr != nil && end["err"] == "" {
			end["err"] = xerr.Error()
		}
		end["panic"] = panicked != ""
		if panicked != "" {
			end["err"] = "panic: " + panicked
		}
		sto := [][]string{}
		if panicked == "" {
			for _, kv := range p.Sto0 { // the deployed slots are read back too
				kb, _ := new(big.Int).SetString(kv[0], 10)
				if k := common.BigToHash(kb); !t.seen[k] {
					t.seen[k] = true
					t.keys = append(t.keys, k)
				}
			}
			for _, k := range t.keys {
				v := st.GetState(contractAddr, k)
				sto = append(sto, []string{new(big.Int).SetBytes(k.Bytes()).String(), new(big.Int).SetBytes(v.Bytes()).String()})
			}
		}
		end["sto"] = sto
		// balances of the known accounts before the first instruction and after the program
		end["bal0"], end["bal1"] = [][]string{}, [][]string{}
		if t.bal0 != nil && panicked == "" {
			end["bal0"], end["bal1"] = t.bal0, balances(st)
		}
		env.Emit(end)
		p = Program{}
	}
	return nil
}

func strs(s []string) []string {
	if s == nil {
		return []string{}
	}
	return s
}
