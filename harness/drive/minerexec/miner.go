package minerexec

// Miner stage of C06: the blocks are assembled and sealed by the REAL miner (miner.NewMiner -> worker: newWorkLoop,
// mainLoop, commitNewWork, commitTransactions, commitTransaction, commit, taskLoop, mine, postSeal) over a stub Backend
// (real core.BlockChain + real core.TxPool), the solo engine and the staking module.  Transactions reach the worker only
// through the real pool.  The engine is the solo engine behind a thin wrapper that (a) names the proposer
// (GetValMainAddress; solo returns the zero address, which is not a validator) and (b) makes Prepare a gate: the worker
// parks there at the start of every commitNewWork, so the driver decides what the pool holds when the block is
// assembled.  No sleeping: the driver waits on the gate and on the chain-head feed.

import (
	"errors"
	"fmt"
	"math/rand"
	"sort"
	"sync"
	"time"

	"github.com/youchainhq/go-youchain/common"
	"github.com/youchainhq/go-youchain/consensus"
	"github.com/youchainhq/go-youchain/consensus/solo"
	"github.com/youchainhq/go-youchain/core"
	"github.com/youchainhq/go-youchain/core/types"
	"github.com/youchainhq/go-youchain/miner"
	"verif/harness/drive"
	be "verif/harness/drive/blockexec"
	sd "verif/harness/drive/staking"
)

func init() { drive.Register("minerexec", runMiner) }

type gatedEngine struct {
	*solo.Solo
	mu       sync.Mutex
	cb       common.Address
	last     common.Address
	fallback common.Address
	bc       *core.BlockChain
	parked   chan uint64
	goCh     chan struct{}
	quit     chan struct{}
}

func newGatedEngine() *gatedEngine {
	s := solo.NewSolo()
	s.Update(true, 0, 1) // sealer; block time 0: Seal returns at once
	return &gatedEngine{Solo: s, parked: make(chan uint64), goCh: make(chan struct{}), quit: make(chan struct{})}
}

func (e *gatedEngine) setCoinbase(a common.Address) { e.mu.Lock(); e.cb = a; e.mu.Unlock() }

// GetValMainAddress is what commitNewWork uses as coinbase: the proposer the program names, provided it is a validator in
// the head state (a real engine never selects a non-validator; the program cannot know whom the previous block removed),
// otherwise the fallback proposer.
func (e *gatedEngine) GetValMainAddress() common.Address {
	e.mu.Lock()
	defer e.mu.Unlock()
	e.last = e.cb
	if e.bc != nil {
		if st, err := e.bc.State(); err == nil && st.GetValidatorByMainAddr(e.cb) == nil {
			e.last = e.fallback
		}
	}
	return e.last
}

func (e *gatedEngine) lastCoinbase() common.Address { e.mu.Lock(); defer e.mu.Unlock(); return e.last }

// Prepare parks the worker until the driver lets the block be assembled.
func (e *gatedEngine) Prepare(chain consensus.ChainReader, h *types.Header) error {
	select {
	case e.parked <- h.Number.Uint64():
	case <-e.quit:
		return errors.New("driver finished")
	}
	select {
	case <-e.goCh:
		return nil
	case <-e.quit:
		return errors.New("driver finished")
	}
}

type backend struct {
	bc   *core.BlockChain
	pool *core.TxPool
}

func (b *backend) BlockChain() *core.BlockChain { return b.bc }
func (b *backend) TxPool() *core.TxPool         { return b.pool }

// TxObs describes one transaction by sender and nonce.
type TxObs struct {
	Id string `json:"id"`
	A  string `json:"a"`
	N  uint64 `json:"n"`
	K  string `json:"k"`
	P  int64  `json:"p"`
}

const stall = 120 * time.Second // failure detection only, never synchronisation

func runMiner(env *drive.Env) error {
	sd.Install(sd.CfgFromEnv(env))
	K := env.OptInt("k", 3)
	KP := env.OptInt("kp", 8)
	per := sd.Params().StakingTrieFrequency
	rnd := rand.New(rand.NewSource(env.Seed))
	var beh []sd.ABlock
	for env.Next(&beh) {
		func() {
			defer func() {
				if r := recover(); r != nil {
					env.Emit(map[string]interface{}{"ev": "Panic", "panic": fmt.Sprint(r)})
				}
			}()
			if len(beh) == 0 {
				return
			}
			eng := newGatedEngine()
			w := sd.NewWorldEngine(eng)
			defer w.Stop()
			eng.mu.Lock()
			eng.bc, eng.fallback = w.A.Bc, w.Who["g1"].Addr
			eng.mu.Unlock()
			cfg := core.DefaultTxPoolConfig
			cfg.Journal = ""
			pool := core.NewTxPool(cfg, w.A.Bc)
			defer pool.Stop()
			m := miner.NewMiner(&backend{w.A.Bc, pool}, w.A.Mux, eng, nil)
			headCh := make(chan core.ChainHeadEvent, 64)
			sub := w.A.Bc.SubscribeChainHeadEvent(headCh)
			defer sub.Unsubscribe()
			defer func() { m.Stop(); close(eng.quit); m.Close() }()

			known := map[common.Hash]TxObs{}
			var rounds [][2]string
			eng.setCoinbase(w.Who[beh[0].Cb].Addr)
			m.Start()
			for bi := range beh {
				ab := &beh[bi]
				var num uint64
				select {
				case num = <-eng.parked: // commitNewWork(num) is parked in Prepare; it has already read its coinbase
				case <-time.After(stall):
					env.Emit(map[string]interface{}{"ev": "BuildError", "blk": bi + 1, "err": "worker did not start a new block"})
					return
				}
				head := w.A.Bc.CurrentBlock()
				if num != head.NumberU64()+1 {
					env.Emit(map[string]interface{}{"ev": "BuildError", "blk": num, "err": "worker builds on a stale head"})
					return
				}
				cbUsed := eng.lastCoinbase() // what commitNewWork(num) was given
				// the next commitNewWork reads its coinbase as soon as this block is written
				if bi+1 < len(beh) {
					eng.setCoinbase(w.Who[beh[bi+1].Cb].Addr)
				}
				pre, err := w.A.Bc.StateAt(head.Root(), head.ValRoot(), head.StakingRoot())
				if err != nil {
					panic(err)
				}
				// the pool admits a gas limit up to the head's; the block under construction has CalcGasLimit(head)
				w.GasLimit = head.GasLimit()
				if l := core.CalcGasLimit(head); l < w.GasLimit {
					w.GasLimit = l
				}
				// submissions through the real pool, one by one (the pool's pending nonce is the next nonce)
				rejected := []map[string]interface{}{}
				for i := range ab.Txs {
					a := &ab.Txs[i]
					from := w.Who[a.A]
					if from == nil || from.Key == nil {
						continue
					}
					tx := w.MakeTxAt(a, pool.Nonce(from.Addr), pre.GetBalance(from.Addr))
					known[tx.Hash()] = TxObs{Id: tx.Hash().Hex()[2:10], A: a.A, N: tx.Nonce(), K: a.K, P: tx.GasPrice().Int64()}
					if errs := pool.AddRemotesSync([]*types.Transaction{tx}); errs[0] != nil {
						rejected = append(rejected, map[string]interface{}{"id": known[tx.Hash()].Id, "k": a.K, "err": errs[0].Error()})
						delete(w.TxKind, tx.Hash())
					}
				}
				nev := 0
				for _, e := range ab.Ev {
					if ev, ok := w.MakeEvidence(e.V, num-1+uint64(e.D)); ok {
						w.A.St.VerifC06AddEvidence(ev)
						rounds = append(rounds, [2]string{fmt.Sprint(num - 1 + uint64(e.D)), e.V})
						nev++
					}
				}
				accused := map[string]bool{}
				for _, r := range rounds {
					if r[0] == fmt.Sprint(num-1) {
						accused[r[1]] = true
					}
				}
				// what the worker will find in the pool
				offered := []TxObs{}
				pend, _ := pool.Pending()
				for _, txs := range pend {
					for _, tx := range txs {
						if o, ok := known[tx.Hash()]; ok {
							offered = append(offered, o)
						}
					}
				}
				sort.Slice(offered, func(i, j int) bool { return offered[i].Id < offered[j].Id })
				nonceBefore := []sd.NV{}
				for _, n := range w.Order {
					if w.Who[n].Key != nil {
						nonceBefore = append(nonceBefore, sd.NV{A: n, V: int64(pre.GetNonce(w.Who[n].Addr))})
					}
				}
				// let the real worker assemble, seal and write the block
				select {
				case eng.goCh <- struct{}{}:
				case <-time.After(stall):
					env.Emit(map[string]interface{}{"ev": "BuildError", "blk": num, "err": "worker left the gate"})
					return
				}
				var blk *types.Block
				select {
				case he := <-headCh:
					blk = he.Block
				case <-time.After(stall):
					env.Emit(map[string]interface{}{"ev": "BuildError", "blk": num, "err": "the miner produced no block"})
					return
				}
				if blk.NumberU64() != num || blk.ParentHash() != head.Hash() {
					env.Emit(map[string]interface{}{"ev": "BuildError", "blk": num, "err": "unexpected block from the miner"})
					return
				}
				pool.VerifC06Reset(head.Header(), blk.Header())
				rs := w.A.Bc.GetReceiptsByHash(blk.Hash())
				ev := be.BuiltFields(blk, rs)
				// the worker's snapshot of the state it sealed: a negative staking record value means the staking-trie update failed
				dberr := ""
				if _, pst := m.Pending(); pst != nil {
					if pst.Error() != nil {
						dberr = "state_error"
					}
					for _, vn := range w.ValIds {
						for _, dn := range append([]string{""}, w.Order...) {
							var d common.Address
							if dn != "" {
								d = w.Who[dn].Addr
							}
							if rec := pst.GetStakingRecord(d, w.Who[vn].Addr); rec != nil && rec.FinalValue != nil && rec.FinalValue.Sign() < 0 {
								dberr = "state_error"
							}
						}
					}
				}
				post, err := w.A.Bc.StateAt(blk.Root(), blk.ValRoot(), blk.StakingRoot())
				if err != nil {
					dberr = "state_error"
					post = pre
				}
				included := []TxObs{}
				kinds := map[string]bool{}
				sumGas := uint64(0)
				for i, tx := range blk.Transactions() {
					o, ok := known[tx.Hash()]
					if !ok {
						o = TxObs{Id: tx.Hash().Hex()[2:10], A: "?", N: tx.Nonce(), K: "?"}
					}
					included = append(included, o)
					kinds[o.K] = true
					if i < len(rs) {
						sumGas += rs[i].GasUsed
					}
				}
				ks := []string{}
				for k := range kinds {
					ks = append(ks, k)
				}
				nonceAfter := []sd.NV{}
				for _, n := range w.Order {
					if w.Who[n].Key != nil {
						nonceAfter = append(nonceAfter, sd.NV{A: n, V: int64(post.GetNonce(w.Who[n].Addr))})
					}
				}
				ev["ev"], ev["blk"], ev["pe"], ev["nev"], ev["nev0"], ev["kinds"], ev["dberr"] = "Built", num, (num+1)%per == 0, nev, len(accused), ks, dberr
				ev["miner"] = true
				ev["offered"], ev["included"], ev["rejected"] = offered, included, rejected
				ev["nb"], ev["na"] = nonceBefore, nonceAfter
				ev["nrcpt"], ev["sumgas"], ev["limit"] = len(rs), sumGas, blk.GasLimit()
				ev["cbok"] = blk.Coinbase() == cbUsed
				ev["pen"] = be.HasPenalty(rs)
				env.Emit(ev)
				// re-execution with the import executor on the independent chain (its head is the parent), then import
				kk := K
				if be.HasPenalty(rs) && KP > kk {
					kk = KP
				}
				for k := 0; k <= kk; k++ {
					r := be.Rerun(w, w.B, blk, k, rnd)
					r["ev"], r["blk"], r["k"], r["on"], r["errc"] = "Rerun", num, k, "B", be.ErrClass(fmt.Sprint(r["err"]))
					env.Emit(r)
				}
				imp := map[string]interface{}{"ev": "Imported", "blk": num, "err": ""}
				if err := w.B.Bc.InsertChain(types.Blocks{blk}); err != nil {
					imp["err"] = err.Error()
				}
				imp["errc"] = be.ErrClass(fmt.Sprint(imp["err"]))
				imp["head"] = w.B.Bc.CurrentBlock().Hash() == blk.Hash()
				brs := w.B.Bc.GetReceiptsByHash(blk.Hash())
				imp["rcpt"], imp["logs"], imp["stat"], imp["lidx"] = be.Short(types.DeriveSha(brs)), be.LogsDigest(brs), be.StatusDigest(brs), be.LogIndexDigest(brs)
				env.Emit(imp)
				if imp["err"] != "" || dberr != "" {
					return
				}
			}
		}()
		beh = nil
	}
	return nil
}
