// Package slash drives evidence cases of spec/Slash.tla through the real staking module (C05).
//
// Fixture: two independent real chains (A builds, B validates) with the solo engine, the staking module registered and
// started, scaled parameters, genesis validators with the fixture's BLS keys; a base chain built with real staking
// transactions gives validator v2 two delegations and two pending withdraw records.  A behaviour is a penalty fraction
// and a list of blocks, each with new evidence cases.  Every block is run through three paths:
//
//	seal : the cases are appended to A's local evidence list, the block is built with EndBlock(isSeal=true) (slashing),
//	       assembled and written -- header.SlashData holds what the builder confirmed;
//	raw  : the UNFILTERED list is put into header.SlashData and the block is run through StateProcessor.Process
//	       (replaySlashing) on B's state at the parent -- what a validator does with an arbitrary proposer's slash data;
//	imp  : the block A built is imported into B with InsertChain (full validation).
//
// The projection (validator records, withdraw queue, penalty account) is recorded before and after each path.
package slash

import (
	"encoding/binary"
	"fmt"
	"math/big"
	"os"
	"time"

	"github.com/youchainhq/go-youchain/common"
	"github.com/youchainhq/go-youchain/consensus/ucon"
	"github.com/youchainhq/go-youchain/core"
	"github.com/youchainhq/go-youchain/core/state"
	"github.com/youchainhq/go-youchain/core/types"
	"github.com/youchainhq/go-youchain/core/vm"
	"github.com/youchainhq/go-youchain/local"
	"github.com/youchainhq/go-youchain/params"
	"github.com/youchainhq/go-youchain/rlp"
	"github.com/youchainhq/go-youchain/staking"
	"verif/harness/drive"
	"verif/harness/drive/txapply/chainfx"
	"verif/harness/fixture"
)

func init() { drive.Register("slash", run) }

// Pair is one (hash, signature) pair of an evidence: Src says which vote of the signer the signature comes from
// ("prevote", "precommit", "nextindex", "certificate"), or "forged" (the signer's signature over another hash),
// "reuseA" / "reuseB" (the bytes of the signer's genuine signature over hash A / B, attached to whatever hash the pair names),
// "otherindex" / "otherround" (the signer's signature over the hash at the next index / round), "otherkey" (a valid
// signature by a key that is no validator's), "garbage" (undecodable bytes).
type Pair struct {
	Src string `json:"src"`
	H   string `json:"h"`
}

// Case is one evidence case.
type Case struct {
	Signer int    `json:"signer"` // whose BLS key signed the pairs
	Idx    string `json:"idx"`    // SignerIdx: "right" | "wrong" (another validator's index) | "oor"
	Kind   string `json:"kind"`   // declared VoteType
	Roff   int    `json:"roff"`   // Round = parent of the behaviour's first block + roff
	Ri     int    `json:"ri"`
	Pairs  []Pair `json:"pairs"`
	// filled by the driver
	Round     uint64 `json:"round"`
	SignerIdx uint32 `json:"signerIdx"`
	Target    int    `json:"target"` // validator the SignerIdx points to (0: none)
}

// Beh is one behaviour.
type Beh struct {
	Frac   uint64   `json:"frac"`
	Blocks [][]Case `json:"blocks"`
}

// identities v1..v7: v1..v5 and v7 are genesis validators, v6 is created by a transaction.  Set changes of the base chain
// (params.ACoCHTFrequency is a constant, 32768: the certificate look-back block of every round of the fixture is the genesis
// block; stake look-back = round - 4; evidence round 13 -> blocks 0 and 9):
//
//	block 8 (period end): delegations to v2 take effect (stake order changes), v6's creation takes effect (new validator),
//	                      v7's complete withdrawal takes effect (removed): all between the two look-back blocks;
//	(delegator d1 delegates to v2 AND to v1, and holds unfinished withdraw records against both)
//	block 12 (period end): v5's complete withdrawal takes effect (removed since both look-back blocks), v2's partial
//	                      withdrawal and d1's partial undelegation take effect (pending withdraw records).
const nVals = 7

// The vote-type numbers are the PROTOCOL's (consensus/ucon/types.go VoteType: what a voter puts into an evidence, voter.go:645),
// not the staking package's private copy of them.
var kindNo = map[string]uint8{"prevote": uint8(ucon.Prevote), "precommit": uint8(ucon.Precommit), "nextindex": uint8(ucon.NextIndex),
	"certificate": uint8(ucon.Certificate)}
var hashes = map[string]common.Hash{"A": {0xaa, 1}, "B": {0xbb, 2}, "C": {0xcc, 3}, "E": {}}

type world struct {
	*chainfx.World
	dlg      []*fixture.Key // 1-based delegators
	stranger *fixture.Key
	sigs     map[string][]byte
	names    map[common.Address]int // validator main address -> 1..nVals ; delegator -> 1..2 (separate map below)
	dnames   map[common.Address]int
}

func newWorld() (*world, error) {
	dlg := fixture.Keys("dlg", 2)
	alloc := core.GenesisAlloc{dlg[1].Addr: {Balance: big.NewInt(1000000)}, dlg[2].Addr: {Balance: big.NewInt(1000000)}}
	cw, err := chainfx.NewWorld(chainfx.Opts{Alloc: alloc, TwoNodes: true, NVals: nVals, ValTokens: []int64{1230, 1000, 300, 2000, 600, 0, 400},
		NotInGenesis: map[int]bool{6: true}})
	if err != nil {
		return nil, err
	}
	w := &world{World: cw, dlg: dlg, stranger: fixture.Keys("stranger", 1)[1], sigs: map[string][]byte{}, names: map[common.Address]int{}, dnames: map[common.Address]int{}}
	for i := 1; i <= nVals; i++ {
		w.names[w.Vals[i].Addr] = i
	}
	w.dnames[dlg[1].Addr], w.dnames[dlg[2].Addr] = 1, 2
	v2, v5, v6, v7 := w.Vals[2], w.Vals[5], w.Vals[6], w.Vals[7]
	cb := w.Vals[4].Addr
	type mk func() (*types.Transaction, error)
	blocks := map[int][]mk{
		1: {func() (*types.Transaction, error) {
			return w.StakingTx(v2, 0, staking.ValidatorUpdate, &staking.TxUpdateValidator{MainAddress: v2.Addr, AcceptDelegation: params.AcceptDelegation,
				CommissionRate: 1000, RiskObligation: 2000}, 300000)
		}, func() (*types.Transaction, error) {
			// v1 accepts delegations too: delegator d1 delegates to TWO validators (v2 and v1)
			return w.StakingTx(w.Vals[1], 0, staking.ValidatorUpdate, &staking.TxUpdateValidator{MainAddress: w.Vals[1].Addr, AcceptDelegation: params.AcceptDelegation,
				CommissionRate: 0xffff, RiskObligation: 0xffff}, 300000)
		}},
		5: {func() (*types.Transaction, error) {
			return w.StakingTx(dlg[1], 0, staking.DelegationAdd, &staking.TxDelegation{Validator: v2.Addr, Value: big.NewInt(250)}, 300000)
		}, func() (*types.Transaction, error) {
			return w.StakingTx(dlg[1], 1, staking.DelegationAdd, &staking.TxDelegation{Validator: w.Vals[1].Addr, Value: big.NewInt(100)}, 300000)
		}, func() (*types.Transaction, error) {
			return w.StakingTx(dlg[2], 0, staking.DelegationAdd, &staking.TxDelegation{Validator: v2.Addr, Value: big.NewInt(130)}, 300000)
		}, func() (*types.Transaction, error) {
			return w.StakingTx(v6, 0, staking.ValidatorCreate, &staking.TxCreateValidator{Name: "v6", OperatorAddress: v6.Addr, Coinbase: v6.Addr,
				MainPubKey: v6.PubComp, BlsPubKey: v6.BlsPkB, Value: big.NewInt(1500), Role: chainfx.RoleOf(6)}, 1500000)
		}, func() (*types.Transaction, error) {
			return w.StakingTx(v7, 0, staking.ValidatorWithDraw, &staking.TxValidatorWithdraw{MainAddress: v7.Addr, Recipient: v7.Addr, Value: big.NewInt(400)}, 300000)
		}},
		9: {func() (*types.Transaction, error) {
			// d1's pending withdrawal from v1 enters the queue BEFORE its pending withdrawal from v2
			return w.StakingTx(dlg[1], 2, staking.DelegationSub, &staking.TxDelegation{Validator: w.Vals[1].Addr, Value: big.NewInt(40)}, 300000)
		}, func() (*types.Transaction, error) {
			return w.StakingTx(dlg[1], 3, staking.DelegationSub, &staking.TxDelegation{Validator: v2.Addr, Value: big.NewInt(100)}, 300000)
		}, func() (*types.Transaction, error) {
			return w.StakingTx(v2, 1, staking.ValidatorWithDraw, &staking.TxValidatorWithdraw{MainAddress: v2.Addr, Recipient: v2.Addr, Value: big.NewInt(230)}, 300000)
		}, func() (*types.Transaction, error) {
			return w.StakingTx(v5, 0, staking.ValidatorWithDraw, &staking.TxValidatorWithdraw{MainAddress: v5.Addr, Recipient: v5.Addr, Value: big.NewInt(600)}, 300000)
		}},
	}
	for n := 1; n <= 13; n++ {
		var txs []*types.Transaction
		for _, f := range blocks[n] {
			tx, err := f()
			if err != nil {
				return nil, err
			}
			txs = append(txs, tx)
		}
		if _, err := w.Block(cb, txs...); err != nil {
			return nil, err
		}
	}
	st, err := w.A.BC.State()
	if err != nil {
		return nil, err
	}
	p := w.proj(st)
	// what the cases rely on: delegations and pending withdraw records of v2, v6 exists, v5 and v7 are gone, and the signer
	// indexes differ between the two look-back sets of round 13
	if len(p.Vals[1].Dl) != 2 || !p.Vals[5].Exists || p.Vals[4].Exists || p.Vals[6].Exists {
		return nil, fmt.Errorf("fixture: base chain state is not the expected one: %+v", p)
	}
	cert, stake, err := w.lookBackSets(w.A.BC, 13)
	if err != nil {
		return nil, err
	}
	differ := 0
	for i := 1; i <= nVals; i++ {
		ci, cok := cert.GetIndex(w.Vals[i].Addr)
		si, sok := stake.GetIndex(w.Vals[i].Addr)
		if cok != sok || ci != si {
			differ++
		}
	}
	if _, ok := cert.GetIndex(v6.Addr); ok || differ < 4 {
		return nil, fmt.Errorf("fixture: the look-back sets of round 13 do not differ as intended (%d differences)", differ)
	}
	if _, ok := stake.GetIndex(v7.Addr); ok {
		return nil, fmt.Errorf("fixture: v7 is still in the stake look-back set")
	}
	return w, nil
}

// lookBackSets returns the certificate look-back set and the stake look-back set of a round.
func (w *world) lookBackSets(bc *core.BlockChain, round uint64) (cert, stake *state.Validators, err error) {
	cr, err := bc.LookBackVldReaderForRound(round, true)
	if err != nil {
		return nil, nil, err
	}
	sr, err := bc.LookBackVldReaderForRound(round, false)
	if err != nil {
		return nil, nil, err
	}
	return cr.GetValidators(), sr.GetValidators(), nil
}

// ---------------------------------------------------------------------------------------------------- projection

type valProj struct {
	Token     int64     `json:"token"`
	Stake     int64     `json:"stake"`
	SelfToken int64     `json:"selfToken"`
	SelfStake int64     `json:"selfStake"`
	Status    int       `json:"status"`
	Expelled  bool      `json:"expelled"`
	ExpelExp  uint64    `json:"expelExp"`
	Ro        int       `json:"ro"`
	Exists    bool      `json:"exists"`
	Dl        [][]int64 `json:"dl"` // [delegator, token, stake]
}

type proj struct {
	Vals []valProj `json:"vals"`
	Wq   [][]int64 `json:"wq"` // [validator, delegator (0 = the validator itself), finalBalance, finished, initialBalance, completionHeight]
	Pen  int64     `json:"pen"`
}

func (w *world) proj(st *state.StateDB) proj {
	var p proj
	for i := 1; i <= nVals; i++ {
		v := st.GetValidatorByMainAddr(w.Vals[i].Addr)
		vp := valProj{Dl: [][]int64{}}
		if v != nil {
			vp = valProj{Token: fixture.I(v.Token), Stake: fixture.I(v.Stake), SelfToken: fixture.I(v.SelfToken), SelfStake: fixture.I(v.SelfStake),
				Status: int(v.Status), Expelled: v.Expelled, ExpelExp: v.ExpelExpired, Ro: int(v.RiskObligation), Exists: true, Dl: [][]int64{}}
			for _, d := range v.Delegations {
				vp.Dl = append(vp.Dl, []int64{int64(w.dnames[d.Delegator]), fixture.I(d.Token), fixture.I(d.Stake)})
			}
		}
		p.Vals = append(p.Vals, vp)
	}
	p.Wq = [][]int64{}
	for _, r := range st.GetWithdrawQueue().Records {
		p.Wq = append(p.Wq, []int64{int64(w.names[r.Validator]), int64(w.dnames[r.Delegator]), fixture.I(r.FinalBalance), int64(r.Finished), fixture.I(r.InitialBalance), int64(r.CompletionHeight)})
	}
	p.Pen = fixture.I(st.GetBalance(w.YP.PenaltyTo))
	return p
}

// ---------------------------------------------------------------------------------------------------- evidences

func payload(h common.Hash, round uint64, ri uint32) []byte {
	buf := make([]byte, 4)
	binary.BigEndian.PutUint32(buf, ri)
	return append(h.Bytes(), append(new(big.Int).SetUint64(round).Bytes(), buf...)...)
}

// kindBound (option kindbound=1) is used only to try out the proposed repair of the C05 finding: votes are then signed over
// hash || round || index || kind, as a repaired voter would do.  Default: what consensus/ucon/voter.go signVote signs today.
var kindBound bool

func (w *world) sign(k *fixture.Key, tag string, h common.Hash, round uint64, ri uint32, kind uint8) []byte {
	id := fmt.Sprintf("%s/%x/%d/%d", tag, h, round, ri)
	pl := payload(h, round, ri)
	if kindBound {
		id += fmt.Sprint("/", kind)
		pl = append(pl, kind)
	}
	if s, ok := w.sigs[id]; ok {
		return s
	}
	s := k.BlsSk.Sign(pl).Compress().Bytes()
	w.sigs[id] = s
	return s
}

func (w *world) evidence(c *Case, parent0 uint64, cur *state.Validators, bc *core.BlockChain) (staking.Evidence, error) {
	c.Round = uint64(int64(parent0) + int64(c.Roff))
	// The signer index refers to the look-back validator set the PROTOCOL prescribes for the vote kind: certificate votes are
	// cast by the certificate committee, drawn from the certificate look-back set; every other vote from the stake look-back
	// set.  Both are ordered by stake at their height.  (For a round whose look-back blocks do not exist yet the current set
	// stands in.)
	pres, other := cur, cur
	if cert, stake, err := w.lookBackSets(bc, c.Round); err == nil {
		pres, other = stake, cert
		if c.Kind == "certificate" {
			pres, other = cert, stake
		}
	}
	key := w.Vals[c.Signer]
	oor := uint32(pres.Len() + other.Len() + 3)
	switch c.Idx {
	case "right":
		// the signer's index in the prescribed set (none: the signer was no member, it cannot have cast such a vote)
		if i, ok := pres.GetIndex(key.Addr); ok {
			c.SignerIdx = uint32(i)
		} else {
			c.SignerIdx = oor
		}
	case "wrongset":
		// the signer's index in the OTHER look-back set
		if i, ok := other.GetIndex(key.Addr); ok {
			c.SignerIdx = uint32(i)
		} else {
			c.SignerIdx = oor
		}
	case "wrong":
		// the index of another validator
		o := w.Vals[c.Signer%4+1]
		if i, ok := pres.GetIndex(o.Addr); ok {
			c.SignerIdx = uint32(i)
		} else {
			c.SignerIdx = oor
		}
	case "oor":
		c.SignerIdx = oor
	default:
		return staking.Evidence{}, fmt.Errorf("unknown idx class %q", c.Idx)
	}
	// whom the index names in the prescribed set
	c.Target = 0
	if v, ok := pres.GetByIndex(int(c.SignerIdx)); ok {
		c.Target = w.names[v.MainAddress()]
	}
	kind, ok := kindNo[c.Kind]
	if !ok {
		return staking.Evidence{}, fmt.Errorf("unknown kind %q", c.Kind)
	}
	ri := uint32(c.Ri)
	d := staking.EvidenceDoubleSignV5{Round: c.Round, RoundIndex: ri, SignerIdx: c.SignerIdx, VoteType: kind}
	for _, p := range c.Pairs {
		h, ok := hashes[p.H]
		if !ok {
			return staking.Evidence{}, fmt.Errorf("unknown hash %q", p.H)
		}
		var sig []byte
		switch p.Src {
		case "prevote", "precommit", "nextindex", "certificate":
			// what the signer's voter produced for a vote of this kind: the kind is not part of the signed payload
			sig = w.sign(key, fmt.Sprint("v", c.Signer), h, c.Round, ri, kindNo[p.Src])
		case "reuseA", "reuseB":
			// the bytes of the signer's genuine signature over hash A (B) of this round and index, whatever hash the pair names
			sig = w.sign(key, fmt.Sprint("v", c.Signer), hashes[p.Src[5:]], c.Round, ri, kind)
		case "forged":
			sig = w.sign(key, fmt.Sprint("v", c.Signer), hashes["C"], c.Round, ri, kind)
		case "otherindex":
			// the signer's (legitimate) vote for h at the next index of the same round
			sig = w.sign(key, fmt.Sprint("v", c.Signer), h, c.Round, ri+1, kind)
		case "otherround":
			sig = w.sign(key, fmt.Sprint("v", c.Signer), h, c.Round+1, ri, kind)
		case "otherkey":
			sig = w.sign(w.stranger, "stranger", h, c.Round, ri, kind)
		case "garbage":
			sig = make([]byte, 48)
			for i := range sig {
				sig[i] = byte(7*i + 1)
			}
		default:
			return staking.Evidence{}, fmt.Errorf("unknown pair source %q", p.Src)
		}
		d.Signs = append(d.Signs, &staking.SignInfo{Hash: h, Sign: sig})
	}
	return staking.NewEvidence(d), nil
}

type slashLog struct {
	Val   int   `json:"val"`
	Total int64 `json:"total"`
	NW    int   `json:"nw"`
	ND    int   `json:"nd"`
}

func (w *world) slashLogs(rcs []*types.Receipt) []slashLog {
	out := []slashLog{}
	topic := common.StringToHash(staking.LogTopicSlashing)
	for _, r := range rcs {
		if r == nil {
			continue
		}
		for _, l := range r.Logs {
			if len(l.Topics) == 0 || l.Topics[0] != topic {
				continue
			}
			var d staking.SlashDataV5
			if err := rlp.DecodeBytes(l.Data, &d); err != nil {
				out = append(out, slashLog{Val: -1})
				continue
			}
			out = append(out, slashLog{Val: w.names[d.MainAddress], Total: fixture.I(d.Total), NW: len(d.FromWithdraw), ND: len(d.FromDeposit)})
		}
	}
	return out
}

var prof = map[string]time.Duration{}

func lap(name string, t *time.Time) {
	now := time.Now()
	prof[name] += now.Sub(*t)
	*t = now
}

func (w *world) behaviour(env *drive.Env, b *Beh) error {
	t0 := time.Now()
	defer func() { prof["total"] += time.Since(t0) }()
	tl := time.Now()
	if b.Frac == 0 {
		b.Frac = 2
	}
	o := w.Opts
	o.PenaltyFraction = b.Frac
	chainfx.Scale(o)
	A, err := w.A.Clone()
	if err != nil {
		return err
	}
	defer A.BC.Stop()
	B, err := w.B.Clone()
	if err != nil {
		return err
	}
	defer B.BC.Stop()
	lap("clone", &tl)
	parent0 := A.BC.CurrentBlock().NumberU64()
	cb := w.Vals[4].Addr
	all := []Case{}
	for k := range b.Blocks {
		ev := map[string]interface{}{"ev": "Block", "k": k, "frac": b.Frac}
		var stop bool
		func() {
			defer func() {
				if r := recover(); r != nil {
					ev["panic"] = fmt.Sprint(r)
					stop = true
				}
			}()
			parent := A.BC.CurrentBlock()
			ev["parent"] = parent.NumberU64()
			stA, err := A.BC.State()
			if err != nil {
				panic(err)
			}
			vs := stA.GetValidators()
			for i := range b.Blocks[k] {
				c := &b.Blocks[k][i]
				e, err := w.evidence(c, parent0, vs, A.BC)
				if err != nil {
					panic(err)
				}
				A.St.VerifAddEvidence(e)
			}
			all = append(all, b.Blocks[k]...)
			list := A.St.VerifEvidences()
			if b.Blocks[k] == nil {
				b.Blocks[k] = []Case{}
			}
			ev["new"] = b.Blocks[k]
			ev["all"] = append([]Case{}, all...)
			ev["nlist"] = len(list)
			ev["pre"] = w.proj(stA)

			lap("prepare", &tl)
			// ---- seal: the builder
			p, err := w.Begin(A, cb)
			if err != nil {
				panic(err)
			}
			res, _, _ := A.BC.Processor().EndBlock(A.BC, p.Hdr, p.Txs, p.State, true, local.FakeRecorder())
			var rc []*types.Receipt
			for _, r := range res {
				if r != nil {
					rc = append(rc, r)
				}
			}
			blk, err := A.BC.Engine().FinalizeAndAssemble(A.BC, p.Hdr, p.State, p.Txs, rc)
			if err != nil {
				panic(err)
			}
			if err := A.BC.WriteBlockWithState(blk, p.State, rc); err != nil {
				panic(err)
			}
			stA2, err := A.BC.State()
			if err != nil {
				panic(err)
			}
			ev["seal"] = w.proj(stA2)
			ev["sealLogs"] = w.slashLogs(rc)
			var confirmed []staking.Evidence
			if len(blk.Header().SlashData) > 0 {
				if err := rlp.DecodeBytes(blk.Header().SlashData, &confirmed); err != nil {
					panic(err)
				}
			}
			ev["confirmed"] = len(confirmed)
			ev["pending"] = len(A.St.VerifEvidences())

			lap("seal", &tl)
			// ---- raw: a validator replays the unfiltered list from header.SlashData
			hdr := types.CopyHeader(blk.Header())
			hdr.SlashData = nil
			if len(list) > 0 {
				sd, err := rlp.EncodeToBytes(list)
				if err != nil {
					panic(err)
				}
				hdr.SlashData = sd
			}
			bparent := B.BC.CurrentBlock()
			yp, err := B.BC.VersionForRound(hdr.Number.Uint64())
			if err != nil {
				panic(err)
			}
			sroot := core.StakingRootForNewBlock(yp.StakingTrieFrequency, bparent.Header())
			sdb, err := B.BC.StateAt(bparent.Root(), bparent.ValRoot(), sroot)
			if err != nil {
				panic(err)
			}
			pr, perr := B.BC.Processor().Process(yp, types.NewBlockWithHeader(hdr), sdb, vm.LocalConfig{}, local.FakeRecorder())
			if perr != nil {
				ev["rawErr"] = perr.Error()
			} else {
				ev["rawLogs"] = w.slashLogs(pr.Recs)
			}
			ev["raw"] = w.proj(sdb)

			lap("raw", &tl)
			// ---- imp: full import of the block A built
			ev["impErr"] = ""
			if err := B.BC.InsertChain(types.Blocks{blk}); err != nil {
				ev["impErr"] = err.Error()
				stop = true
			}
			stB, err := B.BC.State()
			if err != nil {
				panic(err)
			}
			ev["imp"] = w.proj(stB)
			ev["impHead"] = B.BC.CurrentBlock().NumberU64()
			lap("imp", &tl)
		}()
		env.Emit(ev)
		if stop {
			break
		}
	}
	return nil
}

func run(env *drive.Env) error {
	w, err := newWorld()
	if err != nil {
		return err
	}
	// shard=i/n: this process executes the behaviours whose index is i modulo n (the orchestrator merges the traces)
	kindBound = env.Opt("kindbound", "") == "1"
	si, sn := 0, 1
	fmt.Sscanf(env.Opt("shard", "0/1"), "%d/%d", &si, &sn)
	if sn < 1 {
		sn = 1
	}
	var b Beh
	for env.Next(&b) {
		if env.T%sn != si {
			b = Beh{}
			continue
		}
		if err := w.behaviour(env, &b); err != nil {
			return err
		}
		b = Beh{}
	}
	if env.Opt("prof", "") != "" {
		fmt.Fprintln(os.Stderr, "profile:", prof)
	}
	return nil
}
