package dlqueue

// The "dlcomp" driver steps behaviours of spec/DlComp.tla through the real download queue in full, fast and light mode:
// real headers with transactions and receipts (TxHash / ReceiptHash are types.DeriveSha of the real lists), Schedule or
// ScheduleSingle, ReserveBodies / ReserveReceipts, DeliverBodies / DeliverReceipts with the true lists, Results(false).
// Every result handed out is described by what the importer would check: do the transactions match TxHash, do the
// receipts match ReceiptHash.

import (
	"fmt"
	"math/big"

	"github.com/youchainhq/go-youchain/common"
	"github.com/youchainhq/go-youchain/core/types"
	"github.com/youchainhq/go-youchain/you/downloader"
	"verif/harness/drive"
)

func init() { drive.Register("dlcomp", runComp) }

// COp is one action of DlComp.
type COp struct {
	Op   string `json:"op"`
	N    int    `json:"n,omitempty"`
	Mode string `json:"mode,omitempty"`
	Kind string `json:"kind,omitempty"`
	H    int    `json:"h,omitempty"`
}

func compReceipts(id int) []*types.Receipt {
	return []*types.Receipt{types.NewReceipt([]byte{byte(id)}, false, uint64(21000*id))}
}

func runComp(env *drive.Env) error {
	var beh []COp
	for env.Next(&beh) {
		if len(beh) == 0 || beh[0].Op != "Init" {
			return fmt.Errorf("behaviour %d does not start with Init", env.T)
		}
		n, mode := beh[0].N, beh[0].Mode
		origin := uint64(7 + env.Seed%5)
		parent := (&types.Header{Number: new(big.Int).SetUint64(origin), Extra: []byte("verif-origin")}).Hash()
		headers := []*types.Header{}
		ids := map[common.Hash]int{}
		for k := 1; k <= n; k++ {
			h := &types.Header{ParentHash: parent, Number: new(big.Int).SetUint64(origin + uint64(k)), GasLimit: 8000000,
				Subsidy: big.NewInt(0), GasRewards: big.NewInt(0), Time: uint64(1000 + k), Extra: []byte(fmt.Sprintf("verif-comp-%d", k)),
				TxHash: types.DeriveSha(types.Transactions(txs(k))), ReceiptHash: types.DeriveSha(types.Receipts(compReceipts(k)))}
			headers = append(headers, h)
			parent = h.Hash()
			ids[parent] = k
		}
		q := downloader.NewVerifQueue(origin, 8, 0)
		q.SetMode(origin, mode)
		env.Emit(map[string]interface{}{"ev": "Init", "args": map[string]interface{}{"n": n, "mode": mode}})
		withReceipts := mode != "full"
		inflight := map[string][]int{}
		for i := 1; i < len(beh); i++ {
			op := &beh[i]
			res := map[string]interface{}{}
			func() {
				defer func() {
					if r := recover(); r != nil {
						res["panic"] = fmt.Sprint(r)
					}
				}()
				switch op.Op {
				case "Schedule":
					res["ins"] = len(q.Schedule(headers, origin+1))
				case "ScheduleSingle":
					res["ok"] = q.ScheduleSingle(headers[op.H-1])
					withReceipts = true
				case "Reserve":
					var hs []common.Hash
					var err error
					if op.Kind == "body" {
						hs, _, err = q.ReserveBodies("pb", 100)
					} else {
						hs, _, err = q.ReserveReceipts("pr", 100)
					}
					got := []int{}
					for _, h := range hs {
						got = append(got, ids[h])
					}
					inflight[op.Kind] = got
					res["h"], res["err"] = got, downloader.VerifErrClass(err)
				case "Deliver":
					if op.Kind == "body" {
						lists := [][]*types.Transaction{}
						for _, id := range inflight["body"] {
							lists = append(lists, txs(id))
						}
						acc, err := q.DeliverBodies("pb", lists)
						res["acc"], res["err"] = acc, downloader.VerifErrClass(err)
					} else {
						lists := [][]*types.Receipt{}
						for _, id := range inflight["receipts"] {
							lists = append(lists, compReceipts(id))
						}
						acc, err := q.DeliverReceipts("pr", lists)
						res["acc"], res["err"] = acc, downloader.VerifErrClass(err)
					}
					inflight[op.Kind] = nil
				case "Results":
					out := [][]interface{}{}
					for _, r := range q.ResultsWithReceipts() {
						num := int(r.Header.Number.Int64() - int64(origin))
						txok := types.DeriveSha(r.Transactions) == r.Header.TxHash
						rcok := types.DeriveSha(r.Receipts) == r.Header.ReceiptHash
						out = append(out, []interface{}{num, txok, rcok, withReceipts})
					}
					res["r"] = out
				default:
					panic("unknown op " + op.Op)
				}
			}()
			ev := map[string]interface{}{"ev": op.Op, "args": op, "res": res, "mode": mode}
			if res["panic"] != nil {
				ev["panic"] = res["panic"]
			}
			env.Emit(ev)
		}
		beh = nil
	}
	return nil
}
