package dlqueue

// The "dlloop" driver runs the real body-fetching loop of the downloader (Downloader.fetchBodies -> fetchParts) of a
// partially constructed Downloader (real queue, real peer set and peer connections) against scripted remote peers, with a
// consumer that takes results the way processFullSyncContent does.  The loop's schedule depends on goroutines and a 100 ms
// ticker and is not controlled; what is recorded is order-robust: the batches the consumer received, in order, and how the
// loop ended.  A scenario is one JSON object: chain (as for dlqueue), window, batch limit, one script per peer, chunk sizes.
//
// Scripts: "honest" answers every request completely; "stall" never answers (its requests time out after three round trip
// estimates and the loop drops it); "empty" answers with no bodies; "liar" answers with bodies that match nothing;
// "partial" answers with the first body only; "slowbig" is honest but slow once: it lets the first request of
// more than two items time out (such a time-out does not get the peer dropped: the loop marks it idle again through the real
// peerConnection.SetBodiesIdle with zero delivered items) and answers everything else completely.

import (
	"bufio"
	"encoding/json"
	"fmt"
	"math/big"
	"os"
	"sort"
	"strings"
	"sync"
	"time"

	"github.com/youchainhq/go-youchain/common"
	"github.com/youchainhq/go-youchain/core/types"
	"github.com/youchainhq/go-youchain/logging"
	"github.com/youchainhq/go-youchain/you/downloader"
	"verif/harness/drive"
)

func init() { drive.Register("dlloop", runLoop) }

// Scenario is one run of the loop.
type Scenario struct {
	N       int               `json:"n"`
	Body    []int             `json:"body"`
	W       int               `json:"w"`
	MaxP    int               `json:"maxp"`
	Scripts map[string]string `json:"scripts"`
	Chunks  []int             `json:"chunks"`
}

const (
	loopRTT   = 15 * time.Millisecond
	loopBound = 12 * time.Second // bounded wait for the loop to return
)

type fakePeer struct {
	id      string
	script  string
	w       *world
	l       *downloader.VerifLoop
	mu      sync.Mutex
	reqs    int
	stalled bool
}

func (p *fakePeer) Head() (common.Hash, *big.Int) { return common.Hash{}, big.NewInt(0) }
func (p *fakePeer) Origin() *big.Int              { return big.NewInt(0) }
func (p *fakePeer) RequestHeadersByHash(common.Hash, int, int, bool, bool) error {
	return nil
}
func (p *fakePeer) RequestHeadersByNumber(uint64, int, int, bool, bool) error { return nil }
func (p *fakePeer) RequestReceipts([]common.Hash) error                       { return nil }
func (p *fakePeer) RequestNodeData(types.TrieKind, []common.Hash) error       { return nil }

// RequestBodies is called by peerConnection.FetchBodies on a goroutine of its own.
func (p *fakePeer) RequestBodies(hashes []common.Hash) error {
	p.mu.Lock()
	p.reqs++
	p.mu.Unlock()
	ids := p.w.ids(hashes, false)
	var lists [][]*types.Transaction
	switch p.script {
	case "honest":
		lists = p.w.lists(ids)
	case "slowbig":
		p.mu.Lock()
		stall := !p.stalled && len(hashes) > 2
		if stall {
			p.stalled = true
		}
		p.mu.Unlock()
		if stall {
			return nil
		}
		lists = p.w.lists(ids)
	case "stall":
		return nil
	case "empty":
		lists = [][]*types.Transaction{}
	case "liar":
		zero := make([]int, len(ids))
		lists = p.w.lists(zero)
	case "partial":
		lists = p.w.lists(ids[:1])
	}
	p.l.DeliverBodies(p.id, lists)
	return nil
}

type loopEvent = map[string]interface{}

func runScenario(sc *Scenario, seed int64) (evs []loopEvent) {
	defer func() {
		if r := recover(); r != nil {
			evs = append(evs, loopEvent{"ev": "Panic", "panic": fmt.Sprint(r)})
		}
	}()
	op := &Op{Op: "Init", N: sc.N, Body: sc.Body, W: sc.W, MaxP: sc.MaxP, MaxC: 2}
	w := newWorld(op, seed)
	l := downloader.NewVerifLoop(w.origin, sc.W, sc.MaxP, loopRTT)
	w.q = &l.VerifQueue
	ids := []string{}
	honestThere := false
	for id, s := range sc.Scripts {
		ids = append(ids, id)
		if s == "honest" || s == "slowbig" {
			honestThere = true
		}
	}
	sort.Strings(ids)
	evs = append(evs, loopEvent{"ev": "Init", "args": loopEvent{"memcap": 0, "n": w.n, "fl": 0, "forkfrom": 1, "body": w.body, "w": w.w, "peers": ids,
		"origin": w.origin, "maxp": w.effMaxP(), "scripts": sc.Scripts, "loop": true}})
	fakes := []*fakePeer{}
	for _, id := range ids {
		fp := &fakePeer{id: id, script: sc.Scripts[id], w: w, l: l}
		fakes = append(fakes, fp)
		if err := l.RegisterPeer(id, fp, loopRTT); err != nil {
			panic(err)
		}
	}
	// the consumer (processFullSyncContent)
	var cmu sync.Mutex
	var batches [][][]interface{}
	got := 0
	cdone := make(chan struct{})
	go func() {
		defer close(cdone)
		for {
			rs := l.ResultsBlocking()
			if len(rs) == 0 {
				return
			}
			b := [][]interface{}{}
			for _, r := range rs {
				num := int(r.Header.Number.Int64() - int64(w.origin))
				rootok := types.DeriveSha(r.Transactions) == r.Header.TxHash
				id := w.hashes[r.Header.Hash()]
				link := r.Header.ParentHash == w.last
				w.last = r.Header.Hash()
				b = append(b, []interface{}{num, w.bodyID(r.Transactions), rootok, id > 0, id, link})
			}
			cmu.Lock()
			batches = append(batches, b)
			got += len(b)
			cmu.Unlock()
		}
	}()
	// the loop
	ldone := make(chan string, 1)
	go func() { ldone <- l.FetchBodies() }()
	// the header processor: schedule chunk by chunk, wake the loop, finally signal the end of the header stream
	next := 1
	for _, k := range sc.Chunks {
		if next > w.n {
			break
		}
		if next+k-1 > w.n {
			k = w.n - next + 1
		}
		chunk := []int{}
		for id := next; id < next+k; id++ {
			chunk = append(chunk, id)
		}
		ins, acc := w.schedule(chunk, next)
		evs = append(evs, loopEvent{"ev": "Schedule", "args": loopEvent{"v": "ok", "chunk": chunk, "from": next}, "res": loopEvent{"ins": ins, "acc": acc}})
		next += k
		l.Wake(true)
	}
	if next <= w.n {
		chunk := []int{}
		for id := next; id <= w.n; id++ {
			chunk = append(chunk, id)
		}
		ins, acc := w.schedule(chunk, next)
		evs = append(evs, loopEvent{"ev": "Schedule", "args": loopEvent{"v": "ok", "chunk": chunk, "from": next}, "res": loopEvent{"ins": ins, "acc": acc}})
		l.Wake(true)
	}
	l.Wake(false)
	var end string
	select {
	case end = <-ldone:
	case <-time.After(loopBound):
		// The loop is still running long after any scenario needs (they end within a second): a verdict, not a timeout.
		// Name the situation if it is the known one: an honest peer that holds no request but whose activity flag is set.
		end = "hang"
		pools := l.Pools()
		for _, id := range ids {
			if s := sc.Scripts[id]; s == "honest" || s == "slowbig" {
				busy, reg := l.PeerBusy(id)
				if reg && busy && len(pools.Pend[id]) == 0 {
					end = "peer_never_idle_again"
				}
			}
		}
		l.Close()
		<-ldone
	}
	if end == "nil" {
		// the loop finished: everything it completed is (being) handed to the consumer
		for i := 0; i < 20000; i++ {
			cmu.Lock()
			n := got
			cmu.Unlock()
			if n >= w.n {
				break
			}
			time.Sleep(250 * time.Microsecond) // polling interval only
		}
	}
	l.Close()
	<-cdone
	for _, b := range batches {
		evs = append(evs, loopEvent{"ev": "LoopResults", "args": loopEvent{}, "res": loopEvent{"r": b}})
	}
	stalls := 0
	for _, fp := range fakes {
		fp.mu.Lock()
		if fp.stalled {
			stalls++
		}
		fp.mu.Unlock()
	}
	evs = append(evs, loopEvent{"ev": "LoopEnd", "args": loopEvent{"honest": honestThere}, "res": loopEvent{"err": end, "nd": got, "dropped": l.Dropped(),
		"stalls": stalls}})
	return evs
}

func runLoop(env *drive.Env) error {
	logging.Verbosity(logging.LvlCrit)
	path := env.Opt("beh", "")
	if path == "" {
		return fmt.Errorf("dlloop driver needs beh=<scenario file>")
	}
	fh, err := os.Open(path)
	if err != nil {
		return err
	}
	defer fh.Close()
	var scs []*Scenario
	in := bufio.NewScanner(fh)
	in.Buffer(make([]byte, 1<<20), 1<<26)
	for in.Scan() {
		if len(strings.TrimSpace(in.Text())) == 0 {
			continue
		}
		sc := &Scenario{}
		if err := json.Unmarshal(in.Bytes(), sc); err != nil {
			return err
		}
		scs = append(scs, sc)
	}
	results := make([][]loopEvent, len(scs))
	// window and batch limit are package variables of the downloader: scenarios that share them run concurrently
	type key struct{ w, p int }
	groups := map[key][]int{}
	var order []key
	for i, sc := range scs {
		k := key{sc.W, sc.MaxP}
		if _, ok := groups[k]; !ok {
			order = append(order, k)
		}
		groups[k] = append(groups[k], i)
	}
	par := env.OptInt("par", 16)
	for _, k := range order {
		var wg sync.WaitGroup
		sem := make(chan struct{}, par)
		for _, i := range groups[k] {
			wg.Add(1)
			sem <- struct{}{}
			go func(i int) {
				defer wg.Done()
				defer func() { <-sem }()
				results[i] = runScenario(scs[i], env.Seed)
			}(i)
		}
		wg.Wait()
	}
	for i, evs := range results {
		env.Begin(i)
		for _, e := range evs {
			env.Emit(e)
		}
	}
	return nil
}
