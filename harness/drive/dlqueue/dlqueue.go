// Package dlqueue drives behaviours of spec/DlQueue.tla through the real you/downloader queue (C18).
//
// A behaviour is a list of operations; the first one ("Init") carries the chain description (number of headers,
// body id per header, window size, peers).  The driver builds real headers (numbers origin+1.., linked by parent
// hash, TxHash = types.DeriveSha of the real transaction list, the empty root for body id 0), maps every abstract
// action onto the real method of the queue, and after every action records the pools read under the queue lock.
// After the behaviour it runs the completion loop of the bounded-liveness clause: outstanding requests time out and
// one honest peer that was never marked as lacking anything keeps reserving and delivering completely.
package dlqueue

import (
	"fmt"
	"math/big"
	"runtime/debug"
	"sort"

	"github.com/youchainhq/go-youchain/common"
	"github.com/youchainhq/go-youchain/core/types"
	"github.com/youchainhq/go-youchain/you/downloader"
	"verif/harness/drive"
)

func init() { drive.Register("dlqueue", run) }

// Op is one abstract action.
type Op struct {
	Op    string   `json:"op"`
	N     int      `json:"n,omitempty"`
	Body  []int    `json:"body,omitempty"`
	W     int      `json:"w,omitempty"`
	Peers []string `json:"peers,omitempty"`
	MaxC  int      `json:"maxc,omitempty"`
	MaxP  int      `json:"maxp,omitempty"`
	K     int      `json:"k,omitempty"`
	P     string   `json:"p,omitempty"`
	V     string   `json:"v,omitempty"`
	Items []int    `json:"items"`
}

const honestPeer = "hp"

type world struct {
	origin  uint64
	n, w    int
	maxc    int
	maxp    int   // maxResultsProcess for this queue (0 = the package default)
	body    []int // body id of header k (index k-1)
	peers   []string
	headers []*types.Header // index k-1
	hashes  map[common.Hash]int
	hlist   []common.Hash
	q       *downloader.VerifQueue
	sched   int
	nd      int // results handed out so far
}

// txs returns the transaction list of body id b (b >= 1), or of the "matches nothing" body for b = 0.
func txs(b int) []*types.Transaction {
	if b == 0 {
		b = 99
	}
	if t, ok := txCache[b]; ok {
		return t
	}
	t := mkTxs(b)
	txCache[b] = t
	return t
}

var (
	txCache    = map[int][]*types.Transaction{}
	chainCache = map[string][]*types.Header{}
	hashCache  = map[string][]common.Hash{}
)

func mkTxs(b int) []*types.Transaction {
	n := 1 + b%3
	out := make([]*types.Transaction, 0, n)
	for i := 0; i < n; i++ {
		to := common.BigToAddress(big.NewInt(int64(1000 + b)))
		out = append(out, types.NewTransaction(uint64(i), to, big.NewInt(int64(b*100+i)), 21000, big.NewInt(1), nil))
	}
	return out
}

func newWorld(op *Op, seed int64) *world {
	w := &world{origin: uint64(7 + seed%5), n: op.N, w: op.W, maxc: op.MaxC, maxp: op.MaxP, body: op.Body, peers: append([]string{}, op.Peers...),
		hashes: map[common.Hash]int{}}
	sort.Strings(w.peers)
	if w.maxc == 0 {
		w.maxc = 2
	}
	key := fmt.Sprint(w.origin, w.body)
	if hs, ok := chainCache[key]; ok {
		w.headers = hs
		w.hlist = hashCache[key]
		for k, h := range w.hlist {
			w.hashes[h] = k + 1
		}
		w.q = downloader.NewVerifQueue(w.origin, w.w, w.maxp)
		return w
	}
	parent := (&types.Header{Number: new(big.Int).SetUint64(w.origin), Extra: []byte("verif-origin")}).Hash()
	for k := 1; k <= w.n; k++ {
		h := &types.Header{
			ParentHash: parent,
			Number:     new(big.Int).SetUint64(w.origin + uint64(k)),
			GasLimit:   8000000,
			Subsidy:    big.NewInt(0),
			GasRewards: big.NewInt(0),
			Time:       uint64(1000 + k),
			Extra:      []byte(fmt.Sprintf("verif-%d", k)),
		}
		if w.body[k-1] == 0 {
			h.TxHash = types.EmptyRootHash
		} else {
			h.TxHash = types.DeriveSha(types.Transactions(txs(w.body[k-1])))
		}
		h.ReceiptHash = types.EmptyRootHash
		w.headers = append(w.headers, h)
		parent = h.Hash()
		w.hashes[parent] = k
		w.hlist = append(w.hlist, parent)
	}
	chainCache[key] = w.headers
	hashCache[key] = w.hlist
	w.q = downloader.NewVerifQueue(w.origin, w.w, w.maxp)
	return w
}

func (w *world) effMaxP() int {
	if w.maxp > 0 {
		return w.maxp
	}
	return 2048
}

func (w *world) rel(nums []uint64) []int {
	out := make([]int, 0, len(nums))
	for _, x := range nums {
		out = append(out, int(int64(x)-int64(w.origin)))
	}
	return out
}

// obs is the projection of the real queue in the vocabulary of the specification (numbers relative to the origin).
func (w *world) obs() map[string]interface{} {
	p := w.q.Pools(w.headers, w.hlist)
	pd := map[string][]int{}
	for id, nums := range p.Pend {
		pd[id] = w.rel(nums)
	}
	lk := map[string][]int{}
	for id, nums := range p.Lacks {
		lk[id] = w.rel(nums)
	}
	win := p.Window
	if win == nil {
		win = []int{}
	}
	return map[string]interface{}{
		"tp": w.rel(p.TaskPool), "tq": w.rel(p.TaskQueue), "pd": pd, "dn": w.rel(p.Done), "dnc": p.DoneCount,
		"win": win, "off": int(int64(p.Offset) - int64(w.origin) - 1), "lk": lk,
	}
}

// bodyID recognises a transaction list: 0 for the empty list, the body id for a list of the chain, -7 otherwise.
func (w *world) bodyID(list types.Transactions) int {
	if len(list) == 0 {
		return 0
	}
	for b := 1; b <= 9; b++ {
		t := txs(b)
		if len(t) != len(list) {
			continue
		}
		same := true
		for i := range t {
			if t[i].Hash() != list[i].Hash() {
				same = false
				break
			}
		}
		if same {
			return b
		}
	}
	return -7
}

// results calls Results(false) and describes what was handed out: [number, body id, txroot matches, header is the chain's]
func (w *world) results() [][]interface{} {
	out := [][]interface{}{}
	for _, r := range w.q.Results() {
		num := int(r.Header.Number.Int64() - int64(w.origin))
		rootok := types.DeriveSha(r.Transactions) == r.Header.TxHash
		hdrok := num >= 1 && num <= w.n && w.hlist[num-1] == r.Header.Hash()
		out = append(out, []interface{}{num, w.bodyID(r.Transactions), rootok, hdrok})
		w.nd++
	}
	return out
}

func (w *world) lists(items []int) [][]*types.Transaction {
	out := make([][]*types.Transaction, 0, len(items))
	for _, it := range items {
		switch {
		case it >= 1 && it <= w.n:
			if b := w.body[it-1]; b == 0 {
				out = append(out, []*types.Transaction{})
			} else {
				out = append(out, txs(b))
			}
		case it == -1:
			out = append(out, []*types.Transaction{})
		default:
			out = append(out, txs(0))
		}
	}
	return out
}

func (w *world) schedule(k int) int {
	if w.sched+k > w.n {
		k = w.n - w.sched
	}
	ins := w.q.Schedule(w.headers[w.sched:w.sched+k], w.origin+uint64(w.sched)+1)
	w.sched += ins
	return ins
}

// apply performs one abstract action on the real queue and returns what the call returned.
func (w *world) apply(op *Op) (res map[string]interface{}) {
	res = map[string]interface{}{}
	defer func() {
		if r := recover(); r != nil {
			res["panic"] = fmt.Sprint(r)
		}
	}()
	switch op.Op {
	case "Schedule":
		res["ins"] = w.schedule(op.K)
	case "Reserve":
		nums, progress, err := w.q.ReserveBodies(op.P, op.N)
		res["h"], res["prog"], res["err"] = w.rel(nums), progress, downloader.VerifErrClass(err)
	case "Deliver":
		acc, err := w.q.DeliverBodies(op.P, w.lists(op.Items))
		res["acc"], res["err"] = acc, downloader.VerifErrClass(err)
	case "Cancel":
		res["called"] = w.q.CancelBodies(op.P)
	case "Expire":
		exp := w.q.ExpireBodies(op.P)
		res["exp"] = exp[op.P]
		res["nexp"] = len(exp)
	case "Revoke":
		w.q.Revoke(op.P)
	case "Results":
		res["r"] = w.results()
	default:
		panic("unknown op " + op.Op)
	}
	return res
}

// complete is the bounded-liveness loop; it returns the batches handed out and the number of rounds used.
func (w *world) complete() (batches [][][]interface{}, rounds int, perr string) {
	defer func() {
		if r := recover(); r != nil {
			perr = fmt.Sprint(r) + string(debug.Stack())
		}
	}()
	batches = [][][]interface{}{}
	if w.sched < w.n {
		w.schedule(w.n - w.sched)
	}
	limit := 4*w.n + 8
	for rounds = 0; rounds < limit && w.nd < w.n; rounds++ {
		// requests of the scripted peers time out
		for _, p := range w.peers {
			w.q.ExpireBodies(p)
		}
		nums, _, _ := w.q.ReserveBodies(honestPeer, w.maxc)
		if len(nums) > 0 {
			items := w.rel(nums)
			w.q.DeliverBodies(honestPeer, w.lists(items))
		}
		if b := w.results(); len(b) > 0 {
			batches = append(batches, b)
		}
	}
	return batches, rounds, ""
}

func args(op *Op) map[string]interface{} {
	switch op.Op {
	case "Schedule":
		return map[string]interface{}{"k": op.K}
	case "Reserve":
		return map[string]interface{}{"p": op.P, "n": op.N}
	case "Deliver":
		return map[string]interface{}{"p": op.P, "v": op.V, "items": op.Items}
	case "Results":
		return map[string]interface{}{}
	default:
		return map[string]interface{}{"p": op.P}
	}
}

func run(env *drive.Env) error {
	var beh []Op
	for env.Next(&beh) {
		if len(beh) == 0 || beh[0].Op != "Init" {
			return fmt.Errorf("behaviour %d does not start with Init", env.T)
		}
		w := newWorld(&beh[0], env.Seed)
		env.Emit(map[string]interface{}{"ev": "Init", "args": map[string]interface{}{"n": w.n, "body": w.body, "w": w.w, "peers": w.peers,
			"origin": w.origin, "maxp": w.effMaxP()}, "obs": w.obs()})
		dead := false
		for i := 1; i < len(beh); i++ {
			op := &beh[i]
			if op.Items == nil {
				op.Items = []int{}
			}
			res := w.apply(op)
			ev := map[string]interface{}{"ev": op.Op, "args": args(op), "res": res}
			if res["panic"] != nil {
				ev["panic"] = res["panic"]
				dead = true
			} else {
				ev["obs"] = w.obs()
			}
			env.Emit(ev)
			if dead {
				break
			}
		}
		if !dead && env.OptInt("complete", 1) == 1 {
			batches, rounds, perr := w.complete()
			ev := map[string]interface{}{"ev": "Complete", "res": map[string]interface{}{"b": batches, "rounds": rounds, "nd": w.nd}}
			if perr != "" {
				ev["panic"] = perr
			} else {
				ev["obs"] = w.obs()
			}
			env.Emit(ev)
		}
		beh = nil
	}
	return nil
}
