// Package dlqueue drives behaviours of spec/DlQueue.tla through the real you/downloader queue (C18).
//
// A behaviour is a list of operations; the first one ("Init") carries the chain description (number of headers,
// body id per header, window size, peers).  The driver builds real headers (numbers origin+1.., linked by parent
// hash, TxHash = types.DeriveSha of the real transaction list, the empty root for body id 0), maps every abstract
// action onto the real method of the queue, and after every action records the pools read under the queue lock.
// After the behaviour it runs the completion loop of the bounded-liveness clause: outstanding requests time out and
// one honest peer that was never marked as lacking anything keeps reserving and delivering completely.
package dlqueue

import (
	"fmt"
	"math/big"
	"runtime/debug"
	"sort"
	"sync"

	"github.com/youchainhq/go-youchain/common"
	"github.com/youchainhq/go-youchain/core/types"
	"github.com/youchainhq/go-youchain/you/downloader"
	"verif/harness/drive"
)

func init() { drive.Register("dlqueue", run) }

// Op is one abstract action.
type Op struct {
	Op    string   `json:"op"`
	N     int      `json:"n,omitempty"`
	Body  []int    `json:"body,omitempty"`
	W     int      `json:"w,omitempty"`
	Peers []string `json:"peers,omitempty"`
	MaxC  int      `json:"maxc,omitempty"`
	MaxP  int      `json:"maxp,omitempty"`
	K     int      `json:"k,omitempty"`
	FL    int      `json:"fl,omitempty"`
	FFrom int      `json:"forkfrom,omitempty"`
	Chunk []int    `json:"chunk,omitempty"`
	From  int      `json:"from,omitempty"`
	O     int      `json:"o"`
	MemC  int      `json:"memcap,omitempty"`
	Big   []int    `json:"big,omitempty"`
	P     string   `json:"p,omitempty"`
	V     string   `json:"v,omitempty"`
	Items []int    `json:"items"`
}

const honestPeer = "hp"

type world struct {
	origin  uint64
	n, w    int
	fl, ff  int         // competing fork: fl headers (ids n+1..n+fl) with numbers ff..
	last    common.Hash // hash of the header handed out most recently (the origin's before the first)
	orig    common.Hash
	maxc    int
	maxp    int   // maxResultsProcess for this queue (0 = the package default)
	body    []int // body id of header k (index k-1)
	peers   []string
	headers []*types.Header // index k-1
	hashes  map[common.Hash]int
	hlist   []common.Hash
	q       *downloader.VerifQueue
	sched   int
	base    int // origin of the current session (relative number)
	memcap  int
	nd      int // results handed out so far
}

// txs returns the transaction list of body id b (b >= 1), or of the "matches nothing" body for b = 0.
func txs(b int) []*types.Transaction {
	if b == 0 {
		b = 99
	}
	cacheMu.Lock()
	defer cacheMu.Unlock()
	key := b
	if bigBodies[b] {
		key += 10000
	}
	if t, ok := txCache[key]; ok {
		return t
	}
	t := mkTxs(b, bigBodies[b])
	txCache[key] = t
	return t
}

var (
	cacheMu    sync.Mutex // the dlloop driver builds worlds concurrently
	txCache    = map[int][]*types.Transaction{}
	chainCache = map[string][]*types.Header{}
	hashCache  = map[string][]common.Hash{}
	origCache  = map[string]common.Hash{}
)

// bigBodies are the body ids whose first transaction carries a 4 KiB payload (set per run from the Init record: the
// configurations of one run agree on it).
var bigBodies = map[int]bool{}

func mkTxs(b int, large bool) []*types.Transaction {
	n := 1 + b%3
	out := make([]*types.Transaction, 0, n)
	for i := 0; i < n; i++ {
		to := common.BigToAddress(big.NewInt(int64(1000 + b)))
		var data []byte
		if large && i == 0 {
			data = make([]byte, 4096)
			for j := range data {
				data[j] = byte(b + j)
			}
		}
		out = append(out, types.NewTransaction(uint64(i), to, big.NewInt(int64(b*100+i)), 21000, big.NewInt(1), data))
	}
	return out
}

func newWorld(op *Op, seed int64) *world {
	w := &world{origin: uint64(7 + seed%5), n: op.N, fl: op.FL, ff: op.FFrom, w: op.W, maxc: op.MaxC, maxp: op.MaxP, body: op.Body, peers: append([]string{}, op.Peers...),
		hashes: map[common.Hash]int{}}
	sort.Strings(w.peers)
	if w.maxc == 0 {
		w.maxc = 2
	}
	cacheMu.Lock()
	bigBodies = map[int]bool{}
	for _, b := range op.Big {
		bigBodies[b] = true
	}
	cacheMu.Unlock()
	key := fmt.Sprint(w.origin, w.n, w.fl, w.ff, w.body, op.Big)
	cacheMu.Lock()
	hs, cached := chainCache[key]
	if cached {
		w.headers, w.hlist, w.orig = hs, hashCache[key], origCache[key]
	}
	cacheMu.Unlock()
	if !cached {
		w.orig = (&types.Header{Number: new(big.Int).SetUint64(w.origin), Extra: []byte("verif-origin")}).Hash()
		mk := func(id, num int, parent common.Hash, extra string) *types.Header {
			h := &types.Header{ParentHash: parent, Number: new(big.Int).SetUint64(w.origin + uint64(num)), GasLimit: 8000000,
				Subsidy: big.NewInt(0), GasRewards: big.NewInt(0), Time: uint64(1000 + num), Extra: []byte(fmt.Sprintf("%s-%d", extra, id))}
			if w.body[id-1] == 0 {
				h.TxHash = types.EmptyRootHash
			} else {
				h.TxHash = types.DeriveSha(types.Transactions(txs(w.body[id-1])))
			}
			h.ReceiptHash = types.EmptyRootHash
			return h
		}
		parent := w.orig
		for k := 1; k <= w.n; k++ {
			h := mk(k, k, parent, "verif-main")
			w.headers = append(w.headers, h)
			parent = h.Hash()
			w.hlist = append(w.hlist, parent)
		}
		for i := 1; i <= w.fl; i++ {
			num := w.ff + i - 1
			if i == 1 {
				parent = w.orig
				if w.ff > 1 {
					parent = w.hlist[w.ff-2]
				}
			}
			h := mk(w.n+i, num, parent, "verif-fork")
			w.headers = append(w.headers, h)
			parent = h.Hash()
			w.hlist = append(w.hlist, parent)
		}
		cacheMu.Lock()
		chainCache[key], hashCache[key], origCache[key] = w.headers, w.hlist, w.orig
		cacheMu.Unlock()
	}
	for k, h := range w.hlist {
		w.hashes[h] = k + 1
	}
	w.last = w.orig
	// the memory cap: blockCacheMemory is set to one and a half times the largest block, so that after a large block was
	// handed out the window holds two items (the configurations use MemCap / BigK with the same quotient) while W small
	// blocks always fit; blockCacheSizeWeight = 1 makes the size estimate the size of the last block
	w.memcap = op.MemC
	if op.MemC > 0 {
		maxSize := 0.0
		for id, h := range w.headers {
			size := float64(h.Size())
			if b := w.body[id]; b != 0 {
				for _, tx := range txs(b) {
					size += float64(tx.Size())
				}
			}
			if size > maxSize {
				maxSize = size
			}
		}
		downloader.VerifSetMemory(int(1.5*maxSize), 1)
	} else {
		downloader.VerifSetMemory(0, 0)
	}
	w.q = downloader.NewVerifQueue(w.origin, w.w, w.maxp)
	return w
}

func (w *world) effMaxP() int {
	if w.maxp > 0 {
		return w.maxp
	}
	return 2048
}

// ids maps header hashes onto the ids of the specification (0 = not a header of the fixture).
func (w *world) ids(hs []common.Hash, sorted bool) []int {
	out := make([]int, 0, len(hs))
	for _, h := range hs {
		out = append(out, w.hashes[h])
	}
	if sorted {
		sort.Ints(out)
	}
	return out
}

// obs is the projection of the real queue in the vocabulary of the specification (header ids).
func (w *world) obs() map[string]interface{} {
	p := w.q.Pools()
	pd := map[string][]int{}
	for id, hs := range p.Pend {
		pd[id] = w.ids(hs, false)
	}
	lk := map[string][]int{}
	for id, hs := range p.Lacks {
		lk[id] = w.ids(hs, true)
	}
	win := [][]int{}
	for i, pc := range p.Window {
		win = append(win, []int{pc, w.hashes[p.WindowHdr[i]]})
	}
	return map[string]interface{}{
		"tp": w.ids(p.TaskPool, true), "tq": w.ids(p.TaskQueue, true), "pd": pd, "dn": w.ids(p.Done, true), "dnc": len(p.Done),
		"win": win, "off": int(int64(p.Offset) - int64(w.origin) - 1), "lk": lk,
	}
}

// bodyID recognises a transaction list: 0 for the empty list, the body id for a list of the chain, -7 otherwise.
func (w *world) bodyID(list types.Transactions) int {
	if len(list) == 0 {
		return 0
	}
	for b := 1; b <= 9; b++ {
		t := txs(b)
		if len(t) != len(list) {
			continue
		}
		same := true
		for i := range t {
			if t[i].Hash() != list[i].Hash() {
				same = false
				break
			}
		}
		if same {
			return b
		}
	}
	return -7
}

// results calls Results(false) and describes what was handed out: [number, body id, txroot matches, header is one of the
// fixture's, header id, parent hash = hash of the header handed out before]
func (w *world) results() [][]interface{} {
	out := [][]interface{}{}
	for _, r := range w.q.Results() {
		num := int(r.Header.Number.Int64() - int64(w.origin))
		rootok := types.DeriveSha(r.Transactions) == r.Header.TxHash
		id := w.hashes[r.Header.Hash()]
		link := r.Header.ParentHash == w.last
		w.last = r.Header.Hash()
		out = append(out, []interface{}{num, w.bodyID(r.Transactions), rootok, id > 0, id, link})
		w.nd++
	}
	return out
}

func (w *world) lists(items []int) [][]*types.Transaction {
	out := make([][]*types.Transaction, 0, len(items))
	for _, it := range items {
		switch {
		case it >= 1 && it <= len(w.headers):
			if b := w.body[it-1]; b == 0 {
				out = append(out, []*types.Transaction{})
			} else {
				out = append(out, txs(b))
			}
		case it == -1:
			out = append(out, []*types.Transaction{})
		default:
			out = append(out, txs(0))
		}
	}
	return out
}

// schedule offers the headers with the given ids as one batch expected to start at number origin+from.
func (w *world) schedule(chunk []int, from int) (int, []int) {
	hs := make([]*types.Header, 0, len(chunk))
	for _, id := range chunk {
		hs = append(hs, w.headers[id-1])
	}
	ins := w.q.Schedule(hs, w.origin+uint64(from))
	acc := []int{}
	for _, h := range ins {
		id := w.hashes[h.Hash()]
		acc = append(acc, id)
		if id >= 1 && id <= w.n && id > w.sched {
			w.sched = id
		}
	}
	return len(ins), acc
}

// apply performs one abstract action on the real queue and returns what the call returned.
func (w *world) apply(op *Op) (res map[string]interface{}) {
	res = map[string]interface{}{}
	defer func() {
		if r := recover(); r != nil {
			res["panic"] = fmt.Sprint(r)
		}
	}()
	switch op.Op {
	case "Schedule":
		res["ins"], res["acc"] = w.schedule(op.Chunk, op.From)
	case "Reserve":
		hs, progress, err := w.q.ReserveBodies(op.P, op.N)
		res["h"], res["prog"], res["err"] = w.ids(hs, false), progress, downloader.VerifErrClass(err)
	case "Deliver":
		acc, err := w.q.DeliverBodies(op.P, w.lists(op.Items))
		res["acc"], res["err"] = acc, downloader.VerifErrClass(err)
	case "Cancel":
		res["called"] = w.q.CancelBodies(op.P)
	case "Expire":
		exp := w.q.ExpireBodies(op.P)
		res["exp"] = exp[op.P]
		res["nexp"] = len(exp)
	case "Revoke":
		w.q.Revoke(op.P)
	case "Results":
		res["r"] = w.results()
	case "Reset":
		// a new sync session at origin op.O: everything the driver tracks per session starts again
		w.q.NewSession(w.origin+uint64(op.O), w.w)
		w.base, w.sched, w.nd = op.O, op.O, 0
		w.last = w.orig
		if op.O >= 1 {
			w.last = w.hlist[op.O-1]
		}
	default:
		panic("unknown op " + op.Op)
	}
	return res
}

// complete is the bounded-liveness loop; it returns the batches handed out and the number of rounds used.
func (w *world) complete() (batches [][][]interface{}, rounds int, perr string) {
	defer func() {
		if r := recover(); r != nil {
			perr = fmt.Sprint(r) + string(debug.Stack())
		}
	}()
	batches = [][][]interface{}{}
	if w.sched < w.n {
		rest := []int{}
		for id := w.sched + 1; id <= w.n; id++ {
			rest = append(rest, id)
		}
		w.schedule(rest, w.sched+1)
	}
	limit := 4*w.n + 8
	for rounds = 0; rounds < limit && w.nd < w.n-w.base; rounds++ {
		// requests of the scripted peers time out
		for _, p := range w.peers {
			w.q.ExpireBodies(p)
		}
		hs, _, _ := w.q.ReserveBodies(honestPeer, w.maxc)
		if len(hs) > 0 {
			w.q.DeliverBodies(honestPeer, w.lists(w.ids(hs, false)))
		}
		if b := w.results(); len(b) > 0 {
			batches = append(batches, b)
		}
	}
	return batches, rounds, ""
}

func args(op *Op) map[string]interface{} {
	switch op.Op {
	case "Schedule":
		return map[string]interface{}{"v": op.V, "chunk": op.Chunk, "from": op.From}
	case "Reserve":
		return map[string]interface{}{"p": op.P, "n": op.N}
	case "Deliver":
		return map[string]interface{}{"p": op.P, "v": op.V, "items": op.Items}
	case "Results":
		return map[string]interface{}{}
	case "Reset":
		return map[string]interface{}{"o": op.O}
	default:
		return map[string]interface{}{"p": op.P}
	}
}

func run(env *drive.Env) error {
	var beh []Op
	for env.Next(&beh) {
		if len(beh) == 0 || beh[0].Op != "Init" {
			return fmt.Errorf("behaviour %d does not start with Init", env.T)
		}
		w := newWorld(&beh[0], env.Seed)
		env.Emit(map[string]interface{}{"ev": "Init", "args": map[string]interface{}{"memcap": w.memcap, "n": w.n, "fl": w.fl, "forkfrom": w.ff, "body": w.body, "w": w.w, "peers": w.peers,
			"origin": w.origin, "maxp": w.effMaxP()}, "obs": w.obs()})
		dead := false
		for i := 1; i < len(beh); i++ {
			op := &beh[i]
			if op.Items == nil {
				op.Items = []int{}
			}
			res := w.apply(op)
			ev := map[string]interface{}{"ev": op.Op, "args": args(op), "res": res}
			if res["panic"] != nil {
				ev["panic"] = res["panic"]
				dead = true
			} else {
				ev["obs"] = w.obs()
			}
			env.Emit(ev)
			if dead {
				break
			}
		}
		if !dead && env.OptInt("complete", 1) == 1 {
			batches, rounds, perr := w.complete()
			ev := map[string]interface{}{"ev": "Complete", "res": map[string]interface{}{"b": batches, "rounds": rounds, "nd": w.nd}}
			if perr != "" {
				ev["panic"] = perr
			} else {
				ev["obs"] = w.obs()
			}
			env.Emit(ev)
		}
		beh = nil
	}
	return nil
}
