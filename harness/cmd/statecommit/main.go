// Command statecommit: driver binary for spec/StateCommit.tla (C10).
package main

import (
	"verif/harness/drive"
	_ "verif/harness/drive/statecommit"
)

func main() { drive.Main() }
