// Command triesyncnet: driver binary for the network-loop stage of C19 (spec/TrieSyncNet.tla, TrieSyncNet_Mon.tla).
package main

import (
	"verif/harness/drive"
	_ "verif/harness/drive/triesyncnet"
)

func main() { drive.Main() }
