// Command dlloop: driver binary for the fetchBodies/fetchParts loop stage of C18 (spec/DlLoop.tla).
package main

import (
	"verif/harness/drive"
	_ "verif/harness/drive/dlqueue"
)

func main() { drive.Main() }
