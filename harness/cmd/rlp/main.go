// Command rlp: driver binary for spec/Rlp.tla (C14).
package main

import (
	"verif/harness/drive"
	_ "verif/harness/drive/rlp"
)

func main() { drive.Main() }
