// Command valset: driver binary for spec/ValSet.tla (C08).
package main

import (
	"verif/harness/drive"
	_ "verif/harness/drive/valset"
)

func main() { drive.Main() }
