// Command sortition: driver binary for spec/Sortition.tla (C04).
package main

import (
	"verif/harness/drive"
	_ "verif/harness/drive/sortition"
)

func main() { drive.Main() }
