// Command journal: driver binary for spec/Journal.tla (C09).
package main

import (
	"verif/harness/drive"
	_ "verif/harness/drive/journal"
)

func main() { drive.Main() }
