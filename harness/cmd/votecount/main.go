// Command votecount: driver binary for spec/VoteCount.tla (C03).
package main

import (
	"verif/harness/drive"
	_ "verif/harness/drive/votecount"
)

func main() { drive.Main() }
