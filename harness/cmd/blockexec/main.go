// Command blockexec: driver binary for spec/BlockExec.tla (C06).
package main

import (
	"verif/harness/drive"
	_ "verif/harness/drive/blockexec"
)

func main() { drive.Main() }
