// Command versionupgrade: driver binary for spec/VersionUpgrade.tla (C12).
package main

import (
	"verif/harness/drive"
	_ "verif/harness/drive/versionupgrade"
)

func main() { drive.Main() }
