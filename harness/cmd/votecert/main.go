// Command votecert: driver binary for spec/VoteCount.tla in a certificate round (C03, second stage).
package main

import (
	"verif/harness/drive"
	_ "verif/harness/drive/votecert"
)

func main() { drive.Main() }
