// Command slash: driver binary for spec/Slash.tla (C05).
package main

import (
	"verif/harness/drive"
	_ "verif/harness/drive/slash"
)

func main() { drive.Main() }
