// Command trie: driver binary for spec/Trie.tla (C13).
package main

import (
	"verif/harness/drive"
	_ "verif/harness/drive/trie"
)

func main() { drive.Main() }
