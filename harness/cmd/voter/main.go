// Command voter: driver binary for spec/Voter.tla (C02).
package main

import (
	"verif/harness/drive"
	_ "verif/harness/drive/voter"
)

func main() { drive.Main() }
