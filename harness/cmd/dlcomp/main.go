// Command dlcomp: driver binary for the component stage of C18 (spec/DlComp.tla).
package main

import (
	"verif/harness/drive"
	_ "verif/harness/drive/dlqueue"
)

func main() { drive.Main() }
