// Command fetcher: driver binary for spec/Fetcher.tla (C18, announced-block route).
package main

import (
	"verif/harness/drive"
	_ "verif/harness/drive/fetcher"
)

func main() { drive.Main() }
