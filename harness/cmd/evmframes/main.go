// Command evmframes: driver binary for spec/EvmFrames.tla (C16).
package main

import (
	"verif/harness/drive"
	_ "verif/harness/drive/evmframes"
)

func main() { drive.Main() }
