// Command txpool: driver binary for spec/TxPool.tla (C20).
package main

import (
	"verif/harness/drive"
	_ "verif/harness/drive/txpool"
)

func main() { drive.Main() }
