// Command versionchain: driver binary for spec/VersionChain.tla (C12, chain level on a real core.BlockChain).
package main

import (
	"verif/harness/drive"
	_ "verif/harness/drive/versionchain"
)

func main() { drive.Main() }
