// Command staking: driver binary for spec/Staking.tla (C07).
package main

import (
	"verif/harness/drive"
	_ "verif/harness/drive/staking"
)

func main() { drive.Main() }
