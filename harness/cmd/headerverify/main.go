// Command headerverify: driver binary for spec/HeaderVerify.tla (C01).
package main

import (
	"verif/harness/drive"
	_ "verif/harness/drive/headerverify"
)

func main() { drive.Main() }
