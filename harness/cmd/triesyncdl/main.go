// Command triesyncdl: the C19 driver with deliveries going through you/downloader trieSync.processNodeData
// (thorough tier).  A separate binary so that the downloader package is only linked where it is needed.
package main

import (
	"github.com/youchainhq/go-youchain/trie"
	"github.com/youchainhq/go-youchain/you/downloader"
	"verif/harness/drive"
	"verif/harness/drive/triesync"
)

func main() {
	// every blob goes through processNodeData on its own, as trieSync.process does; the first failing item ends the batch
	triesync.PerItem = true
	triesync.NewDeliverer = func() triesync.Deliverer {
		var ts *downloader.VerifTrieSync
		var of *trie.Sync
		return func(sched *trie.Sync, blobs [][]byte) (bool, int, error) {
			if ts == nil || of != sched {
				ts, of = downloader.VerifNewTrieSync(sched), sched
			}
			committed := false
			for i, b := range blobs {
				c, _, err := ts.ProcessNodeData(b)
				committed = committed || c
				if err != nil {
					return committed, i, err
				}
			}
			return committed, 0, nil
		}
	}
	drive.Register("triesyncdl", triesync.Run)
	drive.Main()
}
