// Command triesyncdl: the C19 driver with deliveries going through you/downloader trieSync.processNodeData
// (thorough tier).  A separate binary so that the downloader package is only linked where it is needed.
package main

import (
	"github.com/youchainhq/go-youchain/trie"
	"github.com/youchainhq/go-youchain/you/downloader"
	"github.com/youchainhq/go-youchain/youdb"
	"verif/harness/drive"
	"verif/harness/drive/triesync"
)

func main() {
	// every blob goes through processNodeData on its own, as trieSync.process does; the first failing item ends the batch;
	// every flush goes through trieSync.commit(true): a batch of the backing database, Sync.Commit, and the written count
	// deciding whether the batch is written at all
	triesync.PerItem = true
	var ts *downloader.VerifTrieSync
	var of *trie.Sync
	get := func(sched *trie.Sync, dest *youdb.MemDatabase) *downloader.VerifTrieSync {
		if ts == nil || of != sched {
			ts, of = downloader.VerifNewTrieSyncOn(sched, dest), sched
		}
		return ts
	}
	var lastDest *youdb.MemDatabase
	triesync.NewDeliverer = func() triesync.Deliverer {
		return func(sched *trie.Sync, blobs [][]byte) (bool, int, error) {
			committed := false
			for i, b := range blobs {
				c, _, err := get(sched, lastDest).ProcessNodeData(b)
				committed = committed || c
				if err != nil {
					return committed, i, err
				}
			}
			return committed, 0, nil
		}
	}
	triesync.Committer = func(sched *trie.Sync, dest *youdb.MemDatabase) (int, error) {
		lastDest = dest
		return -1, get(sched, dest).Commit(true)
	}
	triesync.OnNewSync = func(dest *youdb.MemDatabase) { lastDest, ts, of = dest, nil, nil }
	drive.Register("triesyncdl", triesync.Run)
	drive.Main()
}
