// Command chainimport: driver binary for spec/ChainImport.tla (C11).
package main

import (
	"verif/harness/drive"
	_ "verif/harness/drive/chainimport"
)

func main() { drive.Main() }
