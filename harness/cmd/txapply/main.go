// Command txapply: driver binary for spec/TxApply.tla (C17).
package main

import (
	"verif/harness/drive"
	_ "verif/harness/drive/txapply"
)

func main() { drive.Main() }
