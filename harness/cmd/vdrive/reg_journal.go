package main

import _ "verif/harness/drive/journal"
