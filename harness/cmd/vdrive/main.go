// Command vdrive runs one of the registered drivers (see package drive).
package main

import "verif/harness/drive"

func main() { drive.Main() }
