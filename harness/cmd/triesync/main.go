// Command triesync: driver binary for spec/TrieSync.tla (C19).
package main

import (
	"verif/harness/drive"
	_ "verif/harness/drive/triesync"
)

func main() { drive.Main() }
