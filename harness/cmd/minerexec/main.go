// Command minerexec: driver binary for the miner stage of C06 (spec/BlockExec_Miner.tla, the real miner.Miner).
package main

import (
	"verif/harness/drive"
	_ "verif/harness/drive/minerexec"
)

func main() { drive.Main() }
