// Command dlqueue: driver binary for spec/DlQueue.tla (C18).
package main

import (
	"verif/harness/drive"
	_ "verif/harness/drive/dlqueue"
)

func main() { drive.Main() }
