// Command evmword: driver binary for spec/EvmWord_Mon.tla (C15).
package main

import (
	"verif/harness/drive"
	_ "verif/harness/drive/evmword"
)

func main() { drive.Main() }
