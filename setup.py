"""bin/check --setup: build everything the checks need from files on disk (offline)."""
import glob
import os
import subprocess
import sys

sys.path.insert(0, os.path.join(os.path.dirname(os.path.abspath(__file__)), "lib"))
import vlib  # noqa: E402


def main():
    rc = 0
    spec = vlib.SPEC
    # 1. Java overrides (BigNat) next to the specs
    for j in glob.glob(os.path.join(spec, "*.java")):
        p = subprocess.run(["javac", "-cp", vlib.TLA_CP, "-d", spec, j], stdout=subprocess.PIPE, stderr=subprocess.STDOUT, text=True)
        if p.returncode != 0:
            print("setup: javac failed for %s:\n%s" % (j, p.stdout))
            rc = 2
    # 2. every module parses
    bad = []
    for t in sorted(glob.glob(os.path.join(spec, "*.tla"))):
        p = subprocess.run(["java", "-cp", vlib.TLA_CP + ":" + spec, "tla2sany.SANY", os.path.basename(t)], cwd=spec,
                           stdout=subprocess.PIPE, stderr=subprocess.STDOUT, text=True)
        if p.returncode != 0 or "*** Errors" in p.stdout or "Fatal errors" in p.stdout or "Could not parse" in p.stdout:
            bad.append(os.path.basename(t))
            print(p.stdout[-1500:])
    if bad:
        print("setup: SANY rejected: %s" % bad)
        rc = 2
    # 3. the Go harness (warms the build cache; checks rebuild incrementally from /repo's working tree)
    ctx = vlib.Ctx("_setup")
    for d in sorted(os.listdir(os.path.join(vlib.HARNESS, "cmd"))):
        try:
            ctx.build_harness(d)
        except vlib.Undecided as e:
            print("setup:", e)
            rc = 2
    print("setup: %s" % ("ok" if rc == 0 else "FAILED"))
    return rc
