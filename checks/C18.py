"""C18 -- block download delivers every block once, in order, with a matching body.

M  : spec/DlQueue.tla, full alphabet, unbounded faults, all interleavings of scheduling, reservation, delivery (every
     possible outcome), cancel/expire/revoke and result retrieval: InOrderGapFree, EachOnce, BodyMatchesHeader,
     WorkNeverLost, NoDoubleAssign (+ design sanity NeverBroken, ReadyMeansDone, PoolIsOpenWork).
L  : liveness <>AllDelivered under weak fairness (requests are answered or time out, finitely many faults, one honest peer),
     no state constraint.
G1 : every behaviour of the small alphabet up to depth d (bounded exhaustive), printed as JSON.
G2 : `tlc -simulate` over the full alphabet including the calls the code answers without doing anything.
T  : the driver `dlqueue` steps every behaviour through the real you/downloader queue (real headers, real transactions,
     types.DeriveSha as the body check), then runs the honest-peer completion loop; DlQueue_Mon (property layer, the
     verdict) and DlQueue_Trace (conformance to the design layer, drift) judge the recorded trace.
"""
import json
import os
import random
import vlib

CONST = """CONSTANTS
  N = %(N)d
  FL = %(FL)d
  ForkFrom = %(forkfrom)d
  BodyCode = %(body)d
  Peers = {%(peers)s}
  Honest = {%(honest)s}
  MaxCount = %(maxc)d
  MaxFaults = %(faults)d
  W = %(W)d
  MemCap = %(memcap)d
  BigBody = {%(big)s}
  BigK = %(bigk)d
  MaxProc = %(maxp)d
  MaxOps = %(ops)d
  GenMode = "%(gen)s"
  Alphabet = "%(alpha)s"
  Noops = %(noops)s
"""

M_CFG = """SPECIFICATION Spec
INVARIANTS InOrderGapFree EachOnce BodyMatchesHeader WorkNeverLost NoDoubleAssign NeverBroken ReadyMeansDone PoolIsOpenWork
CHECK_DEADLOCK FALSE
"""

L_CFG = """SPECIFICATION LiveSpec
INVARIANTS InOrderGapFree EachOnce BodyMatchesHeader WorkNeverLost NoDoubleAssign NeverBroken
PROPERTY Completes
CHECK_DEADLOCK FALSE
"""

G_CFG = """INIT Init
NEXT Next
CONSTRAINT Leaf
CHECK_DEADLOCK FALSE
"""

T_CFG = """SPECIFICATION TSpec
CONSTRAINT HighWater
POSTCONDITION Accepted
CHECK_DEADLOCK FALSE
"""


def peers(n):
    return ", ".join('"p%d"' % i for i in range(1, n + 1))


def consts(c, **kw):
    d = dict(N=c["N"], FL=c.get("FL", 0), forkfrom=c.get("forkfrom", 1), body=c["body"], peers=peers(c["peers"]), honest="", maxc=c["maxc"], faults=99, W=c["W"], memcap=c.get("memcap", 0), big=", ".join(str(b) for b in c.get("big", ())), bigk=c.get("bigk", 2),
             maxp=c.get("maxp", 2048), ops=0,
             gen="none", alpha="full", noops="FALSE")
    d.update(kw)
    return CONST % d


# chain configurations: body code digit k from the right = body id of header k (0 = empty block; equal digits = equal bodies)
# maxp = maxResultsProcess scaled below the window, so that more results can be complete than one Results call hands out
# FL/forkfrom: a competing fork of FL headers (ids N+1..) with numbers forkfrom.. (their body ids are the digits after the N-th)
CFG_A = dict(name="A", N=5, FL=2, forkfrom=3, body=4531201, W=3, maxp=2, peers=2, maxc=2)   # main <<1,0,2,1,3>>, fork <<5,4>> at numbers 3,4
CFG_B = dict(name="B", N=4, FL=2, forkfrom=2, body=432011, W=2, maxp=1, peers=3, maxc=2)     # main <<1,1,0,2>> (two identical bodies in a row, tight window), fork <<3,4>> at 2,3
CFG_C = dict(name="C", N=6, FL=2, forkfrom=2, body=56102304, W=4, maxp=2, peers=2, maxc=3)  # main <<4,0,3,2,0,1>>, fork <<6,5>> at 2,3
# the memory cap: blocks with body id 3 are large (4 KiB transaction); the cap holds W small blocks but only two once a large one was handed out
CFG_M = dict(name="M", N=6, FL=0, forkfrom=1, body=121213, W=4, maxp=4, peers=3, maxc=2, memcap=4, big=(3,), bigk=2)   # main <<3,1,2,1,2,1>>


def body_list(c):
    return [(c["body"] // 10 ** k) % 10 for k in range(c["N"] + c.get("FL", 0))]


def cfg_of_init(init):
    body = sum(b * 10 ** k for k, b in enumerate(init["body"]))
    return dict(name="R", memcap=init.get("memcap", 0), big=tuple(init.get("big", ())), N=init["n"], FL=init.get("fl", 0), forkfrom=init.get("forkfrom", 1), body=body, W=init["w"], maxp=init.get("maxp", 2048), peers=max(2, len(init.get("peers", []))),
                maxc=init.get("maxc", 2))


def nontrivial(beh):
    """A behaviour is non-trivial when a peer that holds a request fails it (bad delivery, cancel, expiry, revocation)."""
    held = set()
    for op in beh:
        o = op.get("op")
        if o == "Reserve":
            held.add(op["p"])
        elif o == "Deliver" and op.get("v") != "complete" and op["p"] in held:
            return True
        elif o in ("Cancel", "Expire", "Revoke") and op["p"] in held:
            return True
    return False


def design(ctx):
    quick = ctx.quick
    CFG_MS = dict(CFG_M, name="Ms", N=4, body=1213, W=3, memcap=3, peers=2)       # <<3,1,2,1>>, window 3 shrinking to 2
    runs = [(CFG_A, {}), (CFG_MS, {})]
    # thorough only.  The session action multiplied the larger design runs (M_A_3p 2.25 M states / 873 s, M_M5 243 s, M_C 82 s):
    # these three are checked for ONE session (the definition MaxSess is overridden to 1 in their cfg: no Reset), all other bounds as
    # before (unbounded faults); sessions stay unrestricted (two sessions, every origin) in M_A_2p, M_Ms_2p and the three-peer run M_B_3p.
    ONE_SESSION = "\nCONSTANTS\n  MaxSess = 1\n"
    if not quick:
        runs += [(dict(CFG_M, name="M5", peers=2, N=5, body=21213), {"_cfg": ONE_SESSION}),
                 (dict(CFG_A, peers=3), {"_cfg": ONE_SESSION}), (CFG_B, {}), (CFG_C, {"_cfg": ONE_SESSION})]
    violated = None
    for c, kw in runs:
        kw = dict(kw)
        extra = kw.pop("_cfg", "")
        # (no -coverage in the one-session runs: Reset is disabled there by construction and would be listed as never taken)
        m = ctx.tlc_must("DlQueue", M_CFG + consts(c, **kw) + extra, name="M_%s_%dp" % (c["name"], c["peers"]), timeout=1500,
                         coverage=(not quick) and not extra)
        violated = violated or m.violated
        if getattr(m, "zero_actions", None):
            ctx.cov["coverage_zero_actions"] = sorted(set(ctx.cov["coverage_zero_actions"]) | set(m.zero_actions))
    if not quick:
        ctx.assumptions.append("thorough design runs: M_A_3p (3 peers), M_M5 (memory cap, N=5) and M_C (N=6) are checked for one sync session "
                               "(MaxSess overridden to 1, unbounded faults as before); two sessions at every origin are checked exhaustively in "
                               "M_A_2p, M_Ms_2p and the three-peer run M_B_3p")
    # liveness, unconstrained small configuration: p1 is honest, three faults
    lcs = [dict(name="L", N=4, FL=1, forkfrom=2, body=31201, W=2, maxp=1, peers=2, maxc=2)]
    if not quick:
        lcs.append(dict(name="L3", N=4, FL=1, forkfrom=2, body=31201, W=3, maxp=2, peers=3, maxc=2))
    for lc in lcs:
        lv = ctx.tlc_must("DlQueue", L_CFG + consts(lc, honest='"p1"', faults=3), name="L_live_%s" % lc["name"], timeout=1500)
        violated = violated or lv.violated
    ctx.cov["exhaustive"] = violated is None
    ctx.cov["design_violation"] = violated
    return violated


def generate(ctx, c, g1_depth, g1_noop_depth, sim_num, sim_depth, sim_keep):
    behs = []
    if g1_depth:
        g1 = ctx.tlc_must("DlQueue", G_CFG + consts(c, ops=g1_depth, gen="leaf", alpha="small"), name="G1_%s" % c["name"], timeout=1500)
        behs += [v["h"] for v in g1.printed if isinstance(v, dict) and v.get("kind") == "B"]
    if g1_noop_depth:
        g1n = ctx.tlc_must("DlQueue", G_CFG + consts(c, ops=g1_noop_depth, gen="leaf", alpha="small", noops="TRUE"),
                           name="G1n_%s" % c["name"], timeout=1500)
        behs += [v["h"] for v in g1n.printed if isinstance(v, dict) and v.get("kind") == "B"]
    n1 = len(behs)
    if sim_num:
        g2 = ctx.tlc_must("DlQueue", G_CFG + consts(c, ops=sim_depth, gen="leaf", alpha="full", noops="TRUE"),
                          name="G2_%s" % c["name"], timeout=1500, simulate={"num": sim_num}, depth=sim_depth + 2)
        sim = [v["h"] for v in g2.printed if isinstance(v, dict) and v.get("kind") == "B"]
        seen, uniq = set(), []
        for b in sim:
            s = json.dumps(b, sort_keys=True)
            if s not in seen:
                seen.add(s)
                uniq.append(b)
        random.Random(ctx.seed).shuffle(uniq)
        behs += uniq[:sim_keep]
    ctx.note("config %s: %d bounded-exhaustive, %d simulated behaviours" % (c["name"], n1, len(behs) - n1))
    return behs


def judge(ctx, c, behs, tag):
    bpath = ctx.path("behaviours_%s.ndjson" % tag)
    vlib.write_ndjson(bpath, behs)
    trace = ctx.path("trace_%s.ndjson" % tag)
    info = ctx.drive("dlqueue", trace, behaviours=bpath)
    ctx.cov["traces_validated_against_impl"] += len(behs)
    ctx.cov["evaluations"] += len(behs)
    ctx.cov["distinct_nontrivial"] += len({json.dumps(b, sort_keys=True) for b in behs if nontrivial(b)})
    # T (verdict): property-layer monitor
    vlib.monitor(ctx, "DlQueue_Mon", "DlQueue_Mon.cfg", trace, name="Mon_%s" % tag, behaviours=bpath,
                 replay_meta={"driver": "dlqueue"})
    # the queue has no legitimate reason to end the process
    for a in info["aborts"]:
        ctx.report("C18/NoPanic/process_abort", vlib.save_behaviour_replay(ctx, "C18/NoPanic/process_abort", bpath, a["b"], {}), a)
    # T (drift): conformance to the design layer
    conf = ctx.tlc("DlQueue_Trace", T_CFG + consts(dict(c, peers=3, maxc=9), noops="TRUE"), name="Conf_%s" % tag,
                   files={"trace.ndjson": trace}, workers=1, timeout=1500, count=False, xss="256m")
    acc = [v for v in conf.printed if isinstance(v, dict) and v.get("kind") == "ACCEPTED"]
    rej = [v for v in conf.printed if isinstance(v, dict) and v.get("kind") == "REJECTED"]
    if acc:
        ctx.cov["conformance_%s" % tag] = "accepted %d events" % acc[0]["events"]
    else:
        ctx.cov["drift_events"] += 1
        ctx.cov["conformance_%s" % tag] = "rejected: %s" % (json.dumps(rej[0])[:600] if rej else (conf.error or conf.violated or "no verdict"))
        print("DRIFT: property=C18 the real queue left the design layer of DlQueue.tla: %s" % ctx.cov["conformance_%s" % tag], flush=True)
    return trace


def selftest(ctx, c, trace):
    """Binding self-test: corrupting one recorded field / dropping one event must make the conformance spec reject."""
    ev = vlib.read_ndjson(trace)
    outcomes = []
    # (a) a header moved out of a recorded pending pool
    for i, e in enumerate(ev):
        if e.get("ev") == "Reserve" and e.get("res", {}).get("h"):
            bad = i + 1
            break
    else:
        return
    cut = ev[:bad + 6]
    import copy
    a = copy.deepcopy(cut)
    p = a[bad - 1]["args"]["p"]
    a[bad - 1]["obs"]["pd"][p] = a[bad - 1]["obs"]["pd"][p][:-1]
    # (b) the Reserve event dropped entirely
    b = cut[:bad - 1] + cut[bad:]
    for name, rows, want in (("field", a, bad), ("drop", b, None)):
        pth = ctx.path("trace_corrupt_%s.ndjson" % name)
        vlib.write_ndjson(pth, rows)
        conf = ctx.tlc("DlQueue_Trace", T_CFG + consts(dict(c, peers=3, maxc=9), noops="TRUE"), name="Conf_selftest_" + name,
                       files={"trace.ndjson": pth}, workers=1, timeout=600, count=False, xss="256m")
        rej = [v for v in conf.printed if isinstance(v, dict) and v.get("kind") == "REJECTED"]
        ok = bool(rej) and (want is None or rej[0]["line"] == want)
        outcomes.append("%s: %s at line %s" % (name, "rejected" if rej else "NOT rejected", rej[0]["line"] if rej else None))
        if not ok:
            ctx.cov["binding_selftest"] = "; ".join(outcomes)
            raise vlib.Undecided("trace-checker self-test failed: corrupted trace (%s) not rejected" % name)
    ctx.cov["binding_selftest"] = "; ".join(outcomes)


def witnesses():
    behs = []
    wdir = os.path.join(vlib.VERIF, "findings")
    for f in sorted(os.listdir(wdir)) if os.path.isdir(wdir) else []:
        if f.startswith("C18_") and not f.startswith("C18_fetcher_") and f.endswith(".json"):
            behs += json.load(open(os.path.join(wdir, f)))["behaviours"]
    return behs


def run(ctx):
    ctx.cov["rule"] = ("behaviours = stored witnesses + every behaviour of the small alphabet to the G1 depth + simulated behaviours of "
                       "the full alphabet, each followed by the honest-peer completion loop on the real queue; non-trivial = a peer "
                       "that holds a request fails it (bad delivery, cancel, expiry, revocation); distinct by JSON of the action sequence")
    ctx.assumptions += ["full sync (one component per block); Schedule is offered in-order chunks of the main chain and, in the full alphabet, chunks with a "
                        "non-linking / wrongly numbered header in the middle, a competing fork starting below the queued prefix, and a chunk beyond the head; "
                        "the very first batch always starts at the origin (as processHeaders does)",
                        "CancelBodies is only applied to the request a peer currently holds (fetchParts never calls it otherwise)",
                        "result window of 2-4 slots and a Results batch limit of 1-2 items (blockCacheItems and maxResultsProcess are variables, scaled by the verif constructor); the memory cap of the window is scaled too (configuration M: blockCacheMemory = 1.5 x the largest block, blockCacheSizeWeight = 1, one body id with a 4 KiB transaction)",
                        "expiry is made deterministic by ageing fetchRequest.Time of the chosen request by two hours (timeout one hour)",
                        "bounded liveness: after every behaviour outstanding requests time out and a fresh honest peer reserves and delivers completely; the range must complete within 4N+8 rounds"]
    quick = ctx.quick
    mviol = design(ctx)
    wit = witnesses()
    plan = [(CFG_A, dict(g1_depth=6 if quick else 8, g1_noop_depth=3 if quick else 4, sim_num=150 if quick else 1500,
                         sim_depth=30, sim_keep=1500 if quick else 20000)),
            (CFG_B, dict(g1_depth=0 if quick else 7, g1_noop_depth=0, sim_num=100 if quick else 1000, sim_depth=26,
                         sim_keep=1000 if quick else 15000))]
    if quick:
        plan = plan[:1]          # quick: three peers and the tight window are covered by configuration M (added below)
    if not quick:
        plan.append((CFG_C, dict(g1_depth=6, g1_noop_depth=0, sim_num=1000, sim_depth=36, sim_keep=15000)))
    plan.append((CFG_M, dict(g1_depth=0, g1_noop_depth=0, sim_num=100 if quick else 1000, sim_depth=26, sim_keep=1000 if quick else 15000)))
    # goal-directed generation (cf. C20): the situation in which the memory cap has shrunk the window below the number of completed
    # results behind a head block that went back to the task queue
    gm = ctx.tlc_must("DlQueue", "SPECIFICATION Spec\nINVARIANT NoMemGoal\nVIEW GView\nCHECK_DEADLOCK FALSE\n" +
                      consts(CFG_M, ops=9, gen="leaf", alpha="small"), name="Goal_memcap", timeout=900)
    goal_behs = [v["h"] for v in gm.printed if isinstance(v, dict) and v.get("kind") == "CEX"][:1]
    if not goal_behs:
        ctx.note("goal memcap not reached")
    first = None
    for c, kw in plan:
        behs = generate(ctx, c, **kw)
        if c is CFG_M:
            behs = goal_behs + behs
        if c is CFG_A:
            behs = [b for b in wit if b[0]["n"] == c["N"] and b[0]["body"] == body_list(c) and b[0]["w"] == c["W"]] + behs
        for b in behs[:2]:
            ctx.sample(b)
        trace = judge(ctx, c, behs, c["name"])
        if first is None:
            first = (c, trace)
    other = [b for b in wit if not (b[0]["n"] == CFG_A["N"] and b[0]["body"] == body_list(CFG_A) and b[0]["w"] == CFG_A["W"])]
    for i, b in enumerate(other):
        judge(ctx, cfg_of_init(b[0]), [b], "W%d" % i)
    if not quick and first:
        selftest(ctx, *first)
    comp_stage(ctx)
    loop_stage(ctx)
    fetcher_stage(ctx)
    fired = ctx.cov.get("clauses_fired", {})
    idle = sorted(k for k in ("InOrderGapFree", "EachOnce", "BodyMatchesHeader", "WorkNeverLost", "NoDoubleAssign", "CompletesWithHonestPeer")
                  if not fired.get(k))
    if idle:
        raise vlib.Undecided("monitor clauses never fired: %s" % idle)
    if mviol and not ctx.violations and not ctx.known_hits:
        raise vlib.Undecided("design-level counterexample (%s) did not reproduce on the real code: specification drift" % mviol)


# ============================================================================ fetcher route (you/fetcher/fetcher.go)
F_CONST = """CONSTANTS
  Peers = {%(peers)s}
  Hon = {}
  N = %(N)d
  ForkAt = %(forkat)d
  BadHdr = {%(bad)s}
  HL = %(HL)d
  BL = %(BL)d
  UD = %(UD)d
  QD = %(QD)d
  MaxOps = %(ops)d
  GenMode = "%(gen)s"
  Strict = %(strict)s
  BodyCheck = %(bodycheck)s
  NegFix = %(negfix)s
"""
# set (or VERIF_C18_FETCHER_REPAIRED=1) once findings/C18_fetcher_proposed_repair.patch or an equivalent is in /repo
FETCHER_REPAIRED = os.environ.get("VERIF_C18_FETCHER_REPAIRED", "1") == "1"  # repaired in /repo (two fix commits in you/fetcher/fetcher.go)
F_ALL = "I_Once I_Parent I_Body I_Verif I_Bound"
F_CLAUSES = ("FetcherImportedOnce", "FetcherParentBeforeChild", "FetcherBodyMatchesHeader", "FetcherNoImportOfUnverified",
             "FetcherBoundedState", "FetcherCompletes")
REAL = dict(HL=256, BL=64, UD=7, QD=32)
SMALL = dict(HL=2, BL=2, UD=1, QD=2)


def f_consts(lim, peers=2, extra_peers=(), N=3, forkat=2, bad=(), ops=0, gen="none", strict="FALSE"):
    ps = ['"p%d"' % i for i in range(1, peers + 1)] + ['"%s"' % p for p in extra_peers]
    rep = "TRUE" if FETCHER_REPAIRED else "FALSE"
    return F_CONST % dict(peers=", ".join(ps), N=N, forkat=forkat, bad=", ".join(str(b) for b in bad), ops=ops, gen=gen, strict=strict,
                          bodycheck=rep, negfix=rep, **lim)


def fetcher_judge(ctx, behs, bad, tag, conformance=True):
    bpath = ctx.path("fetcher_behaviours_%s.ndjson" % tag)
    vlib.write_ndjson(bpath, behs)
    trace = ctx.path("fetcher_trace_%s.ndjson" % tag)
    ctx.drive("fetcher", trace, opts={"beh": bpath, "par": 24}, timeout=1200)
    ctx.cov["traces_validated_against_impl"] += len(behs)
    ctx.cov["evaluations"] += len(behs)
    ctx.cov["fetcher_behaviours"] = ctx.cov.get("fetcher_behaviours", 0) + len(behs)
    result, _ = vlib.monitor(ctx, "Fetcher_Mon", "Fetcher_Mon.cfg", trace, name="FMon_%s" % tag, behaviours=bpath,
                             replay_meta={"driver": "fetcher"})
    ctx.cov["fetcher_events"] = ctx.cov.get("fetcher_events", 0) + result.get("events", 0)
    if conformance:
        conf = ctx.tlc("Fetcher_Trace", T_CFG + f_consts(REAL, extra_peers=("hp",), bad=bad, ops=1000000), name="FConf_%s" % tag,
                       files={"trace.ndjson": trace}, workers=1, timeout=1500, count=False, xss="256m")
        acc = [v for v in conf.printed if isinstance(v, dict) and v.get("kind") == "ACCEPTED"]
        rej = [v for v in conf.printed if isinstance(v, dict) and v.get("kind") == "REJECTED"]
        if acc:
            ctx.cov["fetcher_conformance_%s" % tag] = "accepted %d events" % acc[0]["events"]
        else:
            ctx.cov["drift_events"] += 1
            ctx.cov["fetcher_conformance_%s" % tag] = "rejected: %s" % (json.dumps(rej[0])[:700] if rej else (conf.error or conf.violated or "no verdict"))
            print("DRIFT: property=C18 the real fetcher left the design layer of Fetcher.tla: %s" % ctx.cov["fetcher_conformance_%s" % tag], flush=True)
    return trace, result


def fetcher_stage(ctx):
    """The announced-block route to the importer: spec/Fetcher.tla, driver `fetcher`, Fetcher_Mon / Fetcher_Trace."""
    quick = ctx.quick
    ctx.assumptions += ["fetcher route: this fetcher asks for whole blocks by hash (no header/body filtering stage exists in the code); events are "
                        "observed at quiescence (one loop event, then every import it makes possible); interleavings of imports with further events "
                        "are not driven",
                        "fetcher route: hashLimit/blockLimit/distances are constants of the package (256/64/7/32): the limits are exercised with small "
                        "values at design level and hashLimit with a 260-announce flood on the real code; blockLimit is not reachable with a 4-block chain",
                        "fetcher route: time passes by rewriting announce timestamps on the loop goroutine (announces are stamped one hour ahead; "
                        "Wave makes them due and waits for the fetcher's own timer, Expire makes running fetches older than fetchTimeout)",
                        "fetcher route: the stub importer accepts a block iff its parent is known and its transactions match the header"]
    # M: weakened run over small limits; strict runs export the counterexamples of the known classes
    cex = []
    if not FETCHER_REPAIRED:
        for name, inv in (("body", "I_Body"), ("bound", "I_Bound")):
            m = ctx.tlc_must("Fetcher", "SPECIFICATION Spec\nINVARIANTS %s\nVIEW View\nCHECK_DEADLOCK FALSE\n" % inv +
                             f_consts(SMALL, ops=4, strict="TRUE"), name="FM_strict_" + name, timeout=900)
            got = [v for v in m.printed if isinstance(v, dict) and v.get("kind") == "CEX"]
            if got:
                cex.append((got[0]["clause"], got[0]["h"]))
                ctx.note("fetcher: design-level counterexample for %s (strict run) exported for replay" % got[0]["clause"])
    mviol = None
    for bad, depth in (((), 5 if quick else 6), ((4,), 4 if quick else 5)):
        m = ctx.tlc_must("Fetcher", "SPECIFICATION Spec\nINVARIANTS %s\nVIEW View\nCHECK_DEADLOCK FALSE\n" % F_ALL +
                         f_consts(SMALL, bad=bad, ops=depth, strict="TRUE" if FETCHER_REPAIRED else "FALSE"),
                         name="FM_bad%d" % len(bad), timeout=1800, coverage=not quick)
        mviol = mviol or m.violated
        for v in m.printed:
            if isinstance(v, dict) and v.get("kind") == "CEX":
                cex.append((v["clause"], v["h"]))
                break
    ctx.cov["fetcher_design_violation"] = mviol
    # witnesses and counterexamples first
    wit = []
    wdir = os.path.join(vlib.VERIF, "findings")
    for f in sorted(os.listdir(wdir)):
        if f.startswith("C18_fetcher_") and f.endswith(".json"):
            wit += json.load(open(os.path.join(wdir, f)))["behaviours"]
    first = wit + [h for _, h in cex]
    unreproduced = []
    if first:
        # counterexamples come from the small-limit model: they are judged by the monitor only
        _, res = fetcher_judge(ctx, first, (), "W", conformance=False)
        for clause, _ in cex:
            if not any(v[0] == clause for v in res.get("viol", [])):
                unreproduced.append(clause)
    # G2: simulated schedules (real limits), two chains: all headers good / the fork block's header bad
    rnd = random.Random(ctx.seed)
    for bad, num, keep in (((), 40 if quick else 400, 50 if quick else 500), ((4,), 30 if quick else 300, 40 if quick else 400)):
        tag = "G%d" % len(bad)
        g = ctx.tlc_must("Fetcher", G_CFG + f_consts(REAL, bad=bad, ops=8 if quick else 10, gen="leaf"), name="FG2_" + tag, timeout=900,
                         simulate={"num": num}, depth=(8 if quick else 10) + 2)
        seen, uniq = set(), []
        for v in g.printed:
            if isinstance(v, dict) and v.get("kind") == "B":
                k = json.dumps(v["h"], sort_keys=True)
                if k not in seen:
                    seen.add(k)
                    uniq.append(v["h"])
        rnd.shuffle(uniq)
        behs = uniq[:keep]
        if not bad:
            # the flood: one peer announces 260 hashes nobody can deliver, the timer asks for them, the fetches time out
            init = {"op": "Init", "peers": ["p1", "p2"], "n": 3, "forkat": 2, "bad": []}
            flood = [init] + [{"op": "Notify", "p": "p1", "b": 0, "nk": "zero"}] * 260 + [{"op": "Notify", "p": "p2", "b": 1, "nk": "true"}, {"op": "Wave"},
                                                                                        {"op": "Deliver", "p": "p2", "b": 1, "ok": True}, {"op": "Expire"}]
            behs = [flood] + behs
        for b in behs[1:2]:
            ctx.sample(b)
        trace, _ = fetcher_judge(ctx, behs, bad, tag)
        if not bad:
            keep_trace = trace
    if not quick:
        # binding self-test: a corrupted counter in a recorded snapshot must be rejected
        ev = vlib.read_ndjson(keep_trace)
        for i, e in enumerate(ev):
            if e.get("ev") == "Notify" and e["obs"]["ann"].get(e["args"]["p"], 0) > 0 and i > 300:
                e["obs"]["ann"][e["args"]["p"]] += 1
                bad_line = i + 1
                break
        else:
            bad_line = None
        if bad_line:
            pth = ctx.path("fetcher_trace_corrupt.ndjson")
            vlib.write_ndjson(pth, ev[:bad_line + 3])
            conf = ctx.tlc("Fetcher_Trace", T_CFG + f_consts(REAL, extra_peers=("hp",), ops=1000000), name="FConf_selftest",
                           files={"trace.ndjson": pth}, workers=1, timeout=600, count=False, xss="256m")
            rej = [v for v in conf.printed if isinstance(v, dict) and v.get("kind") == "REJECTED"]
            ctx.cov["fetcher_binding_selftest"] = "corrupted line %d rejected at line %s" % (bad_line, rej[0]["line"] if rej else None)
            if not rej or rej[0]["line"] != bad_line:
                raise vlib.Undecided("fetcher trace-checker self-test failed: corrupted counter not rejected")
    fired = ctx.cov.get("clauses_fired", {})
    idle = sorted(k for k in F_CLAUSES if not fired.get(k))
    if ctx.violations:
        return
    if idle:
        raise vlib.Undecided("fetcher monitor clauses never fired: %s" % idle)
    if unreproduced:
        raise vlib.Undecided("fetcher: design-level counterexample for %s did not reproduce on the real code: specification drift" % sorted(set(unreproduced)))
    if mviol:
        raise vlib.Undecided("fetcher: design-level violation %s in the weakened run" % mviol)


# ============================================================================ the fetchBodies/fetchParts loop (downloader.go)
L_CFG_SAFE = ("SPECIFICATION LSpec\nINVARIANTS NeverGivesUp DoneMeansAll InOrderGapFree EachOnce BodyMatchesHeader WorkNeverLost "
              "NoDoubleAssign NeverBroken\nCHECK_DEADLOCK FALSE\n")
L_CFG_LIVE = ("SPECIFICATION LLive\nPROPERTY LoopCompletes\nINVARIANTS NeverGivesUp DoneMeansAll InOrderGapFree EachOnce BodyMatchesHeader "
              "WorkNeverLost NoDoubleAssign NeverBroken\nCHECK_DEADLOCK FALSE\n")


def loop_scenarios(quick, rnd):
    """Chains with a run of empty blocks of every length 0..W+1 at the start, in the middle and at the end, several peer sets."""
    out = []
    peersets = [{"p1": "honest"}, {"p1": "stall", "p2": "honest"}, {"p1": "empty", "p2": "honest"}, {"p1": "liar", "p2": "honest"},
                {"p1": "stall", "p2": "empty", "p3": "honest"}, {"p1": "partial", "p2": "honest"}, {"p1": "honest", "p2": "honest"}]
    for w, maxp in ((2, 1), (3, 2)) if quick else ((2, 1), (2, 2), (3, 2), (4, 2), (4, 4)):
        for run in range(0, w + 2):
            for pre, post in ((0, 2), (1, 1), (2, 0), (1, 3)):
                body = [1 + (i % 3) for i in range(pre)] + [0] * run + [1 + ((i + 1) % 3) for i in range(post)]
                if not body:
                    continue
                sets = peersets if not quick else [peersets[0], peersets[rnd.randrange(1, len(peersets))]]
                for ps in sets:
                    for chunks in ([len(body)], [2, len(body)]) if not quick else ([len(body)],):
                        out.append({"n": len(body), "body": body, "w": w, "maxp": maxp, "scripts": ps, "chunks": chunks})
    # an honest peer that is slow once on a large request (time-out without being dropped) and is the only one with the blocks:
    # it must be asked again; long chains so that its measured throughput makes requests larger than two items
    for w, maxp in ((4, 4), (4, 2)) if quick else ((3, 3), (4, 4), (4, 2), (5, 5)):
        for n, empties in ((12, ()), (16, (5,)), (14, (2, 9))):
            body = [0 if i in empties else 1 + (i % 3) for i in range(n)]
            for ps in ({"p1": "slowbig"}, {"p1": "slowbig", "p2": "empty"}):
                out.append({"n": n, "body": body, "w": w, "maxp": maxp, "scripts": ps, "chunks": [n]})
    return out


def loop_stage(ctx):
    """spec/DlLoop.tla (design) and the real fetchBodies/fetchParts loop of a partial Downloader with scripted peers."""
    quick = ctx.quick
    ctx.assumptions += ["loop stage: the real fetchBodies/fetchParts loop of a partially constructed Downloader (real queue, peer set, peer connections) "
                        "runs against scripted peers (honest / stall / empty / liar / partial / slowbig = honest but slow once on a large request) with a consumer taking results as processFullSyncContent does; "
                        "its schedule (goroutines, 100 ms ticker, 45 ms request TTL) is not controlled: the verdict uses only the order-robust observables -- "
                        "the batches the consumer received and how the loop ended (a loop still running after 12 s -- scenarios end within a second -- is the "
                        "verdict 'hang', named peer_never_idle_again when an honest peer holds no request while its real activity flag is set); "
                        "every scenario has an honest peer"]
    # design level: chains with runs of empty blocks around the window size, one and two peers
    runs = [(1100, '"p1"', 4, 2), (1001, '"p1", "p2"', 4, 2)]
    if not quick:
        runs = [(code, ps, 4, 2) for code in (0, 1, 10, 11, 100, 101, 110, 111, 1000, 1001, 1010, 1011, 1100, 1101, 1110, 1111) for ps in ('"p1", "p2"',)]
        runs += [(code, '"p1"', 4, 2) for code in (0, 1000, 1100, 1110)]
        runs += [(10001, '"p1", "p2"', 5, 3), (11000, '"p1"', 5, 3), (10010, '"p1", "p2"', 5, 2)]
    runs += [(11011, '"p1", "p2"', 5, 3, 3)] + ([] if quick else [(1111, '"p1"', 4, 3, 3)])      # requests of three items: the slow-once time-out of an honest peer
    for run in runs:
        code, ps, n, w = run[:4]
        c = dict(name="L", N=n, body=code, W=w, maxp=2, peers=2, maxc=run[4] if len(run) > 4 else 2)
        text = consts(c, honest='"p1"', faults=2).replace('Peers = {"p1", "p2"}', "Peers = {%s}" % ps)
        m = ctx.tlc_must("DlLoop", L_CFG_LIVE + text, name="LM_%d_%d" % (code, ps.count("p")), timeout=900)
        if m.violated:
            raise vlib.Undecided("loop stage: design-level violation %s for chain %s" % (m.violated, code))
    scs = loop_scenarios(quick, random.Random(ctx.seed))
    spath = ctx.path("loop_scenarios.ndjson")
    vlib.write_ndjson(spath, scs)
    trace = ctx.path("loop_trace.ndjson")
    ctx.drive("dlloop", trace, opts={"beh": spath, "par": 16}, timeout=1200)
    ctx.cov["traces_validated_against_impl"] += len(scs)
    ctx.cov["evaluations"] += len(scs)
    ctx.cov["loop_scenarios"] = len(scs)
    result, _ = vlib.monitor(ctx, "DlQueue_Mon", "DlQueue_Mon.cfg", trace, name="LMon", behaviours=scs, replay_meta={"driver": "dlloop"})
    ctx.cov["loop_events"] = result.get("events", 0)
    ends = {}
    for e in vlib.read_ndjson(trace):
        if e.get("ev") == "LoopEnd":
            ends[e["res"]["err"]] = ends.get(e["res"]["err"], 0) + 1
    ctx.cov["loop_endings"] = ends
    ctx.cov["loop_slow_peer_timeouts"] = sum(e["res"].get("stalls", 0) for e in vlib.read_ndjson(trace) if e.get("ev") == "LoopEnd")
    if not ctx.cov["loop_slow_peer_timeouts"] and not ctx.violations:
        raise vlib.Undecided("loop stage: no scenario made the slow honest peer time out on a large request (vacuous)")


# ============================================================================ components of a block (sync modes, receipts)
def comp_stage(ctx):
    """spec/DlComp.tla: body and receipts as independent parts in full / fast / light mode, Schedule and ScheduleSingle; every
    behaviour up to the bound is replayed on the real queue (driver `dlcomp`), DlComp_Mon judges what Results handed out."""
    ctx.assumptions += ["component stage: all blocks carry transactions and receipts; one peer per part; ScheduleSingle only in light mode "
                        "(its only caller); the receipt path of the queue (ReserveReceipts / DeliverReceipts) is driven with the true lists"]
    behs = []
    for mode in ("full", "fast", "light"):
        c = 'CONSTANTS\n  N = %d\n  SyncMode = "%s"\n  MaxOps = 12\n  GenMode = "%s"\n'
        m = ctx.tlc_must("DlComp", "SPECIFICATION Spec\nINVARIANTS ComponentsMatched InOrder\nVIEW View\nCHECK_DEADLOCK FALSE\n" + c % (2 if ctx.quick else 3, mode, "none"),
                         name="CM_" + mode, timeout=600)
        if m.violated:
            raise vlib.Undecided("component stage: design-level violation %s in %s mode" % (m.violated, mode))
        g = ctx.tlc_must("DlComp", "INIT Init\nNEXT Next\nCONSTRAINT Leaf\nCHECK_DEADLOCK FALSE\n" + c % (2, mode, "leaf"), name="CG_" + mode, timeout=600)
        behs += [v["h"] for v in g.printed if isinstance(v, dict) and v.get("kind") == "B"]
    bpath = ctx.path("comp_behaviours.ndjson")
    vlib.write_ndjson(bpath, behs)
    trace = ctx.path("comp_trace.ndjson")
    info = ctx.drive("dlcomp", trace, behaviours=bpath)
    for a in info["aborts"]:
        ctx.report("C18/NoPanic/process_abort", vlib.save_behaviour_replay(ctx, "C18/NoPanic/process_abort", bpath, a["b"], {"driver": "dlcomp"}), a)
    ctx.cov["traces_validated_against_impl"] += len(behs)
    ctx.cov["evaluations"] += len(behs)
    ctx.cov["comp_behaviours"] = len(behs)
    result, _ = vlib.monitor(ctx, "DlComp_Mon", "DlComp_Mon.cfg", trace, name="CMon", behaviours=bpath, replay_meta={"driver": "dlcomp"})
    if not result.get("fired", {}).get("BodyMatchesHeader") and not ctx.violations:
        raise vlib.Undecided("component stage: no result was handed out (vacuous)")


def replay(ctx, path):
    data = json.load(open(path))
    for i, b in enumerate(data["behaviours"]):
        if data.get("meta", {}).get("driver") == "dlcomp" or (isinstance(b, list) and b and "mode" in b[0]):
            bp = ctx.path("comp_behaviours.ndjson")
            vlib.write_ndjson(bp, [b])
            tr = ctx.path("comp_trace.ndjson")
            ctx.drive("dlcomp", tr, behaviours=bp)
            vlib.monitor(ctx, "DlComp_Mon", "DlComp_Mon.cfg", tr, name="CMon", behaviours=bp, replay_meta={"driver": "dlcomp"})
        elif data.get("meta", {}).get("driver") == "dlloop" or (isinstance(b, dict) and "scripts" in b):
            spath = ctx.path("loop_scenarios.ndjson")
            vlib.write_ndjson(spath, [b])
            trace = ctx.path("loop_trace.ndjson")
            ctx.drive("dlloop", trace, opts={"beh": spath})
            vlib.monitor(ctx, "DlQueue_Mon", "DlQueue_Mon.cfg", trace, name="LMon", behaviours=[b], replay_meta={"driver": "dlloop"})
        elif data.get("meta", {}).get("driver") == "fetcher" or "forkat" in b[0]:
            fetcher_judge(ctx, [b], tuple(b[0].get("bad", [])), "R%d" % i)
        else:
            judge(ctx, cfg_of_init(b[0]), [b], "R%d" % i)
