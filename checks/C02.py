"""C02 -- an honest validator never signs two conflicting votes, even across restarts.

M   : spec/Voter.tla (design layer = voter.go vote path + vote_cache.go, crash points inside every run) checked
      exhaustively with a guessed target (kind, round, index):
        M_*          the design as repaired in /repo (commits aea030d, 0272f73, 69e4cfb: Repair = certReload, replayMoves,
                     noBackward), the four invariants as stated -> must hold
        M_before_fix the design as it was coded before those commits, invariants as stated -> TLC's counterexamples are the
                     design-level argument for the fixes; they are exported and replayed on the real code, where they must
                     now pass (information only: this run never decides the exit code)
G1  : every behaviour up to a length over a reduced alphabet (crash points included: right before the first write, after
      every write, after every post), printed as JSON.
GA  : every behaviour of two small alphabets: next-index votes only with TWO crashes; re-entry of an earlier (round, index)
      without a restart (Back), no crash.
GV  : one shortest behaviour into every distinct design state right after a restart + first event (all reachable disks).
G2  : `tlc -simulate` over the rich alphabet (3 rounds x 3 indices, certificate round, several crashes).
T   : the driver `voter` steps every behaviour through the real ucon.Voter/VoteDB (exported constructor, crash-injecting
      database, restart = NewVoter on the same database); Voter_Mon (property layer, the verdict) and Voter_Trace
      (conformance of disk records, emitted votes, latches and VoteDB marks to the design layer: drift) judge the trace.
"""
import json
import os
import random
import vlib

CFG = """%(head)s
CONSTANTS
  MaxR = %(MaxR)d
  MaxI = %(MaxI)d
  Blocks = {"A", "B"}
  MaxCrash = %(MaxCrash)d
  CertRounds = %(Cert)s
  QKinds = %(QKinds)s
  MaxQ = %(MaxQ)d
  Repair = %(Repair)s
  Mode = "%(Mode)s"
  MaxOps = %(MaxOps)d
  GVAfter = %(GVAfter)d
  StepSet = %(StepSet)s
  Back = %(Back)s
  Weaken = %(Weaken)s
%(tail)s
CHECK_DEADLOCK FALSE
"""
INVS = "INVARIANT OnePrevote\nINVARIANT OnePrecommit\nINVARIANT OneCertificate\nINVARIANT AtMostTwoNext\nINVARIANT DiskSane\nVIEW View"
ALLK = '{"Prevote", "Precommit", "Next", "Cert"}'
REPAIRS = '{"certReload", "replayMoves", "noBackward"}'


def cfg(mode, **kw):
    d = dict(MaxR=1, MaxI=2, MaxCrash=1, Cert="{}", QKinds=ALLK, MaxQ=2, Repair=REPAIRS, Mode=mode, MaxOps=0, Weaken="FALSE", GVAfter=1, StepSet="{2, 4, 5}", Back="TRUE")
    d.update(kw)
    if mode == "M":
        d["head"], d["tail"] = "SPECIFICATION Spec", INVS
    elif mode == "GV":
        d["head"], d["tail"] = "SPECIFICATION Spec", "INVARIANT LeafV\nVIEW View"
    else:
        d["head"], d["tail"] = "INIT Init\nNEXT Next", "CONSTRAINT Leaf"
    return CFG % d


def nontrivial(beh):
    """A behaviour is non-trivial when it has a crash, a restart and an action that can vote after the restart."""
    seen_restart = False
    for op in beh:
        if op["op"] == "Restart":
            seen_restart = True
        elif seen_restart and op["op"] in ("Ctx", "Quorum"):
            return True
    return False


def witnesses():
    behs = []
    wdir = os.path.join(vlib.VERIF, "findings")
    for f in sorted(os.listdir(wdir)) if os.path.isdir(wdir) else []:
        if f.startswith("C02_") and f.endswith(".json"):
            behs += json.load(open(os.path.join(wdir, f)))["behaviours"]
    return behs


def design(ctx):
    """The exhaustive design-level runs.  Returns (behaviours to replay, clause violated before the fixes, all M runs held)."""
    quick = ctx.quick
    cex = []
    runs = []
    if quick:
        runs.append(("M_repaired", dict(MaxQ=1, Back="FALSE")))
        runs.append(("M_repaired_back", dict(MaxQ=1, QKinds='{"Prevote"}')))          # with re-entry of earlier contexts
        runs.append(("M_repaired_cert", dict(MaxI=1, Cert="{1}")))
    else:
        runs.append(("M_repaired", dict(MaxQ=2, MaxCrash=2, Back="FALSE")))
        runs.append(("M_repaired_back", dict(MaxQ=1)))
        runs.append(("M_repaired_cert", dict(Cert="{1}", Back="FALSE")))
        runs.append(("M_repaired_2rounds", dict(MaxR=2, MaxQ=1, Back="FALSE")))
    ok = True
    zero = set()
    for name, kw in runs:
        m = ctx.tlc_must("Voter", cfg("M", **kw), name=name, timeout=3000, coverage=(not quick and name == "M_repaired_cert"))
        if m.violated:
            # the design fails: export, replay, let the real code decide
            ok = False
            ctx.cov["design_violation"] = m.violated
            for v in m.printed:
                if isinstance(v, dict) and v.get("kind") == "CEX":
                    cex.append(v["h"])
                    ctx.note("design-level counterexample for %s (target %s) exported for replay" % (v.get("clause"), v.get("tgt")))
        if getattr(m, "zero_actions", None):
            zero |= set(m.zero_actions)
    ctx.cov["exhaustive"] = ok
    if zero:
        ctx.cov["coverage_zero_actions"] = sorted(zero)
    # the design as coded BEFORE the fix commits, invariants as stated: the argument for the fixes.  Its counterexamples
    # are replayed on the real code like any other behaviour (they must pass now); the run itself decides nothing.
    ms = ctx.tlc("Voter", cfg("M", Repair="{}", Cert="{1}", MaxI=2, Back="FALSE"), name="M_before_fix", timeout=1500, count=False)
    before = ms.violated
    for v in ms.printed:
        if isinstance(v, dict) and v.get("kind") == "CEX":
            cex.append(v["h"])
    ctx.cov["design_violation_before_fix"] = before
    return cex, before, ok


def generate(ctx):
    quick = ctx.quick
    behs = witnesses()
    nw = len(behs)
    cex, before, ok = design(ctx)
    behs += cex
    nc = len(behs)
    # G1: bounded exhaustive, reduced alphabets
    g1 = [ctx.tlc_must("Voter", cfg("G", QKinds='{"Prevote", "Next"}', MaxQ=1, MaxOps=6 if quick else 7, Back="FALSE"), name="G1_bounded", timeout=1500)]
    g1.append(ctx.tlc_must("Voter", cfg("G", MaxI=1, Cert="{1}", QKinds='{"Prevote", "Precommit", "Cert"}', MaxQ=3, MaxOps=6 if quick else 7, Back="FALSE"),
                           name="G1_cert", timeout=1500))
    rnd = random.Random(ctx.seed)
    for g in g1:
        hs = [v["h"] for v in g.printed if isinstance(v, dict) and v.get("kind") == "B"]
        hs.sort(key=lambda h: json.dumps(h, sort_keys=True))
        cap = 4000 if quick else 60000
        if len(hs) > cap:
            rnd.shuffle(hs)
            hs = hs[:cap]
        behs += hs
    # GV: one behaviour into every distinct state right after the restarted node processed its first event(s): every reachable
    # combination of the five disk records (two rounds x two indices; certificate round) with every restart round and
    # every vote-capable first event -- the restore logic of NewVoteDB depends on nothing else
    gv = [("GV", "GV_rounds", dict(MaxR=2, MaxI=2, QKinds='{"Prevote"}', MaxQ=1, GVAfter=1 if quick else 2, Back="FALSE")),
          ("GV", "GV_cert", dict(MaxI=2, Cert="{1}", QKinds='{"Prevote", "Precommit"}', MaxQ=2, GVAfter=1 if quick else 2, Back="FALSE")),
          # every behaviour (history matters, not only the state reached) of two small alphabets:
          # next-index votes only, TWO crashes (which slot a record goes to depends on what the restarted VoteDB holds)
          ("GA", "G1_next_2crashes", dict(MaxI=1, MaxCrash=2, QKinds='{"Prevote"}', MaxQ=1, StepSet="{4}", Back="FALSE",
                                          MaxOps=11 if quick else 12)),
          # re-entry of an EARLIER (round, index) without a restart (Server.Resume, stale ContextChangeEvent), no crash
          ("GA", "G1_context_back", dict(MaxR=2, MaxI=2, MaxCrash=0, QKinds='{"Prevote"}', MaxQ=1, StepSet="{2, 4}", Back="TRUE",
                                         MaxOps=6 if quick else 7))]
    for mode, name, kw in gv:
        g = ctx.tlc_must("Voter", cfg(mode, **kw), name=name, timeout=1500, count=False)
        hs = [v["h"] for v in g.printed if isinstance(v, dict) and v.get("kind") == "B"]
        if mode == "GA":
            pref = set()
            for h in hs:
                for n in range(1, len(h)):
                    pref.add(json.dumps(h[:n], sort_keys=True))
            hs = [h for h in hs if json.dumps(h, sort_keys=True) not in pref]
        hs.sort(key=lambda h: json.dumps(h, sort_keys=True))
        cap = 8000 if quick else 40000
        if len(hs) > cap:
            rnd.shuffle(hs)
            hs = hs[:cap]
        behs += hs
    n1 = len(behs)
    # G2: simulation over the rich alphabet
    depth = 16 if quick else 24
    num = 150 if quick else 1500
    g2 = ctx.tlc_must("Voter", cfg("G", MaxR=3, MaxI=3, MaxCrash=3, Cert="{2}", MaxQ=3, MaxOps=depth, Back="FALSE"), name="G2_simulate",
                      timeout=1500, simulate={"num": num}, depth=depth + 2)
    sim = [v["h"] for v in g2.printed if isinstance(v, dict) and v.get("kind") == "B"]
    sim.sort(key=lambda h: json.dumps(h, sort_keys=True))
    rnd.shuffle(sim)
    behs += sim[:(1500 if quick else 15000)]
    ctx.note("behaviours: %d witnesses, %d design counterexamples, %d bounded-exhaustive, %d simulated" % (nw, nc - nw, n1 - nc, len(behs) - n1))
    return behs, before, ok


def judge(ctx, behs):
    bpath = ctx.path("behaviours.ndjson")
    vlib.write_ndjson(bpath, behs)
    trace = ctx.path("trace.ndjson")
    info = ctx.drive("voter", trace, behaviours=bpath)
    ctx.cov["traces_validated_against_impl"] += len(behs)
    ctx.cov["evaluations"] += len(behs)
    ctx.cov["distinct_nontrivial"] += len({json.dumps(b, sort_keys=True) for b in behs if nontrivial(b)})
    # T (verdict): property-layer monitor on the votes that really left the node
    res, _ = vlib.monitor(ctx, "Voter_Mon", "Voter_Mon.cfg", trace, behaviours=bpath, replay_meta={"driver": "voter"})
    for a in info["aborts"]:
        ctx.note("behaviour %s aborted the process: %s" % (a["b"], a["msg"]))
    # T (drift): conformance to the design layer
    conf = ctx.tlc("Voter_Trace", "Voter_Trace.cfg", name="Conf", files={"trace.ndjson": trace}, workers=1,
                   timeout=1500, count=False, xss="256m")
    acc = [v for v in conf.printed if isinstance(v, dict) and v.get("kind") == "ACCEPTED"]
    rej = [v for v in conf.printed if isinstance(v, dict) and v.get("kind") == "REJECTED"]
    if acc:
        ctx.cov["conformance"] = "accepted %d events" % acc[0]["events"]
    else:
        ctx.cov["drift_events"] += 1
        ctx.cov["conformance"] = "rejected: %s" % (json.dumps(rej[0])[:800] if rej else (conf.error or conf.violated or "no verdict"))
        print("DRIFT: property=C02 the real Voter/VoteDB left the design layer of Voter.tla: %s" % ctx.cov["conformance"], flush=True)
    return trace, res


def selftest(ctx, trace):
    """Binding self-test: corrupting one recorded disk record must make the conformance spec reject at that line."""
    ev = vlib.read_ndjson(trace)
    bad = None
    for i, e in enumerate(ev):
        if e.get("ev") == "Ctx" and e.get("sent") and "disk" in e:
            e["disk"]["Prevote1"] = [e["disk"]["Prevote1"][0], e["disk"]["Prevote1"][1] + 1]
            bad = i + 1
            break
    if bad is None:
        return
    p = ctx.path("trace_corrupt.ndjson")
    vlib.write_ndjson(p, ev[:bad + 5])
    conf = ctx.tlc("Voter_Trace", "Voter_Trace.cfg", name="Conf_selftest", files={"trace.ndjson": p}, workers=1,
                   timeout=600, count=False, xss="256m")
    rej = [v for v in conf.printed if isinstance(v, dict) and v.get("kind") == "REJECTED"]
    ok = bool(rej) and rej[0]["line"] == bad
    # and the monitor must notice a forged second prevote
    ev2 = vlib.read_ndjson(trace)
    forged = None
    for i, e in enumerate(ev2):
        if e.get("ev") == "Ctx" and any(v["k"] == "Prevote" for v in e.get("sent", [])):
            v = [x for x in e["sent"] if x["k"] == "Prevote"][0]
            e["sent"].append({"k": "Prevote", "r": v["r"], "i": v["i"], "b": "B" if v["b"] != "B" else "A"})
            forged = i + 1
            break
    mon_ok = None
    if forged:
        p2 = ctx.path("trace_forged.ndjson")
        vlib.write_ndjson(p2, ev2[:forged + 1])
        r = ctx.tlc("Voter_Mon", "Voter_Mon.cfg", name="Mon_selftest", files={"trace.ndjson": p2, "known.json": "[]"}, workers=1,
                    timeout=600, count=False, check_deadlock=False)
        out = [v for v in r.printed if isinstance(v, dict) and v.get("kind") == "RESULT"]
        mon_ok = bool(out) and any(x[0] == "OnePrevote" and "same_process" in x[1] for x in out[0]["viol"])
    ctx.cov["binding_selftest"] = "corrupted disk record at line %d rejected at line %s; forged second prevote flagged by the monitor: %s" % (
        bad, rej[0]["line"] if rej else None, mon_ok)
    if not ok or mon_ok is False:
        raise vlib.Undecided("trace-checker self-test failed: %s" % ctx.cov["binding_selftest"])


def run(ctx):
    ctx.cov["rule"] = ("behaviours = stored witnesses + design counterexamples + every behaviour of the reduced alphabets to the G1 "
                       "length (crash points inside runs included) + simulated rich behaviours; non-trivial = contains a restart and "
                       "a vote-capable action after it; distinct by JSON of the action sequence")
    ctx.assumptions += [
        "one validator; sortition stubbed: always selected with weight 1 (threshold 10, quorum 6); a 'quorum' is one signed vote of weight 10 from a sender that never equivocates",
        "signing without BLS (EnableBls=false in the stubbed parameters): the persisted marks, not the signature scheme, are the mechanism",
        "contexts follow the engine: steps only grow inside a visit of a (round, index), a new index/round starts at step 0, a restart "
        "puts the engine at (head+1, 1) with head never decreasing; (round, index) grows while the process runs -- except in the "
        "alphabets with Back = TRUE, where the engine may re-enter any earlier (round, index) at step 0 without a restart "
        "(Server.Resume after a sync, a stale ContextChangeEvent); at most four contexts there (the voter keeps four wrappers)",
        "every round number is handed to the code as a fresh big.Int on every event (no object shared with what the Voter/VoteDB holds)",
        "every proposal is in the proposal cache (blockInCacheFn never returns nil)",
        "votes are compared as a set of (kind, round, index, hash): re-signing the same hash is not a second vote",
        "crash = the process dies right after or right before a database write of the run; nothing else survives but the database",
    ]
    behs, before, ok = generate(ctx)
    for b in behs[:3]:
        ctx.sample(b)
    trace, res = judge(ctx, behs)
    if not ctx.quick:
        selftest(ctx, trace)
    fired = ctx.cov.get("clauses_fired", {})
    for c in ("OnePrevote", "OnePrecommit", "OneCertificate", "AtMostTwoNext"):
        if not fired.get(c):
            raise vlib.Undecided("clause %s never fired: generator bug" % c)
    if not ok and not ctx.violations and not ctx.known_hits:
        raise vlib.Undecided("design-level counterexample (%s) did not reproduce on the real code: specification drift" % ctx.cov.get("design_violation"))


def replay(ctx, path):
    data = json.load(open(path))
    judge(ctx, data["behaviours"])
