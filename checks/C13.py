"""C13 -- the Merkle-Patricia trie is a faithful, canonical, provable key-value map.

M  : spec/Trie.tla, "db" alphabet (updates, deletes, commit, reference, dereference, cap, database commit, reopen, restart) over
     3 keys x 2 values, exhaustive to depth D: LiveIsReadable, BaseIsReadable, GcLosesNothing, ReopenYieldsSnapshot, CommitSnapshots.
G1 : every behaviour of the "content" alphabet (4 keys with nibble-prefix structure x 2 values, each behaviour ends with a proof of
     every key) and of the "db" alphabet up to the G1 depth, printed as JSON.
G2 : `tlc -simulate` over the garbage-collection alphabet (commit+reference, dereference, cap, database commit, reopen on keys that
     share sub-tries) and over the full alphabet (8 keys x 5 values + empty value, live-handle Get/Hash/Iterate/Prove, partial Cap).
T  : the driver `trie` steps every behaviour through the real trie.Trie / trie.SecureTrie / trie.Database over a memory youdb and
     records, after every action, Get of every key, the full iteration, the root, the reference root, proofs with the answers of
     VerifyProof over all tampered variants, and what every committed root still reads; spec/Trie_Mon.tla (the verdict) folds the
     actions through Trie!Apply and judges the clauses.  The model IS the property here, so the monitor is also the conformance
     check (DESIGN section 4); there is no separate drift spec.
"""
import json
import os
import random
import vlib

M_CFG = """SPECIFICATION Spec
CONSTANTS
  Keys = {1, 2, 3}
  Vals = {1, 2}
  MaxOps = %d
  MaxRoots = 3
  MaxRefs = 2
  Alphabet = "db"
  GenMode = "none"
INVARIANTS LiveIsReadable BaseIsReadable
PROPERTIES GcLosesNothing ReopenYieldsSnapshot CommitSnapshots
VIEW View
CHECK_DEADLOCK FALSE
"""

G_CFG = """INIT Init
NEXT Next
CONSTANTS
  Keys = {%s}
  Vals = {%s}
  MaxOps = %d
  MaxRoots = %d
  MaxRefs = 2
  Alphabet = "%s"
  GenMode = "leaf"
CONSTRAINT Leaf
CHECK_DEADLOCK FALSE
"""

RULE = ("behaviours = published vectors + stored witnesses + every behaviour of the content alphabet (each ending with a proof of "
        "every key) and of the db alphabet to the G1 depth + simulated full-alphabet behaviours, each run on the plain trie and "
        "(sampled) on the secure trie; non-trivial = at least two updates and one of delete / empty-value update / reopen / "
        "restart / proof; distinct by JSON of (variant, action sequence)")


def nontrivial(b):
    ops = b.get("ops") or []
    ups = sum(1 for o in ops if o["op"] == "Update" and o.get("v", 0) != 0)
    other = any(o["op"] in ("Delete", "Reopen", "Restart", "Prove") or (o["op"] == "Update" and o.get("v", 0) == 0) for o in ops)
    return ups >= 2 and other


def hists(res):
    return [v["h"] for v in res.printed if isinstance(v, dict) and v.get("kind") == "B"]


def generate(ctx):
    quick = ctx.quick
    rnd = random.Random(ctx.seed)
    behs = [{"kind": "vectors"}]
    wdir = os.path.join(vlib.VERIF, "findings")
    for f in sorted(os.listdir(wdir)) if os.path.isdir(wdir) else []:
        if f.startswith("C13_") and f.endswith(".json"):
            behs += json.load(open(os.path.join(wdir, f)))["behaviours"]
    nw = len(behs)

    # M: the model's own invariants
    m = ctx.tlc_must("Trie", M_CFG % (8 if quick else 10), name="M_design", timeout=1500, coverage=not quick)
    ctx.cov["exhaustive"] = m.ok
    ctx.cov["design_violation"] = m.violated
    if getattr(m, "zero_actions", None):
        ctx.cov["coverage_zero_actions"] = m.zero_actions
    if m.violated:
        raise vlib.Undecided("the map/node-database model violates its own invariant %s (specification error)" % m.violated)

    def add(hs, variant, tamper_every, limit=None):
        if limit is not None and len(hs) > limit:
            hs = rnd.sample(hs, limit)
        for i, h in enumerate(hs):
            if variant in ("plain", "both"):
                behs.append({"kind": "ops", "variant": "plain", "cachelimit": 0,
                             "tamper": (1 if quick else 2) if i % tamper_every == 0 else 0, "ops": h})
            if variant in ("secure", "both"):
                behs.append({"kind": "ops", "variant": "secure", "cachelimit": rnd.choice([0, 1, 2]),
                             "tamper": (1 if quick else 2) if i % tamper_every == 0 else 0, "ops": h})

    # G1a: content alphabet, keys with nibble-prefix structure (0x12, 0x1234, 0x1235, 32-byte extension of 0x1234); values 1 and 33 bytes
    if quick:
        h1a = []
        for nm, vals, depth in (("a", "1, 4", 3), ("b", "4", 4), ("c", "1", 4)):
            h1a += hists(ctx.tlc_must("Trie", G_CFG % ("1, 2, 3, 4", vals, depth, 0, "content"), name="G1_content_" + nm, timeout=1500))
    else:
        h1a = hists(ctx.tlc_must("Trie", G_CFG % ("1, 2, 3, 4", "1, 4", 4, 0, "content"), name="G1_content", timeout=1500))
    add(h1a, "plain", 16)
    # G1a': the other half of the key table (0x1f, two 32-byte keys differing in the last nibble, the empty key), values of 31 and 60 bytes sharing a 31-byte prefix
    g1c = ctx.tlc_must("Trie", G_CFG % ("5, 6, 7, 8", "2, 5", 3 if quick else 4, 0, "content"), name="G1_content2", timeout=1500)
    h1c = hists(g1c)
    add(h1c, "plain", 8)
    if not quick:
        add(h1c, "secure", 8, limit=6000)
    if not quick:
        add(h1a, "secure", 16, limit=6000)
        g1d = ctx.tlc_must("Trie", G_CFG % ("1, 2, 3", "1, 4", 5, 0, "content"), name="G1_content_deep", timeout=1500)
        add(hists(g1d), "plain", 64, limit=10000)
    # G1b: node-database alphabet
    g1b = ctx.tlc_must("Trie", G_CFG % ("2, 3", "3", 5 if quick else 6, 2, "db"), name="G1_db", timeout=1500)
    h1b = hists(g1b)
    add(h1b, "plain", 1 << 30, limit=5000 if quick else 15000)
    add(h1b, "secure", 1 << 30, limit=1500 if quick else 8000)
    # G1gc: bounded-exhaustive garbage-collection schedules (content-changing updates/deletes, commit+reference, dereference; nothing
    # flushed, so shared nodes live in the memory layer only) over prefix-heavy key sets: an extension sits above a branch, and
    # adding/removing a key splits or shortens that extension, so that two committed roots share the branch below DIFFERENT extensions
    for r, (keys, val) in enumerate([("2, 3, 5", "3"), ("5, 6, 7", "4"), ("1, 2, 3, 4", "3")]):
        g = ctx.tlc_must("Trie", G_CFG % (keys, val, 9 if (quick or r == 2) else 10, 3, "gcx"), name="G1_gcx%d" % r, timeout=1500)
        add(hists(g), "plain", 1 << 30)
        if not quick:
            add(hists(g), "secure", 1 << 30, limit=800)
    n1 = len(behs)

    # G2gc: simulation over the garbage-collection alphabet (commit + reference as core/blockchain.go does with every block,
    # dereference, cap, database commit, reopen) on keys that share sub-tries, so that roots in memory share nodes
    for r, (keys, vals) in enumerate([("2, 3, 5", "3"), ("2, 3, 4, 6, 7", "4"), ("1, 2, 3, 5", "2, 3")][:2 if quick else 3]):
        g = ctx.tlc_must("Trie", G_CFG % (keys, vals, 14 if quick else 20, 5, "gc"), name="G2_gc%d" % r, timeout=1500,
                         simulate={"num": 150 if quick else 1500}, depth=(14 if quick else 20) + 3)
        sim = hists(g)
        rnd.shuffle(sim)
        add(sim[:(400 if quick else 2500)], "plain", 1 << 30)
        add(sim[:(100 if quick else 600)], "secure", 1 << 30)

    # G2: simulation over the full alphabet; several key/value subsets per seed so that root operations are not drowned
    depth = 24 if quick else 40
    for r in range(3 if quick else 8):
        keys = sorted(rnd.sample(range(1, 9), 5 if r % 2 == 0 else 4))
        vals = sorted(rnd.sample(range(1, 6), 2 if r % 2 == 0 else 3))
        g2 = ctx.tlc_must("Trie", G_CFG % (", ".join(map(str, keys)), ", ".join(map(str, vals)), depth, 4, "full"),
                          name="G2_sim%d" % r, timeout=1500, simulate={"num": 60 if quick else 300}, depth=depth + 1)
        sim = hists(g2)
        rnd.shuffle(sim)
        add(sim[:(150 if quick else 700)], "both", 2)
    ctx.note("behaviours: %d vectors/witnesses, %d bounded-exhaustive, %d simulated" % (nw, n1 - nw, len(behs) - n1))
    return behs


def judge(ctx, behs):
    bpath = ctx.path("behaviours.ndjson")
    vlib.write_ndjson(bpath, behs)
    trace = ctx.path("trace.ndjson")
    info = ctx.drive("trie", trace, behaviours=bpath, timeout=1500)
    ctx.cov["traces_validated_against_impl"] += len(behs)
    ctx.cov["evaluations"] += len(behs)
    ctx.cov["distinct_nontrivial"] += len({json.dumps(b, sort_keys=True) for b in behs if nontrivial(b)})
    result, _ = vlib.monitor(ctx, "Trie_Mon", "Trie_Mon.cfg", trace, behaviours=bpath, replay_meta={"driver": "trie"}, timeout=2400,
                             heap="8g")
    if not result.get("tableok", False):
        raise vlib.Undecided("the driver's key/value tables do not agree with spec/Trie.tla")
    ctx.cov["distinct_contents_grouped"] = result.get("contents", 0)
    for a in info["aborts"]:
        ctx.report("C13/NoPanic/process_abort", vlib.save_behaviour_replay(ctx, "C13/NoPanic/process_abort", bpath, a["b"], {}), a)
    return trace, result


def selftest(ctx, trace):
    """Binding self-test: corrupting one recorded value / one recorded root must make the monitor report it."""
    ev = vlib.read_ndjson(trace)
    out, bad = [], {}
    for e in ev:
        if len(bad) == 0 and e.get("ev") == "Update" and "obs" in e and any(e["obs"]["get"]):
            e = json.loads(json.dumps(e))
            i = next(i for i, v in enumerate(e["obs"]["get"]) if v)
            e["obs"]["get"][i] = 0
            bad["get"] = len(out) + 1
        elif len(bad) == 1 and e.get("ev") == "Delete" and "obs" in e:
            e = json.loads(json.dumps(e))
            e["obs"]["root"] = "00" + e["obs"]["root"][2:]
            bad["root"] = len(out) + 1
        out.append(e)
        if len(bad) == 2 and len(out) > max(bad.values()) + 3:
            break
    p = ctx.path("trace_corrupt.ndjson")
    vlib.write_ndjson(p, out)
    sub = vlib.Ctx.__new__(vlib.Ctx)
    sub.__dict__.update(ctx.__dict__)
    sub.violations, sub.known_hits, sub.cov = [], {}, dict(ctx.cov, clauses_fired={})
    res, _ = vlib.monitor(sub, "Trie_Mon", "Trie_Mon.cfg", p, name="Mon_selftest")
    lines = {(v[0], v[2]) for v in res.get("viol", [])}
    ok = ("GetEqualsModel", bad.get("get")) in lines and ("RootIsStandard", bad.get("root")) in lines
    ctx.cov["binding_selftest"] = "corrupted get at line %s and root at line %s: monitor reported %s" % (
        bad.get("get"), bad.get("root"), sorted(lines))
    if not ok:
        raise vlib.Undecided("monitor self-test failed: corrupted fields not reported (%s)" % ctx.cov["binding_selftest"])


def run(ctx):
    ctx.cov["rule"] = RULE
    ctx.assumptions += [
        "key table of 8 keys chosen for nibble structure (0x12 / 0x1234 / 0x1235 / 32-byte extension / 0x1f / two 32-byte keys "
        "differing in the last nibble / the empty key); values of 1, 31, 32, 33, 60 bytes and the empty value",
        "the node database is driven the way core/blockchain.go does: only committed roots are referenced, only referenced roots are "
        "dereferenced, and the root an open trie was loaded from is not garbage-collected while the trie is in use",
        "one open trie handle at a time; observations are taken from a private copy of the handle",
        "RootIsStandard uses an auxiliary oracle OUTSIDE the TLA+ specification: six published Ethereum trie vectors and an "
        "independent ~100-line reference root calculator (own RLP and hex-prefix code; Keccak-256 primitive shared)",
        "tampered proofs: the verifier's node table is rebuilt by hashing the blobs (interpretation note 'Tampered proof'); "
        "every proof byte is xor-ed with 1 (quick) or 2 (thorough) masks and every node substituted by every other node of the trie",
        "SecureTrie.Prove and VerifyProof are given the hashed key, as their callers do",
        "every proof is also produced into a sink that retains the slices it is handed (as core/state.proofList does) and verified "
        "after Prove returned and after a second Prove on the same trie; StateDB.GetProof / GetStorageProof are driven on a small "
        "committed state (5 accounts, 4 slots, present and absent keys) and their proofs verified the way a light client does",
        "values returned by Get are retained as returned and compared one action later (they are shared with the trie's nodes and "
        "must not change under it); iterator values are not judged this way: NodeIterator documents that LeafBlob must not be "
        "retained across Next",
        "per-step roots are recorded as their first 80 bits (published vectors and DeriveSha carry all 256)",
    ]
    behs = generate(ctx)
    for b in [b for b in behs if b.get("kind") == "ops"][:2] + behs[-1:]:
        ctx.sample(b)
    trace, result = judge(ctx, behs)
    never = sorted(k for k, n in (result.get("fired") or {}).items() if n == 0)
    if never:
        ctx.note("clauses that never fired: %s" % never)
        ctx.cov["clauses_never_fired"] = never
    if not ctx.quick:
        selftest(ctx, trace)


def replay(ctx, path):
    data = json.load(open(path))
    judge(ctx, data["behaviours"])
