"""C16 -- failed EVM calls leave no trace; value and gas are accounted exactly.

M  : spec/EvmFrames.tla over every program tree of a tiny library: ValueConserved, NonNegative, StaticChangesNothing,
     FailedFrameLeavesNoTrace, LogsFromLiveFrames in every state of every execution.
G1 : the same run prints every program with the world the model predicts (a seeded sample is replayed in the quick tier).
G2 : `tlc -simulate` over the rich alphabet (three contracts, CALL/CALLCODE/DELEGATECALL/STATICCALL/CREATE/CREATE2,
     SELFDESTRUCT to every kind of beneficiary, starved calls, depth 3).
G3 : gas-allotment sweeps: hand-written nested programs (executed by the model for their predictions) and generated programs
     with creations / value calls into storing code are first run with ample gas; from the measured consumption of a frame
     (for creations: init code and code deposit separately) the driver derives boundary allotments (used-1, used, used+1,
     init-1, init, init+1, inside the deposit window, 0, 1, 2, 2300, 2301, 5000, random points) and re-runs the program with
     the gas forwarded to that frame set to each of them.
T  : the driver `evmframes` compiles each program to bytecode, deploys it into a real StateDB (first transaction on a
     reopened state, and second transaction after another one and Finalise), runs it with the real EVM and a tracer;
     spec/EvmFrames_Mon.tla judges the recorded run.
"""
import json
import os
import random

import vlib

CFG = """SPECIFICATION Spec
CONSTANTS
  Contracts = {%(contracts)s}
  Plain = {%(plain)s}
  MaxDepth = %(depth)d
  MaxOps = %(ops)d
  MaxTokens = %(tokens)d
  Alphabet = "%(alpha)s"
  MaxLvl = 5
  GenMode = "%(gen)s"
INVARIANTS TypeOK ValueConserved NonNegative StaticChangesNothing LogsFromLiveFrames
PROPERTY FailedFrameLeavesNoTrace
CONSTRAINT GasAmple
CONSTRAINT Leaf
CHECK_DEADLOCK FALSE
"""

MON_CFG = """INIT MonInit
NEXT MonStep
CONSTRAINT Done
CHECK_DEADLOCK FALSE
"""

GIVEN_CFG = """INIT InitGiven
NEXT Next
CONSTANTS
  Contracts = {"A", "B", "C"}
  Plain = {"E", "N"}
  MaxDepth = 4
  MaxOps = 4
  MaxTokens = 26
  Alphabet = "rich"
  MaxLvl = 5
  GenMode = "leaf"
INVARIANTS TypeOK ValueConserved NonNegative StaticChangesNothing LogsFromLiveFrames
PROPERTY FailedFrameLeavesNoTrace
CONSTRAINT Leaf
CHECK_DEADLOCK FALSE
"""


def C(kind, to, val=0, gas="all"):
    return {"t": "CALL", "kind": kind, "to": to, "val": val, "gas": gas}


def K(kind, val=0):
    return {"t": "CREATE", "kind": kind, "val": val}


def S(slot, val):
    return {"t": "SSTORE", "slot": slot, "val": val}


def E(how, ben=None):
    return {"t": "END", "how": how, "ben": ben} if ben else {"t": "END", "how": how}


L = {"t": "LOG"}


def X(to, val):
    return {"t": "XFER", "to": to, "val": val}


# nested shapes for the gas sweeps: factories creating contracts whose init code stores, logs and receives an endowment;
# value calls to contracts that store and may run out; creations in the transaction's own frame, under DELEGATECALL /
# CALLCODE, after a reverted sibling, with init code that stops / self-destructs instead of returning code
GIVEN = [
    [C("CALL", "A", 1), C("CALL", "B"), K("CREATE2", 1), S(1, 1), L, E("RETURN"), E("STOP"), E("STOP")],
    [C("CALL", "A", 1), C("CALL", "B"), K("CREATE", 1), S(1, 1), L, E("RETURN"), E("STOP"), E("STOP")],
    [C("CALL", "A"), K("CREATE", 1), S(1, 1), L, E("RETURN"), S(2, 2), E("STOP")],
    [C("CALL", "A"), K("CREATE2", 1), S(1, 2), L, E("RETURN"), S(2, 2), E("RETURN")],
    [C("CALL", "A"), C("CALL", "B", 1), S(1, 1), S(2, 2), L, E("STOP"), S(1, 2), E("STOP")],
    [C("CALL", "A"), S(1, 1), C("CALL", "B", 1), S(1, 1), C("CALL", "C", 1), S(2, 1), L, E("STOP"), E("STOP"), L, E("STOP")],
    [C("CALL", "A"), C("DELEGATECALL", "B"), K("CREATE2", 0), L, S(2, 1), E("RETURN"), S(1, 1), E("STOP"), E("RETURN")],
    [C("CALL", "B", 1), C("CALLCODE", "C", 1), S(1, 1), K("CREATE", 1), S(1, 2), E("RETURN"), E("STOP"), L, E("STOP")],
    [C("CALL", "A"), C("CALL", "B"), C("CALL", "C", 1), S(1, 1), E("REVERT"), K("CREATE", 0), S(1, 2), L, E("RETURN"), E("STOP"), L, E("STOP")],
    [C("CALL", "A"), C("CALL", "B"), K("CREATE2", 1), S(1, 1), X("E", 1), E("STOP"), K("CREATE", 0), L, E("SELFDESTRUCT", "E"), E("STOP"), E("STOP")],
    [C("CALL", "C", 1), C("STATICCALL", "A"), C("CALL", "B"), E("STOP"), E("STOP"), K("CREATE2", 1), C("CALL", "B"), S(1, 1), E("STOP"), S(2, 2), E("RETURN"), E("STOP")],
    [C("CALL", "A", 1), C("CALL", "B", 1), K("CREATE", 1), L, K("CREATE2", 1), S(1, 1), E("RETURN"), E("RETURN"), L, E("STOP"), S(1, 1), E("STOP")],
    [C("CALL", "A"), C("CALL", "B", 0), S(1, 1), E("INVALID"), C("CALL", "B", 1), S(1, 2), L, E("STOP"), E("STOP")],
    [C("CALL", "A"), K("CREATE", 1), C("CALL", "B", 0), S(1, 1), E("STOP"), S(1, 1), E("RETURN"), X("N", 1), E("STOP")],
]

def P(kind, to, val=0, gas="all", inp="good"):
    return {"t": "PRE", "kind": kind, "to": to, "val": val, "gas": gas, "inp": inp}


def Bop(of, ar):
    return {"t": "BALOP", "of": of, "ar": ar}


def precompile_programs():
    """Every precompiled contract (0x01..0x08) called with every call kind, with and without value, with accepted and
    (bn256 operations) rejected input; beneath a STATICCALL; inside a frame that reverts; with one unit of gas.  The
    gas sweep then tries the amounts around the gas the precompile requires."""
    out = []
    for i in range(1, 9):
        to = "P%d" % i
        inps = ["good", "bad"] if i >= 6 else ["good"]
        for inp in inps:
            for kind in ("CALL", "CALLCODE", "DELEGATECALL", "STATICCALL"):
                for val in ((0, 1) if kind in ("CALL", "CALLCODE") else (0,)):
                    out.append([C("CALL", "A"), S(1, 1), P(kind, to, val, "all", inp), S(2, 2), E("STOP")])
            out.append([C("CALL", "A"), C("CALL", "B"), S(1, 1), P("CALL", to, 1, "all", inp), E("REVERT"), L, E("STOP")])
            out.append([C("CALL", "B", 1), C("CALLCODE", "C", 1), P("CALL", to, 1, "all", inp), L, E("STOP"), E("STOP")])
        for kind in ("CALL", "STATICCALL"):
            out.append([C("CALL", "A"), C("STATICCALL", "B"), P(kind, to, 0), E("STOP"), S(1, 1), E("STOP")])
        out.append([C("CALL", "A"), C("STATICCALL", "B"), P("CALL", to, 1), E("STOP"), S(1, 1), E("STOP")])
        out.append([C("CALL", "A"), P("CALL", to, 0, "one"), P("CALL", to, 1), P("CALL", to, 1), P("CALL", to, 1), E("STOP")])
    return out


# SELFBALANCE / BALANCE followed by arithmetic and stack recycling in frames of every kind: reading a balance changes nothing
BALOPS = [
    [C("CALL", "A", 1), Bop("SELF", "ADD"), S(1, 1), E("STOP")],
    [C("CALL", "A"), Bop("SELF", "MUL"), X("E", 1), E("STOP")],
    [C("CALL", "A"), Bop("SELF", "POP"), L, E("RETURN")],
    [C("CALL", "A"), Bop("A", "ADD"), Bop("A", "MUL"), Bop("A", "POP"), E("STOP")],
    [C("CALL", "A"), C("STATICCALL", "B"), Bop("SELF", "ADD"), E("STOP"), E("STOP")],
    [C("CALL", "A"), C("STATICCALL", "B"), Bop("SELF", "MUL"), E("STOP"), E("STOP")],
    [C("CALL", "A"), C("STATICCALL", "B"), Bop("SELF", "POP"), C("CALL", "C"), Bop("SELF", "ADD"), E("STOP"), E("STOP"), E("STOP")],
    [C("CALL", "A"), C("CALL", "B", 1), Bop("SELF", "MUL"), S(1, 1), E("INVALID"), E("STOP")],
    [C("CALL", "A"), C("CALL", "B", 1), Bop("SELF", "ADD"), S(1, 1), E("REVERT"), L, E("STOP")],
    [C("CALL", "A"), C("DELEGATECALL", "B"), Bop("SELF", "ADD"), E("STOP"), Bop("SELF", "POP"), E("STOP")],
    [C("CALL", "A"), C("CALLCODE", "B", 1), Bop("SELF", "MUL"), E("STOP"), E("STOP")],
    [C("CALL", "A"), K("CREATE", 1), Bop("SELF", "ADD"), E("RETURN"), Bop("SELF", "MUL"), E("STOP")],
    [C("CALL", "A"), K("CREATE2", 1), Bop("SELF", "POP"), S(1, 1), E("STOP"), E("STOP")],
    [C("CALL", "B", 1), Bop("SELF", "ADD"), C("CALL", "A", 1), Bop("SELF", "MUL"), E("STOP"), Bop("SELF", "POP"), E("SELFDESTRUCT", "E")],
]

def RE(ref, val=0):
    return {"t": "RECREATE", "ref": ref, "val": val}


DEEP = {"t": "DEEP"}


def limit_programs():
    """The three remaining ways a frame fails: (a) init code returning exactly / more than the maximum code size, with
    storage, log and endowment before the RETURN; (b) CREATE2 to an address that is taken (also after the first creation
    self-destructed in the same transaction); (c) the call depth limit, reached by a self-recursive contract.  Returns
    (program, sweep sites)."""
    out = []
    for kind in ("CREATE", "CREATE2"):
        for how in ("RETMAX", "RETOVER"):
            out.append(([C("CALL", "A"), K(kind, 1), S(1, 1), L, E(how), S(2, 2), E("STOP")], 1))
            out.append(([C("CALL", "A", 1), C("CALL", "B"), K(kind, 1), S(1, 1), L, E(how), E("STOP"), L, E("STOP")], 1))
            out.append(([C("CALL", "A"), C("DELEGATECALL", "B"), K(kind, 0), S(2, 1), E(how), L, E("STOP"), S(1, 0), E("RETURN")], 0))
            out.append(([C("CALL", "A"), C("CALL", "B", 1), K(kind, 1), L, E(how), E("REVERT"), K(kind, 0), S(1, 2), E(how), E("STOP")], 0))
        out.append(([C("CALL", "A"), C("CALL", "B"), S(1, 1), E("RETOVER"), C("STATICCALL", "C"), E("RETMAX"), K(kind, 0), E("RETMAX"), E("STOP")], 0))
    # collisions: token 2 (or 3) is the first CREATE2, RE(...) repeats it from the same creator
    out += [
        ([C("CALL", "A"), K("CREATE2", 1), S(1, 1), E("RETURN"), RE(2, 1), S(2, 2), E("STOP")], 0),
        ([C("CALL", "A"), K("CREATE2", 0), L, E("STOP"), RE(2, 0), RE(2, 1), L, E("STOP")], 0),
        ([C("CALL", "A"), K("CREATE2", 1), L, E("SELFDESTRUCT", "E"), RE(2, 0), L, E("STOP")], 0),
        ([C("CALL", "B", 1), K("CREATE2", 1), S(1, 2), E("SELFDESTRUCT", "SELF"), RE(2, 1), S(1, 1), E("RETURN")], 0),
        ([C("CALL", "A"), C("DELEGATECALL", "B"), K("CREATE2", 0), S(1, 1), E("RETURN"), E("STOP"), RE(3, 0), S(2, 2), E("STOP")], 0),
        ([C("CALL", "A"), K("CREATE2", 0), E("RETMAX"), C("CALLCODE", "C", 0), RE(2, 0), L, E("STOP"), E("STOP")], 0),
        ([C("CALL", "A"), K("CREATE2", 1), S(1, 1), E("RETURN"), C("CALL", "B"), C("CALL", "A"), RE(2, 1), S(2, 1), E("STOP"), E("REVERT"), E("STOP")], 0),
        ([C("CALL", "A"), K("CREATE2", 0), E("RETURN"), C("STATICCALL", "A"), RE(2, 0), E("STOP"), L, E("STOP")], 0),
    ]
    # depth limit
    out += [
        ([C("CALL", "A"), S(1, 1), DEEP, S(2, 2), E("STOP")], 0),
        ([C("CALL", "A", 1), C("CALL", "B", 1), DEEP, L, E("STOP"), DEEP, E("STOP")], 0),
        ([C("CALL", "A"), C("STATICCALL", "B"), DEEP, E("STOP"), L, E("STOP")], 0),
        ([C("CALL", "A"), C("CALL", "B"), DEEP, S(1, 1), E("REVERT"), L, E("STOP")], 0),
        ([C("CALL", "A"), C("DELEGATECALL", "C"), DEEP, E("INVALID"), DEEP, E("STOP")], 0),
        ([C("CALL", "A"), K("CREATE", 1), DEEP, S(1, 1), E("RETURN"), E("STOP")], 0),
    ]
    return out


def stale_storage_programs():
    """A slot that holds a value from an earlier transaction is cleared / rewritten by the outer frame; a nested frame
    in the same storage context (DELEGATECALL, CALLCODE, re-entrant CALL) writes it again and fails: the slot must read
    what the outer frame stored."""
    out = []
    for ctx, slot, other in (("A", 1, "B"), ("B", 2, "C"), ("C", 1, "A"), ("C", 2, "B")):
        for first in (0, 3, 1):
            for how in ("INVALID", "REVERT", "OOG"):
                out.append([C("CALL", ctx), S(slot, first), C("DELEGATECALL", other), S(slot, 2), E(how), E("STOP")])
                out.append([C("CALL", ctx), S(slot, first), C("CALLCODE", other), S(slot, 2), S(slot, 0), E(how), L, E("STOP")])
                out.append([C("CALL", ctx), S(slot, first), C("CALL", other), C("CALL", ctx), S(slot, 2), E(how), E("STOP"), E("STOP")])
            out.append([C("CALL", ctx), S(slot, first), C("CALL", other), C("CALL", ctx), S(slot, 2), E("STOP"), E("INVALID"), E("STOP")])
            out.append([C("CALL", ctx), C("DELEGATECALL", other), S(slot, first), C("DELEGATECALL", ctx), S(slot, 1), E("INVALID"), E("STOP"), E("STOP")])
    return out


FAIL_VARIANTS = ["INVALID", "UNDEFINED", "UNDERFLOW", "BADJUMP"]
OOG_VARIANTS = ["OOG", "OOGCOPY"]


def cfg(**kw):
    d = dict(contracts='"A", "B"', plain='"E"', depth=1, ops=2, tokens=6, alpha="tiny", gen="leaf")
    d.update(kw)
    return CFG % d


def behaviours_of(res):
    return [v["h"] for v in res.printed if isinstance(v, dict) and v.get("kind") == "B"]


def key(b):
    return json.dumps(b["prog"], sort_keys=True)


def nontrivial(b):
    """A program is non-trivial when a frame below the transaction's own call fails, reverts or runs statically."""
    toks = b["prog"]
    inner_fail = any(f["res"] != "ok" for f in b["exp"]["frames"] if f["site"] != 1)
    static = any(t["t"] == "CALL" and t.get("kind") == "STATICCALL" for t in toks)
    return inner_fail or static


def generate(ctx):
    quick = ctx.quick
    rng = random.Random(ctx.seed)
    behs = []
    wdir = os.path.join(vlib.VERIF, "findings")
    for f in sorted(os.listdir(wdir)) if os.path.isdir(wdir) else []:
        if f.startswith("C16_") and f.endswith(".json"):
            behs += json.load(open(os.path.join(wdir, f)))["behaviours"]
    nw = len(behs)
    # M + G1: every program of the tiny library, all execution states, invariants everywhere; the programs are printed
    # with the predicted world.  Thorough: a larger library is checked as well (without printing).
    m = ctx.tlc_must("EvmFrames", cfg(), name="M_G1_tiny", timeout=3000)
    runs = [m]
    if not quick:
        runs.append(ctx.tlc_must("EvmFrames", cfg(tokens=7, gen="none"), name="M_tiny7", timeout=6000, coverage=True))
        if getattr(runs[-1], "zero_actions", None):
            ctx.cov["coverage_zero_actions"] = runs[-1].zero_actions
    ctx.cov["exhaustive"] = all(r.ok for r in runs)
    ctx.cov["design_violation"] = next((r.violated for r in runs if r.violated), None)
    for r in runs:
        if r.violated:
            raise vlib.Undecided("EvmFrames design model violates %s (%s): the specification contradicts the property" % (r.violated, r.dir))
    g1 = behaviours_of(m)
    ctx.cov["g1_programs"] = len(g1)
    rng.shuffle(g1)
    behs += g1[:(3000 if quick else 20000)]
    n1 = len(behs)
    # G2: random program trees over the rich alphabet
    num = 600 if quick else 4000
    for name, kw, depth in (("G2_small", dict(contracts='"A", "B"', plain='"E", "N"', depth=2, ops=3, tokens=14, alpha="small"), 40),
                            ("G2_rich", dict(contracts='"A", "B", "C"', plain='"E", "N"', depth=3, ops=3, tokens=20, alpha="rich"), 60)):
        g2 = ctx.tlc_must("EvmFrames", cfg(**kw), name=name, timeout=3000, simulate={"num": num}, depth=depth)
        if g2.violated:
            raise vlib.Undecided("EvmFrames design model violates %s in simulation (%s)" % (g2.violated, g2.dir))
        sim = behaviours_of(g2)
        rng.shuffle(sim)
        behs += sim[:(1200 if quick else 15000)]
    # hand-written nested programs, executed by the model for their predictions
    stale = stale_storage_programs()
    hand = ([(p, 3) for p in GIVEN] + [(p, 1) for p in precompile_programs()] + [(p, 0) for p in BALOPS] + [(p, 0) for p in stale]
            + limit_programs())
    both = {json.dumps(p, sort_keys=True) for p in stale}
    gv = ctx.tlc_must("EvmFrames", GIVEN_CFG, name="G_given", timeout=600, count=False,
                      files={"given.ndjson": "\n".join(json.dumps({"prog": p}) for p, _ in hand) + "\n"})
    if gv.violated:
        raise vlib.Undecided("EvmFrames design model violates %s on a hand-written program (%s)" % (gv.violated, gv.dir))
    given = behaviours_of(gv)
    want = {json.dumps(p, sort_keys=True): n for p, n in hand}
    if {key(b) for b in given} != set(want):
        raise vlib.Undecided("the model executed %d of %d hand-written programs (%s)" % (len(given), len(want), gv.dir))
    for b in given:
        b["sweep"] = want[key(b)]
        if key(b) in both:
            b["both"] = True
    behs = behs[:nw] + given + behs[nw:]
    ngiven = len(given)
    # distinct programs only; alternate the set-up; vary the concrete form of failing endings
    seen = set()
    out = []
    for b in behs:
        k = key(b)
        if k in seen:
            continue
        seen.add(k)
        out.append(b)
    for i, b in enumerate(out):
        if "setup" not in b:
            b["setup"] = "second" if i % 2 else "fresh"
        if i >= nw + ngiven and rng.random() < 0.5:
            for t in b["prog"]:
                if t["t"] == "END" and t["how"] == "INVALID":
                    t["v"] = rng.choice(FAIL_VARIANTS)
                elif t["t"] == "END" and t["how"] == "OOG":
                    t["v"] = rng.choice(OOG_VARIANTS)
                elif t["t"] == "END" and t["how"] == "RETOVER":
                    t["v"] = rng.choice(["RETOVER", "RETHUGE"])
    # the stale-storage programs run in both set-ups (committed storage / storage finalised by the earlier transaction)
    for b in [b for b in out if b.pop("both", False)]:
        out.append(dict(b, setup="second" if b["setup"] == "fresh" else "fresh"))
    # gas sweeps: the hand-written programs, and generated programs with a creation or a value call into storing code
    def sweepable(b):
        toks = b["prog"]
        return (any(t["t"] in ("CREATE", "PRE") for t in toks) or
                (any(t["t"] == "CALL" and t.get("val") == 1 for t in toks[1:]) and any(t["t"] == "SSTORE" for t in toks)))
    cand = [b for b in out[nw + ngiven:] if sweepable(b)]
    rng.shuffle(cand)
    for b in cand[:(90 if quick else 1200)]:
        b["sweep"] = 3
    nsweep = sum(1 for b in out if b.get("sweep"))
    ctx.note("programs: %d witnesses, %d hand-written, %d of %d bounded-exhaustive (tiny library), %d simulated; %d distinct; "
             "%d with gas sweeps" % (nw, ngiven, n1 - nw, len(g1), len(behs) - n1 - ngiven, len(out), nsweep))
    return out


def deposit_failure(line):
    """A sweep run in which a creation's init code finished (its last instruction was not an error and not REVERT) but the
    creation failed: the gas was enough for the init code and not for the code deposit."""
    e = json.loads(line)
    sw = e["sweep"]
    return any(c["site"] == sw["site"] and c["op"] in ("CREATE", "CREATE2") and c["entered"] and not c["ok"] and not c["rev"]
               and int(sw["init"]) <= int(sw["target"]) < int(sw["used"]) for c in e["calls"])


def judge(ctx, behs, name="run"):
    bpath = ctx.path("behaviours_%s.ndjson" % name)
    vlib.write_ndjson(bpath, behs)
    trace = ctx.path("trace_%s.ndjson" % name)
    info = ctx.drive("evmframes", trace, behaviours=bpath)
    ctx.cov["traces_validated_against_impl"] += len(behs)
    ctx.cov["evaluations"] += len(behs)
    ctx.cov["distinct_nontrivial"] += sum(1 for b in behs if nontrivial(b))
    for a in info["aborts"]:
        ctx.report("C16/NoPanic/process_abort", vlib.save_behaviour_replay(ctx, "C16/NoPanic/process_abort", bpath, a["b"], {}), a)
    # the monitor reads the whole file: judge it in chunks (cut at behaviour boundaries)
    lines = open(trace).read().splitlines()
    sweeps = sum(1 for ln in lines if '"sweep":{' in ln)
    window = sum(1 for ln in lines if '"sweep":{' in ln and deposit_failure(ln))
    ctx.cov["gas_sweep_runs"] = ctx.cov.get("gas_sweep_runs", 0) + sweeps
    ctx.cov["gas_sweep_runs_failing_at_code_deposit"] = ctx.cov.get("gas_sweep_runs_failing_at_code_deposit", 0) + window
    ctx.cov["evaluations"] += sweeps
    per = 4000
    start, part = 0, 0
    while start < len(lines):
        end = min(start + per, len(lines))
        while end < len(lines) and '"ev":"reset"' not in lines[end]:
            end += 1
        tp = ctx.path("trace_%s_%d.ndjson" % (name, part))
        with open(tp, "w") as fh:
            fh.write("\n".join(lines[start:end]) + "\n")
        vlib.monitor(ctx, "EvmFrames_Mon", MON_CFG, tp, name="Mon_%s_%d" % (name, part), behaviours=bpath,
                     replay_meta={"driver": "evmframes"}, timeout=1800)
        start, part = end, part + 1
    return trace


def selftest(ctx, trace):
    """Binding self-test: a corrupted recorded balance after a failed frame must be reported."""
    ev = vlib.read_ndjson(trace)
    bad = None
    for i, e in enumerate(ev):
        if e.get("ev") != "Run":
            continue
        for c in e["calls"]:
            if c["closed"] and not c["ok"] and c["parent"] >= 0:
                c["post"]["bal"]["A"] += 1
                bad = i + 1
                break
        if bad:
            break
    if bad is None:
        return
    p = ctx.path("trace_corrupt.ndjson")
    vlib.write_ndjson(p, ev[:bad])
    sub = vlib.Ctx.__new__(vlib.Ctx)
    sub.__dict__.update(ctx.__dict__)
    sub.violations, sub.known_hits, sub.cov = [], {}, {"clauses_fired": {}}
    vlib.monitor(sub, "EvmFrames_Mon", MON_CFG, p, name="Mon_selftest")
    hit = [v for v in sub.violations if v["signature"].startswith("C16/FailedFrameLeavesNoTrace/") and v["detail"]["line"] == bad]
    ctx.cov["binding_selftest"] = "corrupted balance after a failed frame at line %d %s" % (bad, "reported" if hit else "NOT reported")
    if not hit:
        raise vlib.Undecided("monitor self-test failed: corrupted projection not reported")


def run(ctx):
    ctx.cov["rule"] = ("one evaluation = one program executed by the real EVM and judged by the monitor; non-trivial = some frame "
                       "below the transaction's own call fails / reverts / is refused, or the program contains a STATICCALL; "
                       "distinct by the JSON of the token sequence")
    ctx.assumptions += ["three contracts with compiled dispatcher code, one funded and one non-existent plain account, balances <= 5",
                        "gas limit 2^63, gas price 0; 'all' calls forward 63/64 (CREATE: everything, as coded), 'one' calls forward 1 gas",
                        "programs in which a frame's gas would be cut to 1/64 more than 5 times are not generated (GasAmple)",
                        "created accounts are named by creation site; nonces are not compared (the statement does not mention them)",
                        "the tracer reads the StateDB through getters at every call site (reads are not journalled)",
                        "gas sweeps: a re-run is compared with the model's (ample gas) prediction only when every site ended as "
                        "predicted; otherwise the per-frame clauses (all-or-nothing, gas returned <= supplied, an error frame returns no "
                        "gas, value conserved, static) judge it"]
    behs = generate(ctx)
    for b in (behs[0], behs[len(behs) // 2], behs[-1]):
        ctx.sample({"prog": b["prog"], "setup": b["setup"]})
    trace = judge(ctx, behs)
    if not ctx.quick:
        selftest(ctx, trace)
    fired = ctx.cov.get("clauses_fired", {})
    never = sorted(c for c in ("NoPanic", "WorldEqualsModel", "FailedFrameLeavesNoTrace", "StaticChangesNothing", "ValueConserved",
                               "GasReturnedLeqSupplied", "ErrorFrameReturnsNoGas") if not fired.get(c))
    if not ctx.cov.get("gas_sweep_runs_failing_at_code_deposit"):
        never.append("gas sweep: no run failed in the code-deposit window")
    if never:
        raise vlib.Undecided("vacuous clauses (never evaluated): %s" % never)


def replay(ctx, path):
    data = json.load(open(path))
    judge(ctx, data["behaviours"], name="replay")
