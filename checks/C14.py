"""C14 -- RLP encoding is canonical, round-trips, and decoding hostile bytes is safe.

M  : spec/Rlp.tla checked against itself, exhaustively in small scopes:
       scope "items"  every item with <= 3 leaves, nesting <= 2, boundary lengths: Canonical(Enc(i)), Dec(Enc(i)) = i;
       scope "bytes"  every byte string of length <= 4 over the boundary alphabet: Canonical(b) <=> b is in the independently
                      enumerated set of encodings, Canonical(b) => Enc(Dec(b)) = b;
       scope "all"    per schema, boundary samples (and the real encodings of stage S) with every spec-defined mutation:
                      samples are TypedCanonical, strict => design-accepted, design-accepted-but-not-strict is classified,
                      the normal form is strict, generator claims hold.  Design-level counterexamples of
                      AcceptImpliesCanonical (the named deviations of the coded decoders) are printed as CEX.
       scope "big"    large inputs as compact descriptors (a list of cnt copies of an element / a size field announcing more than
                      is present, as the value or as a field of a struct): the verdict-by-descriptor rule (BigAccept, BigGeneric)
                      agrees with the parser for every descriptor with cnt <= 3; the driver expands the same descriptors to
                      64 KiB .. 1 MiB.
S  : the driver builds seeded REAL objects of every type (mode=seeds) and hands their encodings to the spec.
G  : the same three runs print every case; python groups them into behaviours {ty, gen, cases}.
T  : the driver `rlp` decodes every case with the real rlp.DecodeBytes into the real type, re-encodes, runs the generic
     decoder and the synchronous entry points, measures allocation; Rlp_Mon (property layer, the verdict) and Rlp_Trace
     (conformance to the design layer, drift) judge the recorded trace.
"""
import json
import os
import random
import re

import vlib

# The deviations of the coded decoders that the design layer of Rlp.tla models (and that are listed as known findings).
# When one is repaired in /repo, remove its name here ("dsmap_sorted" instead of "dsmap" when only EvidenceDoubleSign's
# encoder is made deterministic); the corresponding known findings then stop being hit.  VERIF_C14_DEVIATIONS overrides
# the set for experiments on a patched scratch tree.
DEVIATIONS = os.environ.get("VERIF_C14_DEVIATIONS") or '{"optfix", "expelled", "sortedset", "dsmap"}'

CFG = """SPECIFICATION Spec
CONSTANTS
  Deviations = %(dev)s
  Scope = "%(scope)s"
  Large = %(large)s
  NV = %(nv)d
  NodeCap = %(nodecap)d
  PairK = %(pairk)d
  SeqDepth = %(seqdepth)d
  MaxMut = %(maxmut)d
  GenMode = "print"
%(invs)s
CONSTRAINT Emit
CHECK_DEADLOCK FALSE
"""

INV_ITEMS = "INVARIANT EncIsCanonical\nINVARIANT DecEncIdentity"
INV_BYTES = "INVARIANT CanonicalIsEnc\nINVARIANT DecEncIdentity"
INV_TYPED = "INVARIANT TypedSelfCheck\nINVARIANT EncCSound\nCONSTRAINT DesignCex"
INV_SEQ = "INVARIANT SeqSound"
INV_API = "INVARIANT ApiSound"
INV_BIG = "INVARIANT BigSound"

DUMMY_SEED = '{"ty":"Hash","k":0,"b":[128],"nodes":[1]}\n'
GENERIC_BATCH = 400
MIRRORED = ["statusData", "NewBlockHashesData", "HashOrNumber", "BlocksData", "getBlockHeadersData", "GetNodeDataMsgData"]


# ---------------------------------------------------------------------------------------------- binding of the mirror
def _structs(text):
    out = {}
    for m in re.finditer(r"^type (\w+) ((?:\[\])?struct \{.*?^\})", text, re.S | re.M):
        body = re.sub(r"//[^\n]*", "", m.group(2))
        out[m.group(1)] = " ".join(body.split())
    return out


def check_mirror(ctx):
    """Package `you` cannot be linked into the harness; its packet structs are mirrored.  Compare with the source."""
    src = _structs(open(os.path.join(vlib.REPO, "you", "protocol.go")).read())
    mir = open(os.path.join(vlib.HARNESS, "drive", "rlp", "youmirror.go")).read()
    mir = _structs(mir[mir.index("MIRROR-BEGIN"):mir.index("MIRROR-END")])
    for name in MIRRORED:
        if src.get(name) != mir.get(name):
            raise vlib.Undecided("you/protocol.go: type %s differs from its mirror in harness/drive/rlp/youmirror.go: %r vs %r" % (
                name, src.get(name), mir.get(name)))
    ctx.cov["you_packet_mirror"] = "%d structs identical to you/protocol.go" % len(MIRRORED)


# ---------------------------------------------------------------------------------------------- large generic inputs
def _hdr(n, off):
    if n < 56:
        return [off + n]
    be = []
    while n:
        be.insert(0, n & 255)
        n >>= 8
    return [off + 55 + len(be)] + be


def specials():
    """Inputs outside the small scope of the spec-generated cases: deep nesting, long lists, 2- and 3-byte size fields,
    size fields that lie.  (Plain construction of byte strings; the verdict on each is the monitor's.)"""
    out = []
    x = [0x80]
    for _ in range(200):
        x = _hdr(len(x), 0xc0) + x
    out.append(x)                                              # 200 levels of nesting
    out.append(x[:-1])                                         # ... truncated
    out.append(_hdr(2000, 0xc0) + [0x80] * 2000)               # a list of 2000 empty strings
    out.append(_hdr(2000, 0xc0) + [0xc0] * 2000)               # a list of 2000 empty lists
    out.append(_hdr(70000, 0x80) + [0x41] * 70000)             # a string with a 3-byte size field
    out.append(_hdr(70001, 0x80) + [0x41] * 70000)             # ... one byte short
    out.append([0xb9, 0x00, 0x38] + [0x41] * 56)               # leading zero in a 2-byte size field
    out.append([0xba, 0x00, 0x01, 0x00] + [0x41] * 256)        # leading zero in a 3-byte size field
    item = _hdr(56, 0x80) + [0xff] * 56
    out.append(_hdr(300 * len(item), 0xc0) + item * 300)       # a list of 300 long strings (3-byte size field of a list)
    out.append(_hdr(300 * len(item) + 1, 0xc0) + item * 300)   # ... whose size field is one too large
    out.append([0xf8, 0x38] + [0xbb, 0xff, 0xff, 0xff, 0xff] + [0x00] * 51)  # a 4 GiB string announced inside a list
    out.append([0xbf] + [0xff] * 8)                            # an 16 EiB string announced at top level
    out.append([0xff] + [0x7f] + [0xff] * 7)                   # an 8 EiB list announced at top level
    return out


# ---------------------------------------------------------------------------------------------- M + G
def params(ctx):
    if ctx.quick:
        return dict(items_large=False, nv=3, nodecap=8, seeds_k=3, seed_nodes=8, rnd=10, items_sample=4000, pairk=1,
                    big_sizes=[65536, 262148], seqdepth=3, enc_k=2, apidepth=5)
    return dict(items_large=True, nv=7, nodecap=1000, seeds_k=10, seed_nodes=30, rnd=40, items_sample=150000, pairk=4,
                big_sizes=[65536, 262148, 1048576], seqdepth=4, enc_k=3, apidepth=6)


def printed_cases(res):
    return [v for v in res.printed if isinstance(v, dict) and v.get("kind") == "B"]


def witnesses():
    behs = []
    wdir = os.path.join(vlib.VERIF, "findings")
    for f in sorted(os.listdir(wdir)) if os.path.isdir(wdir) else []:
        if f.startswith("C14_") and f.endswith(".json"):
            behs += json.load(open(os.path.join(wdir, f)))["behaviours"]
    return behs


def generate(ctx):
    p = params(ctx)
    behs = witnesses()
    nw = len(behs)
    seedfile = {"seeds.ndjson": DUMMY_SEED}
    # M/G: the specification against itself, small scopes
    mi = ctx.tlc_must("Rlp", CFG % dict(dev=DEVIATIONS, scope="items", large="TRUE" if p["items_large"] else "FALSE", nv=1, nodecap=1, pairk=0, seqdepth=0, maxmut=0, invs=INV_ITEMS),
                      name="M_items", files=seedfile, timeout=3000, xss="512m")
    mb = ctx.tlc_must("Rlp", CFG % dict(dev=DEVIATIONS, scope="bytes", large="TRUE", nv=1, nodecap=1, pairk=0, seqdepth=0, maxmut=0, invs=INV_BYTES),
                      name="M_bytes", files=seedfile, timeout=1500, xss="512m")
    for m in (mi, mb):
        if m.violated:
            raise vlib.Undecided("specification self-check failed (%s in %s): the spec is inconsistent, not the code" % (m.violated, m.dir))
    generic = [v["b"] for v in printed_cases(mb)]
    items = [v["b"] for v in printed_cases(mi)]
    if p["items_sample"] and len(items) > p["items_sample"]:
        random.Random(ctx.seed).shuffle(items)
        items = items[:p["items_sample"]]
    # M/G: large inputs as descriptors; the verdict-by-descriptor rule is checked against the parser for cnt <= 3
    mg = ctx.tlc_must("Rlp", CFG % dict(dev=DEVIATIONS, scope="big", large="FALSE", nv=1, nodecap=1, pairk=0, seqdepth=0, maxmut=0, invs=INV_BIG),
                      name="M_big", files=seedfile, timeout=1500, xss="512m")
    if mg.violated:
        raise vlib.Undecided("specification self-check failed (%s in %s)" % (mg.violated, mg.dir))
    small = [v["d"] for v in mg.printed if isinstance(v, dict) and v.get("kind") == "D"]
    bigs = {}
    for d in small:
        bigs.setdefault(d["ty"], []).append(dict(d, echo=True))
        if d["cnt"] != 3:
            continue
        for size in p["big_sizes"]:
            cnt = max(4, size // len(d["elem"]))
            if d["kind"] == "repeat":
                bigs[d["ty"]].append(dict(d, cnt=cnt, echo=False))
            else:  # announce: the size field of cnt elements, 0 / 1 / 16 of them present
                bigs[d["ty"]].append(dict(d, cnt=cnt, present={0: 0, 1: 1, 2: 16}[d["present"]], echo=False))
    ctx.cov["large_inputs"] = {"descriptors_checked_small": len(small), "expanded_by_driver": sum(len(v) for v in bigs.values()),
                               "sizes": p["big_sizes"], "types": len(bigs)}
    bigbehs = [{"ty": ty, "gen": None, "rnd": 0, "cases": [], "big": bigs[ty]} for ty in sorted(bigs)]
    # M/G: stateful sequences on the mutable containers
    ms = ctx.tlc_must("Rlp", CFG % dict(dev=DEVIATIONS, scope="seq", large="FALSE", nv=1, nodecap=1, pairk=0, seqdepth=p["seqdepth"], maxmut=0,
                                        invs=INV_SEQ), name="M_seq", files=seedfile, timeout=1500, xss="512m")
    if ms.violated:
        raise vlib.Undecided("specification self-check failed (%s in %s)" % (ms.violated, ms.dir))
    seqs = [v for v in ms.printed if isinstance(v, dict) and v.get("kind") == "Q"]
    seqbehs = [{"ty": v["ty"], "gen": None, "rnd": 0, "cases": [], "seq": {"ty": v["ty"], "init": v["init"], "ops": v["ops"]}} for v in seqs]
    # M/G: sequences of calls of the encoder entry points (shared buffer pool)
    ma = ctx.tlc_must("Rlp", CFG % dict(dev=DEVIATIONS, scope="api", large="FALSE", nv=1, nodecap=1, pairk=0, seqdepth=p["apidepth"], maxmut=0,
                                        invs=INV_API), name="M_api", files=seedfile, timeout=1500, xss="512m")
    if ma.violated:
        raise vlib.Undecided("specification self-check failed (%s in %s)" % (ma.violated, ma.dir))
    apis = [v for v in ma.printed if isinstance(v, dict) and v.get("kind") == "A"]
    seqbehs += [{"ty": "api", "gen": None, "rnd": 0, "cases": [], "api": {"ops": v["ops"], "vals": v["vals"]}} for v in apis]
    ctx.cov["encoder_api_sequences"] = {"sequences": len(apis), "depth": p["apidepth"]}
    ctx.cov["stateful_sequences"] = {"sequences": len(seqs), "depth": p["seqdepth"], "types": sorted({v["ty"] for v in seqs})}
    sp = specials()
    ctx.cov["generic_cases"] = {"byte_strings": len(generic), "items": len(items), "items_enumerated": mi.distinct, "large_inputs": len(sp)}
    generic = sp + generic + items
    # S: real objects -> seeds
    spath = ctx.path("seeds_raw.ndjson")
    ctx.drive("rlp", spath, opts={"mode": "seeds", "k": p["seeds_k"], "nodes": p["seed_nodes"]})
    seeds = [e for e in vlib.read_ndjson(spath) if e.get("ev") == "seed"]
    if not seeds:
        raise vlib.Undecided("the driver produced no seeds")
    seedtext = "".join(json.dumps({"ty": s["ty"], "k": s["k"], "b": s["b"], "nodes": s["nodes"]}, separators=(",", ":")) + "\n" for s in seeds)
    # M/G: schemas, samples, mutations (typed samples and real seeds)
    mt = ctx.tlc_must("Rlp", CFG % dict(dev=DEVIATIONS, scope="all", large="FALSE", nv=p["nv"], nodecap=p["nodecap"], pairk=p["pairk"], seqdepth=0, maxmut=1, invs=INV_TYPED),
                      name="MG_typed", files={"seeds.ndjson": seedtext}, timeout=3000, xss="512m", coverage=not ctx.quick)
    if mt.violated:
        raise vlib.Undecided("specification self-check failed (%s in %s)" % (mt.violated, mt.dir))
    ctx.cov["exhaustive"] = mi.ok and mb.ok and mt.ok and mg.ok and ms.ok and ma.ok
    if getattr(mt, "zero_actions", None):
        ctx.cov["coverage_zero_actions"] = mt.zero_actions
    # design-level counterexamples: replayed first
    cex = [v for v in mt.printed if isinstance(v, dict) and v.get("kind") == "CEX"]
    cexkeys = set()
    bycex = {}
    for v in cex:
        key = (v["ty"], json.dumps(v["b"]))
        if key in cexkeys:
            continue
        cexkeys.add(key)
        bycex.setdefault(v["ty"], []).append({"b": v["b"], "mut": "+".join(v["mut"]), "cex": True})
    for ty in sorted(bycex):
        behs.append({"ty": ty, "gen": None, "rnd": 0, "cases": bycex[ty]})
    ncex = len(behs) - nw
    ctx.cov["design_counterexamples"] = {"cases": len(cexkeys), "classes": sorted({"+".join(sorted(v["disc"])) for v in cex})}
    behs += bigbehs + seqbehs
    # the encode side at the header-class boundaries: real objects 0..enc_k-1 of every type, one byte field of each length
    encbehs = [{"ty": ty, "gen": None, "seed": ctx.seed, "rnd": 0, "cases": [],
                "enc": [{"ty": ty, "k": k, "ls": [55, 56, 255, 256, 65535, 65536, 1048576]} for k in range(p["enc_k"])]}
               for ty in sorted({s["ty"] for s in seeds})]
    behs += encbehs
    # generic batches
    for i in range(0, len(generic), GENERIC_BATCH):
        behs.append({"ty": "generic", "gen": None, "rnd": 0, "cases": [{"b": b, "mut": "", "cex": False} for b in generic[i:i + GENERIC_BATCH]]})
    ngen = len(behs) - nw - ncex - len(bigbehs) - len(seqbehs) - len(encbehs)
    # typed groups: one behaviour per sample / real object
    groups = {}
    for v in printed_cases(mt):
        if (v["ty"], json.dumps(v["b"])) in cexkeys:
            continue
        groups.setdefault((v["ty"], v["sid"]), []).append({"b": v["b"], "mut": "+".join(v["mut"]), "cex": False})
    for (ty, sid) in sorted(groups):
        gen = None
        if sid >= 1000:
            s = seeds[sid - 1000 - 1]
            if s["ty"] != ty:
                raise vlib.Undecided("seed numbering out of step")
            gen = {"k": s["k"]}
        behs.append({"ty": ty, "gen": gen, "seed": ctx.seed, "rnd": p["rnd"] if gen else 0, "cases": groups[(ty, sid)]})
    ctx.note("behaviours: %d witnesses, %d design counterexample groups (%d cases), %d large-input groups (%d descriptors), %d stateful sequences, %d encode-boundary groups, %d generic batches (%d cases), %d typed groups (%d cases, %d real objects)" % (
        nw, ncex, len(cexkeys), len(bigbehs), sum(len(b["big"]) for b in bigbehs), len(seqbehs), len(encbehs), ngen, len(generic), len(groups), sum(len(g) for g in groups.values()), len(seeds)))
    ctx.cov["types"] = len({b["ty"] for b in behs if b["ty"] != "generic"})
    ops = {}
    for b in behs:
        for k in b["cases"]:
            op = k["mut"].split("@")[0] if k["mut"] else "verbatim"
            ops[op] = ops.get(op, 0) + 1
    ops["driver-side random (flip/byte/truncate/random bytes)"] = sum(b.get("rnd", 0) for b in behs)
    ctx.cov["cases_per_mutation_operator"] = ops
    return behs


# ---------------------------------------------------------------------------------------------- T
def judge(ctx, behs, selftest_too=False):
    bpath = ctx.path("behaviours.ndjson")
    vlib.write_ndjson(bpath, behs)
    trace = ctx.path("trace.ndjson")
    info = ctx.drive("rlp", trace, behaviours=bpath, timeout=1800, max_restarts=2000)
    ncases = sum(len(b["cases"]) + b.get("rnd", 0) + len(b.get("big", [])) + (len(b["seq"]["ops"]) if b.get("seq") else 0)
                 + (len(b["api"]["ops"]) if b.get("api") else 0)
                 + sum(len(x["ls"]) for x in b.get("enc", [])) for b in behs)
    ctx.cov["traces_validated_against_impl"] += len(behs)
    ctx.cov["evaluations"] += ncases
    ctx.cov["distinct_nontrivial"] += len({(b["ty"], json.dumps(k["b"])) for b in behs for k in b["cases"] if k["mut"] or b["ty"] == "generic"})
    seedfile = {"seeds.ndjson": DUMMY_SEED}
    # T (verdict): property-layer monitor
    result, _ = vlib.monitor(ctx, "Rlp_Mon", "Rlp_Mon.cfg", trace, behaviours=bpath, replay_meta={"driver": "rlp"}, files=seedfile,
                             xss="512m", timeout=3000, constants={"Deviations": DEVIATIONS})
    # a process abort (os.Exit, fatal error) while decoding is a failure of "never panics"
    for a in info["aborts"]:
        ctx.report("C14/NoPanic/process_abort", vlib.save_behaviour_replay(ctx, "C14/NoPanic/process_abort", bpath, a["b"], {}), a)
    # every design-level counterexample must have reproduced on the real code (as a known finding or a violation)
    events = vlib.read_ndjson(trace)
    vlines = {item[-1] for item in result.get("viol", [])}
    cexlines = [i + 1 for i, e in enumerate(events) if e.get("cex")]
    missed = [ln for ln in cexlines if ln not in vlines]
    ctx.cov["design_counterexamples_reproduced"] = "%d of %d" % (len(cexlines) - len(missed), len(cexlines))
    if missed:
        e = events[missed[0] - 1]
        raise vlib.Undecided("design-level counterexample did not reproduce on the real code (specification drift): %s %s line %d" % (
            e.get("ty"), e.get("mut"), missed[0]))
    # measured resource bound (declared as such): observed maxima per decode form, accepted / rejected
    forms = {}

    def note(form, acc, alloc, cons):
        f = forms.setdefault("%s/%s" % (form, "accepted" if acc else "rejected"), {"n": 0, "max_bytes_per_consumed_byte": 0.0, "max_fixed_bytes": 0})
        f["n"] += 1
        if cons >= 256:
            f["max_bytes_per_consumed_byte"] = max(f["max_bytes_per_consumed_byte"], round(alloc / cons, 2))
        else:
            f["max_fixed_bytes"] = max(f["max_fixed_bytes"], alloc)
    for e in events:
        if e.get("ev") == "dec":
            note("DecodeBytes", e["acc"], e["alloc"], e["scons"])
            note("generic", e["gacc"], e["galloc"], e["gcons"])
        elif e.get("ev") == "gen":
            note("generic", e["gacc"], e["alloc"], e["cons"])
        elif e.get("ev") == "big":
            note("big DecodeBytes", e["d"]["acc"], e["d"]["alloc"], e["d"]["cons"])
            note("big unlimited stream", e["u"]["acc"], e["u"]["alloc"], e["u"]["cons"])
            note("big generic", e["g"]["acc"], e["g"]["alloc"], e["g"]["cons"])
    ctx.cov["alloc_measured"] = {"bound": "TotalAlloc delta <= 192 * consumed bytes + 16 KiB for every decode form, accepted or rejected (Rlp_Mon AllocC, AllocK; consumed = bytes the decoder took from the reader before it returned)", "observed": forms}
    ctx.cov["accepted"] = sum(1 for e in events if e.get("ev") == "dec" and e.get("acc"))
    ctx.cov["rejected"] = sum(1 for e in events if e.get("ev") == "dec" and not e.get("acc"))
    ctx.cov["entry_calls"] = sum(len(e.get("ent", [])) for e in events if e.get("ev") == "dec")
    # T (drift): conformance to the design layer
    conf = ctx.tlc("Rlp_Trace", "Rlp_Trace.cfg", name="Conf", files=dict(seedfile, **{"trace.ndjson": trace}), workers=1,
                   timeout=3000, count=False, xss="512m", check_deadlock=False, constants={"Deviations": DEVIATIONS})
    verdicts = [v for v in conf.printed if isinstance(v, dict) and v.get("kind") in ("ACCEPTED", "REJECTED")]
    if verdicts and verdicts[0]["kind"] == "ACCEPTED":
        ctx.cov["conformance"] = "accepted %d events" % verdicts[0]["events"]
    else:
        ctx.cov["drift_events"] += verdicts[0]["mismatches"] if verdicts else 1
        ctx.cov["conformance"] = "rejected: %s" % (json.dumps(verdicts[0])[:1500] if verdicts else (conf.error or conf.violated or "no verdict"))
        print("DRIFT: property=C14 the real codecs left the design layer of Rlp.tla: %s" % ctx.cov["conformance"], flush=True)
    return trace


def selftest(ctx, trace):
    """Binding self-test: flipping one recorded verdict must be noticed by the conformance spec, at that line."""
    ev = vlib.read_ndjson(trace)
    bad = None
    for i, e in enumerate(ev):
        if e.get("ev") == "dec" and e.get("acc") and e.get("same") and e.get("mut") and i > 50:
            e["acc"] = False
            bad = i + 1
            break
    if bad is None:
        return
    p = ctx.path("trace_corrupt.ndjson")
    vlib.write_ndjson(p, ev[:bad + 20])
    conf = ctx.tlc("Rlp_Trace", "Rlp_Trace.cfg", name="Conf_selftest", files={"seeds.ndjson": DUMMY_SEED, "trace.ndjson": p}, workers=1,
                   timeout=900, count=False, xss="512m", check_deadlock=False, constants={"Deviations": DEVIATIONS})
    rej = [v for v in conf.printed if isinstance(v, dict) and v.get("kind") == "REJECTED"]
    lines = [b[0] for b in rej[0]["bad"]] if rej else []
    ctx.cov["binding_selftest"] = "flipped verdict at line %d; conformance reported lines %s" % (bad, lines)
    if lines != [bad]:
        raise vlib.Undecided("trace-checker self-test failed: corrupted field not rejected at its line")


def run(ctx):
    ctx.cov["rule"] = ("cases = stored witnesses + design-level counterexamples + every byte string of length <= 4 over the boundary alphabet + "
                       "a seeded sample (quick 6 000, thorough 150 000) of the items with <= 3 leaves (all of them are checked in M) + per type: boundary samples and seeded real objects with "
                       "every spec-defined mutation at the selected nodes, the pairwise boundary-value mutation of every small struct + driver-side random flips; non-trivial = hostile or mutated input "
                       "(not a verbatim encoding); distinct by (type, bytes)")
    ctx.assumptions += ["inputs below 16 MiB (size-of-size <= 3 bytes)",
                        "the packet structs of you/protocol.go are mirrored in the harness (package you cannot be linked: quic-go panics in init); "
                        "the mirror is compared with the source text on every run",
                        "p2p framing (Msg.Decode ignores bytes after the first value) and the database readers (rlp.Decode without a "
                        "trailing-bytes check) are outside AcceptImpliesCanonical: the types are decoded with rlp.DecodeBytes",
                        "AllocBounded is a measured resource bound (runtime.MemStats.TotalAlloc delta <= 192 * consumed bytes + 16 KiB, calibrated on the unchanged tree; observed maxima in coverage.alloc_measured), not decided by the specification",
                        "consensus entry point: MessageHandler.HandleMsg wired to the real Proposal and Voter with EnableBls=false and "
                        "always-succeeding sortition verification; staking entry point: TxConverter.ApplyMessage on a state with one validator"]
    check_mirror(ctx)
    behs = generate(ctx)
    for b in behs:
        if b["ty"] != "generic" and b["cases"]:
            ctx.sample({"ty": b["ty"], "gen": b["gen"], "case": {"mut": b["cases"][-1]["mut"], "bytes": len(b["cases"][-1]["b"])}}, limit=5)
    trace = judge(ctx, behs)
    if not ctx.quick:
        selftest(ctx, trace)


def replay(ctx, path):
    data = json.load(open(path))
    judge(ctx, data["behaviours"])
