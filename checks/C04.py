"""C04 -- sortition selects exactly the binomial quantile and its proofs bind all inputs.

M : spec/Sortition.tla -- small-scope enumeration (w <= WMax, seven values of p including 1) with the self-check of the
    specification as invariants (closed form = recurrence of the monitor, total mass, monotonicity, quantile of every CDF
    midpoint/boundary, end points, soundness of the tolerance band: the exact quantile is inside, an off-by-one outside).
G : the same run prints the points to present to the real choose() (CDF midpoints, boundaries, end points 0 / 2^256-1,
    targets around the 0.99 switch-over) with their exact quantile, and the credential cases (base credential x single-field
    perturbation x expected verdict).
T : the driver `sortition` records real I/O of choose (VerifChoose), VrfSortition, VrfVerifySortition, VrfComputePriority,
    VrfVerifyPriority for those and for seeded random cases; Sortition_Mon judges every line over exact BigNat binomial tails
    (QuantileExact with the delta band, JWithinStake, VerifierRecomputes, PerturbationRejected, PriorityIsMax).  Lines where
    the real j is inside the band but not the exact quantile are the drift measure (design layer = exact quantile).
"""
import json
import os
import random
import vlib

M_CFG = """SPECIFICATION Spec
CONSTANTS
  WMax = %d
  GenMode = "%s"
  SeqDepth = 3
  PrioHashes = %d
  AliasDepth = %d
  ScanSet = "%s"
INVARIANT CdfTotal
INVARIANT CdfMonotone
INVARIANT RecurrenceExact
INVARIANT Term0OK
INVARIANT MidpointQuantile
INVARIANT BoundaryQuantile
INVARIANT EndPoints
INVARIANT QuantileMonotone
INVARIANT BandSound
INVARIANT ScanPointsInside
%s
CHECK_DEADLOCK FALSE
"""


def witnesses():
    behs = []
    wdir = os.path.join(vlib.VERIF, "findings")
    for f in sorted(os.listdir(wdir)) if os.path.isdir(wdir) else []:
        if f.startswith("C04_") and f.endswith(".json"):
            behs += json.load(open(os.path.join(wdir, f)))["behaviours"]
    return behs


def generate(ctx):
    quick = ctx.quick
    wmax = 6 if quick else 10
    # M + G in one exhaustive run: the invariants are the self-check, the constraint prints the points and the credential cases
    m = ctx.tlc_must("Sortition", M_CFG % (wmax, "all", 3 if quick else 8, 2 if quick else 3, "quick" if quick else "thorough", "CONSTRAINT Leaf"), name="M_G_enumeration", timeout=1500, coverage=not quick,
                     workers=1)   # one worker: with several workers TLC mis-evaluated states that carry BigNat values (a scan state was
    # recovered with a wrong value: "Failed to recover the initial state from its fingerprint"); 10 s with one worker
    ctx.cov["exhaustive"] = m.ok
    ctx.cov["design_violation"] = m.violated
    if m.violated:
        raise vlib.Undecided("the self-check of the specification failed (%s): the specification is wrong, no verdict" % m.violated)
    if getattr(m, "zero_actions", None):
        ctx.cov["coverage_zero_actions"] = m.zero_actions
    seen = set()
    pts, creds, seqs, prios, alias, uniq, issuer = [], [], [], [], [], [], []
    for v in m.printed:
        if not isinstance(v, dict) or v.get("kind") not in ("P", "C", "S", "Q", "A", "U", "X", "XC", "I"):
            continue
        k = json.dumps(v, sort_keys=True)
        if k in seen:
            continue
        seen.add(k)
        {"P": pts, "C": creds, "S": seqs, "Q": prios, "A": alias, "U": uniq, "X": prios, "XC": prios, "I": issuer}[v["kind"]].append(v)
    for lst in (pts, creds, seqs, prios, alias, uniq, issuer):
        lst.sort(key=lambda r: json.dumps(r, sort_keys=True))
    rnd = random.Random(ctx.seed)
    if quick:
        # window points: all triples of the mean = 20 switch, and a seeded sample of 200 triples of the grid around the 0.99 switch-over
        triples = sorted({(p_["w"], p_["a"], p_["b"]) for p_ in pts if p_["tag"].startswith("win_") and p_["w"] * p_["a"] > 21 * p_["b"]})
        rnd.shuffle(triples)
        keep = set(triples[:200])
        pts = [p_ for p_ in pts if not p_["tag"].startswith("win_") or p_["w"] * p_["a"] <= 21 * p_["b"] or (p_["w"], p_["a"], p_["b"]) in keep]
        ctx.cov["window_triples"] = "%d of %d" % (len(keep), len(triples))
        # credential cases: the bases of one seed (and the searched upper-tail seeds, sd = 0), both keys / indices / steps, every
        # parameter triple, every perturbation
        creds = [c for c in creds if c["base"]["sd"] in (0, 1 + ctx.seed % 2)]
    # the sequences run first: nothing has been evaluated in the driver process before them
    behs = witnesses() + seqs + alias + pts + creds + prios + uniq + issuer
    ctx.cov["issuer_cases"] = len(issuer)
    ctx.cov["alias_sequences"] = len(alias)
    ctx.cov["window_points"] = sum(1 for p_ in pts if p_["tag"].startswith("win_"))
    ctx.cov["unique_cases"] = len(uniq)
    ctx.cov["sequences"] = len(seqs)
    ctx.cov["priority_cases"] = len(prios)
    # seeded random cases (the driver derives its PRNG from the seed and the behaviour index)
    if quick:
        behs += [{"kind": "R", "n": 1000, "maxw": 1000}, {"kind": "R", "n": 24, "maxw": 10000}]
    else:
        behs += [{"kind": "R", "n": 500, "maxw": 1000} for _ in range(6)] + [{"kind": "R", "n": 60, "maxw": 10000}]
    ctx.note("inputs: %d sequences, %d enumerated points, %d credential cases, %d priority cases, %d random batches" % (
        len(seqs), len(pts), len(creds), len(prios), sum(1 for b in behs if b["kind"] == "R")))
    ctx.cov["enumerated_points"] = len(pts)
    ctx.cov["credential_cases"] = len(creds)
    return behs


def judge(ctx, behs):
    bpath = ctx.path("behaviours.ndjson")
    vlib.write_ndjson(bpath, behs)
    trace = ctx.path("trace.ndjson")
    info = ctx.drive("sortition", trace, behaviours=bpath, timeout=1200)
    ev = [e for e in vlib.read_ndjson(trace) if e.get("ev") in ("choose", "verify", "priority", "seq_issue", "seq_verify", "vrf_unique", "issuer")]
    mals = sorted({t["mal"] for e in ev if e["ev"] == "vrf_unique" for t in e["tries"]})
    ctx.cov["malleations_tried"] = mals
    ctx.cov["malleations_accepted"] = sorted({t["mal"] for e in ev if e["ev"] == "vrf_unique" for t in e["tries"] if t["accept"]})
    if any(e.get("ev") == "note" for e in vlib.read_ndjson(trace)):
        ctx.note("the code under test modified a big.Int input in place")
    ctx.cov["traces_validated_against_impl"] += len(ev)
    ctx.cov["evaluations"] += len(ev)
    # non-trivial: lines that are not skipped; distinct by (event kind, inputs)
    ctx.cov["distinct_nontrivial"] += len({json.dumps([e.get("ev"), e.get("fn"), e.get("pert"), e.get("q"), e.get("prio"), e.get("j"), e.get("tup"), e.get("c"), e.get("as"), e.get("h"), e["t"] if e["ev"].startswith("seq") else 0], sort_keys=True)
                                           for e in ev if "skip" not in e})
    ws = [e["q"]["w"] for e in ev if "q" in e]
    ctx.cov["max_stake"] = max(ws) if ws else 0
    ctx.cov["real_panics"] = sum(1 for e in ev if "panic" in e)
    result, _ = vlib.monitor(ctx, "Sortition_Mon", "Sortition_Mon.cfg", trace, behaviours=bpath, timeout=2400, xss="256m",
                             replay_meta={"driver": "sortition"})
    for a in info["aborts"]:
        ctx.report("C04/JWithinStake/process_abort", vlib.save_behaviour_replay(ctx, "C04/JWithinStake/process_abort", bpath, a["b"], {}), a)
    # conformance to the design layer (exact quantile, delta = 0) on points that are not boundary/switch-over points: drift
    n = result.get("inexact", 0)
    ctx.cov["conformance"] = "real j = exact quantile on every non-boundary line" if n == 0 else \
        "%d non-boundary lines inside the tolerance band but not the exact quantile (first: %s)" % (n, result.get("inexact_lines"))
    if n:
        ctx.cov["drift_events"] += n
        print("DRIFT: property=C04 %s" % ctx.cov["conformance"], flush=True)
    f = result.get("fired", {})
    if f.get("unique_transcription_rejected"):
        raise vlib.Undecided("the harness transcription of Evaluate (malicious prover, honest settings) is rejected by the real ProofToHash: "
                             "the transcription no longer matches the code")
    ctx.cov["scan_steps"] = f.get("scan_steps", 0)
    ctx.cov["max_denominator_bits"] = f.get("max_bits", 0)
    return trace


def selftest(ctx, trace):
    """Binding self-test: an off-by-one in one recorded j, a flipped verdict and a swapped priority must be reported."""
    ev = vlib.read_ndjson(trace)
    want = {}
    out = []
    for e in ev:
        if len(want) == 4:
            break
        e = json.loads(json.dumps(e))
        hit = None
        if e.get("ev") == "choose" and e.get("tag") == "mid" and "QuantileExact" not in want and e["q"]["a"] < e["q"]["b"] and e["q"]["j"] < e["q"]["w"]:
            e["q"]["j"] += 1
            hit = "QuantileExact"
        elif e.get("ev") == "verify" and e.get("expect") == "reject" and "accept" in e and "PerturbationRejected" not in want:
            e["accept"] = True
            hit = "PerturbationRejected"
        elif e.get("ev") == "verify" and e.get("expect") == "issued" and e.get("accept") and "VerifierRecomputes" not in want:
            e["accept"] = False
            hit = "VerifierRecomputes"
        elif e.get("ev") == "priority" and e.get("j", 0) >= 1 and "PriorityIsMax" not in want:
            others = [s for s in e["seats"] if s != e["prio"]]
            e["prio"] = e["prio2"] = others[0]
            hit = "PriorityIsMax"
        if hit or len(out) < 50:       # the corrupted lines and some untouched context
            out.append(e)
            if hit:
                want[hit] = len(out)
    p = ctx.path("trace_corrupt.ndjson")
    vlib.write_ndjson(p, out)
    mon = ctx.tlc("Sortition_Mon", "Sortition_Mon.cfg", name="Mon_selftest", files={"trace.ndjson": p}, workers=1, timeout=900,
                  count=False, xss="256m", check_deadlock=False)
    res = [v for v in mon.printed if isinstance(v, dict) and v.get("kind") == "RESULT"]
    got = {(it[0], it[2]) for it in res[0]["viol"]} if res else set()
    ok = len(want) == 4 and all((c, ln) in got for c, ln in want.items()) and len(got) == 4
    ctx.cov["binding_selftest"] = "corrupted %s; monitor reported %s" % (sorted(want.items()), sorted(got))
    if not ok:
        raise vlib.Undecided("trace-checker self-test failed: %s" % ctx.cov["binding_selftest"])


def run(ctx):
    ctx.cov["rule"] = ("lines = enumerated points (CDF midpoints, boundaries, end points, 0.99 switch-over; w <= WMax) + credential cases "
                       "(base x perturbation) + seeded random cases; non-trivial = not skipped; distinct by (kind, inputs)")
    ctx.assumptions += [
        "exact tails over the common denominator b^w (BigNat = java.math.BigInteger); tolerance delta = 1e-6 relative to min(t, 1-t)",
        "stakes up to 10^3 (a few lines at 10^4); stakes up to the main-net maximum 10^7 are NOT covered (exact tails out of reach)",
        "domain: stake >= 1, 1 <= threshold <= total stake (p in (0, 1]); for p > 1 the real choose() panics (see C01 side finding)",
        "target = VRF output / (2^256 - 1) as the code computes it; the difference to / 2^256 is far below the tolerance",
        "VRF uniqueness/unforgeability and keccak are trusted; per-seat hash = keccak(output || i) with i in minimal big-endian bytes",
        "priority over seats 0..j (j + 1 hashes), a priority credential with j = 0 is accepted (DESIGN section 9, interpretation note)",
        "priority argmax stage: seat indices 0, 1, 255, 256, 257, 511, 512, 513, 768, 1024 as the seat with the largest hash (searched outputs, "
        "1100 and 600 seats) and real credentials with the maximum on a multiple of 256; an argmax >= 65536 is out of reach of a search",
        "issuer stage: credentials of every step kind (proposal, prevote, precommit, next-index, certificate) are drawn through the real "
        "SortitionManager (verif_sortition_mgr.go accessors) over stub look-back functions that differ per look-back class, and verified by the "
        "exported verifier functions with the own / the other class's seed; the step -> look-back type mapping is the voter's (vote(): "
        "certificate -> LookBackCert, else LookBackPos)",
        "OutputUniquePerKeyMessage: the driver acts as a malicious key holder with a transcription of Evaluate; malleations tried: the prefix "
        "byte of the VRF point (0x00 0x01 0x02 0x03 0x05 0x06 0x07 0x44 0x84 0xff, challenge recomputed), the other y (control), s + N / t + N "
        "when they fit 32 bytes (practically never), and on the honest proof: flipped prefix, extra byte, truncation",
        "aliasing: every driven call passes the same big.Int objects for stake and total stake, mutated in place between calls; each call is "
        "judged by the values recorded at call time",
    ]
    behs = generate(ctx)
    for b in behs[:3] + behs[-1:]:
        ctx.sample(b)
    trace = judge(ctx, behs)
    if not ctx.quick:
        selftest(ctx, trace)


def replay(ctx, path):
    data = json.load(open(path))
    judge(ctx, data["behaviours"])
