"""C06 -- block execution is deterministic; builder and validator always agree.

M  : spec/BlockExec.tla (block programs executed by Build and by Import through the same abstract transition function;
     they differ in where the evidences come from and in the header fields written / read): BuilderAccepted, SameState,
     exhaustive with small constants -- once with the repaired listing rule (must hold), once as coded
     (ZeroPenaltyUnlisted): the design-level counterexample must reproduce on the real chains.
G  : block programs = every program of BlockExec.tla within a small bound (evidences about the parent round and about the
     round under construction, refused transactions, withdrawals that leave a dust stake) + histories of the C07 generator
     spec/Staking.tla (`tlc -simulate`, every transaction kind, failing and refused transactions, >= 4 staking periods,
     inactivity penalties) with evidences added at seeded positions + the C07 scenarios.
T  : the driver `blockexec` builds every block on chain A with the miner's sequence of exported calls, re-executes it K+1
     times with the import executor on fresh state objects (chain cache, fresh trie cache, shuffled warm-up, the independent
     chain B) and imports it into chain B; a second driver process repeats everything.  spec/BlockExec_Mon.tla compares
     the recorded result records (Deterministic, BuilderAccepted, ImportReproduces).
Miner stage (every tier): spec/BlockExec_Miner.tla is the miner layer of the design model (pool admission, price-and-nonce
     order, gas pool, snapshot / revert, Pop / Shift on the error classes, receipts only for included transactions); M with
     the mechanism as coded must hold, with RevertToSnapshot or the receipt rule removed TLC must find a counterexample.
     The driver `minerexec` runs the REAL miner (miner.NewMiner: newWorkLoop, mainLoop, commitNewWork, commitTransactions,
     commitTransaction, commit, taskLoop, mine, postSeal) over a stub Backend (real BlockChain + real TxPool), the solo
     engine behind a wrapper that names the proposer and gates Prepare, and the staking module; programs are pool
     submissions (generated histories + transactions that fail in the handler, a sender drained by its own earlier
     transaction, nonce gaps, more gas than the block admits, gas limits near the block gas limit, nearly full blocks);
     every block the miner wrote is re-executed K+1 times on and imported into the independent chain B.  Extra clause
     MinerIncludesOnlyExecutable.
"""
import fcntl
import json
import os
import random
import re
import shutil
import subprocess
import vlib
from checks import C07

BE = dict(Period=2, MaxBlocks=3, MaxTx=1, MaxEv=1, Frac=2, ZeroPenaltyUnlisted="FALSE", MaxFlips=0,
          ReorgRewritesLookups="TRUE", ExecBeforeSwitchBack="FALSE", SwitchAt=0, RoundBack=2, ParamsPerBlock="TRUE",
          GenMode='"none"')
# a protocol-version switch in block 1 (parameters in force change two rounds later), import in batches
BE_UPGRADE = dict(BE, MaxBlocks=4, MaxEv=0, SwitchAt=1)
# the importing node switches to a sibling branch and back (period 3: a pending transaction, the switch, the period end)
BE_REORG = dict(BE, Period=3, MaxBlocks=5, MaxEv=0, MaxFlips=1)
OPTS_REORG3 = {"period": 3, "mrp": 1, "wdelay": 1, "inact": 2}
OPTS_TIGHT = {"gaslimit": 100000}          # a block that holds four plain transfers
# genesis at protocol version 4 with scaled upgrade parameters: the header version switches to 5 in block 3, the version-5
# parameters apply from block 11 on (eight rounds later)
OPTS_UPGRADE = {"v4": 1}
OPTS_SMALL = {"period": 2, "mrp": 1, "wdelay": 1, "inact": 2}
OPTS_DEFAULT = {}


def cfg(consts, mode):
    c = "\n".join("  %s = %s" % kv for kv in consts.items())
    if mode == "M":
        return "SPECIFICATION Spec\nCONSTANTS\n%s\nINVARIANT BuilderAccepted SameState\nVIEW View\nCHECK_DEADLOCK FALSE\n" % c
    return "INIT Init\nNEXT Next\nCONSTANTS\n%s\nCONSTRAINT Leaf\nCHECK_DEADLOCK FALSE\n" % c


def load_witnesses():
    out = []
    wdir = os.path.join(vlib.VERIF, "findings")
    for f in sorted(os.listdir(wdir)) if os.path.isdir(wdir) else []:
        if f.startswith("C06_") and f.endswith(".json"):
            d = json.load(open(os.path.join(wdir, f)))
            out.append((f, d["behaviours"], (d.get("meta") or {}).get("opts") or {}))
    return out


def nontrivial(h):
    """A program chain is non-trivial when it crosses a period end and carries a staking transaction or an evidence."""
    kinds = {t["k"] for b in h for t in b["txs"]}
    return len(h) >= 4 and (bool(kinds & {"create", "deposit", "withdraw", "status", "dadd", "dsub", "settle", "update"})
                            or any(b.get("ev") for b in h))


def merge_second_process(t1, t2, out):
    """Append to every block of the first process's trace the first re-execution record of the second process (k = 100).
    Records are only moved; the comparison is made by the monitor."""
    second = {}
    for e in vlib.read_ndjson(t2):
        if e.get("ev") == "Rerun" and e.get("k") == 0:
            second[(e["t"], e["blk"])] = e
    rows = []
    used = 0
    for e in vlib.read_ndjson(t1):
        if e.get("ev") == "Imported":
            s = second.get((e["t"], e["blk"]))
            if s is not None:
                r = dict(s)
                r["k"], r["on"] = 100, "P2"
                rows.append(r)
                used += 1
        rows.append(e)
    vlib.write_ndjson(out, rows)
    return used


def judge(ctx, behs, opts, name, expect=None, two_processes=True, driver="blockexec"):
    """Chunked so that one monitor run stays below ~25 000 events."""
    per = max(1, 25000 // max(1, (sum(7 * len(b) + 1 for b in behs) // max(1, len(behs)))))
    last = None
    for i in range(0, len(behs), per):
        last = judge1(ctx, behs[i:i + per], opts, name if i == 0 else "%s_%d" % (name, i // per),
                      expect if i == 0 else None, two_processes, driver)
    return last


def judge1(ctx, behs, opts, name, expect=None, two_processes=True, driver="blockexec"):
    if not behs:
        return None
    bpath = ctx.path("behaviours_%s.ndjson" % name)
    vlib.write_ndjson(bpath, behs)
    t1 = ctx.path("trace_%s.ndjson" % name)
    info = ctx.drive(driver, t1, behaviours=bpath, opts=dict(opts, k=3), timeout=2400)
    trace = t1
    if two_processes:
        t2 = ctx.path("trace_%s_p2.ndjson" % name)
        seed = ctx.seed
        ctx.seed = seed + 1000          # other shuffles in the second process
        try:
            ctx.drive("blockexec", t2, behaviours=bpath, opts=dict(opts, k=1), timeout=2400)
        finally:
            ctx.seed = seed
        trace = ctx.path("trace_%s_merged.ndjson" % name)
        n = merge_second_process(t1, t2, trace)
        ctx.cov["second_process_records"] = ctx.cov.get("second_process_records", 0) + n
    ctx.cov["traces_validated_against_impl"] += len(behs)
    ctx.cov["evaluations"] += sum(len(b) for b in behs)
    ctx.cov["distinct_nontrivial"] += len({json.dumps(b, sort_keys=True) for b in behs if nontrivial(b)})
    result, _ = vlib.monitor(ctx, "BlockExec_Mon", "BlockExec_Mon.cfg", trace, name="Mon_" + name, behaviours=bpath,
                             replay_meta={"driver": driver, "opts": opts}, timeout=1500)
    if info["aborts"]:
        ctx.note("%s: %d behaviours aborted the driver process: %s" % (name, len(info["aborts"]), info["aborts"][:2]))
        if driver == "minerexec":
            # the node process exits (logging.Crit) while the real miner assembles a block: no block that could be accepted
            a = info["aborts"][0]
            sig = "C06/BuilderAccepted/process_abort"
            ctx.report(sig, vlib.save_behaviour_replay(ctx, sig, bpath, a["b"], {"driver": driver, "opts": opts}), a)
    if result.get("fired", {}).get("Aborted"):
        ctx.note("%s: %d behaviours aborted (panic / build error) -- see %s" % (name, result["fired"]["Aborted"], trace))
    if expect:
        events = vlib.read_ndjson(trace)
        bad = {events[item[2] - 1].get("t") for item in result.get("viol", []) if 0 < item[2] <= len(events)}
        for idx, label in expect.items():
            if idx not in bad:
                raise vlib.Undecided("design-level counterexample (%s, behaviour %d of %s) did not reproduce on the real "
                                     "code: specification drift" % (label, idx, bpath))
            ctx.note("design-level counterexample for %s reproduced on the real chains" % label)
    return trace


def add_evidences(h, rnd):
    """Hand double-sign evidences to the builder at seeded positions of a generated history."""
    h = json.loads(json.dumps(h))
    for i, b in enumerate(h):
        b.setdefault("ev", [])
        if i >= 1 and rnd.random() < 0.25:
            b["ev"].append({"v": rnd.choice(["g2", "g3", "g2", "n1", "n2"]), "d": rnd.choice([0, 0, 1])})
    return h


# ---------------------------------------------------------------------------------------------- miner stage
MINER = dict(Accts='{"u1", "u2"}', MaxSubmit=2, MaxBlocks=2, BlockGas=3, Funds=6, RevertOnFailure="TRUE",
             ReceiptOnlyOnSuccess="TRUE", PoolCreditOnce="TRUE",
             Kinds='{"transfer", "drain", "biggas", "gap", "widegas", "ample"}', Prices='{1, 2}', GenMode='"none"')
# directed configuration for the gas-pool switch: a drained sender's ample follower is rejected, then the block is filled
MINER_POOL = dict(MINER, MaxSubmit=5, MaxBlocks=1, Funds=8, Kinds='{"transfer", "drain", "ample"}', Prices='{1}')


def miner_cfg(consts, mode):
    c = "\n".join("  %s = %s" % kv for kv in consts.items())
    if mode == "M":
        return ("SPECIFICATION Spec\nCONSTANTS\n%s\nINVARIANT BuilderAccepted MinerIncludesOnlyExecutable\nVIEW View\n"
                "CHECK_DEADLOCK FALSE\n" % c)
    return "INIT Init\nNEXT Next\nCONSTANTS\n%s\nCONSTRAINT Leaf\nCHECK_DEADLOCK FALSE\n" % c


def build_miner(ctx):
    """cmd/minerexec links go-youchain/miner -> p2p -> quic-go, whose init() panics under the installed toolchain: build it
    with a generated -modfile that points the quic-go replace directive to the patched local copy (harness/third_party)."""
    os.makedirs(os.path.join(vlib.WORK, "bin"), exist_ok=True)
    tag = "" if vlib.REPO == "/repo" else "_" + re.sub(r"\W+", "_", vlib.REPO)
    mf = os.path.join(vlib.WORK, "bin", "go_miner%s.mod" % tag)
    binp = os.path.join(vlib.WORK, "bin", "vdrive_minerexec" + tag)
    lock = open(os.path.join(vlib.WORK, "build%s.lock" % tag), "w")
    fcntl.flock(lock, fcntl.LOCK_EX)
    try:
        text = open(os.path.join(vlib.HARNESS, "go.mod")).read()
        text = re.sub(r"(replace github.com/lucas-clemente/quic-go v0.14.5 => ).*",
                      r"\g<1>%s" % os.path.join(vlib.HARNESS, "third_party", "quic-go"), text)
        text = text.replace("=> /repo", "=> " + vlib.REPO)
        with open(mf, "w") as fh:
            fh.write(text)
        shutil.copy(os.path.join(vlib.HARNESS, "go.sum"), mf[:-4] + ".sum")
        p = subprocess.run(["go", "build", "-tags", "verif", "-modfile=" + mf, "-o", binp, "./cmd/minerexec"], cwd=vlib.HARNESS,
                           env=vlib.goenv(), stdout=subprocess.PIPE, stderr=subprocess.STDOUT, text=True)
        if p.returncode != 0:
            raise vlib.Undecided("miner harness build failed:\n" + p.stdout[-4000:])
    finally:
        fcntl.flock(lock, fcntl.LOCK_UN)
        lock.close()
    mine = ctx.path("vdrive_minerexec")
    shutil.copy(binp, mine)
    ctx.vdrives["minerexec"] = mine


def mtx(k, a="u1", b="u2", v="g1", x=1, p=1, g=0):
    t = dict(k=k, a=a, b=b, v=v, x=x, p=p, f=0, c=0, r=0)
    if g:
        t["g"] = g
    return t


def to_pool_program(h, rnd):
    """A generated history becomes a program of pool submissions: at seeded positions it additionally gets transactions
    that only a pool-fed miner has to deal with (more gas than the block admits, a sender drained by its own earlier
    transaction, nonce gaps, gas limits near the block gas limit, nearly full blocks)."""
    h = json.loads(json.dumps(h))
    users = ["u1", "u2", "u3"]
    for i, b in enumerate(h):
        r = rnd.random()
        a, c = rnd.sample(users, 2)
        if r < 0.12:
            b["txs"] += [mtx("biggas", a=u, p=rnd.choice([1, 2])) for u in users] + [mtx("transfer", a=a, b=c, p=3)]
        elif r < 0.24:
            b["txs"] += [mtx("drain", a=a, b=c, p=1), mtx("transfer", a=a, b=c, p=2), mtx("transfer", a=a, b=c, p=1)]
        elif r < 0.34:
            b["txs"] += [mtx("gap", a=a, b=c, p=2), mtx("transfer", a=c, b=a, p=1), mtx("transfer", a=a, b=c, p=1)]
        elif r < 0.44:
            # a gas limit near the block's needs the whole gas pool: it must be the first transaction the worker takes, so
            # the block gets nothing else but a follower of the same sender
            b["txs"] = [mtx("widegas", a=a, b=c, p=1), mtx("transfer", a=a, b=c, p=1)]
        elif r < 0.52:
            # a nearly full block: two gas burners, then a transfer whose ample limit just fits
            b["txs"] += [mtx("biggas", a=a, p=2), mtx("biggas", a=c, p=2), mtx("transfer", a=a, b=c, p=1, g=1900000)]
    return h


def miner_scenario():
    def blk(cb, *txs):
        return dict(cb=cb, txs=list(txs))
    return [blk("g1", mtx("transfer", x=5, p=2), mtx("transfer", a="u2", b="u1", x=7, p=3), mtx("gap", x=3), mtx("transfer", x=4)),
            blk("g2", mtx("biggas"), mtx("biggas", a="u2", p=2), mtx("biggas", a="u3"), mtx("transfer", a="u3", b="u1", p=3)),
            blk("g1", mtx("drain", a="u3", b="u1"), mtx("transfer", a="u3", b="u1"), mtx("transfer", a="u3", b="u1"),
                C07.tx("deposit", a="g2", v="g2", x=15)),
            blk("g1", mtx("widegas", a="u2", b="u1"), mtx("transfer", a="u2", b="u1")),
            blk("g1", mtx("biggas", a="u1", p=2), mtx("biggas", a="u2", p=2), mtx("transfer", a="u1", b="u2", g=1900000)),
            blk("g1", C07.tx("nofunds"), C07.tx("badnonce", x=1), C07.tx("lowgas", x=1)),
            blk("g2"), blk("g1")]


def tight_scenario():
    """Hand-rolled builder, block gas limit 100 000: one skipped transaction of every rejection class, then more plain
    transfers than the block admits."""
    tx = C07.tx
    return [dict(cb="g1", txs=[tx("transfer", a="u1", b="u2", x=1)]),
            dict(cb="g1", txs=[tx("lownonce", a="u1", b="u2", x=1), tx("badnonce", a="u2", b="u1", x=1), tx("poor", a="p1", b="u1", x=1, p=3),
                               tx("lowgas", a="u2", b="u1", x=1), tx("nofunds", a="u3", b="u1", g=50000),
                               tx("transfer", a="u3", b="u1", x=1, g=90000)]
                 + [tx("transfer", a=a, b="g1", x=1) for a in ("u1", "u2", "u3", "g2", "g3", "n1", "n2")]),
            dict(cb="g1", txs=[tx("transfer", a="u1", b="u2", x=1)])]


def miner_tight_scenario():
    """Real miner, block gas limit 100 000: a sender drained by its own first transaction, whose ample follower can pay its
    gas but not its value (rejected after the gas was bought), ahead (price 2) of eight plain transfers (price 1)."""
    return [dict(cb="g1", txs=[mtx("transfer", a="u1", b="u2")]),
            dict(cb="g1", txs=[mtx("drain", a="u3", b="u1", x=60000, p=2), mtx("transfer", a="u3", b="u1", x=20000, p=2, g=50000)]
                 + [mtx("transfer", a=a, b="g1") for a in ("u1", "u1", "u1", "u2", "u2", "u2", "g2", "g3")]),
            dict(cb="g1", txs=[mtx("transfer", a="u2", b="u1")])]


def tight_programs(rnd, n, miner=False):
    """Seeded programs for the tight gas limit: a prefix of skipped transactions of seeded classes, then a fill."""
    out = []
    senders = ["u1", "u2", "u3", "g2", "g3", "n1", "n2"]
    for _ in range(n):
        blocks = [dict(cb="g1", txs=[mtx("transfer", a="u1", b="u2")])]
        for _b in range(3):
            txs = []
            a = rnd.choice(["u2", "u3", "n1"])
            if miner:
                # only what the pool lets through: a drained sender's followers
                txs += [mtx("drain", a=a, b="u1", x=rnd.choice([60000, 30000, 5000]), p=2),
                        mtx(rnd.choice(["transfer", "ample"]), a=a, b="u1", x=20000, p=2, g=rnd.choice([0, 50000, 90000])),
                        mtx("transfer", a=a, b="u1", p=2)]
            else:
                for k in rnd.sample(["lownonce", "badnonce", "poor", "lowgas", "nofunds", "widegas"], 3):
                    txs.append(C07.tx(k, a="p1" if k == "poor" else a, b="u1", x=1, p=3 if k == "poor" else 1,
                                      g=rnd.choice([50000, 90000]) if k == "nofunds" else 0))
            fill = [s for s in senders if s != a]
            rnd.shuffle(fill)
            txs += [mtx("transfer", a=s, b="g1") for s in fill] + [mtx("transfer", a=fill[0], b="g1")]
            blocks.append(dict(cb="g1", txs=txs))
        out.append(blocks)
    return out


def reorg_scenario():
    """The importing node is switched to a sibling branch and back while staking transactions are pending in the blocks it
    re-adopts as non-head blocks; the staking period ends afterwards (blocks 7 and 11)."""
    tx = C07.tx

    def blk(*txs, rg=0):
        b = dict(cb="g1", txs=list(txs))
        if rg:
            b["rg"] = rg
        return b
    return [blk(tx("update", a="g2", v="g2", f=1, c=1000), tx("transfer", x=3)), blk(), blk(), blk(),
            blk(tx("deposit", a="g2", v="g2", x=15), tx("dadd", a="u1", v="g2", x=25)),
            blk(tx("withdraw", a="g1", v="g1", b="u3", x=33), rg=1),      # re-adopts block 5 as a non-head block
            blk(tx("transfer", a="u2", b="u1", x=1)),                      # period end
            blk(tx("dsub", a="u1", v="g2", x=10)), blk(tx("deposit", a="g3", v="g3", x=7)),
            blk(tx("transfer", a="u2", b="u1", x=1), rg=2),               # re-adopts blocks 8 and 9
            blk(), blk(), blk()]


def upgrade_scenario(batch):
    """A chain through the protocol upgrade with version-dependent execution on both sides of the point where the new
    parameters apply (a validator creation costs 900 000 gas more from version 5 on; failed staking transactions; deposits,
    delegations), imported by the other node in batches of `batch` blocks per InsertChain call (-1 = all at once)."""
    tx = C07.tx

    def blk(*txs):
        return dict(cb="g1", txs=list(txs))
    h = [blk(tx("transfer", x=3)), blk(tx("create", a="n1", v="n1", x=37, f=3, c=1000), tx("garbage")),
         blk(tx("update", a="g2", v="g2", f=1, c=1000)), blk(), blk(tx("deposit", a="g2", v="g2", x=15)), blk(),
         blk(tx("dadd", a="u1", v="g2", x=25)), blk(), blk(tx("garbage", a="u2")), blk(tx("transfer", x=1)),
         blk(tx("create", a="n2", v="n2", x=15, f=3), tx("garbage", a="u3")),
         blk(tx("deposit", a="g3", v="g3", x=5), tx("dadd", a="u2", v="n1", x=15)),
         blk(tx("create", a="u3", v="n2", x=15, f=3, z="op")), blk(), blk(tx("withdraw", a="g1", v="g1", b="u3", x=33))] \
        + [blk() for _ in range(5)]
    h[0]["batch"] = batch
    return h


def batched(h, batch):
    """The same history (without evidences and fork switches) imported in batches."""
    h = json.loads(json.dumps(h))
    for b in h:
        b.pop("ev", None)
        b.pop("rg", None)
    h[0]["batch"] = batch
    return h


def miner_stage(ctx, sim, rnd):
    """The REAL miner (miner.NewMiner, worker loops) over a stub backend with the real TxPool assembles and seals the blocks."""
    quick = ctx.quick
    mc = dict(MINER, MaxSubmit=2 if quick else 3)
    m = ctx.tlc_must("BlockExec_Miner", miner_cfg(mc, "M"), name="M_miner", timeout=2400)
    if m.violated:
        raise vlib.Undecided("the miner layer of the design model violates %s: specification error" % m.violated)
    detected = []
    for sw in ("RevertOnFailure", "ReceiptOnlyOnSuccess"):
        r = ctx.tlc_must("BlockExec_Miner", miner_cfg(dict(MINER, MaxSubmit=3, **{sw: "FALSE"}), "M"), name="M_miner_no" + sw, timeout=1200)
        if not r.violated:
            raise vlib.Undecided("the miner model without %s has no counterexample: the property does not depend on the mechanism" % sw)
        detected.append("%s=FALSE -> %s" % (sw, r.violated))
    r = ctx.tlc_must("BlockExec_Miner", miner_cfg(dict(MINER_POOL, PoolCreditOnce="FALSE"), "M"), name="M_miner_noPoolCreditOnce", timeout=1200)
    cexp = [v["h"] for v in r.printed if isinstance(v, dict) and v.get("kind") == "CEX"]
    if not r.violated or not cexp:
        raise vlib.Undecided("the miner model with the gas pool credited twice has no counterexample")
    detected.append("PoolCreditOnce=FALSE -> %s" % r.violated)
    ctx.cov["miner_model_mutations_detected"] = detected
    if quick:
        # a seeded sample of the miner model's programs (the bounded-exhaustive set has ~55 000 members)
        g = ctx.tlc_must("BlockExec_Miner", miner_cfg(dict(MINER, MaxSubmit=3, GenMode='"leaf"'), "G"), name="G2_miner_programs",
                         timeout=1200, simulate={"num": 40}, depth=40)
    else:
        g = ctx.tlc_must("BlockExec_Miner", miner_cfg(dict(MINER, MaxSubmit=2, GenMode='"leaf"'), "G"), name="G1_miner_programs", timeout=2400)
    progs = [v["h"] for v in g.printed if isinstance(v, dict) and v.get("kind") == "B"]
    rnd.shuffle(progs)
    progs = progs[:30 if quick else 600]
    behs = [miner_scenario(), C07.scenarios()[4]] + [add_evidences(to_pool_program(s, rnd), rnd) for s in C07.scenarios()[:2]] \
        + [to_pool_program(h, rnd) for h in sim] + progs
    ctx.note("miner stage: %d pool programs (%d from the miner model, %d from generated histories)" % (len(behs), len(progs), len(sim)))
    build_miner(ctx)
    # the miner model's programs are about a block that holds a few transactions: they run with the tight gas limit, together
    # with the over-fill program TLC found for a doubly credited pool and the tight scenarios; the others with the default one
    hist_progs = [b for b in behs if b not in progs]
    judge(ctx, hist_progs, OPTS_DEFAULT, "miner", two_processes=False, driver="minerexec")
    judge(ctx, [miner_tight_scenario()] + cexp[:1] + tight_programs(rnd, 2 if quick else 40, miner=True) + progs, OPTS_TIGHT,
          "miner_tight", two_processes=False, driver="minerexec")
    fired = ctx.cov.get("clauses_fired", {})
    idle = sorted(k for k in ("MinerIncludesOnlyExecutable", "MinerDropped", "MinerRejected") if not fired.get(k))
    if idle and not ctx.violations:
        raise vlib.Undecided("miner stage: monitor counters never fired (vacuous run): %s" % ", ".join(idle))


def run(ctx):
    quick = ctx.quick
    rnd = random.Random(ctx.seed)
    ctx.cov["rule"] = ("block programs = stored witnesses + C07 scenarios + design-level counterexamples + every program of "
                       "BlockExec.tla within its bound + simulated Staking.tla histories with seeded evidences; evaluations = "
                       "blocks built, re-executed and imported; non-trivial = crosses a period end with a staking transaction "
                       "or an evidence; distinct by JSON")
    ctx.assumptions += ["protocol version 5 from genesis, scaled parameter table (stake unit 10 LU, period 4 or 2, look-back 4), solo engine",
                        "builder = the miner's sequence of exported calls on chain A; validator = BlockChain.InsertChain on an "
                        "independent chain B, one block at a time",
                        "determinism: every block is executed K+1 = 4 times (9 when its receipts carry a penalty log) with StateProcessor.Process on fresh StateDBs (chain "
                        "cache, fresh trie cache, shuffled warm-up, chain B) while the chain head is the parent, and once more "
                        "in a second process",
                        "double-sign evidences are handed to the builder's staking module synchronously (verif hook), signed "
                        "with the validators' real BLS keys",
                        "miner stage: real miner.Miner/worker and real core.TxPool; the engine is solo behind a wrapper that names "
                        "the proposer (solo's GetValMainAddress is the zero address) and parks the worker in Prepare until the "
                        "driver has filled the pool; the pool is brought up to the new head with a synchronous reset request "
                        "(verif hook) in addition to its own asynchronous one; re-executions run on chain B only (chain A's "
                        "head is already the block when the miner hands it out)"]
    # ---------------------------------------------------------------- M
    mc = dict(BE, MaxBlocks=3 if quick else 4)
    m = ctx.tlc_must("BlockExec", cfg(mc, "M"), name="M_repaired", timeout=2400, coverage=not quick)
    ctx.cov["exhaustive"] = m.ok
    if getattr(m, "zero_actions", None):
        ctx.cov["coverage_zero_actions"] = m.zero_actions
    small, expect = [], {}
    if m.violated:
        ctx.cov["design_violation"] = m.violated
        small += [v["h"] for v in m.printed if isinstance(v, dict) and v.get("kind") == "CEX"][:1]
    r = ctx.tlc_must("BlockExec", cfg(dict(BE, MaxBlocks=4, ZeroPenaltyUnlisted="TRUE"), "M"), name="M_ZeroPenaltyUnlisted", timeout=1200)
    cex = [v for v in r.printed if isinstance(v, dict) and v.get("kind") == "CEX"]
    if not r.violated or not cex:
        raise vlib.Undecided("the design model with ZeroPenaltyUnlisted as coded has no counterexample: specification drift")
    expect[len(small)] = "ZeroPenaltyUnlisted"
    small.append(cex[0]["h"])
    # ---------------------------------------------------------------- G
    g1 = ctx.tlc_must("BlockExec", cfg(dict(BE, MaxBlocks=2 if quick else 3, GenMode='"leaf"'), "G"), name="G1_programs", timeout=2400)
    progs = [v["h"] for v in g1.printed if isinstance(v, dict) and v.get("kind") == "B"]
    rnd.shuffle(progs)
    small += progs[:100 if quick else 800]
    full = dict(Users='{"u1", "u2"}', GenVals='{"g1", "g2", "g3"}', NewVals='{"n1", "n2"}', Unit=10, Amts='{5, 15, 37, 100}',
                Period=4, MaxBlocks=16 if quick else 24, MaxTx=3, MaxTxTotal=30 if quick else 48, MRP=2, Fee=1000, Refund=300,
                Threshold=1000, Wait=8, Delay=6, StaleSettle="TRUE", RefundAfterGasUsed="TRUE", DropRemovedRewards="TRUE",
                Alphabet='"full"', GenMode='"leaf"')
    num = 16 if quick else 150
    g2 = ctx.tlc_must("Staking", C07.cfg(full, "G"), name="G2_staking_histories", timeout=2400, simulate={"num": num},
                      depth=8 * full["MaxBlocks"] + 20, extra=["-aril", "3"])
    sim = [add_evidences(v["h"], rnd) for v in g2.printed if isinstance(v, dict) and v.get("kind") == "B"]
    wit = load_witnesses()
    # with seeded evidences, and as they are: the scenario whose validator with five delegators is penalised for
    # inactivity (4) and the handler-check scenario (5) must not be disturbed by an earlier expulsion
    scen = [add_evidences(s, rnd) for s in C07.scenarios()] + [C07.scenarios()[i] for i in (0, 4, 5, 6)] + [reorg_scenario()]
    # the batch size of the import step as a dimension: some histories are imported in batches of 3 and all at once
    raw = [v["h"] for v in g2.printed if isinstance(v, dict) and v.get("kind") == "B"]
    scen += [batched(C07.scenarios()[0], 3), batched(C07.scenarios()[6], -1)] + [batched(h, rnd.choice([2, 3, -1])) for h in raw[:2 if quick else 40]]
    ctx.note("programs: %d witnesses, %d scenarios, %d design cex, %d bounded programs, %d simulated histories" % (
        len(wit), len(scen), len(expect), len(small) - len(expect), len(sim)))
    for b in (small[0], sim[0] if sim else None):
        if b:
            ctx.sample(b)
    # ---------------------------------------------------------------- T
    judge(ctx, small, OPTS_SMALL, "small", expect, two_processes=False)
    # ---- the importing node switches to a sibling branch and back
    mr = ctx.tlc_must("BlockExec", cfg(BE_REORG, "M"), name="M_reorg_repaired", timeout=1200)
    if mr.violated:
        raise vlib.Undecided("the repaired reorg model violates %s: specification error" % mr.violated)
    ra = ctx.tlc_must("BlockExec", cfg(dict(BE_REORG, ExecBeforeSwitchBack="TRUE"), "M"), name="M_reorg_ExecBeforeSwitchBack", timeout=1200)
    rcex = [v["h"] for v in ra.printed if isinstance(v, dict) and v.get("kind") == "CEX"]
    if not ra.violated or not rcex:
        raise vlib.Undecided("the reorg model as coded (ExecBeforeSwitchBack) has no counterexample: specification drift")
    rn = ctx.tlc_must("BlockExec", cfg(dict(BE_REORG, ReorgRewritesLookups="FALSE"), "M"), name="M_reorg_noRewrite", timeout=1200)
    if not rn.violated:
        raise vlib.Undecided("the reorg model without the lookup rewrite has no counterexample: the property does not depend on it")
    ctx.cov["reorg_model_mutations_detected"] = ["ReorgRewritesLookups=FALSE -> %s" % rn.violated]
    if quick:
        gr = ctx.tlc_must("BlockExec", cfg(dict(BE_REORG, ExecBeforeSwitchBack="TRUE", GenMode='"leaf"'), "G"), name="G2_reorg_programs",
                          timeout=1200, simulate={"num": 150}, depth=40)
    else:
        gr = ctx.tlc_must("BlockExec", cfg(dict(BE_REORG, ExecBeforeSwitchBack="TRUE", GenMode='"leaf"'), "G"), name="G1_reorg_programs", timeout=2400)
    rprogs = [v["h"] for v in gr.printed if isinstance(v, dict) and v.get("kind") == "B" and any(b.get("rg") for b in v["h"])]
    rnd.shuffle(rprogs)
    judge(ctx, rcex[:1] + rprogs[:40 if quick else 600], OPTS_REORG3, "reorg3", {0: "ExecBeforeSwitchBack"}, two_processes=False)
    mu = ctx.tlc_must("BlockExec", cfg(BE_UPGRADE, "M"), name="M_upgrade", timeout=1200)
    if mu.violated:
        raise vlib.Undecided("the upgrade/batch model violates %s: specification error" % mu.violated)
    un = ctx.tlc_must("BlockExec", cfg(dict(BE_UPGRADE, ParamsPerBlock="FALSE"), "M"), name="M_upgrade_noParamsPerBlock", timeout=1200)
    if not un.violated:
        raise vlib.Undecided("the model with parameters held across an import batch has no counterexample")
    ctx.cov["reorg_model_mutations_detected"].append("ParamsPerBlock=FALSE -> %s" % un.violated)
    # ---- through a protocol upgrade, imported one block at a time, in batches of 2 and 4, and all at once
    judge(ctx, [upgrade_scenario(b) for b in (1, 2, 4, -1)], OPTS_UPGRADE, "upgrade", two_processes=False)
    # ---- a block that holds four transfers: skipped transactions of every class, then a fill
    judge(ctx, [tight_scenario()] + tight_programs(rnd, 3 if quick else 60), OPTS_TIGHT, "tight", two_processes=False)
    # the second driver process (cross-process determinism) runs in the thorough tier only
    trace = judge(ctx, [b for _, bs, o in wit if not o for b in bs] + scen + sim, OPTS_DEFAULT, "default", two_processes=not quick)
    for i, (f, bs, o) in enumerate(wit):
        if o:
            judge(ctx, bs, o, "wit%d" % i, two_processes=False)
    miner_stage(ctx, [v["h"] for v in g2.printed if isinstance(v, dict) and v.get("kind") == "B"][:8 if quick else 120], rnd)
    fired = ctx.cov.get("clauses_fired", {})
    idle = sorted(k for k in ("Deterministic", "BuilderAccepted", "ImportReproduces", "PeriodEnds", "Slashed", "Forks", "SwitchBacks")
                  if not fired.get(k))
    if idle and not ctx.violations:
        raise vlib.Undecided("monitor clauses never fired (vacuous run): %s" % ", ".join(idle))
    if not quick:
        selftest(ctx, trace)
    if m.violated and not ctx.violations:
        raise vlib.Undecided("design-level counterexample of the repaired model (%s) did not reproduce on the real code: "
                             "specification drift" % m.violated)


def selftest(ctx, trace):
    """Binding self-test: corrupting one recorded root of a re-execution must be reported by the monitor."""
    ev = vlib.read_ndjson(trace)
    bad = None
    for i, e in enumerate(ev):
        if e.get("ev") == "Rerun" and e.get("k") == 1 and e.get("blk") == 2:
            e["vroot"] = "0" * 16
            bad = i + 1
            break
    if bad is None:
        return
    p = ctx.path("trace_corrupt.ndjson")
    vlib.write_ndjson(p, ev[:bad + 3])
    res = ctx.tlc("BlockExec_Mon", "BlockExec_Mon.cfg", name="Mon_selftest", files={"trace.ndjson": p}, workers=1, timeout=600,
                  count=False, xss="256m", check_deadlock=False)
    out = [v for v in res.printed if isinstance(v, dict) and v.get("kind") == "RESULT"]
    hit = bool(out) and any(it[0] in ("Deterministic", "ImportReproduces") and it[2] == bad for it in out[0].get("viol", []))
    ctx.cov["binding_selftest"] = "corrupted validator root at line %d: %s" % (bad, "reported" if hit else "NOT reported")
    if not hit:
        raise vlib.Undecided("monitor self-test failed: corrupted record not reported")


def replay(ctx, path):
    data = json.load(open(path))
    opts = (data.get("meta") or {}).get("opts") or {}
    driver = (data.get("meta") or {}).get("driver") or "blockexec"
    if driver == "minerexec":
        build_miner(ctx)
    judge(ctx, data["behaviours"], opts, "replay", two_processes=False, driver=driver)
