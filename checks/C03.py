"""C03 -- votes escalate and blocks commit only on a counted quorum; commits always verify.

M   : spec/VoteCount.tla (design layer = processVoteMsg / judgeVoteCount / vote / commit over the tallies of votes_mgr.go,
      credential check of sortition_verifier.go as coded) checked exhaustively within small bounds (4 peers + the node, weights
      from a table, 2 blocks, 1-2 indices, 3-4 delivered messages, certificate round on/off, valid and invalid credentials);
      invariants recompute the quorums from the DELIVERED votes.  Future-index prevotes/precommits are cached and replayed when
      the index starts (repaired by commit 1d1ac7a; M_before_fix is the design before it, information only).  What remains at
      design level only: certificate votes of a future index are not cached, so in a certificate round with two indices an
      equivocating certificate voter whose first vote came early still counts (class equivocator_future_vote, tolerated in
      M_cert_twoindices only; a certificate round cannot be reached on the engine fixture).
G2  : `tlc -simulate` behaviours over three alphabets (one block / two blocks / two indices with invalid credentials).
S2  : voter-level stage in a CERTIFICATE round (driver `votecert`: the real ucon.Voter at round 32768 with a stubbed environment,
      weights 2,2,2, two indices, votes injected with the handler's label or -- skew -- labelled msgSame for another index):
      VoteCount.tla with CertRound on, checked exhaustively; one behaviour into every distinct design state (mode GV) driven
      through the real Voter; same monitor (plus CertOnlyAfterPrecommitQuorum), conformance with VoteCount_Trace2.cfg.
S3  : voter-level stage in an ordinary round with five (thorough: six) round indices and one block staying the candidate: the
      ring of four tallies (MaxVoteCacheCount) and the recycling of the oldest one, modelled in VoteCount.tla (Ring, Advance).
S4  : BLS stage (driver `votecert`, BLS world): real BLS signing, two REAL look-back validator sets ordered differently (stake /
      certificate look-back), real VRF proofs; a peer's real voter must accept every vote the node emits (OwnVoteVerifiesAtPeer);
      the sets packed at every commit go through the header verifier's vote check, Server.verifyVotes of an independent engine
      (CommitVerifies) -- certificate round (round 32768), and an ordinary round committing in index 5 on the recycled tally.
U   : growth stage UconNet (checks/uconnet.py): spec/UconNet.tla checked at design level (thorough), and spec/UconNet_Mon.tla on
      the merged traces of the repository's six-node tests TestUcon (quick, thorough) and TestFork (thorough).
T   : the driver `votecount` feeds every behaviour to the real ucon engine (real chain, real Server assembled without timers,
      real BLS/VRF/ECDSA-signed vote messages through Server.HandleMsg, real Server.commit -> PackVotes -> VerifySeal);
      VoteCount_Mon (the verdict) and VoteCount_Trace (conformance of tallies/latches/own votes/packed sets: drift) judge the trace.
"""
import json
import os
import random
import vlib
from checks import uconnet

CFG = """%(head)s
CONSTANTS
  WSel = "%(WSel)s"
  Blocks = %(Blocks)s
  MaxI = %(MaxI)d
  MaxMsgs = %(MaxMsgs)d
  CertRound = %(Cert)s
  Creds = %(Creds)s
  Known = %(Known)s
  Replay = %(Replay)s
  Skew = %(Skew)s
  KSet = %(KSet)s
  GVFocus = "%(GVFocus)s"
  Ring = 4
  MaxLost = %(MaxLost)d
  FutureJudged = %(FutureJudged)s
  Mode = "%(Mode)s"
  MaxOps = %(MaxOps)d
%(tail)s
CHECK_DEADLOCK FALSE
"""
INVS = ("INVARIANT PrecommitOnlyAfterPrevoteQuorum\nINVARIANT CertOnlyAfterPrecommitQuorum\nINVARIANT CommitOnlyAfterQuorums\n"
        "INVARIANT EquivocatorWeightless\nINVARIANT CommitVerifies\nVIEW View")
OK, BOTH = '{"ok"}', '{"ok", "bad"}'
AB = '{"A", "B"}'
REPLAY = '{"Prevote", "Precommit"}'      # since commit 1d1ac7a the handler replays cached prevotes and precommits of a future index
FUTURE_CERT = '{"equivocator_future_vote"}'  # remains at design level: certificate votes of a future index are not cached at all


def cfg(mode, **kw):
    d = dict(WSel="c", Blocks=AB, MaxI=1, MaxMsgs=4, Cert="FALSE", Creds=OK, Mode=mode, MaxOps=0, Known="{}", Replay=REPLAY, Skew='{"judged"}', MaxLost=1, FutureJudged="TRUE", KSet='{"Prevote", "Precommit", "Cert"}', GVFocus="recv")
    d.update(kw)
    if mode == "M":
        d["head"], d["tail"] = "SPECIFICATION Spec", INVS
    elif mode == "GV":
        d["head"], d["tail"] = "SPECIFICATION Spec", INVS.replace("VIEW View", "VIEW ViewV") + "\nINVARIANT LeafV"
    else:
        d["head"], d["tail"] = "INIT Init\nNEXT Next", "CONSTRAINT Leaf"
    return CFG % d


def witnesses(stage=1):
    """Stored witnesses; behaviours whose Cfg names a weight table / a certificate round belong to the voter-level stage 2."""
    behs = []
    wdir = os.path.join(vlib.VERIF, "findings")
    for f in sorted(os.listdir(wdir)) if os.path.isdir(wdir) else []:
        if f.startswith("C03_") and f.endswith(".json"):
            for b in json.load(open(os.path.join(wdir, f)))["behaviours"]:
                s2 = bool(b and (b[0].get("cert") or b[0].get("w") not in (None, "a")))
                if s2 == (stage == 2):
                    behs.append(b)
    return behs


def nontrivial(beh):
    """A behaviour is non-trivial when at least three vote messages for one (kind, block, index) are delivered (a quorum needs three)."""
    n = {}
    for op in beh:
        if op["op"] == "Recv" and op["cred"] == "ok":
            key = (op["k"], op["b"], op["i"])
            n[key] = n.get(key, 0) + 1
    return any(x >= 3 for x in n.values())


def generate(ctx):
    quick = ctx.quick
    behs = witnesses()
    nw = len(behs)
    runs = [("M_oneindex", dict())]
    if quick:
        # certificate rounds: exhaustively checked in the quick tier by GV2_oneblock (stage 2), which carries the invariants
        runs += [("M_badcred", dict(MaxI=2, MaxMsgs=2, Creds=BOTH))]      # two indices, valid and invalid credentials
    else:
        runs += [("M_cert", dict(Cert="TRUE")), ("M_twoindices_badcred", dict(MaxI=2, MaxMsgs=3, Creds=BOTH)),
                 ("M_cert_twoindices", dict(Cert="TRUE", MaxI=2, MaxMsgs=3, Known=FUTURE_CERT)),
                 ("M_table_b", dict(WSel="b", MaxMsgs=4)), ("M_cert_5msgs", dict(Cert="TRUE", MaxMsgs=5, Blocks='{"A"}'))]
    ok = True
    zero = set()
    for name, kw in runs:
        m = ctx.tlc_must("VoteCount", cfg("M", **kw), name=name, timeout=3000, coverage=(not quick and name == "M_cert"))
        if m.violated:
            ok = False
            ctx.cov["design_violation"] = m.violated
            for v in m.printed:
                if isinstance(v, dict) and v.get("kind") == "CEX" and not v["h"][0].get("cert"):
                    behs.append(v["h"])
                    ctx.note("design-level counterexample for %s exported for replay" % v.get("clause"))
        if getattr(m, "zero_actions", None):
            zero |= set(m.zero_actions)
    ctx.cov["exhaustive"] = ok
    if zero:
        ctx.cov["coverage_zero_actions"] = sorted(zero)
    # the design as it was before commit 1d1ac7a (no replay of cached prevotes/precommits), invariants as stated: the
    # design-level argument for the fix.  Its counterexamples are replayed on the real code (they must pass now); the
    # run itself decides nothing.
    mb = ctx.tlc("VoteCount", cfg("M", MaxI=2, MaxMsgs=3, Replay="{}"), name="M_before_fix", timeout=1500, count=False)
    ctx.cov["design_violation_before_fix"] = mb.violated
    for v in mb.printed:
        if isinstance(v, dict) and v.get("kind") == "CEX" and not v["h"][0].get("cert"):
            behs.append(v["h"])
    nc = len(behs)
    # G: simulated behaviours over the fixture's weight table (2,3,4,5,6 ; T=20 ; quorum 13), three alphabets
    rnd = random.Random(ctx.seed)
    num = 500 if quick else 4000
    cap = 55 if quick else 1000
    for name, kw, depth in (("G2_oneblock", dict(Blocks='{"A"}'), 12), ("G2_twoblocks", dict(), 15),
                            ("G2_twoindices", dict(MaxI=2, Creds=BOTH), 18)):
        g = ctx.tlc_must("VoteCount", cfg("G", WSel="a", MaxMsgs=depth, MaxOps=depth, **kw), name=name, timeout=1500,
                         simulate={"num": num}, depth=depth + 2)
        sim = [v["h"] for v in g.printed if isinstance(v, dict) and v.get("kind") == "B"]
        sim.sort(key=lambda h: json.dumps(h, sort_keys=True))
        rnd.shuffle(sim)
        behs += sim[:cap]
    ctx.note("behaviours: %d witnesses, %d design counterexamples, %d simulated" % (nw, nc - nw, len(behs) - nc))
    return behs, ok


def judge(ctx, behs):
    bpath = ctx.path("behaviours.ndjson")
    vlib.write_ndjson(bpath, behs)
    trace = ctx.path("trace.ndjson")
    info = ctx.drive("votecount", trace, behaviours=bpath)
    ctx.cov["traces_validated_against_impl"] += len(behs)
    ctx.cov["evaluations"] += len(behs)
    ctx.cov["distinct_nontrivial"] += len({json.dumps(b, sort_keys=True) for b in behs if nontrivial(b)})
    res, _ = vlib.monitor(ctx, "VoteCount_Mon", "VoteCount_Mon.cfg", trace, behaviours=bpath, replay_meta={"driver": "votecount"})
    for a in info["aborts"]:
        ctx.note("behaviour %s aborted the process: %s" % (a["b"], a["msg"]))
    npanic = sum(1 for e in vlib.read_ndjson(trace) if "panic" in e)
    if npanic:
        ctx.note("%d events panicked inside the engine (recorded in the trace)" % npanic)
    conf = ctx.tlc("VoteCount_Trace", "VoteCount_Trace.cfg", name="Conf", files={"trace.ndjson": trace}, workers=1,
                   timeout=1500, count=False, xss="256m")
    acc = [v for v in conf.printed if isinstance(v, dict) and v.get("kind") == "ACCEPTED"]
    rej = [v for v in conf.printed if isinstance(v, dict) and v.get("kind") == "REJECTED"]
    if acc:
        ctx.cov["conformance"] = "accepted %d events" % acc[0]["events"]
    else:
        ctx.cov["drift_events"] += 1
        ctx.cov["conformance"] = "rejected: %s" % (json.dumps(rej[0])[:800] if rej else (conf.error or conf.violated or "no verdict"))
        print("DRIFT: property=C03 the real engine left the design layer of VoteCount.tla: %s" % ctx.cov["conformance"], flush=True)
    return trace, res


def selftest(ctx, trace):
    """Binding self-test: a corrupted tally must be rejected by the conformance spec, a forged 'verifies=false' flagged by the monitor."""
    ev = vlib.read_ndjson(trace)
    bad = None
    for i, e in enumerate(ev):
        if e.get("ev") == "Recv" and e.get("obs", {}).get("cnt", {}).get("Prevote", [0, 0])[0] > 0:
            e["obs"]["cnt"]["Prevote"][0] += 1
            bad = i + 1
            break
    if bad is None:
        return
    p = ctx.path("trace_corrupt.ndjson")
    vlib.write_ndjson(p, ev[:bad + 3])
    conf = ctx.tlc("VoteCount_Trace", "VoteCount_Trace.cfg", name="Conf_selftest", files={"trace.ndjson": p}, workers=1,
                   timeout=600, count=False, xss="256m")
    rej = [v for v in conf.printed if isinstance(v, dict) and v.get("kind") == "REJECTED"]
    ok = bool(rej) and rej[0]["line"] == bad
    ev2 = vlib.read_ndjson(trace)
    forged = None
    for i, e in enumerate(ev2):
        if e.get("commits"):
            e["commits"][0]["verifies"] = False
            forged = i + 1
            break
    mon_ok = None
    if forged:
        p2 = ctx.path("trace_forged.ndjson")
        vlib.write_ndjson(p2, ev2[:forged + 1])
        r = ctx.tlc("VoteCount_Mon", "VoteCount_Mon.cfg", name="Mon_selftest", files={"trace.ndjson": p2, "known.json": "[]"}, workers=1,
                    timeout=600, count=False, check_deadlock=False)
        out = [v for v in r.printed if isinstance(v, dict) and v.get("kind") == "RESULT"]
        mon_ok = bool(out) and any(x[0] == "CommitVerifies" for x in out[0]["viol"])
    ctx.cov["binding_selftest"] = "corrupted tally at line %d rejected at line %s; forged verifies=false flagged by the monitor: %s" % (
        bad, rej[0]["line"] if rej else None, mon_ok)
    if not ok or mon_ok is False:
        raise vlib.Undecided("trace-checker self-test failed: %s" % ctx.cov["binding_selftest"])


def leaves(hs):
    """Behaviours that are not a proper prefix of another one (the monitor judges every prefix anyway)."""
    pref = set()
    for h in hs:
        for n in range(1, len(h)):
            pref.add(json.dumps(h[:n], sort_keys=True))
    return [h for h in hs if json.dumps(h, sort_keys=True) not in pref]


AFTERQ = '{"equivocation_after_quorum"}'


def stage2(ctx):
    """Voter-level stage: the real ucon.Voter in a CERTIFICATE round (round 32768), stubbed environment, table g (2,2,2)."""
    quick = ctx.quick
    kw = dict(WSel="g", Cert="TRUE", MaxI=2, Skew='{"judged", "same"}', MaxLost=1, FutureJudged="FALSE", Replay="{}", Known=AFTERQ)
    behs = witnesses(2)
    nw = len(behs)
    ok = True
    runs = [("GV2_oneblock", "GV", dict(Blocks='{"B"}', MaxMsgs=4))]
    if not quick:
        runs = [("M2_voterlevel_cert", "M", dict(MaxMsgs=4))] + runs + [("GV2_twoblocks", "GV", dict(MaxMsgs=3))]
    rnd = random.Random(ctx.seed)
    for name, mode, k2 in runs:
        d = dict(kw)
        d.update(k2)
        m = ctx.tlc_must("VoteCount", cfg(mode, **d), name=name, timeout=3000)
        if m.violated:
            ok = False
            ctx.cov["design_violation_stage2"] = m.violated
            for v in m.printed:
                if isinstance(v, dict) and v.get("kind") == "CEX":
                    behs.append(v["h"])
                    ctx.note("stage 2: design-level counterexample for %s exported for replay" % v.get("clause"))
        if mode == "GV":
            hs = leaves([v["h"] for v in m.printed if isinstance(v, dict) and v.get("kind") == "B"])
            hs.sort(key=lambda h: json.dumps(h, sort_keys=True))
            cap = 12000 if name == "GV2_oneblock" else 15000
            if len(hs) > cap:
                rnd.shuffle(hs)
                hs = hs[:cap]
            behs += hs
    ctx.cov["exhaustive"] = bool(ctx.cov.get("exhaustive")) and ok
    ctx.note("stage 2 (voter level, certificate round): %d witnesses, %d generated behaviours" % (nw, len(behs) - nw))
    voter_level(ctx, "2", behs, "VoteCount_Trace2.cfg", ok,
                ("PrecommitOnlyAfterPrevoteQuorum", "CertOnlyAfterPrecommitQuorum", "CommitOnlyAfterQuorums"))


def stage3(ctx):
    """Voter-level stage, ordinary round 1, FIVE or six round indices with one block staying the candidate: the voter keeps the
    tallies of four contexts and recycles the oldest tally object for the fifth (votes_mgr.go NewWrapper / clear)."""
    quick = ctx.quick
    kw = dict(WSel="g", Cert="FALSE", Blocks='{"B"}', Skew='{"judged"}', FutureJudged="FALSE", Replay="{}")
    runs = [("GV3_ring_5indices", dict(MaxI=5, MaxMsgs=2, KSet='{"Prevote"}'))]
    if not quick:
        runs.append(("GV3_ring_6indices", dict(MaxI=6, MaxMsgs=2, KSet='{"Prevote", "Precommit"}')))
    behs = []
    ok = True
    rnd = random.Random(ctx.seed)
    for name, k2 in runs:
        d = dict(kw)
        d.update(k2)
        m = ctx.tlc_must("VoteCount", cfg("GV", **d), name=name, timeout=3000)
        if m.violated:
            ok = False
            ctx.cov["design_violation_stage3"] = m.violated
            behs += [v["h"] for v in m.printed if isinstance(v, dict) and v.get("kind") == "CEX"]
        hs = leaves([v["h"] for v in m.printed if isinstance(v, dict) and v.get("kind") == "B"])
        hs.sort(key=lambda h: json.dumps(h, sort_keys=True))
        if len(hs) > 15000:
            rnd.shuffle(hs)
            hs = hs[:15000]
        behs += hs
    ctx.cov["exhaustive"] = bool(ctx.cov.get("exhaustive")) and ok
    ctx.note("stage 3 (voter level, ring of four tallies over %s indices): %d generated behaviours" % ("5" if quick else "5-6", len(behs)))
    voter_level(ctx, "3", behs, "VoteCount_Trace3.cfg", ok, ("PrecommitOnlyAfterPrevoteQuorum",))


def stage4(ctx):
    """BLS stage (driver votecert, BLS world): the real Voter with BLS signing, two real look-back validator sets that are ordered
    differently (stake look-back / certificate look-back), real VRF proofs; every emitted vote is shown to a peer's real voter,
    every CommitEvent's packed sets go through the header verifier's vote check (Server.verifyVotes of an independent engine).
    Behaviours: one into every distinct design state an announced commit produces (mode GV, focus "commit")."""
    quick = ctx.quick
    base = dict(WSel="g", Blocks='{"B"}', Skew='{"judged"}', FutureJudged="FALSE", Replay="{}", GVFocus="commit", Known=AFTERQ)
    rnd = random.Random(ctx.seed)

    def gen(name, **kw):
        d = dict(base)
        d.update(kw)
        m = ctx.tlc_must("VoteCount", cfg("GV", **d), name=name, timeout=3000)
        if m.violated:
            raise vlib.Undecided("stage 4: design run %s violates %s" % (name, m.violated))
        hs = [v["h"] for v in m.printed if isinstance(v, dict) and v.get("kind") == "B"]
        hs.sort(key=lambda h: json.dumps(h, sort_keys=True))
        return hs

    def bls(hs):
        out = []
        for h in hs:
            h = [dict(o) for o in h]
            h[0]["bls"] = True
            out.append(h)
        return out

    # certificate round, two indices
    # (one behaviour costs ~0.1 s: about eight BLS pairings -- the quick tier takes a seeded sample, every member of which has
    #  the node's own certificate vote and a commit whose packed sets are verified)
    hs = gen("GV4_cert_commits", Cert="TRUE", MaxI=2, MaxMsgs=4)
    rnd.shuffle(hs)
    if not quick:
        h2 = gen("GV4_cert_commits_2blocks", Cert="TRUE", MaxI=2, MaxMsgs=4, Blocks=AB)
        rnd.shuffle(h2)
        hs += h2[:400]
    else:
        hs = hs[:60]
    ctx.note("stage 4 (BLS, certificate round, two look-back orders): %d behaviours ending in a commit" % len(hs))
    voter_level(ctx, "4c", bls(hs), "VoteCount_Trace2.cfg", True, ("CommitVerifies", "OwnVoteVerifiesAtPeer", "CertOnlyAfterPrecommitQuorum"))
    # ordinary round, five indices: commits in the index that reuses the tally object of index 1
    hs = gen("GV4_ring_commits", Cert="FALSE", MaxI=5, MaxMsgs=3, KSet='{"Prevote", "Precommit"}')
    late = [h for h in hs if sum(1 for o in h if o["op"] == "NextIdx") >= 4]
    # votes stored in the tally of index 1 when that object is recycled for index 5 (delivered for index 1 while the node was
    # in indices 1..4) by a peer that does not precommit again in index 5 before the commit: only then does the stored vote
    # set of the recycled object differ from what a correctly cleared one holds at the commit
    def at(h, n):
        return 1 + sum(1 for o in h[:n] if o["op"] == "NextIdx")

    def carried(h):
        st = {o["s"] for n, o in enumerate(h) if o["op"] == "Recv" and o["i"] == 1 and o["k"] == "Precommit" and at(h, n) <= 4}
        p5 = {o["s"] for o in h if o["op"] == "Recv" and o["i"] == 5 and o["k"] == "Precommit"}
        return bool(st - p5)

    stale = [h for h in late if carried(h)]
    rest = [h for h in late if not carried(h)]
    ctx.cov["stage4r_carried_vote_behaviours"] = len(stale)
    if not stale:
        raise vlib.Undecided("stage 4: no behaviour commits in index 5 with a vote carried in the recycled tally: generator bug")
    rnd.shuffle(stale)
    rnd.shuffle(rest)
    late = (stale[:90] + rest[:10]) if quick else (stale + rest[:400])   # quick: every carried-vote behaviour (64 of them)
    ctx.note("stage 4 (BLS, ordinary round, commit in index 5 on the recycled tally): %d behaviours" % len(late))
    voter_level(ctx, "4r", bls(late), "VoteCount_Trace3.cfg", True, ("CommitVerifies", "EquivocatorWeightless"))


def voter_level(ctx, tag, behs, tracecfg, ok, must_fire):
    """Drive behaviours through the real Voter (driver votecert), judge with VoteCount_Mon, conformance with `tracecfg`."""
    bpath = ctx.path("behaviours%s.ndjson" % tag)
    vlib.write_ndjson(bpath, behs)
    trace = ctx.path("trace%s.ndjson" % tag)
    ctx.drive("votecert", trace, behaviours=bpath)
    ctx.cov["traces_validated_against_impl"] += len(behs)
    ctx.cov["evaluations"] += len(behs)
    ctx.cov["stage%s_behaviours" % tag] = len(behs)
    res, _ = vlib.monitor(ctx, "VoteCount_Mon", "VoteCount_Mon.cfg", trace, name="VoteCount_Mon_stage" + tag, behaviours=bpath,
                          replay_meta={"driver": "votecert"})
    ctx.cov["stage%s_clauses_fired" % tag] = res.get("fired")
    conf = ctx.tlc("VoteCount_Trace", tracecfg, name="Conf_stage" + tag, files={"trace.ndjson": trace}, workers=1,
                   timeout=1500, count=False, xss="256m")
    acc = [v for v in conf.printed if isinstance(v, dict) and v.get("kind") == "ACCEPTED"]
    rej = [v for v in conf.printed if isinstance(v, dict) and v.get("kind") == "REJECTED"]
    key = "stage%s_conformance" % tag
    if acc:
        ctx.cov[key] = "accepted %d events" % acc[0]["events"]
    else:
        ctx.cov["drift_events"] += 1
        ctx.cov[key] = "rejected: %s" % (json.dumps(rej[0])[:800] if rej else (conf.error or conf.violated or "no verdict"))
        print("DRIFT: property=C03 the real Voter (voter-level stage %s) left the design layer of VoteCount.tla: %s" % (tag, ctx.cov[key]), flush=True)
    fired = res.get("fired") or {}
    for c in must_fire:
        if not fired.get(c):
            raise vlib.Undecided("stage %s: clause %s never fired: generator bug" % (tag, c))
    if not ok and not ctx.violations and not ctx.known_hits:
        raise vlib.Undecided("stage %s: design-level counterexample did not reproduce on the real code: specification drift" % tag)


def run(ctx):
    ctx.cov["rule"] = ("behaviours = stored witnesses + design counterexamples + simulated behaviours over three alphabets; non-trivial = "
                       "delivers at least three valid votes for one (kind, block, index); distinct by JSON of the action sequence")
    ctx.assumptions += [
        "one round (round 1 on the fixture's genesis), indices 1..2, two real proposals A and B, four peers + the node; degenerate sortition "
        "(ValidatorThreshold = total chamber stake 20, so weight = stake 2,3,4,5,6): quorum floor(0.685*20) = 13",
        "certificate rounds are checked at design level only: params.ACoCHTFrequency is a constant (32768), a fixture chain cannot reach one",
        "proposals are put into the proposal cache directly (the proposer's credential is C01/C04's business); step changes and index "
        "changes are injected (timers never run); old-ROUND and future-ROUND votes are not generated (one round)",
        "an invalid credential = a real sortition proof of the same sender for another step",
        "the capturing inserter never fails, so Server.commit's error path (removeMarkedBlock) is not exercised",
    ]
    behs, ok = generate(ctx)
    for b in behs[:3]:
        ctx.sample(b)
    trace, res = judge(ctx, behs)
    if not ctx.quick:
        selftest(ctx, trace)
    fired = ctx.cov.get("clauses_fired", {})
    for c in ("PrecommitOnlyAfterPrevoteQuorum", "CommitOnlyAfterQuorums", "CommitVerifies"):
        if not fired.get(c):
            raise vlib.Undecided("clause %s never fired: generator bug" % c)
    if not ok and not ctx.violations and not ctx.known_hits:
        raise vlib.Undecided("design-level counterexample did not reproduce on the real code: specification drift")
    stage2(ctx)
    stage3(ctx)
    stage4(ctx)
    # growth stage UconNet (see checks/uconnet.py): the composition at design level, and the C02/C03 clauses plus Agreement
    # on the traces of the repository's own six-node tests (real concurrency), recorded by the verifTrace hooks in voter.go
    if ctx.quick:
        pass    # the six-node stage costs ~25 s (TestUcon): thorough tier only, the quick tier's budget goes to the voter-level stages
    else:
        uconnet.design(ctx)
        uconnet.six_nodes(ctx, ["TestUcon", "TestFork"], timeout=900, strict=True)


def replay(ctx, path):
    data = json.load(open(path))
    if (data.get("meta") or {}).get("driver") == "votecert" or any(b and (b[0].get("cert") or b[0].get("w") not in (None, "a")) for b in data["behaviours"]):
        bpath = ctx.path("behaviours2.ndjson")
        vlib.write_ndjson(bpath, data["behaviours"])
        trace = ctx.path("trace2.ndjson")
        ctx.drive("votecert", trace, behaviours=bpath)
        vlib.monitor(ctx, "VoteCount_Mon", "VoteCount_Mon.cfg", trace, name="VoteCount_Mon_stage2", behaviours=bpath, replay_meta={"driver": "votecert"})
        return
    judge(ctx, data["behaviours"])
