"""C01 -- a block header is accepted only with a protocol-sized quorum of valid precommits.

table : the driver `headerverify` builds the fixture configurations (look-back validator sets in a real validator trie, real
        keys) and records the REAL sortition seat table of every member under every threshold of the alphabet (fixtures.json).
M     : spec/HeaderVerify.tla -- forging state machine from the honest header, exhaustive to the forging depth; invariant
        Safe: CodeAccepts(h) => every failing clause of h is a named deviation (the known signatures).
G1    : every header description within the forging depth, printed with CodeAccepts / Entitled evaluated.
T     : the driver builds every selected description with real VRF credentials, BLS signatures/aggregate and encodings and
        gives it to the real VerifySeal / VerifyHeader / VerifySideChainHeader; HeaderVerify_Mon (property layer, the
        verdict: realAccept => clause) and HeaderVerify_Trace (realAccept = CodeAccepts, drift) judge the recorded trace.
"""
import json
import os
import random
import vlib

M_CFG = """SPECIFICATION Spec
CONSTANTS
  Cfgs = {%s}
  Deep = {%s}
  Depth = %d
  MaxVotes = 4
  GenMode = "none"
  Sample = 8
  UseDev = %s
  Side = "%s"
INVARIANT Safe
INVARIANT HonestAccepted
INVARIANT EntitledNoFail
CHECK_DEADLOCK FALSE
"""

G_CFG = """SPECIFICATION Spec
CONSTANTS
  Cfgs = {%s}
  Deep = {%s}
  Depth = %d
  MaxVotes = 4
  GenMode = "all"
  Sample = %d
  UseDev = TRUE
  Side = "%s"
INVARIANT Leaf
CHECK_DEADLOCK FALSE
"""


def cs(xs):
    return ", ".join(str(x) for x in xs)


def key_of(h):
    return json.dumps({k: v for k, v in h.items() if k != "d"}, sort_keys=True, separators=(",", ":"))


def fixtures(ctx):
    """Run the driver in table mode: the real seat tables of all configurations."""
    out = ctx.path("table.ndjson")
    ctx.drive("headerverify", out, opts={"mode": "table"})
    fx = [e["fx"] for e in vlib.read_ndjson(out) if e.get("ev") == "fixture"]
    if not fx:
        raise vlib.Undecided("driver produced no fixture table")
    p = ctx.path("fixtures.json")
    with open(p, "w") as fh:
        json.dump(fx, fh)
    return fx, p


def witnesses():
    behs = []
    wdir = os.path.join(vlib.VERIF, "findings")
    for f in sorted(os.listdir(wdir)) if os.path.isdir(wdir) else []:
        if f.startswith("C01_") and f.endswith(".json"):
            behs += json.load(open(os.path.join(wdir, f)))["behaviours"]
    return behs


def generate(ctx, fx, fxpath):
    quick = ctx.quick
    files = {"fixtures.json": fxpath, "known.json": vlib.known_json_for(ctx)}
    behs = witnesses()
    nw = len(behs)
    ncfg = len(fx)
    allc = list(range(1, ncfg + 1))
    plain = [c for c in allc if not fx[c - 1].get("certRound")]
    certc = [c for c in allc if fx[c - 1].get("certRound")]
    # ---- M: exhaustive design-level runs.  Run A: all forging steps -- quick: configuration 1 to depth 3, the others to depth 2;
    # thorough: four plain configurations (degenerate-A, natural-N, natural-T, epoch-E2) to depth 3, the others to depth 2.  Run B: the certificate-round
    # configurations to depth 3 with the forging steps on the certificate only.
    names = {fx[c - 1]["name"]: c for c in allc}
    tdeep = [names[n_] for n_ in ("degenerate-A", "natural-N", "natural-T", "epoch-E2") if n_ in names]
    runs = [("M_design", cs(allc), cs([1] if quick else tdeep), "all", not quick)]
    if not quick:
        runs.append(("M_certificate", cs(certc), cs(certc), "cert", False))
    design_violation = None
    exhaustive = True
    for name, cfgs_, deep, side, cov in runs:
        m = ctx.tlc_must("HeaderVerify", M_CFG % (cfgs_, deep, 3, "TRUE", side), name=name, files=files, timeout=2400, coverage=cov)
        for v in m.printed:
            if isinstance(v, dict) and v.get("kind") == "CEX":
                behs.append(v["h"])
                ctx.note("design-level counterexample exported for replay: %s" % json.dumps(v.get("fail")))
        design_violation = design_violation or m.violated
        exhaustive = exhaustive and m.ok
        if getattr(m, "zero_actions", None):
            ctx.cov["coverage_zero_actions"] = m.zero_actions
    ctx.cov["exhaustive"] = exhaustive
    ctx.cov["design_violation"] = design_violation
    if not quick:
        # the same model without the named deviations must find the known design-level counterexamples (they are replayed)
        for name, cfgs_, side in (("M_nodev", "1", "all"), ("M_nodev_certificate", cs(certc[:1]), "cert")):
            m0 = ctx.tlc_must("HeaderVerify", M_CFG % (cfgs_, "", 3, "FALSE", side), name=name, files=files, timeout=600, count=False)
            for v in m0.printed:
                if isinstance(v, dict) and v.get("kind") == "CEX":
                    behs.append(v["h"])
            ctx.cov["design_violation_without_named_deviations"] = m0.violated
    ncex = len(behs) - nw
    # ---- G1: every description within the forging depth (quick: depth 2; thorough: depth 3 for configurations 1 and natural-T, and
    # depth 3 of the certificate-only forging steps for the certificate-round configurations)
    gdeep = [] if quick else [1, plain[-1]]
    # the bulk (tempting, rejected by the design layer, depth >= 2) is thinned out in TLC by a structural hash chosen by the seed
    smp = ctx.seed % 8
    gruns = [("G1", G_CFG % (cs(allc), cs(allc), 2, smp, "all") if quick else G_CFG % (cs(allc), cs(gdeep), 3, smp, "all"))]
    if not quick:
        gruns.append(("G1_certificate", G_CFG % (cs(certc), cs(certc), 3, smp, "cert")))
    printed = []
    for name, gcfg in gruns:
        g = ctx.tlc_must("HeaderVerify", gcfg, name=name, files=files, timeout=2400)
        printed += g.printed
    rows = {}
    for v in printed:
        if isinstance(v, dict) and v.get("kind") == "B":
            k = key_of(v["h"])
            if k not in rows or rows[k]["h"]["d"] > v["h"]["d"]:
                rows[k] = v
    allrows = [rows[k] for k in sorted(rows)]
    # selection: everything of depth <= 1, every description the design layer accepts although it is not entitled, every
    # "tempting" one that the design layer rejects (the claimed weight of the list reaches a quorum: what a verifier with a
    # missing check would accept), and a seeded sample of the rest
    rnd = random.Random(ctx.seed)

    # quick: degenerate-B and degenerate-C repeat degenerate-A with other stakes: a seeded half of their depth-1 descriptions is enough
    thin = {names.get("degenerate-B"), names.get("degenerate-C")} if quick else set()

    def cls(r):
        if r["h"]["d"] <= 1 and not (r["h"]["d"] == 1 and r["h"]["cfg"] in thin and rnd.random() < 0.5):
            return 0
        if (r["ca"] and not r["en"]) or (r.get("cac") and not r.get("enac")):
            return 1
        if r["tp"] and not r["ca"]:
            return 2
        return 3
    groups = {0: [], 1: [], 2: [], 3: []}
    for r in allrows:
        groups[cls(r)].append(r)
    for k in groups:
        # stratified by the set of classes that occur in the description (round-robin over the strata), seeded
        strata = {}
        for r in groups[k]:
            strata.setdefault("+".join(sorted(r.get("cl", []))), []).append(r)
        for s_ in strata.values():
            rnd.shuffle(s_)
        names = sorted(strata)
        rnd.shuffle(names)
        out = []
        i = 0
        while any(strata.values()):
            s_ = strata[names[i % len(names)]]
            if s_:
                out.append(s_.pop())
            i += 1
        groups[k] = out
        if k == 2:
            ctx.cov["tempting_strata"] = len(names)
    caps = {0: 10 ** 9, 1: 160, 2: 240, 3: 50} if quick else {0: 10 ** 9, 1: 2000, 2: 3000, 3: 1000}
    sel = []
    for k in sorted(groups):
        sel += groups[k][:caps[k]]
    ctx.cov["selection"] = {("depth<=1", "accepted_unentitled", "tempting_rejected", "rest")[k]: "%d of %d" % (min(len(groups[k]), caps[k]), len(groups[k]))
                            for k in sorted(groups)}
    # configuration order: the epochs of one chain (family) are verified by one engine in this order within the driver process
    behs += sorted((r["h"] for r in sel), key=lambda h_: h_["cfg"])
    ctx.cov["generated_descriptions"] = len(allrows)
    ctx.cov["selected_descriptions"] = len(sel)
    ctx.cov["model_accepts"] = sum(1 for r in allrows if r["ca"])
    ctx.cov["model_accepts_unentitled"] = sum(1 for r in allrows if r["ca"] and not r["en"])
    ctx.note("descriptions: %d witnesses, %d design counterexamples, %d generated (%d accepted by the design layer, %d of them "
             "not entitled), %d selected for the real verifier" % (nw, ncex, len(allrows), ctx.cov["model_accepts"],
                                                                  ctx.cov["model_accepts_unentitled"], len(sel)))
    return behs, design_violation


DEFAULTS = {"cf": "std", "cvotes": [], "cagg": "ok", "cfidx": 1, "lb": 0}


def normalise(ctx, behs, fxpath):
    """Descriptions recorded before the certificate extension lack the certificate fields."""
    fx = json.load(open(fxpath))
    for b in behs:
        for k, v in DEFAULTS.items():
            b.setdefault(k, v)
        b.setdefault("declC", fx[b["cfg"] - 1]["protoC"])
        for v in b["votes"] + b["cvotes"]:
            v.setdefault("bk", 0)
            v.setdefault("ls", 1)
    return behs


def judge(ctx, behs, fxpath):
    behs = normalise(ctx, behs, fxpath)
    bpath = ctx.path("behaviours.ndjson")
    vlib.write_ndjson(bpath, behs)
    trace = ctx.path("trace.ndjson")
    info = ctx.drive("headerverify", trace, behaviours=bpath, timeout=2400, opts={"all": "0" if ctx.quick else "1"})
    ev = [e for e in vlib.read_ndjson(trace) if e.get("ev") == "Verify"]
    ctx.cov["traces_validated_against_impl"] += len(ev)
    ctx.cov["evaluations"] += len(ev)
    acc = [e for e in ev if e.get("accept")]
    ctx.cov["real_accepts"] = ctx.cov.get("real_accepts", 0) + len(acc)
    ctx.cov["ac_path_verdicts"] = ctx.cov.get("ac_path_verdicts", 0) + sum(1 for e in ev if "ac" in e)
    ctx.cov["ac_path_accepts"] = ctx.cov.get("ac_path_accepts", 0) + sum(1 for e in ev if e.get("ac"))
    ctx.cov["real_panics"] = ctx.cov.get("real_panics", 0) + sum(1 for e in ev if "panic" in e or "hdrPanic" in e or "sidePanic" in e)
    ctx.cov["skipped_descriptions"] = ctx.cov.get("skipped_descriptions", 0) + sum(1 for e in ev if "skip" in e)
    # non-trivial: forged (depth >= 1) descriptions; distinct by the description without the depth tag
    ctx.cov["distinct_nontrivial"] += len({key_of(e["desc"]) for e in ev if e["desc"].get("d", 0) >= 1})
    for e in ev:
        if e.get("panic"):
            ctx.cov.setdefault("panic_messages", [])
            if e["panic"] not in ctx.cov["panic_messages"] and len(ctx.cov["panic_messages"]) < 5:
                ctx.cov["panic_messages"].append(e["panic"])
    files = {"fixtures.json": fxpath}
    vlib.monitor(ctx, "HeaderVerify_Mon", "HeaderVerify_Mon.cfg", trace, behaviours=bpath, files=files,
                 replay_meta={"driver": "headerverify"})
    if info["aborts"]:
        ctx.note("driver aborted in %d behaviours: %s" % (len(info["aborts"]), info["aborts"][:3]))
    conf = ctx.tlc("HeaderVerify_Trace", "HeaderVerify_Trace.cfg", name="Conf", files=dict(files, **{"trace.ndjson": trace}), workers=1,
                   timeout=1500, count=False, xss="256m")
    ok = [v for v in conf.printed if isinstance(v, dict) and v.get("kind") == "ACCEPTED"]
    rej = [v for v in conf.printed if isinstance(v, dict) and v.get("kind") == "REJECTED"]
    if ok:
        ctx.cov["conformance"] = "accepted %d events" % ok[0]["events"]
    else:
        ctx.cov["drift_events"] += 1
        ctx.cov["conformance"] = "rejected: %s" % (json.dumps(rej[0])[:900] if rej else (conf.error or conf.violated or "no verdict"))
        print("DRIFT: property=C01 the real verifier left the design layer of HeaderVerify.tla: %s" % ctx.cov["conformance"], flush=True)
    return trace, ev


def selftest(ctx, trace, fxpath):
    """Binding self-test: (a) flipping one recorded verdict must make the conformance spec reject at that line;
    (b) turning a rejected, unentitled header into an accepted one must make the monitor report a clause."""
    ev = vlib.read_ndjson(trace)
    bad = None
    for i, e in enumerate(ev):
        if e.get("ev") == "Verify" and not e.get("accept") and e["desc"].get("d", 0) >= 1 and len(e["desc"]["votes"]) == 1 \
                and e["desc"]["declV"] == e["desc"]["declP"] and "panic" not in e and "ac" not in e:
            bad = i
            break
    if bad is None:
        ctx.cov["binding_selftest"] = "no suitable line"
        return
    for k in ("accept", "seal", "hdr", "side"):
        if k in ev[bad]:
            ev[bad][k] = True
    p = ctx.path("trace_corrupt.ndjson")
    vlib.write_ndjson(p, ev[:bad + 3])
    files = {"fixtures.json": fxpath, "trace.ndjson": p}
    conf = ctx.tlc("HeaderVerify_Trace", "HeaderVerify_Trace.cfg", name="Conf_selftest", files=files, workers=1, timeout=600,
                   count=False, xss="256m")
    rej = [v for v in conf.printed if isinstance(v, dict) and v.get("kind") == "REJECTED"]
    ok1 = bool(rej) and rej[0]["line"] == bad + 1
    files = {"fixtures.json": fxpath, "trace.ndjson": p, "known.json": vlib.known_json_for(ctx)}
    mon = ctx.tlc("HeaderVerify_Mon", "HeaderVerify_Mon.cfg", name="Mon_selftest", files=files, workers=1, timeout=600, count=False,
                  xss="256m", check_deadlock=False)
    res = [v for v in mon.printed if isinstance(v, dict) and v.get("kind") == "RESULT"]
    ok2 = bool(res) and any(item[2] == bad + 1 for item in res[0].get("viol", []))
    ctx.cov["binding_selftest"] = "flipped verdict at line %d: conformance rejected at %s; monitor reported %s" % (
        bad + 1, rej[0]["line"] if rej else None, [it[:2] for it in res[0]["viol"] if it[2] == bad + 1] if res else None)
    if not (ok1 and ok2):
        raise vlib.Undecided("trace-checker self-test failed: %s" % ctx.cov["binding_selftest"])


def run(ctx):
    ctx.cov["rule"] = ("descriptions = stored witnesses + design counterexamples + forging-depth-<=1 descriptions + every description the "
                       "design layer accepts + every 'tempting' description (claimed weight reaches a quorum) + a seeded sample of the "
                       "rest, over all fixture configurations; non-trivial = forged (depth >= 1); distinct by the JSON of the description")
    ctx.assumptions += [
        "look-back validator sets of 5 validators (online/offline chamber, house), round 1 on top of a genesis block, BLS-enabled version",
        "three degenerate configurations (threshold = online chamber stake, p = 1, seat count = stake) and one natural (p < 1)",
        "seat counts used by the property layer are the REAL sortition results recorded by the driver (exactness of sortition is C04)",
        "quorum = floor(0.685 T) in exact arithmetic (DESIGN section 9); thresholds of the alphabet are < 3400",
        "VRF/BLS/ECDSA hardness is trusted; BLS rogue-key registration (no proof of possession) is outside the model",
        "certificate rounds: two configurations at round 3 * ACoCHTFrequency on the stub chain (stake look-back set and certificate look-back "
        "set differ in stakes, status and list order); the CertValThreshold consulted is the one DECLARED by the certificate look-back header",
        "every description is also verified (VerifyHeader, VerifyHeaders always; the other entry points sampled / thorough) against a stub chain "
        "that ALREADY STORES the honest header of that round (same hash whenever only vote fields differ); acceptance by any variant counts",
        "epochs: configurations epoch-E1 / epoch-E2 share validator main keys and ONE verifier engine; in E2 validator 1 has a new BLS key and "
        "validators 2, 3 swapped stakes; E1 headers are verified before E2 headers in the same process (status / kind changes between epochs "
        "are not modelled: they are masked by the known eligibility defect)",
        "ecdsa-A: a protocol version with EnableBls = false, handed to the verifier by the stub chain (params.Versions is not touched): every "
        "precommit carries its own ECDSA signature, the voter is the recovered key, no aggregate",
        "lookback-U: the chain's current validator set = the look-back set + a newcomer (stake 60) registered after the look-back block; "
        "descriptions may make the look-back validator trie unreadable (expected: refusal by VerifySeal / VerifyHeader / VerifyHeaders)",
        "VerifyAcHeader (light-client path) is observed at certificate rounds and judged by the certificate clause only (AcCertificateQuorum)",
        "a proposer with zero seats or of offline/house kind is documented, not alarmed on (the statement only asks that the credential verifies)",
    ]
    fx, fxpath = fixtures(ctx)
    behs, dv = generate(ctx, fx, fxpath)
    for b in behs[:2] + behs[-2:]:
        ctx.sample(b)
    trace, ev = judge(ctx, behs, fxpath)
    if ctx.cov.get("real_panics"):
        ctx.note("SIDE FINDING: the real verifier PANICKED on %d forged headers (%s); a panic is not an acceptance, so it is outside the "
                 "statement of C01, but it is a remotely triggerable crash (witness: findings/C01_x_verifier_panics.json)"
                 % (ctx.cov["real_panics"], "; ".join(ctx.cov.get("panic_messages", []))))
    if not ctx.quick:
        selftest(ctx, trace, fxpath)
    if dv and not ctx.violations:
        raise vlib.Undecided("design-level counterexample (%s) did not reproduce on the real code: specification drift" % dv)


def replay(ctx, path):
    data = json.load(open(path))
    fx, fxpath = fixtures(ctx)
    judge(ctx, data["behaviours"], fxpath)
