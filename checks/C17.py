"""C17 -- transactions are authentic, applied at most once, and charged exactly.

M  : spec/TxApply.tla -- every transaction class combination against the initial state (depth 1) and every sequence of three
     transactions of the reduced alphabet against a gas pool that fits two of them, with every representative execution
     outcome; the clauses of the statement as invariants (the known refund accounting is searched past: KnownRefund).
G1 : all class combinations (both call patterns: Process / miner wrapper) and all such sequences, printed as JSON; the
     signature cases (class x mutation).   G2: `-simulate` over the full alphabet, longer sequences.
T  : driver `txapply` concretises every class against the real state, signs real transactions and applies them with the real
     core.StateProcessor.ApplyTransaction on a real StateDB of a real chain (solo engine, staking module registered), and runs
     types.Sender on every mutation; TxApply_Mon (the verdict) and TxApply_Trace (conformance, drift) judge the recorded trace.
"""
import json
import os
import random
import vlib

CFG = """%s
CONSTANTS
  MaxTx = %d
  Alphabet = "%s"
  Pool0 = %d
  GasMode = "%s"
  Modes = {"process", "miner"}
  Prices = {%s}
  KnownRefund = %s
  Versions = {%s}
  AllFull = %s
  RlpKeepsCaches = @RLP@
  GenMode = "%s"
%s
CHECK_DEADLOCK FALSE
"""
INV = """INVARIANT RefusedChangesNothing
INVARIANT NonceExactlyNext
INVARIANT SufficientFunds
INVARIANT ChargedExactly
INVARIANT GasWithinBounds
INVARIANT PoolAccounting
INVARIANT RevertedUnchanged
VIEW View"""
POOL1 = 300000          # single transactions
POOL3 = 243000          # fits two "ample" plain transfers (2 * 121000) and a little more


ALLV = "1, 2, 3, 4, 5"
# whether the code under test has the named deviation DecodeRLPKeepsCaches (TxApply.tla, signature part): decided per run from
# the replay of the stored witness (detect_deviations), so that a repair or its revert needs no edit of the check
FORM = {"rlp_keeps_caches": "FALSE"}


def _form(cfg):
    return cfg.replace("@RLP@", FORM["rlp_keeps_caches"])


def m_cfg(maxtx, alphabet, pool, known="TRUE", prices="1, 2, 3", versions="5", allfull="FALSE"):
    return _form(CFG % ("SPECIFICATION Spec", maxtx, alphabet, pool, "all", prices, known, versions, allfull, "none", INV))


SIG_INV = """INVARIANT CacheTransparent
INVARIANT SenderAuthenticSeq
VIEW View"""


def msig_cfg(maxres):
    return _form(CFG % ("SPECIFICATION Spec", maxres, "sig", POOL1, "all", "1, 2, 3", "TRUE", "5", "FALSE", "none", SIG_INV))


def g_cfg(maxtx, alphabet, pool, mode="leaf", prices="1, 2, 3", versions="5", allfull="FALSE"):
    return _form(CFG % ("INIT Init\nNEXT Next", maxtx, alphabet, pool, "one", prices, "TRUE", versions, allfull, mode, "CONSTRAINT Leaf"))


def behaviours_of(res):
    # sorted: TLC's workers print in a nondeterministic order, the seeded sampling must not depend on it
    uniq = {json.dumps(v["h"], sort_keys=True): v["h"] for v in res.printed if isinstance(v, dict) and v.get("kind") == "B"}
    return [uniq[k] for k in sorted(uniq)]


def nontrivial(b):
    """Non-trivial: a sequence of at least two transactions, or a single transaction whose class is not the plain valid one."""
    if b.get("kind") in ("sig", "sigseq", "objseq", "vsweep", "applybig"):
        return True
    txs = b.get("txs", [])
    if len(txs) >= 2:
        return True
    return any(t["nc"] != "eq" or t["lim"] != "ample" or t["val"] != "zero" or t["tp"][0] != "acct" for t in txs)


def trace_cfg():
    txt = open(os.path.join(vlib.SPEC, "TxApply_Trace.cfg")).read()
    return txt.replace("RlpKeepsCaches = FALSE", "RlpKeepsCaches = " + FORM["rlp_keeps_caches"])


def detect_deviations(ctx):
    """Replay the stored witness of the repaired RLP re-use defect on the real code and see which form the code has.  (The
    witness is also part of the behaviours judged by the monitor: if the defect is back it is reported as a VIOLATION; the
    constant only keeps the design layer, i.e. M and the conformance run, in step with the code.)"""
    wpath = os.path.join(vlib.VERIF, "findings", "C17_reused_object_rlp.json")
    if not os.path.exists(wpath):
        return
    wit = json.load(open(wpath))["behaviours"]
    bpath, tpath = ctx.path("witness_probe.ndjson"), ctx.path("witness_probe_trace.ndjson")
    vlib.write_ndjson(bpath, wit)
    ctx.drive("txapply", tpath, behaviours=bpath)
    keeps = any(e.get("ev") == "Obj" and e.get("via") in ("rlp", "rlpstream") and e.get("op") in ("home", "hash", "apply")
                and e.get("res") != e.get("content") for e in vlib.read_ndjson(tpath))
    FORM["rlp_keeps_caches"] = "TRUE" if keeps else "FALSE"
    ctx.cov["code_form"] = {"DecodeRLPKeepsCaches": keeps}
    ctx.note("code form (from the witness replay): DecodeRLP %s the caches of a used Transaction value" % ("KEEPS" if keeps else "drops"))


def generate(ctx):
    quick = ctx.quick
    behs = []
    wdir = os.path.join(vlib.VERIF, "findings")
    for f in sorted(os.listdir(wdir)) if os.path.isdir(wdir) else []:
        if f.startswith("C17_") and f.endswith(".json"):
            behs += json.load(open(os.path.join(wdir, f)))["behaviours"]
    nw = len(behs)
    # M: exhaustive design-level runs (known refund accounting searched past)
    full = "FALSE" if quick else "TRUE"
    # every class combination under YouV5, and under YouV1..YouV4 (quick: the staking classes with the next nonce and a slice of the others; thorough: all)
    m1 = ctx.tlc_must("TxApply", m_cfg(1, "full", POOL1, versions=ALLV, allfull=full), name="M_classes", timeout=900, coverage=not quick)
    m3 = ctx.tlc_must("TxApply", m_cfg(3 if quick else 4, "seq", POOL3, versions="3, 4, 5"), name="M_sequences", timeout=1500)
    # ... and without the weakening: the design-level counterexamples of the known findings are exported and replayed
    mk = ctx.tlc_must("TxApply", m_cfg(1, "full", POOL1, known="FALSE"), name="M_refund_cex", timeout=900, count=False)
    mk2 = ctx.tlc_must("TxApply", m_cfg(1, "seq", POOL1, known="FALSE", versions="3"), name="M_legacy_cex", timeout=900, count=False)
    design_cex = []
    for m in (m1, m3, mk, mk2):
        for v in m.printed:
            if isinstance(v, dict) and v.get("kind") == "CEX":
                design_cex.append(v["clause"])
                behs.append({"kind": "apply", "mode": v["mode"], "pool": v["pool"], "ver": v["ver"], "txs": v["h"]})
    # signature part: one transaction object (24 classes x 15 mutations) resolved under every sequence of up to 3 (4) signers,
    # with the sender cache as state
    msig = ctx.tlc_must("TxApply", msig_cfg(3 if quick else 4), name="M_sender_cache", timeout=900)
    # ... and object re-use: 4 classes x every sequence of up to 3 (4) operations {home, foreign, hash, apply, json, rlp, rlpstream, badjson, badrlp}
    mobj = ctx.tlc_must("TxApply", msig_cfg(3 if quick else 4).replace('Alphabet = "sig"', 'Alphabet = "obj"'), name="M_object_reuse", timeout=900)
    if mobj.violated:
        raise vlib.Undecided("design-level violation in the object re-use part (%s): specification error" % mobj.violated)
    ctx.cov["exhaustive"] = m1.ok and m3.ok and msig.ok
    if msig.violated:
        raise vlib.Undecided("design-level violation in the signature part (%s): specification error" % msig.violated)
    ctx.cov["design_violation"] = m1.violated or m3.violated
    ctx.cov["design_cex_known_refund"] = mk.violated
    ctx.cov["design_cex_known_legacy"] = mk2.violated
    if getattr(m1, "zero_actions", None):
        ctx.cov["coverage_zero_actions"] = m1.zero_actions
    ncex = len(behs) - nw
    # G1: every class combination, both call patterns; every sequence of three of the reduced alphabet; signature cases
    g1 = ctx.tlc_must("TxApply", g_cfg(1, "full", POOL1, versions=ALLV, allfull=full), name="G1_classes", timeout=900)
    g3 = ctx.tlc_must("TxApply", g_cfg(3, "seq", POOL3, versions="5" if quick else "3, 4, 5"), name="G1_sequences", timeout=900)
    gs = ctx.tlc_must("TxApply", g_cfg(0, "seq", POOL1, mode="sig"), name="G1_signatures", timeout=300)
    gq = ctx.tlc_must("TxApply", g_cfg(2 if quick else 3, "sig", POOL1, mode="sigseq"), name="G1_sender_cache", timeout=600)
    # (sequences of up to 3 operations in both tiers: length 4 is covered at design level by M_object_reuse in the thorough tier)
    go = ctx.tlc_must("TxApply", g_cfg(3, "obj", POOL1, mode="objseq"), name="G1_object_reuse", timeout=600)
    # V sweep: 12 classes x network ids {1, 2, 99} x every V in 0 .. 2*net + 40
    gv = ctx.tlc_must("TxApply", g_cfg(0, "seq", POOL1, mode="vsweep"), name="G1_v_sweep", timeout=300)
    # big-number stage: 8 price x 3 limit x 5 affordability x 4 value classes, both call patterns; magnitudes up to 2^255 are
    # chosen by the driver, travel as decimal strings and are judged with exact arithmetic (BigWord override)
    gb = ctx.tlc_must("TxApply", g_cfg(0, "seq", POOL1, mode="big", versions="5" if quick else "4, 5"), name="G1_big_numbers", timeout=300)
    b1, b3, bs = behaviours_of(g1), behaviours_of(g3), behaviours_of(gs) + behaviours_of(gq) + behaviours_of(gv) + behaviours_of(gb) + behaviours_of(go)
    rnd = random.Random(ctx.seed)
    if quick:
        # the quick tier keeps every class combination with price 1 or 3 and a seeded half of the sequences
        b3 = rnd.sample(b3, len(b3) // 2)
    behs += b1 + b3 + bs
    n1 = len(behs)
    # G2: random longer sequences over the full alphabet
    depth = 5 if quick else 7
    g2 = ctx.tlc_must("TxApply", g_cfg(depth, "full", 2 * POOL3, versions=ALLV, allfull="TRUE"), name="G2_simulate", timeout=900,
                      simulate={"num": 150 if quick else 4000}, depth=depth + 1)
    sim = behaviours_of(g2)
    rnd.shuffle(sim)
    behs += sim[:(400 if quick else 12000)]
    ctx.note("behaviours: %d witnesses, %d design counterexamples, %d bounded-exhaustive, %d simulated" % (nw, ncex, n1 - nw - ncex, len(behs) - n1))
    return behs, design_cex


def dedup(behs):
    seen, out = set(), []
    for b in behs:
        s = json.dumps(b, sort_keys=True)
        if s not in seen:
            seen.add(s)
            out.append(b)
    return out


def judge(ctx, behs):
    bpath = ctx.path("behaviours.ndjson")
    vlib.write_ndjson(bpath, behs)
    trace = ctx.path("trace.ndjson")
    info = ctx.drive("txapply", trace, behaviours=bpath)
    ctx.cov["traces_validated_against_impl"] += len(behs)
    ctx.cov["evaluations"] += sum(len(b.get("txs", [])) or len(b.get("muts", [])) or len(b.get("seq", [])) or len(b.get("vs", [])) or 1 for b in behs)
    ctx.cov["distinct_nontrivial"] += len({json.dumps(b, sort_keys=True) for b in behs if nontrivial(b)})
    # T (verdict)
    res, _ = vlib.monitor(ctx, "TxApply_Mon", "TxApply_Mon.cfg", trace, behaviours=bpath, replay_meta={"driver": "txapply"}, timeout=1500)
    # the statement does not promise absence of aborts, but an abort inside ApplyTransaction cannot be attributed to anything else
    for a in info["aborts"]:
        ctx.report("C17/NoPanic/process_abort", vlib.save_behaviour_replay(ctx, "C17/NoPanic/process_abort", bpath, a["b"], {}), a)
    # T (drift)
    conf = ctx.tlc("TxApply_Trace", trace_cfg(), name="Conf", files={"trace.ndjson": trace}, workers=1,
                   timeout=1500, count=False, xss="256m")
    acc = [v for v in conf.printed if isinstance(v, dict) and v.get("kind") == "ACCEPTED"]
    rej = [v for v in conf.printed if isinstance(v, dict) and v.get("kind") == "REJECTED"]
    if acc:
        ctx.cov["conformance"] = "accepted %d events" % acc[0]["events"]
    else:
        ctx.cov["drift_events"] += 1
        ctx.cov["conformance"] = "rejected: %s" % (json.dumps(rej[0])[:800] if rej else (conf.error or conf.violated or "no verdict"))
        print("DRIFT: property=C17 the real ApplyTransaction left the design layer of TxApply.tla: %s" % ctx.cov["conformance"], flush=True)
    return trace, res


def selftest(ctx, trace):
    """Binding self-test: a corrupted recorded balance must be noticed by the conformance spec AND by the monitor."""
    ev = vlib.read_ndjson(trace)
    bad = None
    for i, e in enumerate(ev):
        if e.get("ev") == "Apply" and e.get("err") == "" and e["tx"]["s"] == 1:
            e["post"]["bal"][0] += 1
            bad = i + 1
            break
    if bad is None:
        return
    p = ctx.path("trace_corrupt.ndjson")
    vlib.write_ndjson(p, ev[:bad + 3])
    conf = ctx.tlc("TxApply_Trace", trace_cfg(), name="Conf_selftest", files={"trace.ndjson": p}, workers=1,
                   timeout=600, count=False, xss="256m")
    rej = [v for v in conf.printed if isinstance(v, dict) and v.get("kind") == "REJECTED"]
    mon = ctx.tlc("TxApply_Mon", "TxApply_Mon.cfg", name="Mon_selftest", files={"trace.ndjson": p, "known.json": "[]"}, workers=1,
                  timeout=600, count=False, check_deadlock=False)
    mres = [v for v in mon.printed if isinstance(v, dict) and v.get("kind") == "RESULT"]
    mon_ok = bool(mres) and any(it[0] == "ChargedExactly" and it[2] == bad for it in mres[0]["viol"])
    ok = bool(rej) and rej[0]["line"] == bad and mon_ok
    ctx.cov["binding_selftest"] = "corrupted line %d: conformance rejected at line %s, monitor flagged ChargedExactly: %s" % (
        bad, rej[0]["line"] if rej else None, mon_ok)
    if not ok:
        raise vlib.Undecided("trace-checker self-test failed: corrupted field not noticed")


def run(ctx):
    ctx.cov["rule"] = ("behaviours = stored witnesses + design counterexamples + every transaction class combination (sender x nonce x "
                       "limit x value x recipient/payload x price) under both call patterns + every sequence of three transactions of the "
                       "reduced alphabet against a pool fitting two + signature cases (class x mutation) + sender-cache cases (class x mutation x "
                       "every sequence of up to 2 (thorough 3) home/foreign signers on one object) + V sweep (class x network id x every V in 0..2*net+40) + simulated longer sequences; the class combinations are run under "
                       "protocol version 5 and under versions 1..4 (quick: the staking classes with the next nonce and a slice of the others); "
                       "non-trivial = a sequence of >= 2 transactions, a signature case, or a single transaction that is not the plain "
                       "valid transfer class; distinct by JSON")
    ctx.assumptions += ["ECDSA/secp256k1 itself is trusted",
                        "the value a staking transaction stakes is the value in its payload (msg.Value is ignored by the staking converter)",
                        "amounts of the class stage: balances <= 5*10^6 LU, gas price 1..3, block gas pool 243000..486000; big-number stage: plain "
                        "transfers with price in {3, 2^32, 10^15, 2^53, 2^63, 2^64-1, 2^64, 2^70}, limit in {21000, 2^20, 8*10^6 = pool}, value in "
                        "{0, 2^64, 2^128, 2^255}, sender balance limit*price(+value) -1 / exact / +12345 (decimal strings, exact arithmetic)",
                        "protocol versions YouV1..YouV5, each on its own fixture chain with the same scaled parameter table (master signatures off), "
                        "EVM rules of the fixture chain (Istanbul)",
                        "errors other than the three up-front reasons (intrinsic gas after purchase, value not affordable) are judged "
                        "through the miner's snapshot/revert wrapper only (DESIGN section 9, 'Refused up front')"]
    detect_deviations(ctx)
    behs, design_cex = generate(ctx)
    behs = dedup(behs)
    for b in behs[:2] + behs[-2:]:
        ctx.sample(b)
    trace, res = judge(ctx, behs)
    fired = res.get("fired") or {}
    never = sorted(k for k, n in fired.items() if n == 0)
    if never:
        raise vlib.Undecided("monitor clauses never fired (generator bug): %s" % never)
    if not ctx.quick:
        selftest(ctx, trace)
    unexpected = [c for c in design_cex if c not in ("ChargedExactly", "PoolAccounting")]
    if (ctx.cov.get("design_violation") or unexpected) and not ctx.violations:
        raise vlib.Undecided("design-level counterexample (%s) did not reproduce on the real code: specification drift" %
                             (ctx.cov.get("design_violation") or unexpected))
    if design_cex and not ctx.violations and not ctx.known_hits:
        ctx.note("the design-level counterexample of the refund accounting no longer reproduces on the real code (repaired?)")


def replay(ctx, path):
    detect_deviations(ctx)
    data = json.load(open(path))
    judge(ctx, data["behaviours"])
