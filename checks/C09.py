"""C09 -- reverting to a state snapshot restores exactly the snapshotted state.

M  : spec/Journal.tla, reduced alphabet, exhaustive to depth D: RevertNeverFails, RevertRestores.
G1 : every behaviour of the reduced alphabet up to depth d (bounded exhaustive), printed as JSON.
G2 : `tlc -simulate` over the rich alphabet (two accounts, two validators, delegations, withdraw queue).
T  : the driver `journal` steps every behaviour through the real core/state.StateDB; Journal_Mon (property layer,
     the verdict) and Journal_Trace (conformance to the design layer, drift) judge the recorded trace.
"""
import json
import os
import vlib

M_CFG = """SPECIFICATION Spec
CONSTANTS
  Accts = {1}
  Vals = {1}
  MaxOps = %d
  Rich = "reduced"
  ClearValRevs = TRUE
  GenMode = "none"
INVARIANT RevertNeverFails
INVARIANT AbsentIsZero
INVARIANT StatIsRecount
PROPERTY RevertRestores
VIEW View
CHECK_DEADLOCK FALSE
"""

G_CFG = """INIT Init
NEXT Next
CONSTANTS
  Accts = {%s}
  Vals = {%s}
  MaxOps = %d
  Rich = %s
  ClearValRevs = TRUE
  GenMode = "%s"
CONSTRAINT Leaf
CHECK_DEADLOCK FALSE
"""


def nontrivial(beh):
    """A behaviour is non-trivial when it reverts a snapshot with at least one mutation in between."""
    seen_snap = False
    mut = False
    for op in beh:
        if op["op"] == "Snapshot":
            seen_snap = True
        elif op["op"] == "Revert":
            if seen_snap and mut:
                return True
        elif op["op"] != "Finalise" and seen_snap:
            mut = True
    return False


def generate(ctx):
    quick = ctx.quick
    behs = []
    # stored witnesses of fixed defects / known findings are always replayed first
    wdir = os.path.join(vlib.VERIF, "findings")
    for f in sorted(os.listdir(wdir)) if os.path.isdir(wdir) else []:
        if f.startswith("C09_") and f.endswith(".json"):
            behs += json.load(open(os.path.join(wdir, f)))["behaviours"]
    nw = len(behs)
    # M: exhaustive design-level run
    m = ctx.tlc_must("Journal", M_CFG % (8 if quick else 10), name="M_design", timeout=1500, coverage=not quick)
    for v in m.printed:
        if isinstance(v, dict) and v.get("kind") == "CEX":
            behs.append(v["h"])
            ctx.note("design-level counterexample for %s exported for replay" % v.get("clause"))
    ctx.cov["exhaustive"] = m.ok
    ctx.cov["design_violation"] = m.violated
    if getattr(m, "zero_actions", None):
        ctx.cov["coverage_zero_actions"] = m.zero_actions
    # G1: bounded exhaustive over four small alphabets; every behaviour (of any length up to the bound) that ends in a Revert
    g1s = [("1", "1", 6 if quick else 7, "reduced"),      # accounts + validator + withdraw queue
           ("1, 2", "1", 6 if quick else 7, "deleg"),     # validator record with two delegators
           ("3", "1", 5 if quick else 6, "life"),         # life cycle of an account that does not exist initially
           ("1", "1", 5 if quick else 6, "life"),         # life cycle of a funded account
           ("1", "1", 6 if quick else 7, "store"),        # one storage slot across transaction boundaries
           ("1", "1", 6 if quick else 7, "side"),         # logs, refund counter, preimages
           ("1", "1, 2, 3", 7 + (4 if quick else 5), "deleg3")]  # one delegator, three validators, populated prelude (7 ops)
    for accts, vals, d, alpha in g1s:
        g = ctx.tlc_must("Journal", G_CFG % (accts, vals, d, '"%s"' % alpha, "revert"), name="G1_%s_%s" % (alpha, accts.replace(", ", "")),
                         timeout=1500)
        for v in g.printed:
            if isinstance(v, dict) and v.get("kind") == "B":
                behs.append(v["h"])
    n1 = len(behs)
    # G2: simulation over the rich alphabet
    depth = 22 if quick else 30
    num = 100 if quick else 1000
    g2 = ctx.tlc_must("Journal", G_CFG % ("1, 2, 3", "1, 2", depth, '"rich"', "leaf"), name="G2_simulate", timeout=1500,
                      simulate={"num": num}, depth=depth + 1)
    # in simulation mode TLC evaluates the constraint on every candidate successor, so the last step fans out:
    # keep a seeded sample
    import random
    sim = [v["h"] for v in g2.printed if isinstance(v, dict) and v.get("kind") == "B"]
    random.Random(ctx.seed).shuffle(sim)
    behs += sim[:(600 if quick else 8000)]
    ctx.note("behaviours: %d witnesses/cex, %d bounded-exhaustive, %d simulated" % (nw, n1 - nw, len(behs) - n1))
    return behs, m


CHUNK = 30000   # behaviours per driver/monitor run: keeps each trace (~250k events) within what TLC's JSON reader handles


def judge(ctx, behs, selftest=False):
    """Drive the behaviours through the real StateDB and judge the recorded traces, in chunks run 4 at a time."""
    import concurrent.futures
    ctx.cov["traces_validated_against_impl"] += len(behs)
    ctx.cov["evaluations"] += len(behs)
    ctx.cov["distinct_nontrivial"] += len({json.dumps(b, sort_keys=True) for b in behs if nontrivial(b)})
    ctx.build_harness("journal")
    chunks = [behs[k:k + CHUNK] for k in range(0, len(behs), CHUNK)] or [[]]

    def one(k):
        part = chunks[k]
        tag = "" if len(chunks) == 1 else "_%d" % k
        bpath = ctx.path("behaviours%s.ndjson" % tag)
        vlib.write_ndjson(bpath, part)
        trace = ctx.path("trace%s.ndjson" % tag)
        info = ctx.drive("journal", trace, behaviours=bpath)
        # T (verdict): property-layer monitor
        vlib.monitor(ctx, "Journal_Mon", "Journal_Mon.cfg", trace, name="Journal_Mon" + tag, behaviours=bpath,
                     replay_meta={"driver": "journal"}, timeout=1500)
        # an abort of the process inside a behaviour is a failure of "reverting a valid snapshot never fails"
        for a in info["aborts"]:
            ctx.report("C09/NoPanic/process_abort", vlib.save_behaviour_replay(ctx, "C09/NoPanic/process_abort", bpath, a["b"], {}), a)
        # T (drift): conformance to the design layer
        conf = ctx.tlc("Journal_Trace", "Journal_Trace.cfg", name="Conf" + tag, files={"trace.ndjson": trace}, workers=1,
                       timeout=1500, count=False, xss="256m")
        acc = [v for v in conf.printed if isinstance(v, dict) and v.get("kind") == "ACCEPTED"]
        rej = [v for v in conf.printed if isinstance(v, dict) and v.get("kind") == "REJECTED"]
        return trace, (acc[0]["events"] if acc else None), (json.dumps(rej[0])[:600] if rej else (conf.error or conf.violated or "no verdict"))

    accepted, first_trace = 0, None
    with concurrent.futures.ThreadPoolExecutor(max_workers=4) as ex:
        for trace, acc, why in ex.map(one, range(len(chunks))):
            first_trace = first_trace or trace
            if acc is None:
                ctx.cov["drift_events"] += 1
                ctx.cov["conformance"] = "rejected: %s" % why
                print("DRIFT: property=C09 the real StateDB left the design layer of Journal.tla: %s" % ctx.cov["conformance"], flush=True)
            else:
                accepted += acc
    if not ctx.cov["drift_events"]:
        ctx.cov["conformance"] = "accepted %d events" % accepted
    return first_trace


def selftest(ctx, trace):
    """Binding self-test: corrupting one recorded field must make the conformance spec reject."""
    ev = []
    with open(trace) as fh:
        for line in fh:
            ev.append(json.loads(line))
            if len(ev) >= 2000:
                break
    for i, e in enumerate(ev):
        if e.get("ev") == "AddBalance" and "m" in e:
            e["m"]["bal"][0] += 1
            bad = i + 1
            break
    else:
        return
    p = ctx.path("trace_corrupt.ndjson")
    vlib.write_ndjson(p, ev[:bad + 5])
    conf = ctx.tlc("Journal_Trace", "Journal_Trace.cfg", name="Conf_selftest", files={"trace.ndjson": p}, workers=1,
                   timeout=600, count=False, xss="256m")
    rej = [v for v in conf.printed if isinstance(v, dict) and v.get("kind") == "REJECTED"]
    ok = bool(rej) and rej[0]["line"] == bad
    ctx.cov["binding_selftest"] = "corrupted line %d rejected at line %s" % (bad, rej[0]["line"] if rej else None)
    if not ok:
        raise vlib.Undecided("trace-checker self-test failed: corrupted field not rejected")


def run(ctx):
    ctx.cov["rule"] = ("behaviours = stored witnesses + design counterexamples + every behaviour of the reduced alphabet to the "
                       "G1 depth + simulated rich behaviours; non-trivial = reverts a snapshot with at least one mutation after it; "
                       "distinct by JSON of the action sequence")
    ctx.assumptions += ["validator mutations follow the staking module's call pattern (PartialCopy + UpdateValidator)",
                        "two accounts, two validators, amounts in 1..3 stake units (scaled stake unit 10 LU)",
                        "roots are compared by replaying the prefix on a fresh StateDB (no use of Copy)"]
    behs, m = generate(ctx)
    for b in behs[:3]:
        ctx.sample(b)
    trace = judge(ctx, behs)
    if not ctx.quick:
        selftest(ctx, trace)
    if m.violated and not ctx.violations and not ctx.known_hits:
        raise vlib.Undecided("design-level counterexample (%s) did not reproduce on the real code: specification drift" % m.violated)


def replay(ctx, path):
    data = json.load(open(path))
    judge(ctx, data["behaviours"])
