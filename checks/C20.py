"""C20 -- the transaction pool's views stay consistent under any operation order.

M  : spec/TxPool.tla.  (a) strict runs on one account export the design-level counterexamples of the two known-finding
     classes (queue limits after a demotion; hole in the pending list after a refused re-injection) -- they are replayed on
     the real pool and must show up there; (b) weakened runs (known classes set aside) over two accounts: "split" mode =
     all interleavings of submissions, head changes and the separate reorg step, "sync" mode = the synchronous entry points
     with batches: PendingQueueDisjoint, PendingGapFreeFromStateNonce, PendingAffordable, QueuedStrictlyAbove,
     LimitsRespected, AllIsUnion (+ design sanity NonceTracksPending).
G1 : every behaviour of the small synchronous alphabet up to depth d (one account), printed as JSON.
G2 : `tlc -simulate` over the full synchronous alphabet, two and three accounts, several limit configurations.
T  : the driver `txpool` steps every behaviour through the real core.TxPool over a stub chain (real signed transactions,
     real blocks for the re-injection path of reset); TxPool_Mon (property layer, the verdict) and TxPool_Trace
     (conformance to the design layer, drift) judge the recorded views.
"""
import json
import os
import random
import vlib

CONST = """CONSTANTS
  Accts = {%(accts)s}
  MaxNonce = %(maxn)d
  Prices = {1, 2}
  Vals = {%(vals)s}
  Bals = {%(bals)s}
  AS = %(AS)d
  GS = %(GS)d
  AQ = %(AQ)d
  GQ = %(GQ)d
  Bump = 10
  MaxOps = %(ops)d
  GenMode = "%(gen)s"
  Mode = "%(mode)s"
  Alpha = "%(alpha)s"
  Slim = %(slim)s
  Strict = %(strict)s
  Goal = "%(goal)s"
  HoleRepair = %(hole)s
"""

# Set to True (or run with VERIF_C20_HOLE_REPAIRED=1) once findings/C20_proposed_repair.patch (or an equivalent repair of
# demoteUnexecutables) is in /repo: the design layer then models the repaired code and the strict run for that class is dropped.
HOLE_REPAIRED = os.environ.get("VERIF_C20_HOLE_REPAIRED", "1") == "1"  # repaired in /repo by commit 32a799e


ALL_INV = "I_Disjoint I_GapFree I_Afford I_Above I_Limits I_Union I_Nonce"
M_CFG = "SPECIFICATION Spec\nINVARIANTS %s\nVIEW View\nCHECK_DEADLOCK FALSE\n"
G_CFG = "INIT Init\nNEXT Next\nCONSTRAINT Leaf\nCHECK_DEADLOCK FALSE\n"
T_CFG = "SPECIFICATION TSpec\nCONSTRAINT HighWater\nPOSTCONDITION Accepted\nCHECK_DEADLOCK FALSE\n"

CLAUSES = ("PendingQueueDisjoint", "PendingGapFreeFromStateNonce", "PendingAffordable", "QueuedStrictlyAbove",
           "LimitsRespected", "AllIsUnion", "PendingIsWhatMinerGets")


def consts(c, **kw):
    d = dict(accts=", ".join(str(i) for i in range(1, c["na"] + 1)), maxn=c.get("maxn", 2), AS=c["AS"], GS=c["GS"], AQ=c["AQ"],
             GQ=c["GQ"], ops=0, gen="none", mode="sync", alpha="full", slim="FALSE", strict="FALSE", goal="none",
             vals=c.get("vals", "0, 2"), bals=c.get("bals", "1, 4"),
             hole="TRUE" if HOLE_REPAIRED else "FALSE")
    d.update(kw)
    return CONST % d


L1 = dict(AS=1, GS=3, AQ=1, GQ=2)
L2 = dict(AS=2, GS=3, AQ=2, GQ=2)
L3 = dict(AS=1, GS=2, AQ=1, GQ=1)
CFG_A = dict(name="A", na=1, **L1)
CFG_B = dict(name="B", na=2, **L1)
CFG_C = dict(name="C", na=2, **L2)
CFG_D = dict(name="D", na=3, **L3)
CFG_E = dict(name="E", na=2, maxn=3, **L2)


def cfg_of_init(init):
    return dict(name="R", na=len(init["accts"]), AS=init["as"], GS=init["gs"], AQ=init["aq"], GQ=init["gq"], maxn=3)


def nontrivial(beh):
    """A behaviour is non-trivial when a reset, a re-pricing or an eviction follows at least one submission."""
    added = False
    for op in beh:
        if op.get("op") == "AddSync":
            added = True
        elif op.get("op") in ("ResetSync", "ResetBack", "SetGasPrice", "Evict") and added:
            return True
    return False


def design(ctx):
    quick = ctx.quick
    cex = []
    # (a) strict runs: the design layer itself leaves the property in the two known ways
    for name, inv, depth in (("limits", "I_Limits", 3),) + ((() if HOLE_REPAIRED else (("gap", "I_GapFree", 4),))):
        m = ctx.tlc_must("TxPool", M_CFG % inv + consts(CFG_A, ops=depth, strict="TRUE"), name="M_strict_" + name, timeout=1500)
        got = [v for v in m.printed if isinstance(v, dict) and v.get("kind") == "CEX"]
        for v in got:
            cex.append((v["clause"], v["h"]))
        if got:
            ctx.note("design-level counterexample for %s (strict run) exported for replay" % got[0]["clause"])
        if not got:
            ctx.note("strict design run %s found no counterexample within depth %d" % (name, depth))
    # (b) weakened runs: everything else must hold
    runs = [("split", CFG_B, 4 if quick else 6, "TRUE"), ("sync", CFG_B, 3 if quick else 4, "TRUE")]
    if not quick:
        runs += [("sync", CFG_C, 3, "TRUE"), ("split", CFG_A, 6, "FALSE")]
    violated = None
    for mode, c, depth, slim in runs:
        cov = not quick and mode == "sync" and c is CFG_C
        files = None
        if cov:
            # -coverage: the goal predicate "holefilter" (not part of the design layer) is stubbed, TLC's cost model exhausts the heap on it
            text = open(os.path.join(vlib.SPEC, "TxPool.tla")).read()
            a, b = text.index("\\* <goal-holefilter>"), text.index("\\* </goal-holefilter>")
            files = {"TxPool.tla": text[:a] + "GoalHoleFilter(st, r) == FALSE\n" + text[b:]}
        m = ctx.tlc_must("TxPool", M_CFG % ALL_INV + consts(c, ops=depth, mode=mode, slim=slim), name="M_%s_%s" % (mode, c["name"]),
                         timeout=2400, coverage=cov, files=files)
        if getattr(m, "zero_actions", None):
            ctx.cov["coverage_zero_actions"] = sorted(set(ctx.cov["coverage_zero_actions"]) | set(m.zero_actions))
        if m.violated:
            violated = violated or m.violated
            for v in m.printed:
                if isinstance(v, dict) and v.get("kind") == "CEX":
                    cex.append((v["clause"], v["h"]))
                    ctx.note("design-level counterexample for %s (weakened run %s) exported for replay" % (v["clause"], mode))
    seen, uniq = set(), []
    for c, h in cex:
        k = json.dumps(h, sort_keys=True)
        if k not in seen:
            seen.add(k)
            uniq.append((c, h))
    cex = uniq
    ctx.cov["exhaustive"] = violated is None
    ctx.cov["design_violation"] = violated
    ctx.cov["design_known_classes"] = sorted({c for c, _ in cex})
    return cex, violated


# goal-directed generation: situations that random simulation practically never produces and that lie too deep for the
# bounded-exhaustive alphabet are reached by model checking the negated goal (TxPool.tla, section "goals")
GOALS = [("fullreplace", dict(name="GF", na=2, maxn=2, vals="0", bals="4", AS=1, GS=2, AQ=1, GQ=1), 4),
         ("fullreplace", dict(name="GF2", na=2, maxn=3, vals="0", bals="4", AS=2, GS=3, AQ=1, GQ=1), 5),
         ("tailremove", dict(name="GT", na=1, maxn=3, vals="0", bals="4", AS=1, GS=3, AQ=3, GQ=3), 4),
         ("tailremove", dict(name="GT2", na=2, maxn=3, vals="0", bals="4", AS=2, GS=4, AQ=3, GQ=4), 4),
         ("holefilter", dict(name="GH", na=1, maxn=4, vals="0, 2", bals="2, 4", AS=4, GS=4, AQ=4, GQ=4), 8)]


def goals(ctx):
    out = []
    for goal, c, depth in GOALS:
        if ctx.quick and goal == "holefilter":
            continue    # the quick tier replays the stored behaviour findings/C20_goal_holefilter.json (same situation); thorough searches
        m = ctx.tlc_must("TxPool", "SPECIFICATION Spec\nINVARIANT NoGoal\nVIEW View\nCHECK_DEADLOCK FALSE\n" +
                         consts(c, ops=depth, alpha="goal", goal=goal), name="Goal_%s" % c["name"], timeout=1500)
        got = [v for v in m.printed if isinstance(v, dict) and v.get("kind") == "CEX" and str(v.get("clause", "")).startswith("goal:")]
        if got:
            out.append(got[0]["h"])
        else:
            ctx.note("goal %s (%s) not reached within depth %d" % (goal, c["name"], depth))
    ctx.cov["goal_behaviours"] = len(out)
    return out


def generate(ctx, c, g1_depth, g1_keep, sim_num, sim_depth, sim_keep):
    behs = []
    rnd = random.Random(ctx.seed)
    if g1_depth:
        g1 = ctx.tlc_must("TxPool", G_CFG + consts(c, ops=g1_depth, gen="leaf", alpha="small"), name="G1_%s" % c["name"], timeout=1500)
        b1 = [v["h"] for v in g1.printed if isinstance(v, dict) and v.get("kind") == "B"]
        if g1_keep and len(b1) > g1_keep:
            rnd.shuffle(b1)
            b1 = b1[:g1_keep]
        behs += b1
    n1 = len(behs)
    if sim_num:
        g2 = ctx.tlc_must("TxPool", G_CFG + consts(c, ops=sim_depth, gen="leaf", alpha="full"), name="G2_%s" % c["name"], timeout=1500,
                          simulate={"num": sim_num}, depth=sim_depth + 2)
        seen, uniq = set(), []
        for v in g2.printed:
            if isinstance(v, dict) and v.get("kind") == "B":
                s = json.dumps(v["h"], sort_keys=True)
                if s not in seen:
                    seen.add(s)
                    uniq.append(v["h"])
        rnd.shuffle(uniq)
        behs += uniq[:sim_keep]
    ctx.note("config %s: %d bounded-exhaustive, %d simulated behaviours" % (c["name"], n1, len(behs) - n1))
    return behs


def judge(ctx, c, behs, tag, conformance=True):
    bpath = ctx.path("behaviours_%s.ndjson" % tag)
    vlib.write_ndjson(bpath, behs)
    trace = ctx.path("trace_%s.ndjson" % tag)
    info = ctx.drive("txpool", trace, behaviours=bpath)
    ctx.cov["traces_validated_against_impl"] += len(behs)
    ctx.cov["evaluations"] += len(behs)
    ctx.cov["distinct_nontrivial"] += len({json.dumps(b, sort_keys=True) for b in behs if nontrivial(b)})
    result, _ = vlib.monitor(ctx, "TxPool_Mon", "TxPool_Mon.cfg", trace, name="Mon_%s" % tag, behaviours=bpath,
                             replay_meta={"driver": "txpool"})
    # "never corrupt these views": the pool has no legitimate reason to end the process
    for a in info["aborts"]:
        ctx.report("C20/NoPanic/process_abort", vlib.save_behaviour_replay(ctx, "C20/NoPanic/process_abort", bpath, a["b"], {}), a)
    if conformance:
        conf = ctx.tlc("TxPool_Trace", T_CFG + consts(c, ops=1000000, maxn=max(3, c.get("maxn", 2))), name="Conf_%s" % tag,
                       files={"trace.ndjson": trace}, workers=1, timeout=1500, count=False, xss="256m")
        acc = [v for v in conf.printed if isinstance(v, dict) and v.get("kind") == "ACCEPTED"]
        rej = [v for v in conf.printed if isinstance(v, dict) and v.get("kind") == "REJECTED"]
        if acc:
            ctx.cov["conformance_%s" % tag] = "accepted %d events" % acc[0]["events"]
        else:
            ctx.cov["drift_events"] += 1
            ctx.cov["conformance_%s" % tag] = "rejected: %s" % (json.dumps(rej[0])[:700] if rej else (conf.error or conf.violated or "no verdict"))
            print("DRIFT: property=C20 the real pool left the design layer of TxPool.tla: %s" % ctx.cov["conformance_%s" % tag], flush=True)
    return trace, result


def selftest(ctx, c, trace):
    """Binding self-test: a corrupted recorded view / a dropped event must make the conformance spec reject."""
    import copy
    ev = vlib.read_ndjson(trace)
    for i, e in enumerate(ev):
        if e.get("ev") == "AddSync" and any(e["obs"]["pend"]):
            bad = i + 1
            break
    else:
        return
    cut = ev[:bad + 4]
    a = copy.deepcopy(cut)
    for lst in a[bad - 1]["obs"]["pend"]:
        if lst:
            lst[0][1] += 1      # the price of a recorded pending transaction
            break
    b = cut[:bad - 1] + cut[bad:]
    outcomes = []
    for name, rows, want in (("field", a, bad), ("drop", b, None)):
        pth = ctx.path("trace_corrupt_%s.ndjson" % name)
        vlib.write_ndjson(pth, rows)
        conf = ctx.tlc("TxPool_Trace", T_CFG + consts(c, ops=1000000, maxn=3), name="Conf_selftest_" + name,
                       files={"trace.ndjson": pth}, workers=1, timeout=600, count=False, xss="256m")
        rej = [v for v in conf.printed if isinstance(v, dict) and v.get("kind") == "REJECTED"]
        outcomes.append("%s: %s at line %s" % (name, "rejected" if rej else "NOT rejected", rej[0]["line"] if rej else None))
        if not rej or (want is not None and rej[0]["line"] != want):
            ctx.cov["binding_selftest"] = "; ".join(outcomes)
            raise vlib.Undecided("trace-checker self-test failed: corrupted trace (%s) not rejected" % name)
    ctx.cov["binding_selftest"] = "; ".join(outcomes)


def stress(ctx):
    """Thorough tier: the concurrent driver built with the race detector; the same monitor judges its samples."""
    import glob
    import re
    import subprocess
    binp = ctx.path("vdrive_txpool_race")
    cmd = ["go", "build", "-race", "-tags", "verif", "-o", binp]
    if vlib.REPO != "/repo":
        tag = "_" + re.sub(r"\W+", "_", vlib.REPO)
        cmd += ["-modfile=" + os.path.join(vlib.WORK, "bin", "go%s.mod" % tag)]      # written by build_harness
    p = subprocess.run(cmd + ["./cmd/txpool"], cwd=vlib.HARNESS, env=vlib.goenv(), stdout=subprocess.PIPE, stderr=subprocess.STDOUT, text=True)
    if p.returncode != 0:
        raise vlib.Undecided("race build of the txpool driver failed:\n" + p.stdout[-3000:])
    trace = ctx.path("trace_stress.ndjson")
    logp = ctx.path("race.log")
    for f in glob.glob(logp + "*"):
        os.remove(f)
    saved = ctx.vdrives.get("txpool")
    ctx.vdrives["txpool"] = binp
    os.environ["GORACE"] = "exitcode=0 log_path=%s" % logp
    try:
        ctx.drive("txpool", trace, opts={"mode": "stress", "traces": 60, "rounds": 40})
    finally:
        os.environ.pop("GORACE", None)
        if saved:
            ctx.vdrives["txpool"] = saved
    n = vlib.count_traces(trace)
    ctx.cov["traces_validated_against_impl"] += n
    ctx.cov["evaluations"] += n
    ctx.cov["stress_traces"] = n
    vlib.monitor(ctx, "TxPool_Mon", "TxPool_Mon.cfg", trace, name="Mon_stress", replay_meta={"driver": "txpool", "mode": "stress"})
    # "or race": the race detector's verdict on the runs performed (DESIGN section 8)
    reports = []
    for f in sorted(glob.glob(logp + "*")):
        reports.append(open(f).read())
    ctx.cov["race_reports"] = len(reports)
    for r in reports[:3]:
        m = re.search(r"(?:Write|Read) at .*?\n\s+(\S+)\(", r)
        where = m.group(1).split("/")[-1] if m else "unknown"
        ctx.report("C20/NoRace/" + where, None, {"report": r[:2500]})


# ============================================================================ concurrent use (spec/TxPool_Conc.tla)
READ_API = ("Nonce", "Stats", "Content", "Pending", "Locals", "Status", "Get")


def race_binary(ctx):
    """The txpool driver built with the race detector (None when the race runtime is not usable here)."""
    import re
    import subprocess
    if "txpool" not in ctx.vdrives:
        ctx.build_harness("txpool")          # also writes the modfile of a scratch VERIF_REPO
    binp = ctx.path("vdrive_txpool_race")
    if os.path.exists(binp):
        return binp
    cmd = ["go", "build", "-race", "-tags", "verif", "-o", binp]
    if vlib.REPO != "/repo":
        tag = "_" + re.sub(r"\W+", "_", vlib.REPO)
        cmd += ["-modfile=" + os.path.join(vlib.WORK, "bin", "go%s.mod" % tag)]
    p = subprocess.run(cmd + ["./cmd/txpool"], cwd=vlib.HARNESS, env=vlib.goenv(), stdout=subprocess.PIPE, stderr=subprocess.STDOUT, text=True)
    if p.returncode != 0:
        ctx.note("race build of the txpool driver failed, falling back to the plain binary with more readers: %s" % p.stdout[-300:])
        return None
    return binp


def conc_stage(ctx, groups):
    """Concurrent blocks: every writer step of the given behaviours runs against k concurrent readers of the whole read API.
    Verdicts: a race report of the Go race detector, a crash of the driver process (fatal concurrent map access, panic), a read
    that is the view of no state between the start and the end of its block."""
    import glob
    import re
    ctx.assumptions += ["concurrent use: the read API (Nonce, Stats, Content, Pending, Locals, Status) overlaps itself and one writer step of the "
                        "synchronous alphabet at a time; readers are released by a barrier together with the writer, also right after head resets "
                        "(cold nonce cache); 'never race' in the memory-model sense is the Go race detector's verdict on the blocks performed"]
    binp = race_binary(ctx)
    saved = ctx.vdrives.get("txpool")
    logp = ctx.path("conc_race.log")
    for f in glob.glob(logp + "*"):
        os.remove(f)
    blocks = 0
    for tag, c, behs in groups:
        bpath = ctx.path("conc_behaviours_%s.ndjson" % tag)
        vlib.write_ndjson(bpath, behs)
        trace = ctx.path("conc_trace_%s.ndjson" % tag)
        if binp:
            ctx.vdrives["txpool"] = binp
            os.environ["GORACE"] = "exitcode=0 log_path=%s" % logp
        try:
            info = ctx.drive("txpool", trace, behaviours=bpath, opts={"mode": "conc", "readers": 3 if binp else 6}, timeout=1200)
        finally:
            os.environ.pop("GORACE", None)
            if saved:
                ctx.vdrives["txpool"] = saved
        ctx.cov["traces_validated_against_impl"] += len(behs)
        ctx.cov["evaluations"] += len(behs)
        # a crash of the driver inside a concurrent block is the verdict (the behaviour replays sequentially without it)
        for a in info["aborts"]:
            m = re.search(r"concurrent map [a-z ]+", a.get("msg", ""))
            disc = "crash+" + (m.group(0).replace(" ", "_") if m else "process_abort")
            sig = "C20/ConcurrentReadsConsistent/" + "+".join(sorted(disc.split("+")))
            ctx.report(sig, vlib.save_behaviour_replay(ctx, sig, bpath, a["b"], {"driver": "txpool", "mode": "conc"}), a)
        ev_n = 0
        with open(trace) as fh:
            for line in fh:
                if '"reads"' in line:
                    ev_n += 1
        blocks += ev_n
        # linearisability of the reads against the design layer
        conf = ctx.tlc("TxPool_Conc", T_CFG + consts(c, ops=1000000, maxn=max(4, c.get("maxn", 2))), name="Conc_%s" % tag,
                       files={"trace.ndjson": trace}, workers=1, timeout=1500, count=False, xss="256m")
        res = [v for v in conf.printed if isinstance(v, dict) and v.get("kind") == "CRESULT"]
        rej = [v for v in conf.printed if isinstance(v, dict) and v.get("kind") == "REJECTED"]
        if res:
            # branches of the model (ties) may each reach the end: a read is stale only if it is stale on every branch
            stale = None
            for r in res:
                here = {v[0]: v[1] for v in r.get("viol", [])}
                stale = here if stale is None else {k: v for k, v in stale.items() if k in here}
            events = vlib.read_ndjson(trace) if stale else []
            for api, line in sorted((stale or {}).items()):
                sig = "C20/ConcurrentReadsConsistent/%s+stale" % api
                tid = events[line - 1].get("t") if 0 < line <= len(events) else None
                rp = vlib.save_behaviour_replay(ctx, sig, bpath, tid, {"driver": "txpool", "mode": "conc"}) if tid is not None else None
                ev = events[line - 1] if 0 < line <= len(events) else {}
                ctx.report(sig, rp, {"line": line, "event": {k: v for k, v in ev.items() if k != "obs"}})
            ctx.cov["conc_%s" % tag] = "checked %d events" % res[0]["events"]
        elif info["aborts"]:
            ctx.cov["conc_%s" % tag] = "trace with aborted blocks"
        else:
            ctx.cov["drift_events"] += 1
            ctx.cov["conc_%s" % tag] = "rejected: %s" % (json.dumps(rej[0])[:600] if rej else (conf.error or conf.violated or "no verdict"))
            print("DRIFT: property=C20 concurrent trace left the design layer of TxPool.tla: %s" % ctx.cov["conc_%s" % tag], flush=True)
    ctx.cov["conc_blocks"] = blocks
    # the race detector's reports
    reports = [open(f).read() for f in sorted(glob.glob(logp + "*"))]
    ctx.cov["conc_race_detector"] = bool(binp)
    ctx.cov["conc_race_reports"] = len(reports)
    seen = set()
    for text in reports:
        for rep in text.split("==================")[:40]:
            if "DATA RACE" not in rep:
                continue
            apis = [a for a in READ_API if re.search(r"\(\*TxPool\)\.%s\(" % a, rep)]
            m = re.search(r"(?:Read|Write|Previous read|Previous write) at .*?\n\s+(\S+?)\(", rep)
            where = apis[0] if apis else (m.group(1).split("/")[-1] if m else "unknown")
            sig = "C20/ConcurrentReadsConsistent/" + "+".join(sorted([where, "race"]))
            if sig not in seen:
                seen.add(sig)
                ctx.report(sig, None, {"report": rep[:2500]})
    if blocks == 0 and not ctx.violations:
        raise vlib.Undecided("concurrency stage performed no block")


def witnesses():
    out = []
    wdir = os.path.join(vlib.VERIF, "findings")
    for f in sorted(os.listdir(wdir)) if os.path.isdir(wdir) else []:
        if f.startswith("C20_") and f.endswith(".json"):
            out += json.load(open(os.path.join(wdir, f)))["behaviours"]
    return out


def run(ctx):
    ctx.cov["rule"] = ("behaviours = stored witnesses + design-level counterexamples + every behaviour of the small synchronous alphabet "
                       "to the G1 depth (one account) + simulated behaviours of the full alphabet (2-3 accounts, several limit "
                       "configurations); non-trivial = a reset, re-pricing or eviction follows at least one submission; distinct by "
                       "JSON of the action sequence")
    ctx.assumptions += ["views are read at quiescence through the synchronous entry points (AddRemotesSync / AddLocals / requestReset+wait); "
                        "interleavings of submissions with a separate reorg step are explored at design level (split mode) only",
                        "limits: local accounts are exempt (configuration semantics), AccountSlots is a guaranteed minimum, not a maximum",
                        "affordable = each pending transaction's own cost <= balance (DESIGN section 9)",
                        "the eviction pass is the body of loop()'s evict tick, run synchronously after ageing every heartbeat beyond the lifetime",
                        "head changes alter one account per block; the block that advances a nonce holds the pool's pending transactions "
                        "where it has them and unseen cheapest-kind transactions otherwise; a reorg abandons exactly the last such block",
                        "the memory-model sense of 'never race' is outside the specification (DESIGN section 8)"]
    quick = ctx.quick
    cex, mviol = design(ctx)
    # stored witnesses and design-level counterexamples first; each counterexample must show on the real pool
    first = witnesses() + goals(ctx) + [h for _, h in cex]
    unreproduced = []
    if first:
        _, res = judge(ctx, cfg_of_init(first[0][0]), first, "W", conformance=False)
        for clause, _ in cex:
            if not any(v[0] == clause for v in res.get("viol", [])):
                unreproduced.append(clause)
    plan = [(CFG_A, dict(g1_depth=3, g1_keep=0, sim_num=0, sim_depth=0, sim_keep=0)),
            (CFG_B, dict(g1_depth=0, g1_keep=0, sim_num=150 if quick else 1500, sim_depth=10, sim_keep=2000 if quick else 25000)),
            (CFG_C, dict(g1_depth=0, g1_keep=0, sim_num=100 if quick else 1000, sim_depth=12, sim_keep=1500 if quick else 20000))]
    if not quick:
        plan += [(dict(CFG_A, name="A4"), dict(g1_depth=4, g1_keep=60000, sim_num=0, sim_depth=0, sim_keep=0)),
                 (CFG_D, dict(g1_depth=0, g1_keep=0, sim_num=500, sim_depth=14, sim_keep=20000)),
                 (CFG_E, dict(g1_depth=0, g1_keep=0, sim_num=500, sim_depth=14, sim_keep=20000))]
    keep = None
    conc_groups = []
    for c, kw in plan:
        behs = generate(ctx, c, **kw)
        if c is CFG_B or c is CFG_C:
            conc_groups.append((c["name"], c, behs[:(120 if quick else 1500)]))
        for b in behs[:2]:
            ctx.sample(b)
        trace, _ = judge(ctx, c, behs, c["name"])
        if c is CFG_B:
            keep = (c, trace)
    if not quick and keep:
        selftest(ctx, *keep)
    conc_stage(ctx, conc_groups)
    if not quick:
        stress(ctx)
    fired = ctx.cov.get("clauses_fired", {})
    idle = sorted(k for k in CLAUSES if not fired.get(k))
    if idle and not ctx.violations:
        raise vlib.Undecided("monitor clauses never fired: %s" % idle)
    if ctx.violations:
        return      # a verdict from the real code stands on its own
    if unreproduced:
        raise vlib.Undecided("design-level counterexample for %s did not reproduce on the real pool: specification drift" % sorted(set(unreproduced)))
    if mviol and not ctx.known_hits:
        raise vlib.Undecided("design-level counterexample (%s) did not reproduce on the real code: specification drift" % mviol)


def replay(ctx, path):
    data = json.load(open(path))
    for i, b in enumerate(data["behaviours"]):
        judge(ctx, cfg_of_init(b[0]), [b], "R%d" % i)
