"""C15 -- every EVM computational opcode computes its specified 256-bit function.

M  : spec/EvmWord_Laws.tla -- the opcode definitions of spec/EvmWord.tla at word widths 4, 6 (and, thorough, 8) bits, checked
     by TLC on every operand pair (every triple at 4 bits) against bit-level characterisations and algebraic laws.
     spec/EvmPool.tla -- the interpreter's operand stack over a recycled integer pool, as coded (pointer flow of every
     opcode class, pool get/put, S256 copies), 2-bit words, all instruction sequences to a bound: NoAlias, Refines.
G1 : every instruction sequence of EvmPool up to the bound (sampled in the quick tier), with boundary words.
G2 : programs generated here (seeded): single operations over the boundary grid (all pairs; all triples for the
     ternary opcodes), seeded random operands, random straight-line programs of 5-30 instructions that reuse results
     (DUP/SWAP) and use memory and storage.
T  : the driver `evmword` executes every program with the real interpreter (runtime.Execute + tracer) and records every
     step; spec/EvmWord_Mon.tla (W = 256, BigWord) judges every step: result, rest of the stack, gas, read-back.
"""
import json
import os
import random
import subprocess

import vlib

LAW_CFG = """SPECIFICATION LawSpec
CONSTANTS
  W = %d
  B = %d
  ZSet = {%s}
INVARIANTS WellFormed LawArith LawSigned LawCompare LawBitwise LawShift LawByteSignext LawExp LawTernary LawGas
CHECK_DEADLOCK FALSE
"""

POOL_CFG = """SPECIFICATION Spec
CONSTANTS
  W = 2
  B = 1
  MaxSteps = %d
  MaxStack = 3
  PoolLimit = %d
  Bug = "%s"
  GenMode = "%s"
INVARIANTS NoAlias Refines
%s
CONSTRAINT Leaf
CHECK_DEADLOCK FALSE
"""

MON_CFG = """INIT MonInit
NEXT MonStep
CONSTANTS
  W = 256
  B = 8
CONSTRAINT Done
CHECK_DEADLOCK FALSE
"""

UNARY = ["ISZERO", "NOT"]
TERNARY = ["ADDMOD", "MULMOD"]
ARITH = ["ADD", "MUL", "SUB", "DIV", "SDIV", "MOD", "SMOD", "EXP", "LT", "GT", "SLT", "SGT", "EQ", "AND", "OR", "XOR"]
COUNTED = ["SIGNEXTEND", "BYTE", "SHL", "SHR", "SAR"]        # first operand is a count / index
BINARY = ARITH + COUNTED
COMP = UNARY + BINARY + TERNARY

T255 = 1 << 255
T256 = 1 << 256
GRID = [0, 1, 2, 1 << 128, T255 - 1, T255, T256 - 2, T256 - 1]
COUNTS = [0, 1, 7, 8, 15, 30, 31, 32, 33, 248, 255, 256, 257, 1 << 64]
EXTRA = [3, 255, 256, (1 << 64) - 1, T255 + 1]


def push(v):
    return ["PUSH", str(v)]


def single(op, args, kind):
    """args[0] ends on top of the stack."""
    code = [push(a) for a in reversed(args)] + [[op]]
    return {"kind": kind, "code": code}


def rand_word(rng):
    r = rng.random()
    if r < 0.30:
        return rng.choice(GRID + EXTRA)
    if r < 0.45:
        return rng.randrange(0, 300)
    if r < 0.65:
        return rng.getrandbits(256)
    if r < 0.85:
        return rng.getrandbits(rng.randrange(1, 257))
    if r < 0.93:
        return T256 - 1 - rng.getrandbits(rng.randrange(1, 130))     # small negative numbers
    return (1 << rng.randrange(0, 256)) - rng.randrange(0, 2)          # powers of two and all-ones prefixes


def rand_count(rng):
    r = rng.random()
    if r < 0.5:
        return rng.choice(COUNTS)
    if r < 0.9:
        return rng.randrange(0, 300)
    return rand_word(rng)


def grid_programs(quick, rng):
    progs = []
    vals = GRID + EXTRA
    for op in UNARY:
        for a in vals + COUNTS:
            progs.append(single(op, [a], "grid"))
    for op in ARITH:
        for a in vals:
            for b in vals:
                progs.append(single(op, [a, b], "grid"))
    for op in COUNTED:
        for a in sorted(set(COUNTS + GRID)):
            for b in vals:
                progs.append(single(op, [a, b], "grid"))
    # EXP with count-sized exponents (gas per exponent byte) and bases
    for a in vals:
        for e in COUNTS:
            progs.append(single("EXP", [a, e], "grid"))
    tern = GRID + ([] if quick else [3, (1 << 128) + 1])
    for op in TERNARY:
        for a in GRID:
            for b in GRID:
                for n in tern:
                    progs.append(single(op, [a, b, n], "grid3"))
    return progs


def random_singles(rng, n_per_op):
    progs = []
    for op in COMP:
        for _ in range(n_per_op):
            if op in UNARY:
                args = [rand_word(rng)]
            elif op in TERNARY:
                args = [rand_word(rng), rand_word(rng), rand_word(rng)]
            elif op in COUNTED:
                args = [rand_count(rng), rand_word(rng)]
            elif op == "EXP":
                args = [rand_word(rng), rand_count(rng) if rng.random() < 0.5 else rand_word(rng)]
            else:
                args = [rand_word(rng), rand_word(rng)]
            progs.append(single(op, args, "rand"))
    return progs


MEM_OFFS = [0, 1, 31, 32, 33, 64, 95]
STO_KEYS = [0, 1, T256 - 1]
MAX_DEPTH = 9


def random_program(rng):
    """5-30 operations; results are reused through DUP/SWAP and stay on the stack as operands of later operations."""
    n_ops = rng.randrange(5, 31)
    code = []
    d = 0
    for _ in range(rng.randrange(2, 5)):
        code.append(push(rand_word(rng)) if rng.random() < 0.8 else ["PUSH32", str(rand_word(rng))])
        d += 1
    ops = 0
    while ops < n_ops:
        r = rng.random()
        if r < 0.55:
            op = rng.choice(COMP)
            ar = 1 if op in UNARY else 3 if op in TERNARY else 2
            if op in COUNTED and rng.random() < 0.6 and d >= 1:
                code.append(push(rand_count(rng)))        # a meaningful count on top: [.., value, count]
                d += 1
            while d < ar:
                code.append(push(rand_word(rng)))
                d += 1
            code.append([op])
            d -= ar - 1
            ops += 1
        elif r < 0.72:
            if d >= 1 and d < MAX_DEPTH:
                code.append(["DUP", str(rng.randrange(1, d + 1))])
                d += 1
                ops += 1
        elif r < 0.82:
            if d >= 2:
                code.append(["SWAP", str(rng.randrange(1, d))])
                ops += 1
        elif r < 0.86:
            if d < MAX_DEPTH:
                code.append(push(rand_word(rng)))
                d += 1
        elif r < 0.88:
            if d < MAX_DEPTH:
                d = env_step(rng, code, d)
        elif r < 0.90:
            if d >= 2:
                code.append(["POP"])
                d -= 1
                ops += 1
        else:
            m = rng.random()
            if m < 0.25 and d >= 1 and d < MAX_DEPTH:            # [.., v] -> MSTORE(off, v)
                off = rng.choice(MEM_OFFS)
                code += [push(off), ["MSTORE"]]
                d -= 1
                if rng.random() < 0.5:                            # read back, possibly unaligned
                    code += [push(max(0, off + rng.randrange(-31, 32))), ["MLOAD"]]
                    d += 1
            elif m < 0.35 and d >= 1 and d < MAX_DEPTH:
                off = rng.choice(MEM_OFFS + [2, 40])
                code += [push(off), ["MSTORE8"]]
                d -= 1
                if rng.random() < 0.7:                            # read back a word that contains the byte
                    code += [push(max(0, off - rng.randrange(0, 32))), ["MLOAD"]]
                    d += 1
            elif m < 0.55 and d < MAX_DEPTH:
                code += [push(rng.choice(MEM_OFFS)), ["MLOAD"]]
                d += 1
            elif m < 0.75 and d >= 1 and d < MAX_DEPTH:          # [.., v] -> SSTORE(key, v)
                if d >= 2 and rng.random() < 0.3:
                    code.append(["SSTORE"])                       # computed key and value
                    d -= 2
                else:
                    code += [push(rng.choice(STO_KEYS)), ["SSTORE"]]
                    d -= 1
            elif d < MAX_DEPTH:
                code += [push(rng.choice(STO_KEYS)), ["SLOAD"]]
                d += 1
            ops += 1
        if d == 0:
            code.append(push(rand_word(rng)))
            d += 1
    return {"kind": "prog", "code": code}


# the four 2-bit words of EvmPool.tla stand for these 256-bit words
ABSTRACT = {"0": 0, "1": 1, "2": T255, "3": T256 - 1}


def pool_programs(ctx, rng):
    """M: the stack-over-integer-pool design model (all instruction sequences, 2-bit words): NoAlias, Refines.
    G1: every instruction sequence of the model up to the bound, replayed with boundary words."""
    quick = ctx.quick
    m = ctx.tlc_must("EvmPool", POOL_CFG % (6 if quick else 8, 1 if quick else 2, "none", "none", "VIEW View"), name="M_pool",
                     timeout=1800, coverage=not quick)
    if m.violated:
        raise vlib.Undecided("EvmPool design model violates %s (%s)" % (m.violated, m.dir))
    if getattr(m, "zero_actions", None):
        ctx.cov["coverage_zero_actions"] = m.zero_actions
    if not quick:
        # the invariants can fail: three seeded aliasing mistakes must be found
        found = {}
        for bug in ("mul_put_x", "dup_shares", "sdiv_res_is_x"):
            r = ctx.tlc("EvmPool", POOL_CFG % (6, 1, bug, "none", "VIEW View"), name="M_pool_" + bug, timeout=600, count=False)
            found[bug] = r.violated
        ctx.cov["pool_model_selftest"] = found
        if not all(found.values()):
            raise vlib.Undecided("EvmPool self-test: a seeded aliasing mistake was not found: %s" % found)
    g = ctx.tlc_must("EvmPool", POOL_CFG % (4 if quick else 5, 1, "none", "leaf", ""), name="G1_pool", timeout=1800)
    seqs = [v["h"] for v in g.printed if isinstance(v, dict) and v.get("kind") == "B"]
    ctx.cov["g1_pool_sequences"] = len(seqs)
    rng.shuffle(seqs)
    progs = []
    for h in seqs[:(1200 if quick else 40000)]:
        code = []
        for ins in h:
            if ins[0] == "END":
                if code:
                    progs.append({"kind": "pool", "code": code})
                code = []
            elif ins[0] == "PUSH":
                code.append(push(ABSTRACT[ins[1]]))
            elif ins[0] in ("DUP", "SWAP"):
                code.append([ins[0], str(ins[1])])
            else:
                code.append([ins[0]])
        if code:
            progs.append({"kind": "pool", "code": code})
    return progs


STO0 = [[str(1), "7"], [str(T256 - 1), "5"]]       # committed before the transaction: slot 1 = 7, slot 2^256-1 = 5; slot 0 is empty
GAPS = [0, 64, 200, 512, 1000, 2048, 3000, 4095, 5000, 8191]


def mem_program(rng):
    """Memory growth in several separate steps (contiguous words, gaps, offsets of a few KB where the quadratic term
    counts), re-touching allocated words in between: the expansion gas is charged as new total minus previous total."""
    n = rng.randrange(4, 12)
    style = rng.random()
    code, touched, d = [], [], 0
    top = 0                                  # first byte above everything touched so far
    for i in range(n):
        r = rng.random()
        if i < 3 or r < 0.35:                # a growth step
            if style < 0.35:
                off = top + rng.choice([0, 0, 0, 32])                    # contiguous: 0, 32, 64, ...
            elif style < 0.7:
                off = top + rng.choice([0, 1, 31, 33, 64, 100, 500, 1000])
            else:
                off = max(top, rng.choice(GAPS)) + rng.randrange(0, 40) + (rng.choice([1024, 2048, 4000]) if rng.random() < 0.3 else 0)
        elif r < 0.75 and touched:           # inside what is allocated already
            off = max(0, rng.choice(touched) + rng.randrange(-31, 32))
        else:
            off = rng.randrange(0, max(top, 1))
        off = min(off, 20000)
        m = rng.random()
        if m < 0.5:
            code += [push(rand_word(rng)), push(off), ["MSTORE"]]
            top = max(top, off + 32)
        elif m < 0.7:
            code += [push(rand_word(rng)), push(off), ["MSTORE8"]]
            top = max(top, off + 1)
        else:
            code += [push(off), ["MLOAD"]]
            top = max(top, off + 32)
            d += 1
            if d > 4 or rng.random() < 0.6:
                code.append(["POP"])
                d -= 1
        touched.append(off)
        top = (top + 31) // 32 * 32 if rng.random() < 0.5 else top
    return {"kind": "mem", "code": code}


ENV0 = ["ADDRESS", "ORIGIN", "CALLER", "CALLVALUE", "GASPRICE", "SELFBALANCE", "NETWORKID", "CODESIZE", "CALLDATASIZE", "COINBASE",
        "TIMESTAMP", "NUMBER", "DIFFICULTY", "GASLIMIT"]
ENV1 = ["BALANCE", "EXTCODESIZE", "EXTCODEHASH"]
# the accounts of the driver's set-up (harness/drive/evmword: contract, origin, funded, other contract, missing, coinbase)
KNOWN_ACCTS = [int.from_bytes(n, "big") for n in (b"contract", b"origin-account", b"funded-account", b"other-contract",
                                                   b"no-such-account", b"coinbase-account")]


def env_step(rng, code, d):
    """One state-reading opcode; returns the new stack depth."""
    if rng.random() < 0.7:
        code.append([rng.choice(ENV0 + ["SELFBALANCE"] * 4)])
    else:
        code += [push(rng.choice(KNOWN_ACCTS)), [rng.choice(ENV1)]]
    return d + 1


def env_program(rng):
    """State-reading opcodes (SELFBALANCE, BALANCE, ADDRESS, CALLER, ...) followed by arithmetic on the pushed values, DUP /
    SWAP / POP of them and further pushes: the values are the environment's, and the world is not changed by reading it."""
    code, d = [], 0
    for _ in range(rng.randrange(2, 8)):
        d = env_step(rng, code, d)
        r = rng.random()
        if r < 0.35:                                   # in-place arithmetic with the value below a constant
            code += [push(rng.choice([1, 3, 255, T256 - 1])), [rng.choice(["ADD", "MUL", "SUB", "XOR", "OR", "SHL", "LT"])]]
        elif r < 0.5:                                  # the value on top of a constant
            code += [push(rng.choice([2, 7, T255])), ["SWAP", "1"], [rng.choice(["ADD", "MUL", "DIV", "AND", "SDIV", "EXP"])]]
        elif r < 0.6:
            code += [["DUP", "1"], [rng.choice(["ADD", "MUL", "EQ"])]]
            code[-2:-2] = []
        elif r < 0.7 and d >= 2:
            code += [["SWAP", str(rng.randrange(1, d))], [rng.choice(["NOT", "ISZERO"])]]
        elif r < 0.85:
            code.append(["POP"])
            d -= 1
        for _ in range(rng.randrange(0, 3)):           # later stack activity recycles pooled integers
            if d < MAX_DEPTH:
                code.append(push(rand_word(rng)))
                d += 1
            if d >= 2 and rng.random() < 0.6:
                code.append([rng.choice(["ADD", "MUL", "AND", "POP"])])
                d -= 1
        while d > MAX_DEPTH - 2:
            code.append(["POP"])
            d -= 1
    return {"kind": "env", "code": code}


def depth_programs(quick):
    """The stack-depth dimension: every opcode of the table (and PUSH / DUP / SWAP / POP, the memory, storage and
    state-reading opcodes) on a stack pre-filled with distinct items to depth d in {pops-1, pops, pops+1, 1022, 1023,
    1024}: below `pops` it must halt (underflow), above 1024 - pushes + pops it must halt (overflow), in between the result
    and the cost are those of the shallow stack and the filler is untouched.  Variant A lets the opcode consume the filler
    items themselves (a wrong operand pick shows), variant B pushes boundary operands on top of the filler."""
    table = [(op, None, 1) for op in UNARY] + [(op, None, 2) for op in BINARY] + [(op, None, 3) for op in TERNARY]
    table += [("PUSH", "7", 0), ("POP", None, 1), ("DUP", "1", 1), ("DUP", "16", 16), ("SWAP", "1", 2), ("SWAP", "16", 17),
              ("MSTORE", None, 2), ("MSTORE8", None, 2), ("MLOAD", None, 1), ("SSTORE", None, 2), ("SLOAD", None, 1),
              ("SELFBALANCE", None, 0), ("ADDRESS", None, 0), ("CALLVALUE", None, 0), ("BALANCE", None, 1), ("EXTCODESIZE", None, 1)]
    progs = []
    for op, arg, pops in table:
        ins = [op] if arg is None else [op, arg]
        depths = sorted({pops - 1, pops, pops + 1, 1022, 1023, 1024} - {-1})
        for d in depths:
            progs.append({"kind": "depth", "fill": d, "code": [ins]})                      # variant A
        if op in COMP:                                                                      # variant B
            args = {1: [T256 - 1], 2: [T255, 3], 3: [T256 - 1, T256 - 2, 5]}[pops]
            for d in ((pops + 1, 1023, 1024) if quick else (pops + 1, 1022, 1023, 1024)):
                progs.append({"kind": "depth", "fill": d - pops, "code": [push(a) for a in reversed(args)] + [ins]})
    # a result computed on a full stack is used again, and the stack is popped down
    progs.append({"kind": "depth", "fill": 1024, "code": [["ADD"], ["DUP", "1"], ["MUL"], ["POP"], ["POP"], ["SWAP", "16"], ["SUB"]]})
    progs.append({"kind": "depth", "fill": 1023, "code": [push(T256 - 1), ["ADDMOD"], push(9), push(8), ["EXP"], ["DUP", "3"]]})
    return progs


def sto_program(rng):
    """SSTORE / SLOAD sequences over slots with and without a committed value: every branch of net gas metering
    (no-op, fresh set, reset of an original value, dirty slot, clearing and restoring)."""
    sto0 = [kv for kv in STO0 if rng.random() < 0.7]
    orig = {int(k): int(v) for k, v in sto0}
    code = []
    for _ in range(rng.randrange(3, 10)):
        k = rng.choice(STO_KEYS)
        if rng.random() < 0.3:
            code += [push(k), ["SLOAD"], ["POP"]]
        else:
            v = rng.choice([0, 0, orig.get(k, 0), 9, 9, rand_word(rng)])
            code += [push(v), push(k), ["SSTORE"]]
    return {"kind": "sto", "code": code, "sto0": sto0}


def generate(ctx):
    rng = random.Random(ctx.seed * 7919 + (0 if ctx.quick else 1))
    progs = []
    wdir = os.path.join(vlib.VERIF, "findings")
    for f in sorted(os.listdir(wdir)) if os.path.isdir(wdir) else []:
        if f.startswith("C15_") and f.endswith(".json"):
            progs += json.load(open(os.path.join(wdir, f)))["behaviours"]
    nw = len(progs)
    progs += grid_programs(ctx.quick, rng)
    ng = len(progs) - nw
    progs += random_singles(rng, 20 if ctx.quick else 400)
    ns = len(progs) - nw - ng
    nprog = 300 if ctx.quick else 5000
    progs += [random_program(rng) for _ in range(nprog)]
    for q in progs[-nprog:]:
        if rng.random() < 0.6:
            q["sto0"] = STO0
    nmem, nsto, nenv = (300, 250, 300) if ctx.quick else (1200, 2000, 3000)
    progs += [mem_program(rng) for _ in range(nmem)] + [sto_program(rng) for _ in range(nsto)]
    progs += [env_program(rng) for _ in range(nenv)]
    dp = depth_programs(ctx.quick)
    progs += dp
    pp = pool_programs(ctx, rng)
    progs += pp
    for i, p in enumerate(progs):
        p["id"] = i
    ctx.note("programs: %d witnesses, %d grid singles, %d random singles, %d random programs, %d memory-growth, %d storage, "
             "%d environment, %d stack-depth, %d from the pool model" % (nw, ng, ns, nprog, nmem, nsto, nenv, len(dp), len(pp)))
    return progs


def model_check(ctx):
    """M: the definitions at small widths against the laws (all operand tuples)."""
    all16 = ", ".join(str(i) for i in range(16))
    runs = [ctx.tlc_must("EvmWord_Laws", LAW_CFG % (4, 1, all16), name="M_laws_w4", timeout=900),          # all triples
            ctx.tlc_must("EvmWord_Laws", LAW_CFG % (6, 2, "0"), name="M_laws_w6", timeout=900)]           # all pairs, 3 bytes
    if not ctx.quick:
        runs.append(ctx.tlc_must("EvmWord_Laws", LAW_CFG % (8, 2, "0, 1, 2, 3, 127, 128, 129, 254, 255"), name="M_laws_w8",
                                 timeout=3000))
    bad = [m for m in runs if m.violated]
    ctx.cov["exhaustive"] = not bad
    if bad:
        # the specification contradicts itself: nothing observed from the code can be judged with it
        raise vlib.Undecided("EvmWord definitions violate %s at small width (%s)" % (bad[0].violated, bad[0].dir))


def judge(ctx, progs, name="run", chunk=2500):
    """Drive the programs through the real interpreter and let the monitor judge every step."""
    bpath = ctx.path("behaviours_%s.ndjson" % name)
    vlib.write_ndjson(bpath, progs)
    trace = ctx.path("trace_%s.ndjson" % name)
    info = ctx.drive("evmword", trace, behaviours=bpath)
    ctx.cov["traces_validated_against_impl"] += len(progs)
    for a in info["aborts"]:
        ctx.report("C15/Executes/process_abort", vlib.save_behaviour_replay(ctx, "C15/Executes/process_abort", bpath, a["b"], {}), a)
    # the monitor reads the whole file into memory: judge it in chunks of programs
    lines = open(trace).read().splitlines()
    start = 0
    steps = 0
    part = 0
    while start < len(lines):
        end = start
        nres = 0
        while end < len(lines) and nres <= chunk:
            if '"ev":"reset"' in lines[end]:
                if nres == chunk:
                    break
                nres += 1
            end += 1
        tp = ctx.path("trace_%s_%d.ndjson" % (name, part))
        with open(tp, "w") as fh:
            fh.write("\n".join(lines[start:end]) + "\n")
        res, _ = vlib.monitor(ctx, "EvmWord_Mon", MON_CFG, tp, name="Mon_%s_%d" % (name, part), behaviours=bpath,
                              replay_meta={"driver": "evmword"}, timeout=1800)
        steps += sum(1 for ln in lines[start:end] if '"ev":"Step"' in ln)
        start = end
        part += 1
    ctx.cov["evaluations"] += steps
    return trace


def selftest(ctx, trace):
    """Binding self-test: a corrupted recorded result must be noticed by the monitor."""
    ev = vlib.read_ndjson(trace)
    out = []
    bad = None
    for i, e in enumerate(ev):
        out.append(e)
        if bad is None and e.get("ev") == "Step" and e.get("op") == "ADD" and i + 1 < len(ev):
            nxt = ev[i + 1]
            nxt["b"][-1] = str((int(nxt["b"][-1]) + 1) % T256)
            bad = i + 1
        if bad is not None and e.get("ev") == "End":
            break
    if bad is None:
        return
    p = ctx.path("trace_corrupt.ndjson")
    vlib.write_ndjson(p, out)
    sub = vlib.Ctx.__new__(vlib.Ctx)
    sub.__dict__.update(ctx.__dict__)
    sub.violations, sub.known_hits, sub.cov = [], {}, {"clauses_fired": {}}
    vlib.monitor(sub, "EvmWord_Mon", MON_CFG, p, name="Mon_selftest")
    hit = [v for v in sub.violations if v["signature"] == "C15/Result/ADD" and v["detail"]["line"] == bad]
    ctx.cov["binding_selftest"] = "corrupted result at line %d %s" % (bad, "reported by the monitor" if hit else "NOT reported")
    if not hit:
        raise vlib.Undecided("monitor self-test failed: corrupted result not reported")


def pool_variant(ctx, progs):
    """Thorough: the same programs on a driver built with the repository's own VERIFY_EVM_INTEGER_POOL tag
    (pooled integers are poisoned and the pool is verified after every instruction)."""
    tag = "" if vlib.REPO == "/repo" else "_" + "".join(c if c.isalnum() else "_" for c in vlib.REPO)
    binp = ctx.path("vdrive_evmword_pool")
    cmd = ["go", "build", "-tags", "verif VERIFY_EVM_INTEGER_POOL", "-o", binp]
    mf = os.path.join(vlib.WORK, "bin", "go%s.mod" % tag)
    if tag and os.path.exists(mf):
        cmd += ["-modfile=" + mf]
    p = subprocess.run(cmd + ["./cmd/evmword"], cwd=vlib.HARNESS, env=vlib.goenv(), stdout=subprocess.PIPE,
                       stderr=subprocess.STDOUT, text=True)
    if p.returncode != 0:
        raise vlib.Undecided("pool-verifier build failed:\n" + p.stdout[-2000:])
    normal = ctx.vdrives["evmword"]
    ctx.vdrives["evmword"] = binp
    try:
        judge(ctx, progs, name="poolverify")
    finally:
        ctx.vdrives["evmword"] = normal
    ctx.cov["pool_verifier_variant"] = "%d programs re-run with -tags VERIFY_EVM_INTEGER_POOL" % len(progs)


def run(ctx):
    ctx.cov["rule"] = ("evaluations = interpreter steps judged by the monitor; distinct_nontrivial = distinct (opcode, operand "
                       "tuple) pairs of computational opcodes among the generated single operations plus the number of random "
                       "multi-instruction programs")
    ctx.assumptions += ["jump table = the Istanbul table selected by params.Versions[YouCurrentVersion].EVMVersion",
                        "programs are straight-line (no jumps; a pre-filled stack comes from a loop prefix the trace omits), memory offsets <= 20 KB, "
                        "gas limit 10^7; stack validity is the Yellow Paper's rule (delta <= d and d - delta + alpha <= 1024)",
                        "gas is judged for the computational opcodes, for MLOAD/MSTORE/MSTORE8 (3 + memory expansion, the allocated "
                        "words tracked per program) and for SLOAD/SSTORE (Istanbul: 800 / EIP-2200 net metering against the storage "
                        "committed before the transaction); refunds are not judged",
                        "state-reading opcodes (ADDRESS, ORIGIN, CALLER, CALLVALUE, GASPRICE, SELFBALANCE, NETWORKID, CODESIZE, CALLDATASIZE, "
                        "COINBASE, TIMESTAMP, NUMBER, DIFFICULTY, GASLIMIT, BALANCE, EXTCODESIZE, EXTCODEHASH) are judged for their value "
                        "(the driver's set-up), the rest of the stack and the balances before / after the program; their gas is not judged",
                        "functional results, stack effect and gas only: no statement about big.Int memory safety or speed"]
    model_check(ctx)
    progs = generate(ctx)
    for p in (progs[0], progs[len(progs) // 2], progs[-1]):
        ctx.sample(p)
    distinct = {json.dumps(p["code"]) for p in progs if p["kind"] != "prog"}
    ctx.cov["distinct_nontrivial"] = len(distinct) + sum(1 for p in progs if p["kind"] in ("prog", "pool", "mem", "sto", "env", "depth"))
    trace = judge(ctx, progs)
    if not ctx.quick:
        selftest(ctx, trace)
        pool_variant(ctx, [p for p in progs if p["kind"] in ("prog", "pool")][:4000])
    fired = ctx.cov.get("clauses_fired", {})
    never = sorted(c for c in ("Result", "RestUnchanged", "Cost", "StackOp", "MemReadBack", "StorageReadBack", "Executes",
                               "FinalMemory", "FinalStorage", "EnvOpsReadOnly", "StackValidity") if not fired.get(c))
    if never:
        raise vlib.Undecided("vacuous clauses (never evaluated): %s" % never)


def replay(ctx, path):
    data = json.load(open(path))
    judge(ctx, data["behaviours"], name="replay")
