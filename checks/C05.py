"""C05 -- only real equivocation is slashable, and it is slashed exactly once.

M  : spec/Slash.tla -- every (source, hash) pair combination as one evidence for two validator shapes and every declared kind,
     the index/round/signer variations, and lists of evidences over two blocks (reduced alphabet), through the design layer
     (processEvidences / processDoubleSignV5 / doPenalize / takePenalty transcribed); the clauses of the statement as invariants
     (the known finding -- vote kind not bound, no distinct-hash check -- searched past with Known = TRUE, and exported as a
     design-level counterexample with Known = FALSE).
G1 : the same alphabets printed as evidence-case behaviours (quick: a core set + seeded samples; thorough: all of them).
T  : driver `slash` builds real BLS signatures with the fixture keys and feeds the cases through the real staking module on two
     independent real chains: builder path EndBlock(isSeal=true), validator replay of the unfiltered list (Process /
     replaySlashing), full import (InsertChain); Slash_Mon (the verdict) and Slash_Trace (conformance incl. the penalty
     arithmetic, drift) judge the recorded trace.
"""
import concurrent.futures
import json
import os
import random
import vlib

CFG = """%s
CONSTANTS
  Frac = %d
  Blocks = %d
  MaxEv1 = %d
  MaxEv2 = %d
  Alphabet = "%s"
  Known = %s
  GenMode = "%s"
%s
CHECK_DEADLOCK FALSE
"""
INV = """INVARIANT HonestNeverSlashable
INVARIANT OnlyOwnSignatures
INVARIANT RealEquivocationAccepted
INVARIANT SlashedOnce
INVARIANT PenaltyBounded
INVARIANT PenaltySource
INVARIANT BuilderEqualsValidator
VIEW View"""
TRACE_CFG = """SPECIFICATION TSpec
CONSTANTS
  Frac = %d
  Blocks = 2
  MaxEv1 = 0
  MaxEv2 = 0
  Alphabet = "lists"
  Known = TRUE
  GenMode = "none"
CONSTRAINT HighWater
POSTCONDITION Accepted
CHECK_DEADLOCK FALSE
"""


def m_cfg(frac, blocks, n1, n2, alphabet, known="TRUE"):
    return CFG % ("SPECIFICATION Spec", frac, blocks, n1, n2, alphabet, known, "none", INV)


def g_cfg(frac, blocks, n1, n2, alphabet):
    return CFG % ("INIT Init\nNEXT Next", frac, blocks, n1, n2, alphabet, "TRUE", "leaf", "CONSTRAINT Leaf")


def behaviours_of(res):
    # sorted: TLC's workers print in a nondeterministic order, the seeded sampling must not depend on it
    return sorted((v["h"] for v in res.printed if isinstance(v, dict) and v.get("kind") == "B"),
                  key=lambda b: json.dumps(b, sort_keys=True))


def nontrivial(b):
    """Non-trivial: at least one evidence with two or more pairs presented for the round the block can judge."""
    return any(len(c["pairs"]) >= 2 and c["roff"] == k for k, blk in enumerate(b["blocks"]) for c in blk) or \
        any(len(c["pairs"]) >= 2 and c["roff"] == 1 for c in (b["blocks"][0] if len(b["blocks"]) > 1 else []))


def generate(ctx):
    quick = ctx.quick
    rnd = random.Random(ctx.seed)
    behs = []
    wdir = os.path.join(vlib.VERIF, "findings")
    for f in sorted(os.listdir(wdir)) if os.path.isdir(wdir) else []:
        if f.startswith("C05_") and f.endswith(".json"):
            behs += json.load(open(os.path.join(wdir, f)))["behaviours"]
    nw = len(behs)
    # M: exhaustive design-level runs
    # (no `-coverage`: TLC's coverage bookkeeping runs out of memory on the recursive fold operators of Slash.tla; the module has
    # one action, Block, and non-vacuity is shown by the M_known_cex run and by the per-clause counters of the monitor)
    ms = [ctx.tlc_must("Slash", m_cfg(2, 1, 1, 0, "pairs"), name="M_pairs_f2", timeout=900),
          ctx.tlc_must("Slash", m_cfg(50, 1, 1, 0, "pairs"), name="M_pairs_f50", timeout=900),
          ctx.tlc_must("Slash", m_cfg(50, 2, 2, 1, "lists"), name="M_lists_f50", timeout=900),
          ctx.tlc_must("Slash", m_cfg(2, 2, 2 if quick else 3, 1, "lists"), name="M_lists_f2", timeout=1500)]
    mk = ctx.tlc_must("Slash", m_cfg(2, 1, 1, 0, "pairs", known="FALSE"), name="M_known_cex", timeout=900, count=False)
    design_cex = []
    for m in ms + [mk]:
        for v in m.printed:
            if isinstance(v, dict) and v.get("kind") == "CEX":
                design_cex.append(v["clause"])
                behs.append({"frac": v["frac"], "blocks": v["h"]})
    ctx.cov["exhaustive"] = all(m.ok for m in ms)
    ctx.cov["design_violation"] = next((m.violated for m in ms if m.violated), None)
    ctx.cov["design_cex_known"] = mk.violated
    ncex = len(behs) - nw
    # G1
    core = behaviours_of(ctx.tlc_must("Slash", g_cfg(2, 1, 2, 0, "lists"), name="G1_core", timeout=600))
    # validator-set changes: a genuine equivocation of each of the seven identities (incl. the new and the removed validators),
    # every kind, index from the prescribed look-back set and from the other one -- always run in full
    core += behaviours_of(ctx.tlc_must("Slash", g_cfg(2, 1, 1, 0, "sets"), name="G1_set_changes", timeout=600))
    # ... and with the 50 % fraction, where the delegators' shares are non-zero (delegator of two validators with unfinished
    # withdraw records against both): every single evidence of the list alphabet and every set-change case
    core += behaviours_of(ctx.tlc_must("Slash", g_cfg(50, 1, 1, 0, "lists"), name="G1_core_f50", timeout=600))
    core += behaviours_of(ctx.tlc_must("Slash", g_cfg(50, 1, 1, 0, "sets"), name="G1_set_changes_f50", timeout=600))
    pairs2 = behaviours_of(ctx.tlc_must("Slash", g_cfg(2, 1, 1, 0, "pairs"), name="G1_pairs_f2", timeout=600))
    pairs50 = behaviours_of(ctx.tlc_must("Slash", g_cfg(50, 1, 1, 0, "pairs"), name="G1_pairs_f50", timeout=600))
    lists50 = behaviours_of(ctx.tlc_must("Slash", g_cfg(50, 2, 2, 1, "lists"), name="G1_lists_f50", timeout=600))
    lists2 = behaviours_of(ctx.tlc_must("Slash", g_cfg(2, 2, 2, 1, "lists"), name="G1_lists_f2", timeout=600))
    if quick:
        # the core set is always run in full: every ordered list of up to two evidences of the list alphabet in one block
        # (duplicates, decoy-then-genuine and genuine-then-decoy for the same and for different validators)
        behs += core
        behs += rnd.sample(pairs2, 70) + rnd.sample(pairs50, 30) + rnd.sample(lists50, 20) + rnd.sample(lists2, 12)
    else:
        # every pair combination once (fraction alternating by a seeded coin), every list behaviour for both fractions
        p2 = {json.dumps(b["blocks"], sort_keys=True): b for b in pairs2}
        p50 = {json.dumps(b["blocks"], sort_keys=True): b for b in pairs50}
        behs += core
        for key in sorted(p2):
            behs.append(p2[key] if rnd.random() < 0.5 or key not in p50 else p50[key])
        behs += rnd.sample(lists50, min(len(lists50), 2000)) + rnd.sample(lists2, min(len(lists2), 2000))
        # lists of three evidences in the first block: a seeded sample
        lists3 = behaviours_of(ctx.tlc_must("Slash", g_cfg(2, 2, 3, 1, "lists"), name="G1_lists3_f2", timeout=900))
        behs += rnd.sample(lists3, min(len(lists3), 1200))
    ctx.note("behaviours: %d witnesses, %d design counterexamples, %d generated (of %d enumerated)" % (
        nw, ncex, len(behs) - nw - ncex, len(core) + len(pairs2) + len(pairs50) + len(lists50) + len(lists2)))
    return behs, design_cex


def dedup(behs):
    seen, out = set(), []
    for b in behs:
        s = json.dumps(b, sort_keys=True)
        if s not in seen:
            seen.add(s)
            out.append(b)
    return out


def drive_sharded(ctx, bpath, trace, shards):
    """BLS verification dominates the cost (about 13 ms each): run the driver in `shards` processes and merge the traces."""
    ctx.build_harness("slash")
    outs = [ctx.path("trace_shard%d.ndjson" % i) for i in range(shards)]
    extra = {}
    if os.environ.get("VERIF_C05_KINDBOUND") == "1":
        # experiment switch, used only to try out the proposed repair in a scratch worktree: the driver signs votes over
        # hash || round || index || kind, as a repaired voter would
        extra["kindbound"] = "1"
        ctx.note("EXPERIMENT: votes signed with the kind bound into the payload (VERIF_C05_KINDBOUND=1)")
    with concurrent.futures.ThreadPoolExecutor(max_workers=shards) as ex:
        futs = [ex.submit(ctx.drive, "slash", outs[i], bpath, dict(extra, shard="%d/%d" % (i, shards)), 2400) for i in range(shards)]
        infos = [f.result() for f in futs]
    by_t = {}
    for i, o in enumerate(outs):
        for e in vlib.read_ndjson(o):
            t = e.get("b") if e.get("ev") == "reset" else e.get("t")
            if t is None or t % shards != i:
                continue
            by_t.setdefault(t, []).append(e)
    rows = []
    for t in sorted(by_t):
        rows += by_t[t]
    vlib.write_ndjson(trace, rows)
    return {"aborts": [a for inf in infos for a in inf["aborts"]]}


def judge(ctx, behs, shards=None):
    bpath = ctx.path("behaviours.ndjson")
    vlib.write_ndjson(bpath, behs)
    trace = ctx.path("trace.ndjson")
    info = drive_sharded(ctx, bpath, trace, shards or (4 if len(behs) > 40 else 1))
    ctx.cov["traces_validated_against_impl"] += len(behs)
    ctx.cov["evaluations"] += sum(len(blk) for b in behs for blk in b["blocks"])
    ctx.cov["distinct_nontrivial"] += len({json.dumps(b, sort_keys=True) for b in behs if nontrivial(b)})
    res, _ = vlib.monitor(ctx, "Slash_Mon", "Slash_Mon.cfg", trace, behaviours=bpath, replay_meta={"driver": "slash"}, timeout=1500)
    if info["aborts"]:
        # logging.Crit inside EndBlock/InsertChain: the behaviour cannot be judged
        ctx.note("aborted behaviours: %s" % info["aborts"][:3])
    drift = []
    for frac in (2, 50):
        conf = ctx.tlc("Slash_Trace", TRACE_CFG % frac, name="Conf_f%d" % frac, files={"trace.ndjson": trace}, workers=1,
                       timeout=1500, count=False, xss="256m")
        acc = [v for v in conf.printed if isinstance(v, dict) and v.get("kind") == "ACCEPTED"]
        rej = [v for v in conf.printed if isinstance(v, dict) and v.get("kind") == "REJECTED"]
        if not acc:
            drift.append("Frac=%d rejected: %s" % (frac, json.dumps({k: v for k, v in rej[0].items() if k != "event"} if rej else
                                                                     (conf.error or conf.violated or "no verdict"))[:300]))
            if rej:
                ev = rej[0].get("event", {})
                drift[-1] += " behaviour t=%s block k=%s" % (ev.get("t"), ev.get("k"))
    if drift:
        ctx.cov["drift_events"] += len(drift)
        ctx.cov["conformance"] = "; ".join(drift)
        print("DRIFT: property=C05 the real staking module left the design layer of Slash.tla: %s" % ctx.cov["conformance"], flush=True)
    else:
        ctx.cov["conformance"] = "accepted (both fractions)"
    return trace, res


def selftest(ctx, trace):
    """Binding self-test: a corrupted recorded token must be noticed by the conformance spec and by the monitor."""
    ev = vlib.read_ndjson(trace)
    bad = None
    for i, e in enumerate(ev):
        if e.get("ev") == "Block" and e.get("frac") == 2 and e.get("sealLogs"):
            v = e["sealLogs"][0]["val"] - 1
            e["seal"]["vals"][v]["token"] -= 700      # far beyond the fraction
            bad = i + 1
            break
    if bad is None:
        return
    p = ctx.path("trace_corrupt.ndjson")
    vlib.write_ndjson(p, ev[:bad + 2])
    conf = ctx.tlc("Slash_Trace", TRACE_CFG % 2, name="Conf_selftest", files={"trace.ndjson": p}, workers=1, timeout=600,
                   count=False, xss="256m")
    rej = [v for v in conf.printed if isinstance(v, dict) and v.get("kind") == "REJECTED"]
    mon = ctx.tlc("Slash_Mon", "Slash_Mon.cfg", name="Mon_selftest", files={"trace.ndjson": p, "known.json": "[]"}, workers=1,
                  timeout=600, count=False, check_deadlock=False)
    mres = [v for v in mon.printed if isinstance(v, dict) and v.get("kind") == "RESULT"]
    mon_ok = bool(mres) and any(it[0] in ("PenaltyBounded", "BuilderEqualsValidator") and it[2] == bad for it in mres[0]["viol"])
    ok = bool(rej) and rej[0]["line"] == bad and mon_ok
    ctx.cov["binding_selftest"] = "corrupted line %d: conformance rejected at line %s, monitor flagged it: %s" % (
        bad, rej[0]["line"] if rej else None, mon_ok)
    if not ok:
        raise vlib.Undecided("trace-checker self-test failed: corrupted field not noticed")


def run(ctx):
    ctx.cov["rule"] = ("behaviours = stored witnesses + design counterexamples + evidence cases enumerated by TLC: every unordered pair of "
                       "(vote source, hash) incl. forged / other-key / other-index / other-round / garbage signatures x declared kind x two "
                       "validator shapes, signer-index / round / signer variations of six shapes, lists of up to two evidences and "
                       "two-block behaviours of a nine-case alphabet (quick: core set + seeded sample; thorough: all); non-trivial = at "
                       "least one evidence with >= 2 pairs presented for the round its block can judge; distinct by JSON")
    ctx.assumptions += ["BLS signature scheme itself is trusted",
                        "honest voter (DESIGN section 9): per (round, index) at most one prevote, one precommit, one certificate vote, each for a "
                        "block hash, and up to two next-index votes possibly for different hashes incl. the empty hash",
                        "penalty amount > 0, i.e. token >= 100/fraction LU (always true with real magnitudes; with a zero penalty the builder "
                        "expels without confirming the evidence)",
                        "scaled protocol-version-5 parameters: stake unit 10 LU, penalty fraction 2 % and 50 %, StakeLookBack 4, "
                        "MaxEvidenceExpiredIn 3; seven identities: between the certificate look-back block (genesis: ACoCHTFrequency is the "
                        "constant 32768) and the stake look-back block of the evidence round the stake order changes, a validator is created "
                        "and one is removed; one more is removed after both look-back blocks; signer indexes come from the look-back set the "
                        "protocol prescribes for the vote kind, vote-type numbers from consensus/ucon",
                        "the module's evidence intake (event mux subscriber) is replaced by a synchronous append (staking/verif_slash.go)"]
    behs, design_cex = generate(ctx)
    behs = dedup(behs)
    for b in behs[:2] + behs[-2:]:
        ctx.sample(b)
    trace, res = judge(ctx, behs, shards=4 if ctx.quick else 6)
    fired = res.get("fired") or {}
    never = sorted(k for k, n in fired.items() if n == 0)
    if never:
        raise vlib.Undecided("monitor clauses never fired (generator bug): %s" % never)
    if not ctx.quick:
        selftest(ctx, trace)
    unexpected = [c for c in design_cex if c != "HonestNeverSlashable"]
    if (ctx.cov.get("design_violation") or unexpected) and not ctx.violations:
        raise vlib.Undecided("design-level counterexample (%s) did not reproduce on the real code: specification drift" %
                             (ctx.cov.get("design_violation") or unexpected))
    if design_cex and not ctx.violations and not ctx.known_hits:
        ctx.note("the design-level counterexample of the known finding no longer reproduces on the real code (repaired?)")


def replay(ctx, path):
    data = json.load(open(path))
    judge(ctx, data["behaviours"], shards=1)
